// Adjustable nodes. line: adjustable nodekind op gridkind W H D C n1 n2 n3 n4 (x y z t v)*
// nodekind 0 data, 1 time, 2 space, 3 space-time; op 0 update, 1 adjust
// output: status(1 Ok, 0 Err) n1' n2' n3' n4'   (coordinates the kind does not own are echoed)
use dcl_data_structures::prelude::*;
use deep_causality::prelude::*;

fn point(kind: i128, a: &[i128]) -> PointIndex {
    let (x, y, z, t) = (a[0] as usize, a[1] as usize, a[2] as usize, a[3] as usize);
    match kind {
        1 => PointIndex::new1d(x),
        2 => PointIndex::new2d(x, y),
        3 => PointIndex::new3d(x, y, z),
        _ => PointIndex::new4d(x, y, z, t),
    }
}

// the SECOND ROUTE to every coordinate: the Spatial / Temporable / SpaceTemporal trait methods (generic code reads the nodes
// through them); a difference between a trait accessor and the inherent getter appends the marker 7700000 + coordinate number
fn sx<S: Spatial<i64>>(s: &S) -> (i64, i64, i64) { (*s.x(), *s.y(), *s.z()) }
fn tu<T: Temporable<i64>>(t: &T) -> i64 { *t.time_unit() }
fn st4<S: SpaceTemporal<i64>>(s: &S) -> i64 { *s.t() }

fn drive<const W: usize, const H: usize, const D: usize, const C: usize>(args: &[i128]) -> Vec<i128> {
    let (nk, op, gk) = (args[0], args[1], args[2]);
    let n = [args[7] as i64, args[8] as i64, args[9] as i64, args[10] as i64];
    let ty = match gk {
        1 => ArrayType::Array1D,
        2 => ArrayType::Array2D,
        3 => ArrayType::Array3D,
        _ => ArrayType::Array4D,
    };
    let g: ArrayGrid<i64, W, H, D, C> = ArrayGrid::new(ty);
    for st in args[11..].chunks(5) {
        g.set(point(gk, &st[0..4]), st[4] as i64);
    }
    match nk {
        0 => {
            let mut d = AdjustableData::new(7, n[0]);
            let ok = if op == 0 { d.update(&g).is_ok() } else { d.adjust(&g).is_ok() };
            vec![ok as i128, *d.data() as i128, n[1] as i128, n[2] as i128, n[3] as i128]
        }
        1 => {
            let mut d = AdjustableTime::new(7, TimeScale::Minute, n[0]);
            let ok = if op == 0 { d.update(&g).is_ok() } else { d.adjust(&g).is_ok() };
            let keep = (*d.time_scale() == TimeScale::Minute) as i128;
            let mut out = vec![ok as i128 * keep, *d.time_unit() as i128, n[1] as i128, n[2] as i128, n[3] as i128];
            if tu(&d) != *d.time_unit() { out.push(7700001); }
            if Temporable::time_scale(&d) != TimeScale::Minute { out.push(7700005); }
            out
        }
        2 => {
            let mut d = AdjustableSpace::new(7, n[0], n[1], n[2]);
            let ok = if op == 0 { d.update(&g).is_ok() } else { d.adjust(&g).is_ok() };
            let mut out = vec![ok as i128, *d.x() as i128, *d.y() as i128, *d.z() as i128, n[3] as i128];
            let (tx, ty, tz) = sx(&d);
            if tx != *d.x() { out.push(7700001); }
            if ty != *d.y() { out.push(7700002); }
            if tz != *d.z() { out.push(7700003); }
            out
        }
        _ => {
            let mut d = AdjustableSpaceTime::new(7, TimeScale::Minute, n[3], n[0], n[1], n[2]);
            let ok = if op == 0 { d.update(&g).is_ok() } else { d.adjust(&g).is_ok() };
            let mut out = vec![ok as i128, *d.x() as i128, *d.y() as i128, *d.z() as i128, *d.time_unit() as i128];
            let (tx, ty, tz) = sx(&d);
            if tx != *d.x() { out.push(7700001); }
            if ty != *d.y() { out.push(7700002); }
            if tz != *d.z() { out.push(7700003); }
            if tu(&d) != *d.time_unit() || st4(&d) != *d.time_unit() { out.push(7700004); }
            if Temporable::time_scale(&d) != TimeScale::Minute { out.push(7700005); }
            out
        }
    }
}

pub fn run(args: &[i128]) -> Vec<i128> {
    match (args[3], args[4], args[5], args[6]) {
        (3, 1, 1, 1) => drive::<3, 1, 1, 1>(args),
        (4, 1, 1, 1) => drive::<4, 1, 1, 1>(args),
        (1, 4, 1, 1) => drive::<1, 4, 1, 1>(args),
        (4, 2, 3, 2) => drive::<4, 2, 3, 2>(args),
        (5, 3, 2, 4) => drive::<5, 3, 2, 4>(args),
        (2, 2, 2, 2) => drive::<2, 2, 2, 2>(args),
        _ => vec![-556],
    }
}
