// Causal reasoning harness (causaloids, causal collections, causaloid graphs, nesting).
// line: causal tree... calls...     — coding as in Causal/Entry.v
// output per call: result(1/0/-1 Err/-999 panic) nlog log... then is_active of every causaloid of the
// model in pre-order, then the aggregates of the top-level container.
use deep_causality::prelude::*;
use std::cell::RefCell;
use std::collections::HashMap;
use ultragraph::prelude::GraphAlgorithms;
use std::panic::{self, AssertUnwindSafe};

thread_local! { static LOG: RefCell<Vec<i128>> = RefCell::new(Vec::new()); }

fn verdict_code(obs: f64) -> i64 { (obs as i64).rem_euclid(10) }
fn f_thr(obs: f64) -> Result<bool, CausalityError> {
    LOG.with(|l| { let mut l = l.borrow_mut(); l.push(0); l.push(obs as i128) });
    match verdict_code(obs) { 2 => Err(CausalityError("marker".into())), 1 => Ok(true), _ => Ok(false) }
}
fn f_neg(obs: f64) -> Result<bool, CausalityError> {
    LOG.with(|l| { let mut l = l.borrow_mut(); l.push(1); l.push(obs as i128) });
    match verdict_code(obs) { 2 => Err(CausalityError("marker".into())), 0 => Ok(true), _ => Ok(false) }
}
fn f_ctx(obs: f64, ctx: &BaseContext) -> Result<bool, CausalityError> {
    LOG.with(|l| { let mut l = l.borrow_mut(); l.push(10 + ctx.id() as i128); l.push(obs as i128) });
    match verdict_code(obs) { 2 => Err(CausalityError("marker".into())), c => Ok(c + 1 == ctx.id() as i64) }
}

type C = BaseCausaloid<'static>;

pub enum Shape {
    Single(&'static C),
    Wrap(&'static C, Vec<Shape>),
}

struct Parser<'a> { a: &'a [i128], p: usize, ctxs: [&'static BaseContext; 2] }

impl<'a> Parser<'a> {
    fn next(&mut self) -> i128 { let v = self.a[self.p]; self.p += 1; v }

    // returns the causaloid (by value, to be moved into its parent container) and the shapes of its children
    fn tree(&mut self) -> (C, Vec<(usize, Shape)>, i128) {
        // third component: kind; second: child shapes with their index inside the container
        let kind = self.next();
        match kind {
            0 => {
                let id = self.next() as u64; let _cell = self.next(); let fk = self.next(); let ctx = self.next();
                let c = if ctx == 0 {
                    Causaloid::new(id, if fk == 0 { f_thr } else { f_neg }, "s")
                } else {
                    Causaloid::new_with_context(id, f_ctx, Some(self.ctxs[(ctx as usize - 1) % 2]), "c")
                };
                (c, vec![], 0)
            }
            1 => {
                let id = self.next() as u64; let n = self.next() as usize;
                let mut items: Vec<C> = Vec::new();
                let mut kids = Vec::new();
                for _ in 0..n { let (c, k, kd) = self.tree(); items.push(c); kids.push((k, kd)); }
                let items: &'static Vec<C> = Box::leak(Box::new(items));
                let shapes = kids.into_iter().enumerate().map(|(i, (k, kd))| (i, mk_shape(&items[i], k, kd))).collect();
                (Causaloid::from_causal_collection(id, items, "coll"), shapes, 1)
            }
            _ => {
                let id = self.next() as u64; let n = self.next() as usize;
                let mut nodes: Vec<(C, Vec<(usize, Shape)>, i128)> = Vec::new();
                for _ in 0..n { nodes.push(self.tree()); }
                let m = self.next() as usize;
                let mut edges = Vec::new();
                for _ in 0..m { edges.push((self.next() as usize, self.next() as usize, self.next() as u64)); }
                let root = self.next();
                let mut g: BaseCausalGraph<'static> = mk_cgraph(id);
                let mut kids = Vec::new();
                for (i, (c, k, kd)) in nodes.into_iter().enumerate() {
                    let ix = if is_root(root, i) { g.add_root_causaloid(c) } else { g.add_causaloid(c) };
                    assert_eq!(ix, i);
                    kids.push((k, kd));
                }
                for (a, b, w) in edges {
                    if w == 0 { let _ = g.add_edge(a, b); } else { let _ = g.add_edg_with_weight(a, b, w); }
                }
                let g: &'static BaseCausalGraph<'static> = Box::leak(Box::new(g));
                let shapes = kids.into_iter().enumerate()
                    .map(|(i, (k, kd))| (i, mk_shape(g.get_causaloid(i).unwrap(), k, kd))).collect();
                (Causaloid::from_causal_graph(id, g, "graph"), shapes, 2)
            }
        }
    }
}

// root field of a graph: -1 none | r | r + 1000 * (1 + r0): node r0 < r is added with add_root_causaloid as well, EARLIER than
// the final root r (re-rooting: the last add_root_causaloid decides where reasoning starts)
fn is_root(root: i128, i: usize) -> bool {
    root >= 0 && (i as i128 == root % 1000 || (root >= 1000 && i as i128 == root / 1000 - 1))
}

// the three constructors of a causaloid graph, chosen by the id of the wrapping causaloid
fn mk_cgraph(id: u64) -> BaseCausalGraph<'static> {
    let mut g: BaseCausalGraph<'static> = match id % 3 { 0 => CausaloidGraph::new_with_capacity(4), 1 => CausaloidGraph::new(), _ => CausaloidGraph::default() };
    if (id / 3) % 2 == 1 {
        // a RECYCLED graph object: filled with 14 other causaloids (the last one registered as root) and some edges, then cleared.
        // clear() must leave nothing behind: the graph built afterwards behaves like one built on a fresh object
        let mut last = 0;
        for k in 0..14u64 {
            let c: C = Causaloid::new(900 + k, f_thr, "junk");
            last = if k == 13 { g.add_root_causaloid(c) } else { g.add_causaloid(c) };
        }
        let _ = g.add_edge(last, 0); let _ = g.add_edge(0, 1); let _ = g.add_edge(1, 12);
        g.clear();
    }
    g
}

// READERS AGAINST AN EVALUATOR. line: causalrd rounds_k nreaders
// one thread evaluates a CONTEXTUAL singleton (Causaloid::new_with_context) and a plain one alternately true / false; nreaders threads
// only read is_active() of both at the same time.  After every evaluation the evaluator (the only writer) reads the flag back: it must
// be the verdict just returned.  output: mismatches of the contextual one, of the plain one.  expected 0 0
pub fn run_readers(args: &[i128]) -> Vec<i128> {
    let rounds = (args[0] as usize).max(1) * 1000; let nr = (args[1] as usize).max(1);
    let ctx: &'static BaseContext = Box::leak(Box::new(Context::with_capacity(1, "c1", 2)));
    let cc: C = Causaloid::new_with_context(1, f_ctx, Some(ctx), "ctx");
    let cp: C = Causaloid::new(2, f_thr, "plain");
    let (cc, cp) = (&cc, &cp);
    let stop = std::sync::atomic::AtomicBool::new(false);
    let stop = &stop;
    let (mc, mp) = std::thread::scope(|sc| {
        for _ in 0..nr { sc.spawn(move || { let mut n = 0u64; while !stop.load(std::sync::atomic::Ordering::Relaxed) { n += cc.is_active() as u64 + cp.is_active() as u64; } n }); }
        let h = sc.spawn(move || {
            let (mut mc, mut mp) = (0i128, 0i128);
            for r in 0..rounds {
                // f_ctx with context id 1: an observation ending in 0 is true; f_thr: ending in 1 is true
                let oc = if r % 2 == 0 { 10.0 } else { 11.0 };
                if let Ok(v) = cc.verify_single_cause(&oc) { if cc.is_active() != v { mc += 1; } } else { mc += 1000000; }
                let op = if r % 2 == 0 { 11.0 } else { 10.0 };
                if let Ok(v) = cp.verify_single_cause(&op) { if cp.is_active() != v { mp += 1; } } else { mp += 1000000; }
            }
            stop.store(true, std::sync::atomic::Ordering::Relaxed);
            (mc, mp)
        });
        h.join().unwrap()
    });
    vec![mc, mp]
}

fn mk_shape(c: &'static C, kids: Vec<(usize, Shape)>, kind: i128) -> Shape {
    match kind {
        0 => Shape::Single(c),
        _ => Shape::Wrap(c, kids.into_iter().map(|(_, s)| s).collect()),
    }
}

// activation is read through the trait method is_active(); the inherent getter active() is a second route to the same answer:
// a difference is reported as 7 instead of 0 / 1
fn act(c: &C) -> i128 { let a = c.is_active(); if c.active() != a { 7 } else { a as i128 } }

fn preorder(s: &Shape, out: &mut Vec<i128>) {
    match s {
        Shape::Single(c) => out.push(act(c)),
        Shape::Wrap(c, kids) => {
            out.push(act(c));
            for k in kids { preorder(k, out); }
        }
    }
}

fn bits(x: f64) -> i128 { if x.is_nan() { 9221120237041090560 } else { x.to_bits() as i128 } }

// VecDeque is a ring buffer: the same logical sequence can be stored contiguously or wrapped around the end of its
// storage (after push_front / rotation).  Even lengths are built WRAPPED (second half pushed back, first half pushed
// to the front), odd lengths contiguously, so both representations are exercised.
fn mk_deque<T>(items: Vec<T>) -> std::collections::VecDeque<T> {
    let n = items.len();
    if n < 2 || n % 2 == 1 {
        return items.into_iter().collect();
    }
    let mut front = items;
    let back = front.split_off(n / 2);
    let mut d = std::collections::VecDeque::with_capacity(n);
    for x in back {
        d.push_back(x);
    }
    for x in front.into_iter().rev() {
        d.push_front(x);
    }
    d
}

enum Cont { Slice(Box<[C]>), V(Vec<C>), D(std::collections::VecDeque<C>), B(std::collections::BTreeMap<usize, C>), H(HashMap<usize, C>) }

macro_rules! with_cont {
    ($c:expr, $x:ident => $body:expr) => {
        match $c {
            Cont::Slice($x) => { let $x: &[C] = &$x[..]; $body }
            Cont::V($x) => $body,
            Cont::D($x) => $body,
            Cont::B($x) => $body,
            Cont::H($x) => $body,
        }
    };
}

fn coll_aggs<T: CausableReasoning<C> + ?Sized>(v: &T, sorted: bool, out: &mut Vec<i128>) {
    out.push(v.get_all_causes_true() as i128); out.push(bits(v.number_active())); out.push(bits(v.percent_active()));
    let mut act: Vec<i128> = v.get_all_active_causes().iter().map(|c| c.id() as i128).collect();
    if sorted { act.sort(); }
    out.push(act.len() as i128); out.extend(act);
    let mut ina: Vec<i128> = v.get_all_inactive_causes().iter().map(|c| c.id() as i128).collect();
    if sorted { ina.sort(); }
    out.push(ina.len() as i128); out.extend(ina);
}

pub fn run(args: &[i128], cont: usize) -> Vec<i128> { run_rm2(args, cont, false, false) }
pub fn run_rm(args: &[i128], cont: usize, rm: bool) -> Vec<i128> { run_rm2(args, cont, rm, false) }

// [rm]: the case is a graph of causaloids followed by a list of node indices that are REMOVED again (remove_causaloid) before
// any reasoning call: `nrem idx*` sits between the root index and the calls. Flags are reported for the live nodes only.
// [readd] (family causalrm2): after `nrem idx* prefill` follow `nadd (singleton)* ne (x y w)*`: causaloids added AFTER the removals
// (they take over freed indices) and further edges; in these edges a node reference >= n means "the (ref - n)-th re-added
// causaloid", whatever index it was given.  The output starts with `nadd idx*`, the indices add_causaloid returned.
pub fn run_rm2(args: &[i128], cont: usize, rm: bool, readd: bool) -> Vec<i128> {
    let ctx1: &'static BaseContext = Box::leak(Box::new(Context::with_capacity(1, "c1", 2)));
    let ctx2: &'static BaseContext = Box::leak(Box::new(Context::with_capacity(2, "c2", 2)));
    let mut p = Parser { a: args, p: 0, ctxs: [ctx1, ctx2] };
    // top level: keep the container itself accessible
    let top_kind = args[0];
    let mut out = Vec::new();
    // parse manually at top level to keep hold of the container
    enum Top { S(&'static C), V(&'static C, Cont, &'static Vec<C>), G(&'static C, &'static BaseCausalGraph<'static>) }
    let (top, shape): (Top, Shape) = match top_kind {
        0 => { let (c, _, _) = p.tree(); let c: &'static C = Box::leak(Box::new(c)); (Top::S(c), Shape::Single(c)) }
        1 => {
            p.next(); let id = p.next() as u64; let n = p.next() as usize;
            let mut items: Vec<C> = Vec::new(); let mut kids = Vec::new();
            for _ in 0..n { let (c, k, kd) = p.tree(); items.push(c); kids.push((k, kd)); }
            let items: &'static Vec<C> = Box::leak(Box::new(items));
            let shapes: Vec<Shape> = kids.into_iter().enumerate().map(|(i, (k, kd))| mk_shape(&items[i], k, kd)).collect();
            let c: &'static C = Box::leak(Box::new(Causaloid::from_causal_collection(id, items, "coll")));
            let clones: Vec<C> = items.iter().cloned().collect();
            let container = match cont {
                0 => Cont::Slice(clones.into_boxed_slice()),
                1 => Cont::V(clones),
                2 => Cont::D(mk_deque(clones)),
                3 => Cont::B(clones.into_iter().enumerate().collect()),
                _ => Cont::H(clones.into_iter().enumerate().collect()),
            };
            (Top::V(c, container, items), Shape::Wrap(c, shapes))
        }
        _ => {
            p.next(); let id = p.next() as u64; let n = p.next() as usize;
            let mut nodes = Vec::new();
            for _ in 0..n { nodes.push(p.tree()); }
            let m = p.next() as usize;
            let mut edges = Vec::new();
            for _ in 0..m { edges.push((p.next() as usize, p.next() as usize, p.next() as u64)); }
            let root = p.next();
            let mut g: BaseCausalGraph<'static> = mk_cgraph(id);
            // [rm] the removal list and a prefill count follow the root index: `nrem idx* prefill`
            let mut removed: Vec<usize> = Vec::new();
            if rm {
                let nrem = p.next() as usize;
                for _ in 0..nrem { removed.push(p.next() as usize); }
                let prefill = p.next() as usize;
                if prefill > 0 {
                    // the SAME graph object first holds a bigger model whose causaloids are all active, and is then cleared
                    for j in 0..(n + prefill) {
                        let tmp = [0i128, 100 + j as i128, 900 + j as i128, 0, 0];
                        let mut q = Parser { a: &tmp, p: 0, ctxs: [ctx1, ctx2] };
                        let (c, _, _) = q.tree();
                        let _ = c.verify_single_cause(&1.0);
                        g.add_causaloid(c);
                    }
                    g.clear();
                }
            }
            let mut re_nodes: Vec<C> = Vec::new();
            let mut re_edges: Vec<(usize, usize, u64)> = Vec::new();
            if readd {
                let nadd = p.next() as usize;
                for _ in 0..nadd { let (c, _, _) = p.tree(); re_nodes.push(c); }
                let ne = p.next() as usize;
                for _ in 0..ne { re_edges.push((p.next() as usize, p.next() as usize, p.next() as u64)); }
            }
            let mut kids = Vec::new();
            for (i, (c, k, kd)) in nodes.into_iter().enumerate() {
                let ix = if is_root(root, i) { g.add_root_causaloid(c) } else { g.add_causaloid(c) };
                assert_eq!(ix, i);
                kids.push((k, kd));
            }
            for (a, b, w) in edges {
                if w == 0 { let _ = g.add_edge(a, b); } else { let _ = g.add_edg_with_weight(a, b, w); }
            }
            for i in removed { let _ = g.remove_causaloid(i); }
            if readd {
                let mut given: Vec<usize> = Vec::new();
                for c in re_nodes {
                    let ix = g.add_causaloid(c);
                    given.push(ix);
                    while kids.len() <= ix { kids.push((vec![], 0)); }
                    kids[ix] = (vec![], 0);
                }
                out.push(given.len() as i128);
                out.extend(given.iter().map(|x| *x as i128));
                let res = |x: usize| if x >= n { given.get(x - n).copied().unwrap_or(usize::MAX) } else { x };
                for (a, b, w) in re_edges {
                    if w == 0 { let _ = g.add_edge(res(a), res(b)); } else { let _ = g.add_edg_with_weight(res(a), res(b), w); }
                }
            }
            let g: &'static BaseCausalGraph<'static> = Box::leak(Box::new(g));
            let shapes: Vec<Shape> = kids.into_iter().enumerate().filter(|(i, _)| g.contains_causaloid(*i))
                .map(|(i, (k, kd))| mk_shape(g.get_causaloid(i).unwrap(), k, kd)).collect();
            let c: &'static C = Box::leak(Box::new(Causaloid::from_causal_graph(id, g, "graph")));
            (Top::G(c, g), Shape::Wrap(c, shapes))
        }
    };
    // calls
    while p.p < args.len() {
        let code = p.next(); let a = p.next() as usize; let b = p.next() as usize; let use_idx = p.next(); let nidx = p.next() as usize;
        let mut idx: HashMap<u64, u64> = HashMap::new();
        for _ in 0..nidx { let k = p.next() as u64; let v = p.next() as u64; idx.insert(k, v); }
        let nd = p.next() as usize;
        let data: Vec<f64> = (0..nd).map(|_| p.next() as f64).collect();
        let idx_opt = if use_idx != 0 { Some(&idx) } else { None };
        LOG.with(|l| l.borrow_mut().clear());
        let mut path_out: Vec<i128> = Vec::new();
        let r = panic::catch_unwind(AssertUnwindSafe(|| -> i128 {
            let conv = |r: Result<bool, String>| match r { Ok(true) => 1, Ok(false) => 0, Err(_) => -1 };
            match (&top, code) {
                (Top::G(_, g), 0) => conv(g.reason_all_causes(&data, idx_opt).map_err(|e| e.to_string())),
                (Top::G(_, g), 1) => conv(g.reason_subgraph_from_cause(a, &data, idx_opt).map_err(|e| e.to_string())),
                (Top::G(_, g), 2) => conv(g.reason_single_cause(a, &data).map_err(|e| e.to_string())),
                (Top::G(_, g), 3) => conv(g.reason_shortest_path_between_causes(a, b, &data, idx_opt).map_err(|e| e.to_string())),
                (Top::G(_, g), 7) => { let g2 = (*g).clone(); conv(g2.reason_all_causes(&data, idx_opt).map_err(|e| e.to_string())) }
                (Top::V(_, v, _), 4) => conv(with_cont!(v, x => x.reason_all_causes(&data)).map_err(|e| e.to_string())),
                (Top::V(_, _, items), 8) => {
                    // evaluate every item on its own datum, in position order, ignoring the verdicts
                    for (i, it) in items.iter().enumerate() {
                        if it.is_singleton() { let _ = it.verify_single_cause(&data[i]); } else { let _ = it.verify_all_causes(&data, None); }
                    }
                    1
                }
                (Top::S(c), 6) => conv(c.verify_single_cause(&data[0]).map_err(|e| e.to_string())),
                (Top::G(c, _), _) | (Top::V(c, _, _), _) | (Top::S(c), _) => conv(c.verify_all_causes(&data, idx_opt).map_err(|e| e.to_string())),
            }
        }));
        if code == 3 {
            if let Top::G(_, g) = &top {
                match g.get_graph().shortest_path(a, b) {
                    None => path_out.push(-1),
                    Some(pp) => { path_out.push(pp.len() as i128); path_out.extend(pp.iter().map(|x| *x as i128)); }
                }
            }
        }
        let seg_start = out.len();
        out.push(0); // segment length, patched below
        out.push(r.unwrap_or(-999));
        LOG.with(|l| { let l = l.borrow(); out.push((l.len() / 2) as i128); out.extend(l.iter()); });
        let mut flags = Vec::new();
        preorder(&shape, &mut flags);
        if let Top::G(_, g) = &top {
            // a causaloid index far beyond the graph (index + 2^8, 2^16, 2^32, 2^48) must not alias a member: reasoning addressed to it must fail and leave
            // every activation alone; any hit is reported as an extra flag 777002
            let one = [11.0f64];
            let mut alias = false;
            for big in [1usize << 8, 1usize << 16, 1usize << 32, 1usize << 48] {
                for i in 0..12usize {
                    if g.contains_causaloid(i + big) || g.get_causaloid(i + big).is_some() || g.reason_single_cause(i + big, &one).is_ok() { alias = true; }
                }
            }
            // indices just beyond the graph (add-only family: every index >= size is absent), also on recycled objects
            let n = g.size();
            if !rm { for i in n..n + 16 { if g.contains_causaloid(i) || g.get_causaloid(i).is_some() { alias = true; } } }
            if alias { flags.push(777002); }
        }
        out.push(flags.len() as i128);
        out.extend(flags);
        match &top {
            Top::G(_, g) => { out.push(g.all_active() as i128); out.push(bits(g.number_active())); out.push(bits(g.percent_active())); }
            Top::V(_, v, _) => { with_cont!(v, x => coll_aggs(x, cont == 4, &mut out)); }
            Top::S(_) => {}
        }
        out[seg_start] = (out.len() - seg_start - 1) as i128;
        out.extend(path_out);
    }
    out
}

// CONCURRENT reasoning over one shared model (all reasoning methods take &self). line: causalconc tree... one call (code a b
// use_idx nidx idx* nd data*), a = rounds / 1000.  Thread A repeats the call with the data as given, thread B with every
// observation's verdict toggled (code 1 <-> 0).  output: verdict of A's first call, of B's first call, number of A's / B's
// later calls whose verdict differs from the thread's first one.  A verdict is a function of model and data only, so the two
// firsts must be the model's verdicts and the two counts 0, whatever the interleaving.
pub fn run_conc(args: &[i128]) -> Vec<i128> {
    let ctx1: &'static BaseContext = Box::leak(Box::new(Context::with_capacity(1, "c1", 2)));
    let ctx2: &'static BaseContext = Box::leak(Box::new(Context::with_capacity(2, "c2", 2)));
    let mut p = Parser { a: args, p: 0, ctxs: [ctx1, ctx2] };
    let (c, _, _) = p.tree();
    let c: &'static C = Box::leak(Box::new(c));
    let _code = p.next(); let rounds = (p.next() as usize).max(1) * 1000; let _b = p.next(); let use_idx = p.next(); let nidx = p.next() as usize;
    let mut idx: HashMap<u64, u64> = HashMap::new();
    for _ in 0..nidx { let k = p.next() as u64; let v = p.next() as u64; idx.insert(k, v); }
    let nd = p.next() as usize;
    let data_a: Vec<f64> = (0..nd).map(|_| p.next() as f64).collect();
    let data_b: Vec<f64> = data_a.iter().map(|o| match verdict_code(*o) { 1 => *o - 1.0, 0 => *o + 1.0, _ => *o }).collect();
    let conv = |r: Result<bool, CausalityError>| -> i128 { match r { Ok(true) => 1, Ok(false) => 0, Err(_) => -1 } };
    let idx_ref = &idx;
    let work = |data: &Vec<f64>| -> (i128, i128) {
        let io = if use_idx != 0 { Some(idx_ref) } else { None };
        let first = conv(c.verify_all_causes(data, io));
        let mut diff = 0;
        for _ in 1..rounds { if conv(c.verify_all_causes(data, io)) != first { diff += 1; } }
        (first, diff)
    };
    let (ra, rb) = std::thread::scope(|sc| {
        let ha = sc.spawn(|| work(&data_a));
        let hb = sc.spawn(|| work(&data_b));
        (ha.join().unwrap(), hb.join().unwrap())
    });
    vec![ra.0, rb.0, ra.1, rb.1]
}

// CONCURRENT shortest-path reasoning over one shared graph (the reasoning methods take &self). line: causalconcsp n rounds_k
// a chain 0 -> 1 -> ... -> n-1 of threshold causaloids (ids i % 7); thread A repeats reason_shortest_path_between_causes(0, n-1) with
// data on which every causaloid is true, thread B repeats the same call and reason_single_cause on the inner nodes with data on which
// every causaloid is false.  output: A's first verdict, how often A's verdict differed from it, B's first verdict, B's differing
// verdicts.  A verdict is a function of graph and data only: expected 1 0 0 0
pub fn run_conc_sp(args: &[i128]) -> Vec<i128> {
    let n = (args[0] as usize).max(2); let rounds = (args[1] as usize).max(1) * 1000;
    let mut g: BaseCausalGraph<'static> = CausaloidGraph::new();
    for i in 0..n {
        let c: C = Causaloid::new((i % 7) as u64, f_thr, "s");
        if i == 0 { g.add_root_causaloid(c); } else { g.add_causaloid(c); }
    }
    for i in 0..n - 1 { let _ = g.add_edge(i, i + 1); }
    let g = &g;
    let data_t: Vec<f64> = (0..14).map(|k| (10 * k + 1) as f64).collect();
    let data_f: Vec<f64> = (0..14).map(|k| (10 * k) as f64).collect();
    let conv = |r: Result<bool, CausalityGraphError>| -> i128 { match r { Ok(true) => 1, Ok(false) => 0, Err(_) => -1 } };
    let (ra, rb) = std::thread::scope(|sc| {
        let ha = sc.spawn(|| {
            let first = conv(g.reason_shortest_path_between_causes(0, n - 1, &data_t, None));
            let mut diff = 0;
            for _ in 1..rounds { if conv(g.reason_shortest_path_between_causes(0, n - 1, &data_t, None)) != first { diff += 1; } }
            (first, diff)
        });
        let hb = sc.spawn(|| {
            let first = conv(g.reason_shortest_path_between_causes(0, n - 1, &data_f, None));
            let mut diff = 0;
            for r in 1..rounds {
                if r % 2 == 0 { if conv(g.reason_shortest_path_between_causes(0, n - 1, &data_f, None)) != first { diff += 1; } }
                else { let i = 1 + r % (n - 1); if conv(g.reason_single_cause(i, &data_f[i % 7..i % 7 + 1])) != 0 { diff += 1; } }
            }
            (first, diff)
        });
        (ha.join().unwrap(), hb.join().unwrap())
    });
    vec![ra.0, ra.1, rb.0, rb.1]
}

// a LARGE graph of singleton causaloids. line: causalbig n
// nodes 0..n-1 (node 0 is the root); the first 60000 use the threshold function (true on the data below), the later ones the
// negated one (false on it); edges 0->1, 1->2, 0->3.  output: size, reason_all_causes, shortest-path reasoning 0 -> 2, id of the
// causaloid at index 0, contains(n-1), reason_single_cause(n-1).   expected (closed form): n 1 1 0 1 (0 if n > 60000 else 1)
pub fn run_big(args: &[i128]) -> Vec<i128> {
    let n = args[0] as usize;
    if args.len() > 1 { return run_chain(n, args[1]); }
    let mut g: BaseCausalGraph<'static> = CausaloidGraph::new();
    for i in 0..n {
        let c: C = Causaloid::new((i % 7) as u64, if i < 60000 { f_thr } else { f_neg }, "s");
        let ix = if i == 0 { g.add_root_causaloid(c) } else { g.add_causaloid(c) };
        if ix != i { return vec![-5, i as i128, ix as i128]; }
    }
    for (a, b) in [(0usize, 1usize), (1, 2), (0, 3)] { if a < n && b < n { let _ = g.add_edge(a, b); } }
    let data: Vec<f64> = (0..14).map(|k| (10 * k + 1) as f64).collect();
    let conv = |r: Result<bool, CausalityGraphError>| -> i128 { match r { Ok(true) => 1, Ok(false) => 0, Err(_) => -1 } };
    let all = conv(g.reason_all_causes(&data, None));
    let sp = if n > 2 { conv(g.reason_shortest_path_between_causes(0, 2, &data, None)) } else { 1 };
    let id0 = g.get_causaloid(0).map(|c| c.id() as i128).unwrap_or(-1);
    let last = conv(g.reason_single_cause(n - 1, &data[..1]));
    vec![g.size() as i128, all, sp, id0, g.contains_causaloid(n - 1) as i128, last]
}

// a LONG CHAIN 0 -> 1 -> ... -> n-1 of singleton causaloids (root 0); node k (if 0 <= k < n) is the only one that evaluates false.
// line: causalbig n k.   output: reason_all_causes, number of causal-function calls it made, the same through a wrapping causaloid.
// expected (closed form): k in range: 0, k+1, 0 ; else 1, n, 1
fn run_chain(n: usize, k: i128) -> Vec<i128> {
    let mut g: BaseCausalGraph<'static> = CausaloidGraph::new_with_capacity(4);
    for i in 0..n {
        let c: C = Causaloid::new((i % 7) as u64, if i as i128 == k { f_neg } else { f_thr }, "s");
        if i == 0 { g.add_root_causaloid(c); } else { g.add_causaloid(c); }
    }
    for i in 0..n.saturating_sub(1) { let _ = g.add_edge(i, i + 1); }
    let data: Vec<f64> = (0..14).map(|j| (10 * j + 1) as f64).collect();
    let conv = |r: Result<bool, String>| -> i128 { match r { Ok(true) => 1, Ok(false) => 0, Err(_) => -1 } };
    LOG.with(|l| l.borrow_mut().clear());
    let all = conv(g.reason_all_causes(&data, None).map_err(|e| e.to_string()));
    let calls = LOG.with(|l| l.borrow().len() / 2) as i128;
    let g: &'static BaseCausalGraph<'static> = Box::leak(Box::new(g));
    let w: C = Causaloid::from_causal_graph(99, g, "graph");
    let wrapped = conv(w.verify_all_causes(&data, None).map_err(|e| e.to_string()));
    vec![all, calls, wrapped]
}
