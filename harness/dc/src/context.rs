// Context harness. line: context B (code x y z)*  — op codes as in Context/Model.v
// output: return value of every op, then after every op the full observation of ALL contexts
use deep_causality::prelude::*;

type Ctx = BaseContext;

fn node(v: i128) -> BaseContextoid {
    Contextoid::new(v as u64, ContextoidType::Root(Root::new(v as u64)))
}

fn rel(z: i128) -> RelationKind {
    match z {
        0 => RelationKind::Datial,
        1 => RelationKind::Temporal,
        2 => RelationKind::Spatial,
        _ => RelationKind::SpaceTemporal,
    }
}

fn obs_base(c: &Ctx, b: usize, out: &mut Vec<i128>) {
    for i in 0..b {
        out.push(c.contains_node(i) as i128);
        out.push(c.get_node(i).map(|n| n.id() as i128).unwrap_or(-1));
    }
    for i in 0..b { for j in 0..b { out.push(c.contains_edge(i, j) as i128); } }
    // indices beyond 32 bits must not alias live contextoids / relations
    let mut alias = 0i128;
    for sh in [8u32, 16, 32, 48] {
        let big = 1usize << sh;
        if big < b || (b > 40 && sh != 32) { continue; }
        for i in 0..b {
            if c.contains_node(i + big) || c.get_node(i + big).is_some() { alias += 1; }
            for j in 0..b { if c.contains_edge(i + big, j) || c.contains_edge(i, j + big) { alias += 1; } }
        }
    }
    if alias > 0 { out.push(777002); out.push(alias); }
    out.push(c.size() as i128);
    out.push(c.is_empty() as i128);
    out.push(c.node_count() as i128);
    out.push(c.edge_count() as i128);
}

fn obs_extra(c: &Ctx, b: usize, out: &mut Vec<i128>) {
    for i in 0..b {
        out.push(c.extra_ctx_contains_node(i) as i128);
        out.push(c.extra_ctx_get_node(i).map(|n| n.id() as i128).unwrap_or(-1));
    }
    for i in 0..b { for j in 0..b { out.push(c.extra_ctx_contains_edge(i, j) as i128); } }
    let mut alias = 0i128;
    for sh in [8u32, 16, 32, 48] {
        let big = 1usize << sh;
        if big < b || (b > 40 && sh != 32) { continue; }
        for i in 0..b {
            if c.extra_ctx_contains_node(i + big) || c.extra_ctx_get_node(i + big).is_ok() { alias += 1; }
            for j in 0..b { if c.extra_ctx_contains_edge(i + big, j) || c.extra_ctx_contains_edge(i, j + big) { alias += 1; } }
        }
    }
    if alias > 0 { out.push(777002); out.push(alias); }
    out.push(c.extra_ctx_size().map(|x| x as i128).unwrap_or(-1));
    out.push(c.extra_ctx_is_empty().map(|x| x as i128).unwrap_or(-1));
    out.push(c.extra_ctx_node_count().map(|x| x as i128).unwrap_or(-1));
    out.push(c.extra_ctx_edge_count().map(|x| x as i128).unwrap_or(-1));
}

// ctx_id: the id of the Context itself (every test of the crate uses 1); it is unrelated to the ids of the extra contexts
pub fn run(args: &[i128], ctx_id: u64) -> Vec<i128> {
    let b = args[0] as usize;
    let mut c: Ctx = Context::with_capacity(ctx_id, "ctx", 2);
    let mut count: u64 = 0;
    let mut rets = Vec::new();
    let mut obs = Vec::new();
    for op in args[1..].chunks(4) {
        let (x, y, z) = (op[1], op[2], op[3]);
        let r: i128 = match op[0] {
            0 => c.add_node(node(x)) as i128,
            1 => c.remove_node(x as usize).is_ok() as i128,
            2 => c.add_edge(x as usize, y as usize, rel(z)).is_ok() as i128,
            3 => c.remove_edge(x as usize, y as usize).is_ok() as i128,
            4 => { let id = c.extra_ctx_add_new(2, x != 0); if id > count { count = id; } id as i128 }
            // id 77 is never a context id: the op stands for a CREATION THAT PANICS (capacity overflow inside extra_ctx_add_new,
            // caught here); like a refused selection it must answer "no" and leave everything unchanged - which is what the model
            // does for set_current_id(77)
            5 if x == 77 => {
                let r = std::panic::catch_unwind(std::panic::AssertUnwindSafe(|| c.extra_ctx_add_new(usize::MAX, y != 0)));
                if r.is_err() { 0 } else { -31337 }
            }
            5 => c.extra_ctx_set_current_id(x as u64).is_ok() as i128,
            6 => c.extra_ctx_unset_current_id().is_ok() as i128,
            7 => c.extra_ctx_add_node(node(x)).map(|i| i as i128).unwrap_or(-1),
            8 => c.extra_ctx_remove_node(x as usize).is_ok() as i128,
            9 => c.extra_ctx_add_edge(x as usize, y as usize, rel(z)).is_ok() as i128,
            10 => c.extra_ctx_remove_edge(x as usize, y as usize).is_ok() as i128,
            _ => { c.set_index(x as usize, y as usize, z != 0); 1 }
        };
        rets.push(r);
        obs_base(&c, b, &mut obs);
        let saved = c.extra_ctx_get_current_id();
        obs.push(saved as i128);
        for i in 0..(count + 3) { obs.push(c.extra_ctx_check_exists(i) as i128); }
        for k in 1..=count {
            if c.extra_ctx_set_current_id(k).is_err() { obs.push(-424242); }
            obs_extra(&c, b, &mut obs);
        }
        if c.extra_ctx_set_current_id(saved).is_err() { obs.push(-434343); }
        obs_extra(&c, b, &mut obs);
        for k in 0..b {
            obs.push(c.get_index(&k, true).map(|x| *x as i128).unwrap_or(-1));
            obs.push(c.get_index(&k, false).map(|x| *x as i128).unwrap_or(-1));
        }
    }
    rets.extend(obs);
    rets
}

// bulk insertion through the Context API. line: contextbig which n v0 (probe)*   which: 0 = base context, 1 = a new extra context
// output: first add whose index differs from its position (-1 none), number of such adds, size of the filled context, size of
// the other one (base when the extra one is filled: must stay 0; -1 when no extra context exists), then per probe: contains, id
// [oracle: theorems ctx_bulk_base / ctx_bulk_extra, Context/Bulk.v]
pub fn run_big(args: &[i128]) -> Vec<i128> {
    let which = args[0]; let n = args[1] as usize; let v0 = args[2];
    let mut c: Ctx = Context::with_capacity(1, "ctx", 2);
    if which == 1 { c.extra_ctx_add_new(2, true); }
    let (mut first, mut bad) = (-1i128, 0i128);
    for i in 0..n {
        let k: i128 = if which == 0 { c.add_node(node(v0 + i as i128)) as i128 }
                      else { c.extra_ctx_add_node(node(v0 + i as i128)).map(|x| x as i128).unwrap_or(-2) };
        if k != i as i128 { bad += 1; if first < 0 { first = i as i128; } }
    }
    let mut out = vec![first, bad];
    if which == 0 {
        out.push(c.size() as i128);
        out.push(c.extra_ctx_size().map(|x| x as i128).unwrap_or(-1));
    } else {
        out.push(c.extra_ctx_size().map(|x| x as i128).unwrap_or(-1));
        out.push(c.size() as i128);
    }
    for p in &args[3..] {
        let p = *p as usize;
        if which == 0 {
            out.push(c.contains_node(p) as i128);
            out.push(c.get_node(p).map(|x| x.id() as i128).unwrap_or(-1));
        } else {
            out.push(c.extra_ctx_contains_node(p) as i128);
            out.push(c.extra_ctx_get_node(p).map(|x| x.id() as i128).unwrap_or(-1));
        }
    }
    out
}
