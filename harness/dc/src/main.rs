// Correspondence harness for dcl_data_structures (deep_causality and ultragraph).
// stdin : one case per line: <family> <int> ...
// stdout: one line per case: <int> ...   ("PANIC" if the implementation panicked)
use std::io::{self, BufRead, Write};
use std::panic;

mod adjustable;
mod csm;
mod causal;
mod collections;
mod context;
mod ugraph;


fn run_case(fam: &str, args: &[i128]) -> Vec<i128> {
    match fam {
        "adjustable" => adjustable::run(args),
        "csm" => csm::run(args),
        "csmconc" => csm::run_conc(args),
        "csmreent" => csm::run_reent(args),
        "causalrd" => causal::run_readers(args),
        "causal" => causal::run(args, 1),
        "causalrm" => causal::run_rm(args, 1, true),
        "causalrm2" => causal::run_rm2(args, 1, true, true),
        "causalconc" => causal::run_conc(args),
        "causalconcsp" => causal::run_conc_sp(args),
        "causalbig" => causal::run_big(args),
        f if f.starts_with("causal_") => causal::run(args, f[7..].parse().unwrap()),
        "collections" => collections::run(args),
        "context" => context::run(args, 1),
        f if f.starts_with("context_") => context::run(args, f[8..].parse().unwrap()),
        "contextbig" => context::run_big(args),
        f if f.starts_with("ugraphbig_") => ugraph::run_big(args, f[10..].parse().unwrap()),
        f if f.starts_with("ugraph_") => ugraph::run(args, f[7..].parse().unwrap()),
        f if f.starts_with("ugraphc_") => ugraph::run_c(args, f[8..].parse().unwrap(), true),
        f if f.starts_with("spath_") => ugraph::run_spath(args, f[6..].parse().unwrap()),
        f if f.starts_with("spathq_") => ugraph::run_spathq(args, f[7..].parse().unwrap()),
        _ => panic!("unknown family {fam}"),
    }
}

fn main() {
    panic::set_hook(Box::new(|_| {}));
    let stdin = io::stdin();
    let stdout = io::stdout();
    let mut out = io::BufWriter::new(stdout.lock());
    for line in stdin.lock().lines() {
        let line = line.unwrap();
        let mut it = line.split_ascii_whitespace();
        let fam = match it.next() {
            Some(f) => f.to_string(),
            None => {
                writeln!(out).unwrap();
                continue;
            }
        };
        let args: Vec<i128> = it.map(|t| t.parse::<i128>().expect("int")).collect();
        let res = panic::catch_unwind(|| run_case(&fam, &args));
        match res {
            Ok(v) => {
                let s: Vec<String> = v.iter().map(|x| x.to_string()).collect();
                writeln!(out, "{}", s.join(" ")).unwrap();
            }
            Err(_) => writeln!(out, "-999").unwrap(),
        }
        out.flush().unwrap();
    }
}
