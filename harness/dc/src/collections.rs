// Collection reasoning harness (AssumableReasoning / InferableReasoning / ObservableReasoning).
// line: collections kind container n members... (ops|queries)...   — see Collections/Model.v
// container 0 = slice/array, 1 = Vec, 2 = VecDeque, 3 = BTreeMap, 4 = HashMap (observed in id order)
use deep_causality::prelude::*;
use std::collections::{BTreeMap, HashMap, VecDeque};

fn f(b: i128) -> f64 { f64::from_bits(b as u64) }
fn bits(x: f64) -> i128 { if x.is_nan() { 9221120237041090560 } else { x.to_bits() as i128 } }

// ---- assumption functions: a fixed family of fn items -------------------------------------------
fn a0(d: &[f64]) -> bool { d[0] == 1.0 }
fn a1(d: &[f64]) -> bool { d[1] == 1.0 }
fn a2(d: &[f64]) -> bool { d[2] == 1.0 }
fn a3(d: &[f64]) -> bool { d[3] == 1.0 }
fn a4(d: &[f64]) -> bool { d[4] == 1.0 }
fn a5(d: &[f64]) -> bool { d[5] == 1.0 }
fn a6(d: &[f64]) -> bool { d[6] == 1.0 }
fn a7(d: &[f64]) -> bool { d[7] == 1.0 }
fn a_true(_d: &[f64]) -> bool { true }
fn a_false(_d: &[f64]) -> bool { false }
fn afn(k: i128) -> EvalFn {
    match k { 0 => a0, 1 => a1, 2 => a2, 3 => a3, 4 => a4, 5 => a5, 6 => a6, 7 => a7, 100 => a_true, _ => a_false }
}

fn ids_of<T: Identifiable>(v: Vec<&T>, sorted: bool, out: &mut Vec<i128>) {
    let mut ids: Vec<i128> = v.iter().map(|x| x.id() as i128).collect();
    if sorted { ids.sort(); }
    out.push(ids.len() as i128);
    out.extend(ids);
}

fn assum_obs<C: AssumableReasoning<Assumption> + ?Sized>(c: &C, sorted: bool, out: &mut Vec<i128>) {
    let mut ms: Vec<(i128, i128, i128)> = c.get_all_items().iter()
        .map(|a| (a.id() as i128, a.assumption_tested() as i128, a.assumption_valid() as i128)).collect();
    if sorted { ms.sort(); }
    if ms.len() != c.len() { out.push(-7001); }
    for (i, t, v) in ms { out.push(i); out.push(t); out.push(v); }
    out.push(c.all_assumptions_tested() as i128);
    out.push(c.all_assumptions_valid() as i128);
    out.push(bits(c.number_assumption_valid()));
    out.push(bits(c.percent_assumption_valid()));
    ids_of(c.get_all_valid_assumptions(), sorted, out);
    ids_of(c.get_all_invalid_assumptions(), sorted, out);
    ids_of(c.get_all_tested_assumptions(), sorted, out);
    ids_of(c.get_all_untested_assumptions(), sorted, out);
}

fn infer_obs<C: InferableReasoning<Inference> + ?Sized>(c: &C, sorted: bool, out: &mut Vec<i128>) {
    let mut ms: Vec<(i128, i128, i128)> = c.get_all_items().iter()
        .map(|a| (a.id() as i128, a.is_inferable() as i128, a.is_inverse_inferable() as i128)).collect();
    if sorted { ms.sort(); }
    if ms.len() != c.len() { out.push(-7001); }
    for (i, t, v) in ms { out.push(i); out.push(t); out.push(v); }
    out.push(c.all_inferable() as i128);
    out.push(c.all_inverse_inferable() as i128);
    out.push(c.all_non_inferable() as i128);
    out.push(bits(c.number_inferable()));
    out.push(bits(c.number_inverse_inferable()));
    out.push(bits(c.number_non_inferable()));
    out.push(bits(c.percent_inferable()));
    out.push(bits(c.percent_inverse_inferable()));
    out.push(bits(c.percent_non_inferable()));
    out.push(bits(c.conjoint_delta()));
    ids_of(c.get_all_inferable(), sorted, out);
    ids_of(c.get_all_inverse_inferable(), sorted, out);
    ids_of(c.get_all_non_inferable(), sorted, out);
}

fn obs_obs<C: ObservableReasoning<Observation> + ?Sized>(c: &C, sorted: bool, thr: f64, tgt: f64, out: &mut Vec<i128>) {
    let mut ms: Vec<(i128, i128)> = c.get_all_items().iter()
        .map(|a| (a.id() as i128, a.effect_observed(thr, tgt) as i128)).collect();
    if sorted { ms.sort(); }
    if ms.len() != c.len() { out.push(-7001); }
    for (i, p) in ms { out.push(i); out.push(p); }
    out.push(bits(c.number_observation(thr, tgt)));
    out.push(bits(c.number_non_observation(thr, tgt)));
    out.push(bits(c.percent_observation(thr, tgt)));
    out.push(bits(c.percent_non_observation(thr, tgt)));
}

// VecDeque is a ring buffer: the same logical sequence can be stored contiguously or wrapped around the end of its
// storage (after push_front / rotation).  Even lengths are built WRAPPED (second half pushed back, first half pushed
// to the front), odd lengths contiguously, so both representations are exercised.
fn mk_deque<T>(items: Vec<T>) -> std::collections::VecDeque<T> {
    let n = items.len();
    if n < 2 || n % 2 == 1 {
        return items.into_iter().collect();
    }
    let mut front = items;
    let back = front.split_off(n / 2);
    let mut d = std::collections::VecDeque::with_capacity(n);
    for x in back {
        d.push_back(x);
    }
    for x in front.into_iter().rev() {
        d.push_front(x);
    }
    d
}

enum Cont<T> { Slice(Box<[T]>), V(Vec<T>), D(VecDeque<T>), B(BTreeMap<usize, T>), H(HashMap<usize, T>) }

fn clone_cont<T: Clone>(c: &Cont<T>) -> Cont<T> {
    match c {
        Cont::Slice(x) => Cont::Slice(x.clone()), Cont::V(x) => Cont::V(x.clone()), Cont::D(x) => Cont::D(x.clone()),
        Cont::B(x) => Cont::B(x.clone()), Cont::H(x) => Cont::H(x.clone()),
    }
}

fn mk<T>(cont: i128, items: Vec<T>) -> Cont<T> {
    match cont {
        0 => Cont::Slice(items.into_boxed_slice()),
        1 => Cont::V(items),
        2 => Cont::D(mk_deque(items)),
        3 => Cont::B(items.into_iter().enumerate().collect()),
        _ => Cont::H(items.into_iter().enumerate().collect()),
    }
}

macro_rules! with_cont {
    ($c:expr, $x:ident => $body:expr) => {
        match $c {
            Cont::Slice($x) => { let $x: &[_] = &$x[..]; $body }
            Cont::V($x) => $body,
            Cont::D($x) => $body,
            Cont::B($x) => $body,
            Cont::H($x) => $body,
        }
    };
}

fn nth_assumption(c: &Cont<Assumption>, i: usize) -> Option<&Assumption> {
    match c {
        Cont::Slice(x) => x.get(i), Cont::V(x) => x.get(i), Cont::D(x) => x.get(i), Cont::B(x) => x.get(&i), Cont::H(x) => x.get(&i),
    }
}

pub fn run(args: &[i128]) -> Vec<i128> {
    let (kind, cont, n) = (args[0], args[1], args[2] as usize);
    let sorted = cont == 4;
    let mut out = Vec::new();
    match kind {
        0 => {
            let items: Vec<Assumption> = (0..n).map(|k| Assumption::new(args[3 + 2 * k] as u64, "a".to_string(), afn(args[4 + 2 * k]))).collect();
            let mut c = mk(cont, items);
            for op in args[3 + 2 * n..].chunks(10) {
                let data: Vec<f64> = op[2..10].iter().map(|z| *z as f64).collect();
                if op[0] == 2 {
                    // from now on work on a CLONE of the collection (an assumption's verification state travels with it)
                    c = clone_cont(&c);
                    out.push(0);
                } else if op[0] == 0 {
                    with_cont!(&c, x => x.verify_all_assumptions(&data));
                    out.push(0);
                } else {
                    match nth_assumption(&c, op[1] as usize) {
                        Some(a) => out.push(a.verify_assumption(&data) as i128),
                        None => out.push(-1),
                    }
                }
                with_cont!(&c, x => assum_obs(x, sorted, &mut out));
            }
        }
        1 => {
            let items: Vec<Inference> = (0..n).map(|k| { let a = &args[3 + 5 * k..8 + 5 * k];
                Inference::new(a[0] as u64, "q".to_string(), f(a[1]), f(a[2]), f(a[3]), f(a[4])) }).collect();
            let c = mk(cont, items);
            with_cont!(&c, x => infer_obs(x, sorted, &mut out));
        }
        _ => {
            let items: Vec<Observation> = (0..n).map(|k| { let a = &args[3 + 3 * k..6 + 3 * k];
                Observation::new(a[0] as u64, f(a[1]), f(a[2])) }).collect();
            let c = mk(cont, items);
            for q in args[3 + 3 * n..].chunks(2) {
                with_cont!(&c, x => obs_obs(x, sorted, f(q[0]), f(q[1]), &mut out));
            }
        }
    }
    out
}
