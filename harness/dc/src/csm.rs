// Causal state machine harness. line: csm ops...  (coding as in CSM/Model.v)
// output per op: ok nlog obs.. nfired aref.. len
use deep_causality::prelude::*;
use std::cell::RefCell;

thread_local! {
    static EVALS: RefCell<Vec<i128>> = RefCell::new(Vec::new());
    static FIRED: RefCell<Vec<i128>> = RefCell::new(Vec::new());
}

fn code(obs: f64) -> i64 { (obs as i64).rem_euclid(10) }
fn f_thr(obs: f64) -> Result<bool, CausalityError> {
    EVALS.with(|l| l.borrow_mut().push(obs as i128));
    match code(obs) { 2 => Err(CausalityError("marker".into())), 1 => Ok(true), _ => Ok(false) }
}
fn f_neg(obs: f64) -> Result<bool, CausalityError> {
    EVALS.with(|l| l.borrow_mut().push(obs as i128));
    match code(obs) { 2 => Err(CausalityError("marker".into())), 0 => Ok(true), _ => Ok(false) }
}

// contextual variants (same verdicts; the context is the one the causaloid was built with)
fn f_thr_ctx(obs: f64, _ctx: &BaseContext) -> Result<bool, CausalityError> { f_thr(obs) }
fn f_neg_ctx(obs: f64, _ctx: &BaseContext) -> Result<bool, CausalityError> { f_neg(obs) }

macro_rules! actions {
    ($($name:ident = $k:expr),*) => {
        $( fn $name() -> Result<(), ActionError> {
            FIRED.with(|l| l.borrow_mut().push($k));
            if $k % 4 == 3 { Err(ActionError("fails".into())) } else { Ok(()) }
        } )*
        fn action_fn(k: usize) -> fn() -> Result<(), ActionError> {
            match k { $( $k => $name, )* _ => act0 }
        }
    };
}
actions!(act0 = 0, act1 = 1, act2 = 2, act3 = 3, act4 = 4, act5 = 5, act6 = 6, act7 = 7,
         act8 = 8, act9 = 9, act10 = 10, act11 = 11, act12 = 12, act13 = 13, act14 = 14, act15 = 15);

const NSTATES: usize = 24;

// RE-ENTRANT use: an action that evaluates another state of ITS OWN machine (evaluation only reads the state table, so the nested
// call is legal).  line: csmreent outer_true inner_true via_all
// states: id 1 = outer (action: log 50, evaluate state 2 on the inner data through CASCADE, log 100 + ok), id 2 = inner (action 4).
// output: ok of the outer call, then the log of fired actions (sorted when the outer call was eval_all_states, whose order is free)
thread_local! { static CASCADE: RefCell<Option<Box<dyn Fn() -> i128>>> = RefCell::new(None); }
fn act_cascade() -> Result<(), ActionError> {
    FIRED.with(|l| l.borrow_mut().push(50));
    let r = CASCADE.with(|c| c.borrow().as_ref().map(|f| f()).unwrap_or(-5));
    FIRED.with(|l| l.borrow_mut().push(100 + r));
    Ok(())
}
pub fn run_reent(args: &[i128]) -> Vec<i128> {
    let (outer_true, inner_true, via_all) = (args[0] != 0, args[1] != 0, args[2] != 0);
    let causaloids: &'static Vec<BaseCausaloid<'static>> = Box::leak(Box::new(vec![Causaloid::new(0, f_thr, "c"), Causaloid::new(1, f_thr, "c")]));
    // f_thr: an observation ending in 1 is true, in 0 false; eval_all_states uses the data stored in the state
    let states: &'static Vec<CausalState<'static, _, _, _, _, _>> = Box::leak(Box::new(vec![
        CausalState::new(1, 1, if outer_true { 11.0 } else { 10.0 }, &causaloids[0]),
        CausalState::new(2, 1, if inner_true { 21.0 } else { 20.0 }, &causaloids[1])]));
    let acts: &'static Vec<CausalAction> = Box::leak(Box::new(vec![CausalAction::new(act_cascade, "outer", 1), CausalAction::new(action_fn(4), "inner", 1)]));
    let table: &'static Vec<(&CausalState<'static, _, _, _, _, _>, &CausalAction)> = Box::leak(Box::new(vec![(&states[0], &acts[0]), (&states[1], &acts[1])]));
    let csm = Box::leak(Box::new(CSM::new(&table[..])));
    let csm: &'static _ = csm;
    let inner_data = if inner_true { 21.0 } else { 20.0 };
    CASCADE.with(|c| *c.borrow_mut() = Some(Box::new(move || csm.eval_single_state(2, inner_data).is_ok() as i128)));
    FIRED.with(|l| l.borrow_mut().clear());
    let ok = if via_all { csm.eval_all_states().is_ok() } else { csm.eval_single_state(1, if outer_true { 11.0 } else { 10.0 }).is_ok() };
    let mut log: Vec<i128> = FIRED.with(|l| l.borrow().clone());
    if via_all { log.sort(); }
    let mut out = vec![ok as i128, csm.len() as i128];
    out.extend(log);
    out
}

pub fn run(args: &[i128]) -> Vec<i128> {
    // pools
    let ctx: &'static BaseContext = Box::leak(Box::new(Context::with_capacity(1, "csm", 2)));
    let causaloids: &'static Vec<BaseCausaloid<'static>> = Box::leak(Box::new(
        (0..NSTATES).map(|s| {
            if s % 3 == 2 {
                // every third causaloid of the pool is a CONTEXTUAL one (Causaloid::new_with_context): another code path of verify_single_cause
                Causaloid::new_with_context(s as u64, if s % 2 == 0 { f_thr_ctx } else { f_neg_ctx }, Some(ctx), "c")
            } else {
                Causaloid::new(s as u64, if s % 2 == 0 { f_thr } else { f_neg }, "c")
            }
        }).collect()));
    let states: &'static Vec<CausalState<'static, _, _, _, _, _>> = Box::leak(Box::new(
        (0..NSTATES).map(|s| CausalState::new(s / 3, 1, (10 * s + s % 3) as f64, &causaloids[s])).collect()));
    let acts: &'static Vec<CausalAction> = Box::leak(Box::new((0..16).map(|k| CausalAction::new(action_fn(k), "a", 1)).collect()));
    let empty: &'static Vec<(&CausalState<'static, _, _, _, _, _>, &CausalAction)> = Box::leak(Box::new(Vec::new()));
    let mut csm = CSM::new(&empty[..]);
    let mut out = Vec::new();
    let mut p = 0;
    let pairs = |p: &mut usize| -> &'static Vec<(&'static CausalState<'static, _, _, _, _, _>, &'static CausalAction)> {
        let n = args[*p] as usize; *p += 1;
        let mut v = Vec::new();
        for _ in 0..n { v.push((&states[args[*p] as usize % NSTATES], &acts[args[*p + 1] as usize % 16])); *p += 2; }
        Box::leak(Box::new(v))
    };
    while p < args.len() {
        EVALS.with(|l| l.borrow_mut().clear());
        FIRED.with(|l| l.borrow_mut().clear());
        let c = args[p]; p += 1;
        let ok: bool = match c {
            0 => { let v = pairs(&mut p); csm = CSM::new(&v[..]); true }
            6 => { let v = pairs(&mut p); csm.update_all_states(&v[..]); true }
            1 => { let r = csm.add_single_state(args[p] as usize, (&states[args[p + 1] as usize % NSTATES], &acts[args[p + 2] as usize % 16])); p += 3; r.is_ok() }
            3 => { let r = csm.update_single_state(args[p] as usize, (&states[args[p + 1] as usize % NSTATES], &acts[args[p + 2] as usize % 16])); p += 3; r.is_ok() }
            2 => { let r = csm.remove_single_state(args[p] as usize); p += 1; r.is_ok() }
            4 => { let r = csm.eval_single_state(args[p] as usize, args[p + 1] as f64); p += 2; r.is_ok() }
            5 => csm.eval_all_states().is_ok(),
            _ => true,
        };
        out.push(ok as i128);
        EVALS.with(|l| { let l = l.borrow(); out.push(l.len() as i128); out.extend(l.iter()); });
        FIRED.with(|l| { let l = l.borrow(); out.push(l.len() as i128); out.extend(l.iter()); });
        out.push(csm.len() as i128);
    }
    out
}

// CONCURRENT state machines sharing one causaloid. line: csmconc k   (k * 1000 rounds per thread)
// Two threads, each with its OWN state machine; both machines hold a state built on the SAME causaloid. Thread A evaluates its state
// with data on which the causaloid is true (its action must fire every time), thread B with data on which it is false (its action must
// never fire).  output: actions A missed, actions B fired spuriously, errors of A, errors of B   (all must be 0)
pub fn run_conc(args: &[i128]) -> Vec<i128> {
    let rounds = (args[0] as usize).max(1) * 1000;
    let shared: &'static BaseCausaloid<'static> = Box::leak(Box::new(Causaloid::new(1, f_thr, "shared")));
    let work = move |data: f64, must_fire: bool| -> (i128, i128) {
        let state: &'static CausalState<'static, _, _, _, _, _> = Box::leak(Box::new(CausalState::new(1, 1, 10.0, shared)));
        let act: &'static CausalAction = Box::leak(Box::new(CausalAction::new(act0, "a", 1)));
        let v: &'static Vec<(&CausalState<'static, _, _, _, _, _>, &CausalAction)> = Box::leak(Box::new(vec![(state, act)]));
        let csm = CSM::new(&v[..]);
        let (mut wrong, mut errs) = (0i128, 0i128);
        for _ in 0..rounds {
            FIRED.with(|l| l.borrow_mut().clear());
            if csm.eval_single_state(1, data).is_err() { errs += 1; }
            let fired = FIRED.with(|l| l.borrow().len());
            if (fired == 1) != must_fire || fired > 1 { wrong += 1; }
        }
        (wrong, errs)
    };
    let (ra, rb) = std::thread::scope(|sc| {
        let ha = sc.spawn(|| work(11.0, true));
        let hb = sc.spawn(|| work(10.0, false));
        (ha.join().unwrap(), hb.join().unwrap())
    });
    vec![ra.0, rb.0, ra.1, rb.1]
}
