// UltraGraph harness. line: ugraph B (code x y z)*
// 0 add_node v | 1 add_root_node v | 2 remove_node i | 3 add_edge a b | 4 add_edge_with_weight a b w
// | 5 remove_edge a b | 6 clear
// output: the return value of every op, then after every op the full observation over indices 0..B-1
use ultragraph::prelude::*;

pub fn observe(g: &UltraGraph<i64>, b: usize, out: &mut Vec<i128>) {
    for i in 0..b {
        out.push(g.contains_node(i) as i128);
        out.push(g.get_node(i).map(|v| *v as i128).unwrap_or(-1));
    }
    for i in 0..b {
        for j in 0..b {
            out.push(g.contains_edge(i, j) as i128);
        }
    }
    let sz = g.size();
    out.push(sz as i128);
    if g.number_nodes() != sz { out.push(777001); }
    out.push(g.is_empty() as i128);
    out.push(g.number_edges() as i128);
    let mut ns: Vec<i128> = g.get_all_nodes().into_iter().map(|v| *v as i128).collect();
    ns.sort();
    out.push(ns.len() as i128);
    out.extend(ns);
    let mut es = g.get_all_edges();
    es.sort();
    out.push(es.len() as i128);
    for (a, c) in es { out.push(a as i128); out.push(c as i128); }
    for i in 0..b {
        match g.outgoing_edges(i) {
            Err(_) => out.push(-1),
            Ok(it) => { let l: Vec<usize> = it.collect(); out.push(l.len() as i128); out.extend(l.iter().map(|x| *x as i128)); }
        }
    }
    // indices far beyond the graph (index + 2^8, 2^16, 2^32, 2^48; offsets below the observation bound are skipped) must not alias
    // live nodes / edges: any hit is reported as 777002 count. Large bounds probe the full matrix with 2^32 only.
    let mut alias = 0i128;
    for sh in [8u32, 16, 32, 48] {
        let big = 1usize << sh;
        if big < b || (b > 40 && sh != 32) { continue; }
        for i in 0..b {
            if g.contains_node(i + big) || g.get_node(i + big).is_some() || g.outgoing_edges(i + big).is_ok() { alias += 1; }
            for j in 0..b {
                if g.contains_edge(i + big, j) || g.contains_edge(i, j + big) { alias += 1; }
            }
        }
    }
    if alias > 0 { out.push(777002); out.push(alias); }
    out.push(g.contains_root_node() as i128);
    out.push(g.get_root_index().map(|x| x as i128).unwrap_or(-1));
    out.push(g.get_root_node().map(|x| *x as i128).unwrap_or(-1));
    out.push(g.get_last_index().map(|x| x as i128).unwrap_or(-1));
}

pub fn apply(g: &mut UltraGraph<i64>, op: &[i128]) -> i128 {
    let (x, y, z) = (op[1], op[2], op[3]);
    match op[0] {
        0 => g.add_node(x as i64) as i128,
        1 => g.add_root_node(x as i64) as i128,
        2 => g.remove_node(x as usize).is_ok() as i128,
        3 => g.add_edge(x as usize, y as usize).is_ok() as i128,
        4 => g.add_edge_with_weight(x as usize, y as usize, z as u64).is_ok() as i128,
        5 => g.remove_edge(x as usize, y as usize).is_ok() as i128,
        _ => { g.clear(); 0 }
    }
}

// initial capacity; 9001 / 9002 select the other two constructors (ultragraph::new, ultragraph::default)
fn mk_graph(cap: usize) -> UltraGraph<i64> {
    match cap {
        9001 => ultragraph::new(),
        9002 => ultragraph::default(),
        c => ultragraph::new_with_matrix_storage(c),
    }
}

pub fn run(args: &[i128], cap: usize) -> Vec<i128> { run_c(args, cap, false) }

// [ugraphc_<cap>]: before every third operation the graph is REPLACED BY ITS CLONE (a clone is indistinguishable from the original)
pub fn run_c(args: &[i128], cap: usize, cloning: bool) -> Vec<i128> {
    let b = args[0] as usize;
    let mut g: UltraGraph<i64> = mk_graph(cap);
    let mut rets = Vec::new();
    let mut obs = Vec::new();
    for (k, op) in args[1..].chunks(4).enumerate() {
        if cloning && k % 3 == 2 { g = g.clone(); }
        rets.push(apply(&mut g, op));
        observe(&g, b, &mut obs);
    }
    rets.extend(obs);
    rets
}

// shortest-path queries after a history. line: spath_<cap> B ops...
// output: return values of the ops, then for every ordered pair (s,t) in 0..B: -1 | len n1..nlen
pub fn run_spath(args: &[i128], cap: usize) -> Vec<i128> {
    let b = args[0] as usize;
    let mut g: UltraGraph<i64> = mk_graph(cap);
    let mut out = Vec::new();
    for op in args[1..].chunks(4) {
        out.push(apply(&mut g, op));
    }
    for s in 0..b {
        for t in 0..b {
            match g.shortest_path(s, t) {
                None => out.push(-1),
                Some(p) => { out.push(p.len() as i128); out.extend(p.iter().map(|x| *x as i128)); }
            }
        }
    }
    out
}

// bulk insertion into a fresh graph. line: ugraphbig_<cap> n v0 (probe)*
// output: position of the first add whose returned index differs from its position (-1 = none), number of such adds, size, is_empty,
// then for every probe index: contains_node, value (-1 = none)      [oracle: theorem bulk_add_fresh, Graph/BulkAdd.v]
pub fn run_big(args: &[i128], cap: usize) -> Vec<i128> {
    let n = args[0] as usize; let v0 = args[1] as i64;
    let mut g: UltraGraph<i64> = mk_graph(cap);
    let (mut first, mut bad) = (-1i128, 0i128);
    for i in 0..n {
        let k = g.add_node(v0 + i as i64);
        if k != i { bad += 1; if first < 0 { first = i as i128; } }
    }
    let mut out = vec![first, bad, g.size() as i128, g.is_empty() as i128];
    for p in &args[2..] {
        let p = *p as usize;
        out.push(g.contains_node(p) as i128);
        out.push(g.get_node(p).map(|v| *v as i128).unwrap_or(-1));
    }
    out
}

// selected shortest-path queries after a history. line: spathq_<cap> nops (code x y z)*nops (s t)*
// output: the return values of the ops, then per query: -1 | len n1..nlen
pub fn run_spathq(args: &[i128], cap: usize) -> Vec<i128> {
    let nops = args[0] as usize;
    let mut g: UltraGraph<i64> = mk_graph(cap);
    let mut out = Vec::new();
    for op in args[1..1 + 4 * nops].chunks(4) {
        out.push(apply(&mut g, op));
    }
    for q in args[1 + 4 * nops..].chunks(2) {
        match g.shortest_path(q[0] as usize, q[1] as usize) {
            None => out.push(-1),
            Some(p) => { out.push(p.len() as i128); out.extend(p.iter().map(|x| *x as i128)); }
        }
    }
    out
}
