// The two sequencers driven directly through the Sequencer trait from one thread.
// args: kind (0 single, 1 multi), buffer size, number of gating cursors, then (op, a, b)*:
//   1 next(a)            -> start end cursor
//   2 publish(a, b)      -> cursor
//   3 gating[a].set(b)   -> cursor
//   4 next(a) issued EVEN IF it must block (probe of the back pressure: the expected outcome is that the call does not return, -888)
// A next() that must block by the documented capacity rule (computed here from the harness' own bookkeeping, not
// from anything the sequencer returned) is not called: the case ends with -777, like the model.  A call that does
// not return within 1.5 s ends the case with -888.
use dcl_data_structures::ring_buffer::prelude::*;
use std::sync::mpsc;
use std::sync::Arc;
use std::time::Duration;

pub static BLOCKED: std::sync::atomic::AtomicBool = std::sync::atomic::AtomicBool::new(false);

fn drive<S: Sequencer>(mut seq: S, multi: bool, size: u64, ng: usize, ops: &[i128]) -> Vec<i128> {
    let gating: Vec<Arc<AtomicSequenceOrdered>> =
        (0..ng).map(|_| Arc::new(AtomicSequenceOrdered::default())).collect();
    for g in &gating {
        seq.add_gating_sequence(g);
    }
    let cursor = seq.get_cursor();
    let mut out = Vec::new();
    let mut gv = vec![0u64; ng];
    let mut claimed: u64 = 0; // number of sequences claimed so far
    for ch in ops.chunks(3) {
        match ch[0] {
            1 => {
                let c = ch[1] as u64;
                let ming = gv.iter().copied().min().unwrap_or(0);
                let blocks = if multi {
                    !(claimed.saturating_sub(ming) + c < size)
                } else {
                    c == 0 || ming + size < claimed + c - 1
                };
                if blocks {
                    out.push(-777);
                    return out;
                }
                let (s, e) = seq.next(c as usize);
                claimed += c;
                out.push(s as i128);
                out.push(e as i128);
            }
            4 => {
                let (s, e) = seq.next(ch[1] as usize);
                claimed += ch[1] as u64;
                out.push(s as i128);
                out.push(e as i128);
            }
            2 => seq.publish(ch[1] as u64, ch[2] as u64),
            _ => {
                gv[ch[1] as usize] = ch[2] as u64;
                gating[ch[1] as usize].set(ch[2] as u64)
            }
        }
        out.push(cursor.get() as i128);
    }
    out
}

pub fn run(args: &[i128]) -> Vec<i128> {
    let args: Vec<i128> = args.to_vec();
    let (tx, rx) = mpsc::channel();
    std::thread::spawn(move || {
        let (kind, size, ng) = (args[0], args[1] as usize, args[2] as usize);
        let r = std::panic::catch_unwind(|| {
            if kind == 0 {
                drive(SingleProducerSequencer::new(size, SpinLoopWaitStrategy::new()), false, size as u64, ng, &args[3..])
            } else {
                drive(MultiProducerSequencer::new(size, SpinLoopWaitStrategy::new()), true, size as u64, ng, &args[3..])
            }
        });
        let _ = tx.send(r.unwrap_or_else(|_| vec![-999]));
    });
    match rx.recv_timeout(Duration::from_millis(1500)) {
        Ok(v) => v,
        Err(_) => {
            // the call did not return: its thread keeps spinning; answer -888 and let main() end the process after this line
            BLOCKED.store(true, std::sync::atomic::Ordering::SeqCst);
            vec![-888]
        }
    }
}

// Clones of ONE MultiProducerSequencer (the module documentation of producer/multi_producer.rs builds one producer per clone).
// line: seqclone size nclones (clone count)*   each op: clones[clone].next(count) then publish of that range; answers start end cursor
pub fn run_clones(args: &[i128]) -> Vec<i128> {
    let args: Vec<i128> = args.to_vec();
    let (tx, rx) = mpsc::channel();
    std::thread::spawn(move || {
        let r = std::panic::catch_unwind(|| {
            let (size, nc) = (args[0] as usize, args[1] as usize);
            let seq = MultiProducerSequencer::new(size, SpinLoopWaitStrategy::new());
            let clones: Vec<_> = (0..nc).map(|_| seq.clone()).collect();
            let cursor = seq.get_cursor();
            let mut out = Vec::new();
            for ch in args[2..].chunks(2) {
                let c = &clones[ch[0] as usize];
                let (s, e) = c.next(ch[1] as usize);
                c.publish(s, e);
                out.push(s as i128); out.push(e as i128); out.push(cursor.get() as i128);
            }
            out
        });
        let _ = tx.send(r.unwrap_or_else(|_| vec![-999]));
    });
    match rx.recv_timeout(Duration::from_millis(1500)) {
        Ok(v) => v,
        Err(_) => { BLOCKED.store(true, std::sync::atomic::Ordering::SeqCst); vec![-888] }
    }
}
