use dcl_data_structures::ring_buffer::prelude::BitMap;
use std::num::NonZeroUsize;

// args: capacity, then (opcode, sequence)*; opcode 0 = set, 1 = unset, 2 = is_set
pub fn run(args: &[i128]) -> Vec<i128> {
    let cap = args[0] as usize;
    let bm = BitMap::new(NonZeroUsize::new(cap).unwrap());
    let mut out = Vec::new();
    for ch in args[1..].chunks(2) {
        let s = ch[1] as u64;
        match ch[0] {
            0 => bm.set(s),
            1 => bm.unset(s),
            _ => out.push(bm.is_set(s) as i128),
        }
    }
    out
}
