// The ring buffer's slot mapping, driven directly through the DataProvider trait (no sequencer, one thread).
// line: ringslots N (op seq val)*   op 0: *get_mut(seq) = val   op 1: read *get(seq)   op 2: read *get_mut(seq)
// output: buffer_size, then the value read by every read.  A sequence s addresses slot s mod N: a read returns the value last
// written through ANY sequence congruent to s modulo N (0 if none), for rings below and above 65 536 slots.
use dcl_data_structures::ring_buffer::prelude::*;

fn drive<const N: usize>(ops: &[i128]) -> Vec<i128> {
    let rb: Box<RingBuffer<u64, N>> = Box::new(RingBuffer::new());
    let mut out = vec![rb.buffer_size() as i128];
    for ch in ops.chunks(3) {
        let seq = ch[1] as u64;
        match ch[0] {
            0 => unsafe { *rb.get_mut(seq) = ch[2] as u64; },
            1 => out.push(unsafe { *rb.get(seq) } as i128),
            _ => out.push(unsafe { *rb.get_mut(seq) } as i128),
        }
    }
    out
}

pub fn run(args: &[i128]) -> Vec<i128> {
    let a: Vec<i128> = args.to_vec();
    // large rings are constructed on the stack first: run on a thread with a large stack
    let h = std::thread::Builder::new().stack_size(256 << 20).spawn(move || {
        let ops = &a[1..];
        match a[0] {
            2 => drive::<2>(ops), 8 => drive::<8>(ops), 64 => drive::<64>(ops), 1024 => drive::<1024>(ops),
            65536 => drive::<65536>(ops), 131072 => drive::<131072>(ops), 262144 => drive::<262144>(ops),
            _ => vec![-556],
        }
    }).unwrap();
    h.join().unwrap_or_else(|_| vec![-999])
}
