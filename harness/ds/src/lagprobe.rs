// Real-time probe of BACK PRESSURE AND PAYLOAD through the builder's other entry points (plain build, real threads):
//   RustDisruptorBuilder::new(custom data provider of ANY size, slots addressed sequence % len)  /  with_ring_buffer::<u64, N>
//   with_single_producer() / with_multi_producer()  (the builder computes the sequencer's size)  /  with_sequencer(explicit)
// line: lagprobe size multi block route stages nevents
//   route 0: explicit sequencer, 1: the builder's convenience constructor; custom provider unless size is 8 or 64 AND route >= 2
//   (route 2 / 3 = the same two routes over RingBuffer<u64, 8> / <u64, 64>); stages 1 or 2: the last stage is an immutable
//   handler that STALLS inside its first call until released; with 2 stages the first one is a mutable handler adding 10^6.
// The main thread writes nevents events (payload 1000 + sequence) in batches of 1..3 (always fewer than the capacity) while the last
// stage is stalled; after 250 ms the highest sequence filled so far is recorded, the handler is released, everything is drained and joined.
// output: status (1 all returned, -888 watchdog), highest sequence filled during the stall, events seen by the last stage,
//         events whose payload was not the one written for their sequence (as transformed by stage 1), out-of-order calls
use dcl_data_structures::ring_buffer::prelude::*;
use std::sync::atomic::{AtomicBool, AtomicI64, AtomicU64, Ordering};
use std::sync::{mpsc, Arc};
use std::time::Duration;
use crate::prodwrite::ModRing;

struct Shared { release: AtomicBool, stalled: AtomicBool, seen: AtomicU64, bad: AtomicU64, ooo: AtomicU64, last: AtomicI64, max_filled: AtomicI64, add: u64 }
struct Stamp;
impl EventHandlerMut<u64> for Stamp {
    fn handle_event(&mut self, e: &mut u64, _s: u64, _eob: bool) { *e += 1_000_000; }
}
struct Last(Arc<Shared>);
impl EventHandler<u64> for Last {
    fn handle_event(&self, e: &u64, s: u64, _eob: bool) {
        let sh = &self.0;
        if sh.seen.load(Ordering::SeqCst) == 0 {
            sh.stalled.store(true, Ordering::SeqCst);
            while !sh.release.load(Ordering::SeqCst) { std::thread::sleep(Duration::from_millis(1)); }
        }
        if *e != 1000 + s + sh.add { sh.bad.fetch_add(1, Ordering::SeqCst); }
        let l = sh.last.swap(s as i64, Ordering::SeqCst);
        if l >= 0 && s as i64 != l + 1 { sh.ooo.fetch_add(1, Ordering::SeqCst); }
        sh.seen.fetch_add(1, Ordering::SeqCst);
    }
}

macro_rules! go {
    ($b:expr, $stages:expr, $n:expr, $sh:expr, $size:expr) => {{
        let sh: Arc<Shared> = $sh;
        let b = $b;
        let (executor, producer) = if $stages == 2 {
            b.with_barrier(|scope| { scope.handle_events_mut(Stamp); }).with_barrier(|scope| { scope.handle_events(Last(sh.clone())); }).build()
        } else {
            b.with_barrier(|scope| { scope.handle_events(Last(sh.clone())); }).build()
        };
        let handle = executor.spawn();
        let sh2 = sh.clone();
        let n: usize = $n;
        // the controller lets the producer run into the back pressure while the last stage is stalled in its first call
        let sh3 = sh.clone();
        let ctl = std::thread::spawn(move || {
            for _ in 0..400 { if sh3.stalled.load(Ordering::SeqCst) { break; } std::thread::sleep(Duration::from_millis(1)); }
            std::thread::sleep(Duration::from_millis(250));
            let during = sh3.max_filled.load(Ordering::SeqCst);
            sh3.release.store(true, Ordering::SeqCst);
            during
        });
        let mut left = n; let mut k = 0usize;
        while left > 0 {
            let c = (1 + k % 3).min(left).min(($size as usize).saturating_sub(1)).max(1); k += 1; left -= c;      // batches of fewer events than the capacity
            producer.write(0..c, |slot: &mut u64, seq, _| { *slot = 1000 + seq; sh2.max_filled.fetch_max(seq as i64, Ordering::SeqCst); });
        }
        let during = ctl.join().unwrap_or(-7);
        producer.drain(); handle.join();
        during
    }};
}

pub fn run(args: &[i128]) -> Vec<i128> {
    let (size, multi, block, route, stages, n) = (args[0] as usize, args[1] != 0, args[2] != 0, args[3], args[4] as usize, args[5] as usize);
    let sh = Arc::new(Shared { release: AtomicBool::new(false), stalled: AtomicBool::new(false), seen: AtomicU64::new(0), bad: AtomicU64::new(0), ooo: AtomicU64::new(0),
                               last: AtomicI64::new(-1), max_filled: AtomicI64::new(-1), add: if stages == 2 { 1_000_000 } else { 0 } });
    let sh2 = sh.clone();
    let (tx, rx) = mpsc::channel();
    std::thread::spawn(move || {
        macro_rules! seqr { ($p:expr, $W:ty) => {{
            let p = $p.with_wait_strategy::<$W>();
            match (multi, route % 2) {
                (false, 0) => go!(p.with_sequencer(SingleProducerSequencer::new(size, <$W as WaitStrategy>::new())), stages, n, sh2.clone(), size),
                (false, _) => go!(p.with_single_producer(), stages, n, sh2.clone(), size),
                (true, 0) => go!(p.with_sequencer(MultiProducerSequencer::new(size, <$W as WaitStrategy>::new())), stages, n, sh2.clone(), size),
                (true, _) => go!(p.with_multi_producer(), stages, n, sh2.clone(), size),
            }
        }}; }
        macro_rules! prov { ($W:ty) => {
            if route >= 2 && size == 8 { seqr!(RustDisruptorBuilder::with_ring_buffer::<u64, 8>(8), $W) }
            else if route >= 2 && size == 64 { seqr!(RustDisruptorBuilder::with_ring_buffer::<u64, 64>(64), $W) }
            else { seqr!(RustDisruptorBuilder::new(Arc::new(ModRing::new(size))), $W) }
        }; }
        let during = if block { prov!(BlockingWaitStrategy) } else { prov!(SpinLoopWaitStrategy) };
        let _ = tx.send(during);
    });
    let (st, during) = match rx.recv_timeout(Duration::from_millis(6000)) {
        Ok(d) => (1, d as i128),
        Err(_) => { crate::seqapi::BLOCKED.store(true, Ordering::SeqCst); (-888, sh.max_filled.load(Ordering::SeqCst) as i128) }
    };
    vec![st, during, sh.seen.load(Ordering::SeqCst) as i128, sh.bad.load(Ordering::SeqCst) as i128, sh.ooo.load(Ordering::SeqCst) as i128]
}
