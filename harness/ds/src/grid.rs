// ArrayGrid harness. line: grid kind W H D C ops..  op: 0 x y z t v (set) | 1 x y z t (get)
// output: the values read by the gets (a panic anywhere yields -999 for the case)
use dcl_data_structures::prelude::*;

fn point(kind: i128, a: &[i128]) -> PointIndex {
    let (x, y, z, t) = (a[0] as usize, a[1] as usize, a[2] as usize, a[3] as usize);
    match kind {
        1 => PointIndex::new1d(x),
        2 => PointIndex::new2d(x, y),
        3 => PointIndex::new3d(x, y, z),
        _ => PointIndex::new4d(x, y, z, t),
    }
}

// element types: i64, and [gridnz] a type whose Default is NOT the all-zero bit pattern (Nz(-1)); values are stored shifted by one
// so that the default reads as 0 and the outputs are those of the i64 grid
pub trait Elem: Copy + Default + PartialEq + std::fmt::Debug { fn mk(v: i128) -> Self; fn back(self) -> i128; }
impl Elem for i64 { fn mk(v: i128) -> Self { v as i64 } fn back(self) -> i128 { self as i128 } }
#[derive(Copy, Clone, PartialEq, Debug)]
pub struct Nz(i64);
impl Default for Nz { fn default() -> Self { Nz(-1) } }
impl Elem for Nz { fn mk(v: i128) -> Self { Nz((v as i64).wrapping_sub(1)) } fn back(self) -> i128 { self.0.wrapping_add(1) as i128 } }

fn drive<E: Elem, const W: usize, const H: usize, const D: usize, const C: usize>(kind: i128, ops: &[i128], rec: bool) -> Vec<i128> {
    let ty = match kind {
        1 => ArrayType::Array1D,
        2 => ArrayType::Array2D,
        3 => ArrayType::Array3D,
        _ => ArrayType::Array4D,
    };
    let g: ArrayGrid<E, W, H, D, C> = ArrayGrid::new(ty);
    let mut out = Vec::new();
    let mut i = 0;
    while i + 4 < ops.len() {
        // the point is always built with the full coordinate tuple of a 4D point type when the
        // grid is 4D etc.; PointIndex carries all four fields regardless of its type tag
        let p = point(kind, &ops[i + 1..i + 5]);
        if ops[i] == 0 {
            if rec {
                // [gridrec]: every operation on its own; a panicking store answers -998 and the SAME grid is used on
                let v = E::mk(ops[i + 5]);
                if std::panic::catch_unwind(std::panic::AssertUnwindSafe(|| g.set(p, v))).is_err() { out.push(-998); }
            } else {
                g.set(p, E::mk(ops[i + 5]));
            }
            i += 6;
        } else {
            if rec {
                out.push(std::panic::catch_unwind(std::panic::AssertUnwindSafe(|| g.get(p).back())).unwrap_or(-999));
            } else {
                out.push(g.get(p).back());
            }
            i += 5;
        }
    }
    out
}

macro_rules! shapes {
    ($kind:expr, $w:expr, $h:expr, $d:expr, $c:expr, $ops:expr, $rec:expr, $nz:expr; $( ($W:literal,$H:literal,$D:literal,$C:literal) ),* ) => {
        match ($w, $h, $d, $c) {
            $( ($W, $H, $D, $C) => if $nz { drive::<Nz, $W, $H, $D, $C>($kind, $ops, $rec) } else { drive::<i64, $W, $H, $D, $C>($kind, $ops, $rec) }, )*
            _ => vec![-556],
        }
    };
}

pub fn run(args: &[i128]) -> Vec<i128> { run_mode(args, false, false) }
pub fn run_rec(args: &[i128]) -> Vec<i128> { run_mode(args, true, false) }
pub fn run_nz(args: &[i128]) -> Vec<i128> { run_mode(args, false, true) }

fn run_mode(args: &[i128], rec: bool, nz: bool) -> Vec<i128> {
    let kind = args[0];
    let (w, h, d, c) = (args[1], args[2], args[3], args[4]);
    let ops = &args[5..];
    shapes!(kind, w, h, d, c, ops, rec, nz;
        (1,1,1,1),(1,1,1,2),(1,1,2,1),(1,2,1,1),(2,1,1,1),(1,2,3,1),(3,2,1,1),(1,1,3,2),
        (2,2,2,2),(1,2,3,4),(4,3,2,1),(2,3,1,2),(3,1,2,2),(2,1,3,1),(3,3,1,2),(1,3,2,3),
        (2,3,4,5),(5,4,3,2),(3,5,2,4),(4,2,5,3),(2,2,3,3),(3,3,2,2),(3,2,3,2),(2,3,2,3),
        (3,3,3,3),(5,1,1,1),(1,5,1,1),(1,1,5,1),(1,1,1,5),(5,5,2,2),(2,2,5,5),(4,4,4,4),
        (300,300,1,1),(42,41,40,1),(17,16,17,16),(1,70000,1,1))      // the last four: more than 65 536 cells
}
