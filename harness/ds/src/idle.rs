// Real-time probe of a pipeline that stays IDLE for a while (plain build, real threads, no scheduler).
// line: idleprobe block multi idle_ms nevents
// A pipeline with one counting handler is built through the DSL; the main thread sleeps idle_ms (the handler thread keeps waiting:
// spinning or parked), then writes nevents events one by one, drains and joins.  output: 1 if write / drain / join all returned
// within the watchdog, else -888; then the number of events the handler saw.
use dcl_data_structures::ring_buffer::prelude::*;
use std::sync::atomic::{AtomicU64, Ordering};
use std::sync::{mpsc, Arc};
use std::time::Duration;

struct Count(Arc<AtomicU64>);
impl EventHandler<u64> for Count {
    fn handle_event(&self, _e: &u64, _s: u64, _eob: bool) { self.0.fetch_add(1, Ordering::SeqCst); }
}

macro_rules! go {
    ($b:expr, $idle:expr, $n:expr, $seen:expr) => {{
        let (executor, producer) = $b.with_barrier(|scope| { scope.handle_events(Count($seen.clone())); }).build();
        let handle = executor.spawn();
        std::thread::sleep(Duration::from_millis($idle));
        for i in 0..$n { producer.write(std::iter::once(i as u64 + 1), |slot, _, v| *slot = *v); }
        producer.drain();
        handle.join();
    }};
}

pub fn run(args: &[i128]) -> Vec<i128> {
    let (block, multi, idle, n) = (args[0] != 0, args[1] != 0, args[2] as u64, args[3] as usize);
    let seen = Arc::new(AtomicU64::new(0));
    let seen2 = seen.clone();
    let (tx, rx) = mpsc::channel();
    std::thread::spawn(move || {
        let rb = RustDisruptorBuilder::with_ring_buffer::<u64, 8>(8);
        match (block, multi) {
            (true, false) => go!(rb.with_blocking_wait().with_single_producer(), idle, n, seen2),
            (false, false) => go!(rb.with_spin_wait().with_single_producer(), idle, n, seen2),
            (true, true) => go!(rb.with_blocking_wait().with_multi_producer(), idle, n, seen2),
            (false, true) => go!(rb.with_spin_wait().with_multi_producer(), idle, n, seen2),
        }
        let _ = tx.send(());
    });
    match rx.recv_timeout(Duration::from_millis(idle + 4000)) {
        Ok(()) => vec![1, seen.load(Ordering::SeqCst) as i128],
        Err(_) => { crate::seqapi::BLOCKED.store(true, Ordering::SeqCst); vec![-888, seen.load(Ordering::SeqCst) as i128] }
    }
}
