// Producer::write (claim, fill through the data provider, publish) driven from one thread over a data provider of ANY size
// (slots addressed sequence % len, like the providers of the crate's doc examples), without consumers.
// line: prodwrite kind size ng (op a b)*      kind 0 single / 1 multi producer sequencer; the op list is the seqapi format:
//   1 a 0   a write of `a` items follows (performed at the matching op 2)
//   2 s e   the write is performed now; answers  first last cursor-seen-inside-the-first-fill  and then  cursor-after-the-write,
//           i.e. exactly what seqapi answers for next(a) followed by publish(s, e).  An empty write answers (next, next-1, cursor before).
//   3 g v   gating[g].set(v)  -> cursor
// A write that must wait by the documented capacity rule is not performed: the case ends with -777 (as in seqapi).
use dcl_data_structures::ring_buffer::prelude::*;
use std::cell::{Cell, UnsafeCell};
use std::sync::mpsc;
use std::sync::Arc;
use std::time::Duration;

pub struct ModRing { data: Vec<UnsafeCell<u64>> }
unsafe impl Send for ModRing {}
unsafe impl Sync for ModRing {}
impl ModRing { pub fn new(n: usize) -> Self { ModRing { data: (0..n).map(|_| UnsafeCell::new(0)).collect() } } }
impl DataProvider<u64> for ModRing {
    fn buffer_size(&self) -> usize { self.data.len() }
    unsafe fn get_mut(&self, sequence: Sequence) -> &mut u64 { &mut *self.data[sequence as usize % self.data.len()].get() }
    unsafe fn get(&self, sequence: Sequence) -> &u64 { &*self.data[sequence as usize % self.data.len()].get() }
}

fn drive<S: Sequencer>(mut seq: S, multi: bool, size: u64, ng: usize, ops: &[i128]) -> Vec<i128> {
    let gating: Vec<Arc<AtomicSequenceOrdered>> = (0..ng).map(|_| Arc::new(AtomicSequenceOrdered::default())).collect();
    for g in &gating { seq.add_gating_sequence(g); }
    let cursor = seq.get_cursor();
    let dp = Arc::new(ModRing::new(size as usize));
    let producer = Producer::new(dp.clone(), seq);
    let mut out = Vec::new();
    let mut gv = vec![0u64; ng];
    let mut claimed: u64 = 0;
    let mut next: u64 = if multi { 1 } else { 0 };
    let mut pending: usize = 0;
    for ch in ops.chunks(3) {
        match ch[0] {
            1 => { pending = ch[1] as usize; continue; }
            2 => {
                let c = pending as u64;
                let ming = gv.iter().copied().min().unwrap_or(0);
                let blocks = if multi { !(claimed.saturating_sub(ming) + c < size) } else { c == 0 || ming + size < claimed + c - 1 };
                if blocks { out.push(-777); return out; }
                let before = cursor.get();
                let first = Cell::new(-1i128); let last = Cell::new(-1i128); let inside = Cell::new(before as i128);
                let n = Cell::new(0u64);
                let items: Vec<u64> = (0..c).map(|k| 1000 + claimed + k).collect();
                producer.write(items, |slot: &mut u64, s, item: &u64| {
                    if n.get() == 0 { first.set(s as i128); inside.set(cursor.get() as i128); }
                    last.set(s as i128); n.set(n.get() + 1); *slot = *item;
                });
                if n.get() != c { out.push(-555); return out; }           // the closure was not called once per item
                if c == 0 { out.push(next as i128); out.push(next as i128 - 1); } else { out.push(first.get()); out.push(last.get()); }
                out.push(inside.get());
                claimed += c; next += c;
                // every item must be readable through the provider at its sequence
                for k in 0..c { if unsafe { *dp.get(first.get() as u64 + k) } != 1000 + claimed - c + k && c <= size { out.push(-556); return out; } }
            }
            _ => { gv[ch[1] as usize] = ch[2] as u64; gating[ch[1] as usize].set(ch[2] as u64) }
        }
        out.push(cursor.get() as i128);
    }
    out
}

pub fn run(args: &[i128]) -> Vec<i128> {
    let args: Vec<i128> = args.to_vec();
    let (tx, rx) = mpsc::channel();
    std::thread::spawn(move || {
        let (kind, size, ng) = (args[0], args[1] as usize, args[2] as usize);
        let r = std::panic::catch_unwind(|| {
            if kind == 0 { drive(SingleProducerSequencer::new(size, SpinLoopWaitStrategy::new()), false, size as u64, ng, &args[3..]) }
            else { drive(MultiProducerSequencer::new(size, SpinLoopWaitStrategy::new()), true, size as u64, ng, &args[3..]) }
        });
        let _ = tx.send(r.unwrap_or_else(|_| vec![-999]));
    });
    match rx.recv_timeout(Duration::from_millis(1500)) {
        Ok(v) => v,
        Err(_) => { crate::seqapi::BLOCKED.store(true, std::sync::atomic::Ordering::SeqCst); vec![-888] }
    }
}
