// Real-time probe of the MANUALLY WIRED multi-producer pattern of the module documentation (producer/multi_producer.rs): the barrier
// is created from the sequencer, the producer is built around a CLONE of it (Producer::new(provider, sequencer.clone())), events are
// written through the clone and the pipeline is shut down by draining the clone.  Plain build, real threads.
// line: cloneprobe block nevents     output: 1 if write / drain / join all returned within the watchdog (else -888), events handled
use dcl_data_structures::ring_buffer::prelude::*;
use std::sync::atomic::{AtomicU64, Ordering};
use std::sync::{mpsc, Arc};
use std::time::Duration;

struct Count(Arc<AtomicU64>);
impl EventHandler<u64> for Count {
    fn handle_event(&self, _e: &u64, _s: u64, _eob: bool) { self.0.fetch_add(1, Ordering::SeqCst); }
}

fn go<W: WaitStrategy + 'static>(n: usize, seen: Arc<AtomicU64>) {
    let dp = Arc::new(crate::prodwrite::ModRing::new(8));
    let mut sequencer = MultiProducerSequencer::new(8, W::new());
    let processor = BatchEventProcessor::create(Count(seen));
    let hcur = processor.get_cursor();
    let barrier = sequencer.create_barrier(&[sequencer.get_cursor()]);
    sequencer.add_gating_sequence(&hcur);
    let runnable = processor.prepare(barrier, dp.clone());
    let producer = Producer::new(dp.clone(), sequencer.clone());       // the documented pattern: one producer per clone
    // a further barrier on the handler's cursor, used as a read-only monitor of consumer progress and dropped while the pipeline
    // is still in use: barriers are independent objects, dropping one must not stop anybody
    let monitor = sequencer.create_barrier(&[hcur.clone()]);
    let t = std::thread::spawn(move || runnable.run());
    let mut monitor = Some(monitor);
    for i in 0..n {
        producer.write(std::iter::once(i as u64 + 1), |slot, _, v| *slot = *v);
        if i == 0 { if let Some(m) = monitor.take() { let _ = m.wait_for(1); drop(m); } }
    }
    drop(monitor);
    producer.drain();
    let _ = t.join();
    drop(sequencer);
}

pub fn run(args: &[i128]) -> Vec<i128> {
    let (block, n) = (args[0] != 0, args[1] as usize);
    let seen = Arc::new(AtomicU64::new(0));
    let seen2 = seen.clone();
    let (tx, rx) = mpsc::channel();
    std::thread::spawn(move || {
        if block { go::<BlockingWaitStrategy>(n, seen2) } else { go::<SpinLoopWaitStrategy>(n, seen2) }
        let _ = tx.send(());
    });
    match rx.recv_timeout(Duration::from_millis(4000)) {
        Ok(()) => vec![1, seen.load(Ordering::SeqCst) as i128],
        Err(_) => { crate::seqapi::BLOCKED.store(true, Ordering::SeqCst); vec![-888, seen.load(Ordering::SeqCst) as i128] }
    }
}
