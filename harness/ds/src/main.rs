// Correspondence harness for dcl_data_structures (bitmap, sliding window, grid).
// stdin : one case per line: <family> <int> ...
// stdout: one line per case: <int> ...   ("PANIC" if the implementation panicked)
use std::io::{self, BufRead, Write};
use std::panic;

mod bitmap;
mod grid;
mod ringslots;
mod idle;
mod seqapi;
mod prodwrite;
mod cloneprobe;
mod lagprobe;

fn run_case(fam: &str, args: &[i128]) -> Vec<i128> {
    match fam {
        "bitmap" => bitmap::run(args),
        "grid" => grid::run(args),
        "gridrec" => grid::run_rec(args),
        "gridnz" => grid::run_nz(args),
        "seqapi" => seqapi::run(args),
        "seqclone" => seqapi::run_clones(args),
        "ringslots" => ringslots::run(args),
        "idleprobe" => idle::run(args),
        "prodwrite" => prodwrite::run(args),
        "cloneprobe" => cloneprobe::run(args),
        "lagprobe" => lagprobe::run(args),
        _ => panic!("unknown family {fam}"),
    }
}

fn main() {
    panic::set_hook(Box::new(|_| {}));
    let stdin = io::stdin();
    let stdout = io::stdout();
    let mut out = io::BufWriter::new(stdout.lock());
    for line in stdin.lock().lines() {
        let line = line.unwrap();
        let mut it = line.split_ascii_whitespace();
        let fam = match it.next() {
            Some(f) => f.to_string(),
            None => {
                writeln!(out).unwrap();
                continue;
            }
        };
        let args: Vec<i128> = it.map(|t| t.parse::<i128>().expect("int")).collect();
        let res = panic::catch_unwind(|| run_case(&fam, &args));
        match res {
            Ok(v) => {
                let s: Vec<String> = v.iter().map(|x| x.to_string()).collect();
                writeln!(out, "{}", s.join(" ")).unwrap();
            }
            Err(_) => writeln!(out, "-999").unwrap(),
        }
        out.flush().unwrap();
        if seqapi::BLOCKED.load(std::sync::atomic::Ordering::SeqCst) {
            std::process::exit(3); // a blocked call left a spinning thread behind: the caller restarts the harness for the remaining lines
        }
    }
}
