// Deterministic scheduler for the hooked ring buffer: real OS threads, exactly one runnable at a time.
// Every synchronisation operation of the ring buffer is a scheduling point (SyncHook::before); the
// scheduler picks the next thread (seeded random / PCT-like priorities / round robin / replay) and logs
// every operation with the arguments the call site really passed and the value it observed.
use dcl_data_structures::ring_buffer::verif_sync::*;
use std::cell::Cell;
use std::sync::{Arc, Condvar as StdCondvar, Mutex as StdMutex};

#[derive(Clone, Debug)]
pub struct Event {
    pub tid: usize,
    pub kind: u8,     // SyncOp kinds, plus 12 = cv_wake, 20.. harness markers
    pub addr: usize,
    pub ord: u8,
    pub ord2: u8,
    pub a: u64,
    pub b: u64,
    pub observed: u64,
    pub ok: bool,
}

pub const K_CV_WAKE: u8 = 12;
pub const K_THREAD_START: u8 = 20;
pub const K_THREAD_END: u8 = 21;
pub const K_FILL: u8 = 22;        // a = sequence, b = payload written
pub const K_CALL: u8 = 23;        // addr = handler id, a = sequence, b = payload seen, observed = eob
pub const K_RET: u8 = 24;         // addr = handler id, a = sequence, b = payload left
pub const K_WRITE_CALL: u8 = 25;  // a = batch length
pub const K_WRITE_RET: u8 = 26;
pub const K_DRAIN_CALL: u8 = 27;
pub const K_DRAIN_RET: u8 = 28;
pub const K_JOINED: u8 = 29;

#[derive(Clone, Debug, PartialEq)]
enum Status {
    NotStarted,
    Ready(u8),          // at a scheduling point, about to perform an op of this kind
    Running,
    CvBlocked,          // parked in cv_wait
    Reacquire,          // notified, needs the mutex
    WaitJoin(Vec<usize>),
    Finished,
}

pub struct State {
    status: Vec<Status>,
    current: Option<usize>,
    mutex_holder: Option<usize>,
    pub trace: Vec<Event>,
    pub schedule: Vec<usize>,
    rng: u64,
    strategy: u8,         // 0 random, 1 pct, 2 round robin
    prio: Vec<u64>,
    change_points: Vec<usize>,
    quantum_left: usize,
    replay: Vec<usize>,
    replay_pos: usize,
    pub steps: usize,
    budget: usize,
    pub outcome: u8,      // 0 running, 1 all finished, 2 deadlock, 3 budget exhausted
    spurious: bool,
    last_seen: Vec<std::collections::HashMap<usize, u64>>,   // spin damping: last value observed per thread and location
    repeats: Vec<u32>,
}

pub struct Sched {
    pub st: StdMutex<State>,
    cv: StdCondvar,
}

thread_local! { static TID: Cell<Option<usize>> = Cell::new(None); }

fn xorshift(x: &mut u64) -> u64 {
    let mut v = *x;
    v ^= v << 13; v ^= v >> 7; v ^= v << 17;
    *x = v; v
}

impl Sched {
    pub fn new(nthreads: usize, seed: u64, strategy: u8, budget: usize, replay: Vec<usize>, spurious: bool) -> Arc<Sched> {
        let mut rng = seed.wrapping_mul(0x9E3779B97F4A7C15) | 1;
        let prio = (0..nthreads).map(|_| xorshift(&mut rng)).collect();
        let change_points = (0..3).map(|_| (xorshift(&mut rng) % 400) as usize).collect();
        Arc::new(Sched {
            st: StdMutex::new(State {
                status: vec![Status::NotStarted; nthreads], current: None, mutex_holder: None, trace: Vec::new(), schedule: Vec::new(),
                rng, strategy, prio, change_points, quantum_left: 0, replay, replay_pos: 0, steps: 0, budget, outcome: 0, spurious,
                last_seen: vec![std::collections::HashMap::new(); nthreads], repeats: vec![0; nthreads],
            }),
            cv: StdCondvar::new(),
        })
    }

    pub fn my_tid() -> Option<usize> { TID.with(|t| t.get()) }

    fn enabled(st: &State, t: usize) -> bool {
        match &st.status[t] {
            Status::Ready(k) => *k != K_LOCK || st.mutex_holder.is_none(),
            Status::Reacquire => st.mutex_holder.is_none(),
            Status::WaitJoin(ts) => ts.iter().all(|x| st.status[*x] == Status::Finished),
            Status::CvBlocked => false,
            _ => false,
        }
    }

    // choose the next thread to run; called with the state locked by a thread that is giving up control
    fn pick_next(&self, st: &mut State) {
        if st.outcome != 0 { return; }
        st.steps += 1;
        let n = st.status.len();
        let mut cands: Vec<usize> = (0..n).filter(|t| Self::enabled(st, *t)).collect();
        if st.spurious && (xorshift(&mut st.rng) % 23 == 0) {
            // a spurious wake-up of one parked thread (std's Condvar allows it)
            let parked: Vec<usize> = (0..n).filter(|t| st.status[*t] == Status::CvBlocked).collect();
            if !parked.is_empty() {
                let p = parked[(xorshift(&mut st.rng) as usize) % parked.len()];
                st.status[p] = Status::Reacquire;
                if st.mutex_holder.is_none() { cands.push(p); }
            }
        }
        if cands.is_empty() {
            st.outcome = if st.status.iter().all(|s| *s == Status::Finished) { 1 } else { 2 };
            st.current = None;
            self.cv.notify_all();
            return;
        }
        if st.steps > st.budget {
            st.outcome = 3; st.current = None; self.cv.notify_all(); return;
        }
        let chosen = if st.replay_pos < st.replay.len() {
            let c = st.replay[st.replay_pos]; st.replay_pos += 1;
            if cands.contains(&c) { c } else { cands[0] }
        } else {
            match st.strategy {
                1 => {
                    if st.change_points.contains(&st.steps) {
                        let k = (xorshift(&mut st.rng) as usize) % n;
                        st.prio[k] = xorshift(&mut st.rng) % 1000;      // demote
                    }
                    // spinning threads must not starve the others forever: small random perturbation
                    if xorshift(&mut st.rng) % 8 == 0 { cands[(xorshift(&mut st.rng) as usize) % cands.len()] }
                    else { *cands.iter().max_by_key(|t| st.prio[**t]).unwrap() }
                }
                2 => {
                    let cur = st.current.unwrap_or(0);
                    if st.quantum_left > 0 && cands.contains(&cur) { st.quantum_left -= 1; cur }
                    else {
                        st.quantum_left = (xorshift(&mut st.rng) % 6) as usize;
                        *cands.iter().find(|t| **t > cur).unwrap_or(&cands[0])
                    }
                }
                _ => {
                    // seeded random, damped for threads that keep re-reading the same value (spin loops):
                    // every interleaving stays possible, pointless spinning becomes rare
                    let weights: Vec<u64> = cands.iter().map(|t| 1024 >> st.repeats[*t].min(8)).collect();
                    let total: u64 = weights.iter().sum();
                    let mut x = xorshift(&mut st.rng) % total;
                    let mut pick = cands[0];
                    for (c, w) in cands.iter().zip(weights.iter()) { if x < *w { pick = *c; break; } x -= *w; }
                    pick
                }
            }
        };
        st.schedule.push(chosen);
        st.current = Some(chosen);
        self.cv.notify_all();
    }

    fn wait_turn<'a>(&'a self, mut st: std::sync::MutexGuard<'a, State>, me: usize) -> std::sync::MutexGuard<'a, State> {
        while st.current != Some(me) && st.outcome == 0 {
            st = self.cv.wait(st).unwrap();
        }
        if st.outcome != 0 && st.current != Some(me) {
            // the run was aborted (deadlock / budget): this thread will never be scheduled again
            drop(st);
            loop { std::thread::park(); }
        }
        st
    }

    pub fn thread_start(&self, tid: usize) {
        TID.with(|t| t.set(Some(tid)));
        let mut st = self.st.lock().unwrap();
        st.status[tid] = Status::Ready(K_THREAD_START);
        self.cv.notify_all();
        st = self.wait_turn(st, tid);
        st.status[tid] = Status::Running;
        st.trace.push(Event { tid, kind: K_THREAD_START, addr: 0, ord: 9, ord2: 9, a: 0, b: 0, observed: 0, ok: true });
    }

    // the very first thread starts running without being picked
    pub fn main_start(&self, tid: usize) {
        TID.with(|t| t.set(Some(tid)));
        let mut st = self.st.lock().unwrap();
        st.status[tid] = Status::Running;
        st.current = Some(tid);
        st.trace.push(Event { tid, kind: K_THREAD_START, addr: 0, ord: 9, ord2: 9, a: 0, b: 0, observed: 0, ok: true });
    }

    pub fn thread_end(&self) {
        let me = Self::my_tid().unwrap();
        let mut st = self.st.lock().unwrap();
        st.trace.push(Event { tid: me, kind: K_THREAD_END, addr: 0, ord: 9, ord2: 9, a: 0, b: 0, observed: 0, ok: true });
        st.status[me] = Status::Finished;
        self.pick_next(&mut st);
    }

    pub fn join_wait(&self, tids: Vec<usize>) {
        let me = Self::my_tid().unwrap();
        let mut st = self.st.lock().unwrap();
        st.status[me] = Status::WaitJoin(tids);
        self.pick_next(&mut st);
        st = self.wait_turn(st, me);
        st.status[me] = Status::Running;
        st.trace.push(Event { tid: me, kind: K_JOINED, addr: 0, ord: 9, ord2: 9, a: 0, b: 0, observed: 0, ok: true });
    }

    /// a scheduling point that is not a synchronisation operation: user code (an event handler) takes time, other
    /// threads may run before it starts and while it runs
    pub fn yield_point(&self, kind: u8) {
        let me = match Self::my_tid() { Some(t) => t, None => return };
        let mut st = self.st.lock().unwrap();
        if st.outcome != 0 { drop(st); loop { std::thread::park(); } }
        st.status[me] = Status::Ready(kind);
        self.pick_next(&mut st);
        st = self.wait_turn(st, me);
        st.status[me] = Status::Running;
    }

    pub fn mark(&self, kind: u8, addr: usize, a: u64, b: u64, observed: u64) {
        if let Some(me) = Self::my_tid() {
            let mut st = self.st.lock().unwrap();
            st.trace.push(Event { tid: me, kind, addr, ord: 9, ord2: 9, a, b, observed, ok: true });
        }
    }

    /// real-time wait until the given threads have registered with the scheduler (determinism: a thread
    /// that exists must be a scheduling candidate from the moment its creator continues)
    pub fn await_registered(&self, tids: &[usize]) {
        let mut st = self.st.lock().unwrap();
        while tids.iter().any(|t| st.status[*t] == Status::NotStarted) {
            st = self.cv.wait(st).unwrap();
        }
    }

    pub fn abort(&self, outcome: u8) {
        let mut st = self.st.lock().unwrap();
        if st.outcome == 0 { st.outcome = outcome; st.current = None; }
        self.cv.notify_all();
    }

    pub fn wait_done(&self) -> u8 {
        let mut st = self.st.lock().unwrap();
        while st.outcome == 0 { st = self.cv.wait(st).unwrap(); }
        st.outcome
    }
}

impl SyncHook for Sched {
    fn before(&self, op: &SyncOp) {
        let me = match Self::my_tid() { Some(t) => t, None => return };
        let mut st = self.st.lock().unwrap();
        if st.outcome != 0 { drop(st); loop { std::thread::park(); } }
        st.status[me] = Status::Ready(op.kind);
        self.pick_next(&mut st);
        st = self.wait_turn(st, me);
        st.status[me] = Status::Running;
        match op.kind {
            K_LOCK => st.mutex_holder = Some(me),
            K_UNLOCK => st.mutex_holder = None,
            K_NOTIFY_ALL => {
                for t in 0..st.status.len() { if st.status[t] == Status::CvBlocked { st.status[t] = Status::Reacquire; } }
            }
            _ => {}
        }
    }

    fn after(&self, op: &SyncOp, observed: u64, ok: bool) {
        let me = match Self::my_tid() { Some(t) => t, None => return };
        let mut st = self.st.lock().unwrap();
        // unproductive = re-reading an unchanged value, or the lock / notify / unlock of a signal
        let unproductive = match op.kind {
            K_LOAD | K_BOOL_LOAD => st.last_seen[me].insert(op.addr, observed) == Some(observed),
            K_LOCK | K_UNLOCK | K_NOTIFY_ALL => true,
            K_CMPXCHG => !ok,
            _ => false,
        };
        if unproductive { st.repeats[me] += 1; } else { st.repeats[me] = 0; }
        st.trace.push(Event { tid: me, kind: op.kind, addr: op.addr, ord: op.ord, ord2: op.ord2, a: op.a, b: op.b, observed, ok });
    }

    fn cv_wait(&self, op: &SyncOp) {
        let me = match Self::my_tid() { Some(t) => t, None => return };
        let mut st = self.st.lock().unwrap();
        if st.outcome != 0 { drop(st); loop { std::thread::park(); } }
        // scheduling point before the wait itself (the thread holds the mutex here)
        st.status[me] = Status::Ready(K_CV_WAIT);
        self.pick_next(&mut st);
        st = self.wait_turn(st, me);
        // atomically: release the mutex and park
        st.mutex_holder = None;
        st.status[me] = Status::CvBlocked;
        st.trace.push(Event { tid: me, kind: K_CV_WAIT, addr: op.addr, ord: 9, ord2: 9, a: 0, b: op.b, observed: 0, ok: true });
        self.pick_next(&mut st);
        st = self.wait_turn(st, me);
        st.status[me] = Status::Running;
        st.mutex_holder = Some(me);
        st.trace.push(Event { tid: me, kind: K_CV_WAKE, addr: op.addr, ord: 9, ord2: 9, a: 0, b: op.b, observed: 0, ok: true });
    }
}
