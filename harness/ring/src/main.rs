// Ring-buffer harness: builds a pipeline with the public builder API, runs it under the deterministic
// scheduler (src/sched.rs) and prints the complete trace of synchronisation operations, slot accesses,
// fills and handler calls.
// stdin: one run per line:
//   N kind wait nstages (nh type*)* nwriters (nbatches size*)* seed strategy budget spurious drain [schedule...]
mod sched;
use dcl_data_structures::ring_buffer::prelude::*;
use dcl_data_structures::ring_buffer::verif_sync::{install_hook, remove_hook};
use sched::*;
use std::io::{self, BufRead, Write};
use std::sync::Arc;

#[derive(Clone, Debug)]
struct Cfg {
    n: usize, multi: bool, block: bool,
    stages: Vec<Vec<u8>>,          // handler kinds per stage: 0 immutable, 1 mutable
    writers: Vec<Vec<usize>>,      // batch sizes per writer
    seed: u64, strategy: u8, budget: usize, spurious: bool, drain: u8, replay: Vec<usize>,
}

fn parse(line: &str) -> Cfg {
    let v: Vec<u64> = line.split_ascii_whitespace().map(|t| t.parse().unwrap()).collect();
    let mut p = 0;
    let mut nx = || { let x = v[p]; p += 1; x };
    let n = nx() as usize; let multi = nx() != 0; let block = nx() != 0;
    let ns = nx() as usize; let mut stages = Vec::new();
    for _ in 0..ns { let nh = nx() as usize; stages.push((0..nh).map(|_| nx() as u8).collect()); }
    let nw = nx() as usize; let mut writers = Vec::new();
    for _ in 0..nw { let nb = nx() as usize; writers.push((0..nb).map(|_| nx() as usize).collect()); }
    let seed = nx(); let strategy = nx() as u8; let budget = nx() as usize; let spurious = nx() != 0; let drain = nx() as u8;
    let mut replay = Vec::new();
    while p < v.len() { replay.push(v[p] as usize); p += 1; }
    Cfg { n, multi, block, stages, writers, seed, strategy, budget, spurious, drain, replay }
}

struct Handler { id: usize, sched: Arc<Sched> }
impl EventHandler<u64> for Handler {
    fn handle_event(&self, event: &u64, sequence: Sequence, eob: bool) {
        self.sched.yield_point(K_CALL);
        self.sched.mark(K_CALL, self.id, sequence, *event, eob as u64);
        self.sched.yield_point(K_RET);
        self.sched.mark(K_RET, self.id, sequence, *event, 0);
    }
}
struct HandlerMut { id: usize, sched: Arc<Sched> }
impl EventHandlerMut<u64> for HandlerMut {
    fn handle_event(&mut self, event: &mut u64, sequence: Sequence, eob: bool) {
        self.sched.yield_point(K_CALL);
        self.sched.mark(K_CALL, self.id, sequence, *event, eob as u64);
        self.sched.yield_point(K_RET);
        *event = event.wrapping_mul(1000003).wrapping_add(self.id as u64 + 1);
        self.sched.mark(K_RET, self.id, sequence, *event, 0);
    }
}

struct HarnessExecutor<'a> { runnables: Vec<Box<dyn Runnable + 'a>> }
struct HarnessHandle { threads: Vec<std::thread::JoinHandle<()>> }
thread_local! { static CUR_SCHED: std::cell::RefCell<Option<Arc<Sched>>> = std::cell::RefCell::new(None); }
impl<'a> EventProcessorExecutor<'a> for HarnessExecutor<'a> {
    type Handle = HarnessHandle;
    fn with_runnables(items: Vec<Box<dyn Runnable + 'a>>) -> Self { Self { runnables: items } }
    fn spawn(self) -> HarnessHandle {
        let sched = CUR_SCHED.with(|s| s.borrow().clone().unwrap());
        let mut threads = Vec::new();
        for (i, r) in self.runnables.into_iter().enumerate() {
            let b = unsafe { std::mem::transmute::<Box<dyn Runnable + 'a>, Box<dyn Runnable + 'static>>(r) };
            let s = sched.clone();
            threads.push(std::thread::spawn(move || {
                s.thread_start(i + 1);
                if std::panic::catch_unwind(std::panic::AssertUnwindSafe(|| b.run())).is_err() { s.abort(5); return; }
                s.thread_end();
            }));
        }
        let tids: Vec<usize> = (1..=threads.len()).collect();
        sched.await_registered(&tids);
        HarnessHandle { threads }
    }
}
impl ExecutorHandle for HarnessHandle {
    fn join(self) { for t in self.threads { let _ = t.join(); } }
}

struct Ranges { pcur: usize, hcur: Vec<usize>, prod: (usize, usize), ws: Vec<(usize, usize)> }

fn classify(r: &Ranges, e: &Event) -> (u8, u64) {
    match e.kind {
        7 | 8 => (4, 0),
        9 | 10 => (5, 0),
        11 | 12 | 13 => (6, 0),
        14 | 15 => (7, e.a),
        1..=6 => {
            if e.addr >= r.pcur && e.addr < r.pcur + 64 { return (1, 0); }
            for (k, h) in r.hcur.iter().enumerate() { if e.addr >= *h && e.addr < *h + 64 { return (2, k as u64); } }
            if e.addr >= r.prod.0 && e.addr < r.prod.0 + r.prod.1 { return (3, (e.addr - r.prod.0) as u64); }
            (9, e.addr as u64)
        }
        _ => (0, e.addr as u64),
    }
}

macro_rules! writers {
    (single, $cfg:expr, $sched:expr, $nh:expr, $producer:expr) => {
        let mut k = 0u64;
        for bs in $cfg.writers[0].iter() {
            let items: Vec<u64> = (0..*bs).map(|_| { k += 1; (1u64 << 32) | k }).collect();
            $sched.mark(K_WRITE_CALL, 0, *bs as u64, 0, 0);
            EventProducer::write(&*$producer, items, |slot: &mut u64, seq, item: &u64| { *slot = *item; $sched.mark(K_FILL, 0, seq, *item, 0); });
            $sched.mark(K_WRITE_RET, 0, *bs as u64, 0, 0);
        }
    };
    (multi, $cfg:expr, $sched:expr, $nh:expr, $producer:expr) => {
        let mut tids = Vec::new();
        let mut ws = Vec::new();
        for (w, batches) in $cfg.writers.iter().enumerate() {
            let tid = $nh + 1 + w; tids.push(tid);
            let (s, p, bt) = ($sched.clone(), $producer.clone(), batches.clone());
            ws.push(std::thread::spawn(move || {
                s.thread_start(tid);
                let s2 = s.clone();
                let body = std::panic::AssertUnwindSafe(move || {
                let s = s2;
                let mut k = 0u64;
                for bs in bt.iter() {
                    let items: Vec<u64> = (0..*bs).map(|_| { k += 1; ((w as u64 + 1) << 32) | k }).collect();
                    s.mark(K_WRITE_CALL, w, *bs as u64, 0, 0);
                    EventProducer::write(&*p, items, |slot: &mut u64, seq, item: &u64| { *slot = *item; s.mark(K_FILL, w, seq, *item, 0); });
                    s.mark(K_WRITE_RET, w, *bs as u64, 0, 0);
                }
                });
                if std::panic::catch_unwind(body).is_err() { s.abort(5); return; }
                s.thread_end();
            }));
        }
        $sched.await_registered(&tids);
        $sched.join_wait(tids);
        for t in ws.drain(..) { let _ = t.join(); }
    };
}

macro_rules! pipeline {
    ($mode:ident, $cfg:expr, $sched:expr, $W:ty, $N:literal, $mk:expr) => {{
        let cfg: &Cfg = $cfg; let sched: &Arc<Sched> = $sched;
        let sequencer = $mk;
        let pcur = Arc::as_ptr(&sequencer.get_cursor()) as usize;
        let mut hcur: Vec<usize> = Vec::new();
        let mut hid = 0usize;
        let builder = RustDisruptorBuilder::with_ring_buffer::<u64, $N>($N).with_wait_strategy::<$W>().with_sequencer(sequencer);
        let mut mk_stage = |scope: &mut BarrierScope<'static, _, RingBuffer<u64, $N>, u64>, kinds: &Vec<u8>| {
            for k in kinds {
                if *k == 0 {
                    let p = BatchEventProcessor::create(Handler { id: hid, sched: sched.clone() });
                    hcur.push(Arc::as_ptr(&p.get_cursor()) as usize);
                    scope.handle_events_with(p);
                } else {
                    let p = BatchEventProcessor::create_mut(HandlerMut { id: hid, sched: sched.clone() });
                    hcur.push(Arc::as_ptr(&p.get_cursor()) as usize);
                    scope.handle_events_with(p);
                }
                hid += 1;
            }
        };
        let mut b = builder.with_barrier(|scope| mk_stage(scope, &cfg.stages[0]));
        for st in cfg.stages.iter().skip(1) { b = b.with_barrier(|scope| mk_stage(scope, st)); }
        let (executor, producer) = b.build_with_executor::<HarnessExecutor<'static>>();
        let nh = hid;
        let producer = Arc::new(producer);
        let prod = (Arc::as_ptr(&producer) as *const u8 as usize, std::mem::size_of_val(&*producer));
        *GLOBAL_RANGES.lock().unwrap() = Some(Ranges { pcur, hcur: hcur.clone(), prod, ws: Vec::new() });
        sched.main_start(0);
        let handle = executor.spawn();
        writers!($mode, cfg, sched, nh, producer);
        let producer = match Arc::try_unwrap(producer) { Ok(p) => p, Err(_) => panic!("producer still shared") };
        if cfg.drain == 1 {
            sched.mark(K_DRAIN_CALL, 0, 0, 0, 0);
            producer.drain();
            sched.mark(K_DRAIN_RET, 0, 0, 0, 0);
        } else {
            drop(producer);
        }
        sched.join_wait((1..=nh).collect());
        sched.thread_end();
        handle.join();
        Ranges { pcur, hcur, prod, ws: Vec::new() }
    }};
}

macro_rules! by_n {
    ($mode:ident, $cfg:expr, $sched:expr, $W:ty, $S:ident) => {
        match $cfg.n {
            1 => pipeline!($mode, $cfg, $sched, $W, 1, $S::<$W>::new(1, <$W as WaitStrategy>::new())),
            2 => pipeline!($mode, $cfg, $sched, $W, 2, $S::<$W>::new(2, <$W as WaitStrategy>::new())),
            4 => pipeline!($mode, $cfg, $sched, $W, 4, $S::<$W>::new(4, <$W as WaitStrategy>::new())),
            8 => pipeline!($mode, $cfg, $sched, $W, 8, $S::<$W>::new(8, <$W as WaitStrategy>::new())),
            16 => pipeline!($mode, $cfg, $sched, $W, 16, $S::<$W>::new(16, <$W as WaitStrategy>::new())),
            64 => pipeline!($mode, $cfg, $sched, $W, 64, $S::<$W>::new(64, <$W as WaitStrategy>::new())),
            _ => pipeline!($mode, $cfg, $sched, $W, 128, $S::<$W>::new(128, <$W as WaitStrategy>::new())),
        }
    };
}

fn run_one(cfg: &Cfg) -> (Ranges, Arc<Sched>) {
    let nh: usize = cfg.stages.iter().map(|s| s.len()).sum();
    let nthreads = 1 + nh + if cfg.multi { cfg.writers.len() } else { 0 };
    let sched = Sched::new(nthreads, cfg.seed, cfg.strategy, cfg.budget, cfg.replay.clone(), cfg.spurious);
    install_hook(sched.clone());
    *GLOBAL_SCHED.lock().unwrap() = Some(sched.clone());
    CUR_SCHED.with(|s| *s.borrow_mut() = Some(sched.clone()));
    let r = match (cfg.multi, cfg.block) {
        (false, false) => by_n!(single, cfg, &sched, SpinLoopWaitStrategy, SingleProducerSequencer),
        (false, true) => by_n!(single, cfg, &sched, BlockingWaitStrategy, SingleProducerSequencer),
        (true, false) => by_n!(multi, cfg, &sched, SpinLoopWaitStrategy, MultiProducerSequencer),
        (true, true) => by_n!(multi, cfg, &sched, BlockingWaitStrategy, MultiProducerSequencer),
    };
    (r, sched)
}

// ---- BitMap under concurrency (C19): line "1000000 capacity nthreads (nops (op seq)*)* seed strategy budget [replay...]" ----
// op 0 = set, 1 = unset. Every thread runs its operations on ONE shared BitMap under the scheduler; afterwards the main thread
// reads every residue. Output: RUN / E lines as usual (kind 30 = one BitMap call begins: a = op, b = sequence; kind 31 = it
// returned), then "BITS b0 b1 ..." (is_set of the residues 0..min(capacity,256)-1).
#[derive(Clone)]
struct BmCfg { cap: usize, progs: Vec<Vec<(u8, u64)>>, seed: u64, strategy: u8, budget: usize, replay: Vec<usize> }

fn parse_bm(v: &[u64]) -> BmCfg {
    let mut p = 1;
    let mut nx = || { let x = v[p]; p += 1; x };
    let cap = nx() as usize; let nt = nx() as usize;
    let mut progs = Vec::new();
    for _ in 0..nt { let n = nx() as usize; progs.push((0..n).map(|_| { let o = nx() as u8; let q = nx(); (o, q) }).collect()); }
    let seed = nx(); let strategy = nx() as u8; let budget = nx() as usize;
    let mut replay = Vec::new();
    while p < v.len() { replay.push(v[p] as usize); p += 1; }
    BmCfg { cap, progs, seed, strategy, budget, replay }
}

fn run_bm(cfg: &BmCfg) -> (Vec<u8>, Arc<Sched>) {
    use std::num::NonZeroUsize;
    let nt = cfg.progs.len();
    let sched = Sched::new(1 + nt, cfg.seed, cfg.strategy, cfg.budget, cfg.replay.clone(), false);
    install_hook(sched.clone());
    *GLOBAL_SCHED.lock().unwrap() = Some(sched.clone());
    let bm = Arc::new(BitMap::new(NonZeroUsize::new(cfg.cap).unwrap()));
    sched.main_start(0);
    let mut ths = Vec::new(); let mut tids = Vec::new();
    for (w, prog) in cfg.progs.iter().enumerate() {
        let tid = 1 + w; tids.push(tid);
        let (s, b, pr) = (sched.clone(), bm.clone(), prog.clone());
        ths.push(std::thread::spawn(move || {
            s.thread_start(tid);
            let s2 = s.clone();
            let body = std::panic::AssertUnwindSafe(move || {
                for (o, q) in pr.iter() {
                    s2.mark(30, w, *o as u64, *q, 0);
                    if *o == 0 { b.set(*q) } else { b.unset(*q) }
                    s2.mark(31, w, *o as u64, *q, 0);
                }
            });
            if std::panic::catch_unwind(body).is_err() { s.abort(5); return; }
            s.thread_end();
        }));
    }
    sched.await_registered(&tids);
    sched.join_wait(tids);
    for t in ths.drain(..) { let _ = t.join(); }
    let n = cfg.cap.min(256);
    let bits: Vec<u8> = (0..n).map(|r| bm.is_set(r as u64) as u8).collect();
    sched.thread_end();
    (bits, sched)
}

fn main_bm(v: &[u64]) {
    let cfg = parse_bm(v);
    let cfg2 = cfg.clone();
    let (tx, rx) = std::sync::mpsc::channel();
    std::thread::spawn(move || {
        let res = std::panic::catch_unwind(std::panic::AssertUnwindSafe(|| run_bm(&cfg2)));
        match res {
            Ok((b, sched)) => { let _ = tx.send((Some(b), sched)); }
            Err(_) => { if let Some(s) = GLOBAL_SCHED.lock().unwrap().clone() { s.abort(5); } }
        }
    });
    let (bits, sched) = loop {
        if let Ok(x) = rx.recv_timeout(std::time::Duration::from_millis(20)) { break x; }
        if let Some(s) = GLOBAL_SCHED.lock().unwrap().clone() {
            let o = s.st.lock().unwrap().outcome;
            if o >= 2 { break (None, s); }
        }
    };
    let st = sched.st.lock().unwrap();
    let stdout = io::stdout();
    let mut out = io::BufWriter::new(stdout.lock());
    writeln!(out, "RUN {} {} {}", st.outcome, st.steps, st.trace.len()).unwrap();
    for e in st.trace.iter() {
        let c = if (1..=6).contains(&e.kind) { 9 } else { 0 };
        writeln!(out, "E {} {} {} {} {} {} {} {} {} {}", e.tid, e.kind, c, e.addr, e.ord, e.ord2, e.a, e.b, e.observed, e.ok as u8).unwrap();
    }
    let s: Vec<String> = st.schedule.iter().map(|x| x.to_string()).collect();
    writeln!(out, "SCHED {}", s.join(" ")).unwrap();
    if let Some(b) = bits { let bs: Vec<String> = b.iter().map(|x| x.to_string()).collect(); writeln!(out, "BITS {}", bs.join(" ")).unwrap(); }
    writeln!(out, "END").unwrap();
    out.flush().unwrap();
    let aborted = st.outcome >= 2;
    drop(st);
    remove_hook();
    if aborted { std::process::exit(3); }
}

fn main() {
    let stdin = io::stdin();
    let stdout = io::stdout();
    for line in stdin.lock().lines() {
        let line = line.unwrap();
        if line.trim().is_empty() { continue; }
        if line.starts_with("1000000 ") {
            let v: Vec<u64> = line.split_ascii_whitespace().map(|t| t.parse().unwrap()).collect();
            main_bm(&v);
            continue;
        }
        let cfg = parse(&line);
        // the pipeline runs in its own thread so that an aborted run (deadlock / budget) can be abandoned
        let cfg2 = cfg.clone();
        let (tx, rx) = std::sync::mpsc::channel();
        std::thread::spawn(move || {
            let res = std::panic::catch_unwind(std::panic::AssertUnwindSafe(|| run_one(&cfg2)));
            match res {
                Ok((r, sched)) => { let _ = tx.send((Some(r), sched)); }
                Err(_) => {
                    // a managed thread panicked inside the library (e.g. arithmetic overflow): abandon the run
                    if let Some(s) = GLOBAL_SCHED.lock().unwrap().clone() { s.abort(5); }
                }
            }
        });
        // wait for completion or abort
        let (ranges, sched) = {
            // poll: either the runner finished, or the scheduler reports an abort
            loop {
                if let Ok(x) = rx.recv_timeout(std::time::Duration::from_millis(20)) { break x; }
                // cannot reach the scheduler before run_one created it; the runner publishes it through a global
                if let Some(s) = GLOBAL_SCHED.lock().unwrap().clone() {
                    let o = s.st.lock().unwrap().outcome;
                    if o >= 2 { break (None, s); }
                }
            }
        };
        let st = sched.st.lock().unwrap();
        let mut out = io::BufWriter::new(stdout.lock());
        writeln!(out, "RUN {} {} {}", st.outcome, st.steps, st.trace.len()).unwrap();
        let dummy = Ranges { pcur: 0, hcur: vec![], prod: (0, 0), ws: vec![] };
        let published = GLOBAL_RANGES.lock().unwrap().take();
        let r = ranges.as_ref().or(published.as_ref()).unwrap_or(&dummy);
        for e in st.trace.iter() {
            let (c, off) = classify(r, e);
            writeln!(out, "E {} {} {} {} {} {} {} {} {} {}", e.tid, e.kind, c, off, e.ord, e.ord2, e.a, e.b, e.observed, e.ok as u8).unwrap();
        }
        let s: Vec<String> = st.schedule.iter().map(|x| x.to_string()).collect();
        writeln!(out, "SCHED {}", s.join(" ")).unwrap();
        writeln!(out, "END").unwrap();
        out.flush().unwrap();
        let aborted = st.outcome >= 2;
        drop(st);
        remove_hook();
        if aborted { std::process::exit(3); }
    }
}

static GLOBAL_SCHED: std::sync::Mutex<Option<Arc<Sched>>> = std::sync::Mutex::new(None);
static GLOBAL_RANGES: std::sync::Mutex<Option<Ranges>> = std::sync::Mutex::new(None);
