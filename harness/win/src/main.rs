// Correspondence harness for dcl_data_structures (sliding window).
// stdin : one case per line: <family> <int> ...
// stdout: one line per case: <int> ...   ("PANIC" if the implementation panicked)
use std::io::{self, BufRead, Write};
use std::panic;

mod window;

fn run_case(fam: &str, args: &[i128]) -> Vec<i128> {
    match fam {
        f if f.starts_with("window_") => window::run(&f[7..], args),
        f if f.starts_with("windowbig_") => window::run_big(&f[10..], args),
        _ => panic!("unknown family {fam}"),
    }
}

fn main() {
    panic::set_hook(Box::new(|_| {}));
    let stdin = io::stdin();
    let stdout = io::stdout();
    let mut out = io::BufWriter::new(stdout.lock());
    for line in stdin.lock().lines() {
        let line = line.unwrap();
        let mut it = line.split_ascii_whitespace();
        let fam = match it.next() {
            Some(f) => f.to_string(),
            None => {
                writeln!(out).unwrap();
                continue;
            }
        };
        let args: Vec<i128> = it.map(|t| t.parse::<i128>().expect("int")).collect();
        let res = panic::catch_unwind(|| run_case(&fam, &args));
        match res {
            Ok(v) => {
                let s: Vec<String> = v.iter().map(|x| x.to_string()).collect();
                writeln!(out, "{}", s.join(" ")).unwrap();
            }
            Err(_) => writeln!(out, "-999").unwrap(),
        }
        out.flush().unwrap();
    }
}
