// Sliding-window harness. line: window_<ty> backend size cap v1 v2 ...
// backend 0 = ArrayStorage, 1 = VectorStorage, 2 = UnsafeArrayStorage, 3 = UnsafeVectorStorage
// output per push: filled empty first|-1 last|-1 slice(-1 | len x..) arr(-1 | len x..)
// (vec() is compared with slice() here; a difference appends the marker 999999)
use dcl_data_structures::prelude::*;
use dcl_data_structures::window_type;

pub trait Elem: PartialEq + Copy + Default + std::fmt::Debug {
    fn mk(v: i128) -> Self;
    fn back(self) -> i128;
}
impl Elem for u8 {
    fn mk(v: i128) -> Self { v as u8 }
    fn back(self) -> i128 { self as i128 }
}
impl Elem for u16 {
    fn mk(v: i128) -> Self { v as u16 }
    fn back(self) -> i128 { self as i128 }
}
impl Elem for u32 {
    fn mk(v: i128) -> Self { v as u32 }
    fn back(self) -> i128 { self as i128 }
}
impl Elem for u64 {
    fn mk(v: i128) -> Self { v as u64 }
    fn back(self) -> i128 { self as i128 }
}
#[derive(PartialEq, Clone, Copy, Default, Debug)]
pub struct Pair(u64, u64);
impl Elem for Pair {
    fn mk(v: i128) -> Self { Pair(v as u64, (v as u64).wrapping_mul(7).wrapping_add(1)) }
    fn back(self) -> i128 {
        if self == Pair::default() { return 0; }
        if self.1 == self.0.wrapping_mul(7).wrapping_add(1) { self.0 as i128 } else { -777 }
    }
}
#[derive(PartialEq, Clone, Copy, Default, Debug)]
pub struct Tri(u32, u32, u32); // 12 bytes: 16-byte chunks with remainders
impl Elem for Tri {
    fn mk(v: i128) -> Self { Tri(v as u32, (v as u32).wrapping_mul(3), (v as u32) ^ 0x5a5a) }
    fn back(self) -> i128 {
        if self == Tri::default() { return 0; }
        if self.1 == self.0.wrapping_mul(3) && self.2 == self.0 ^ 0x5a5a { self.0 as i128 } else { -777 }
    }
}

fn observe<S: WindowStorage<T>, T: Elem, const N: usize>(w: &SlidingWindow<S, T>, out: &mut Vec<i128>) {
    out.push(w.filled() as i128);
    out.push(w.empty() as i128);
    match w.first() { Ok(v) => out.push(v.back()), Err(_) => out.push(-1) }
    match w.last() { Ok(v) => out.push(v.back()), Err(_) => out.push(-1) }
    let sl = w.slice().map(|s| s.to_vec());
    match &sl {
        Ok(s) => { out.push(s.len() as i128); out.extend(s.iter().map(|x| x.back())); }
        Err(_) => out.push(-1),
    }
    match w.arr::<N>() {
        Ok(a) => { out.push(N as i128); out.extend(a.iter().map(|x| x.back())); }
        Err(_) => out.push(-1),
    }
    let v = w.vec();
    if v.is_ok() != sl.is_ok() || (v.is_ok() && v.unwrap() != sl.unwrap()) { out.push(999999); }
    if w.size() != N { out.push(888888); }
}

fn drive<S: WindowStorage<T>, T: Elem, const N: usize>(mut w: SlidingWindow<S, T>, vals: &[i128]) -> Vec<i128> {
    let mut out = Vec::new();
    for &v in vals {
        w.push(T::mk(v));
        observe::<S, T, N>(&w, &mut out);
    }
    out
}

macro_rules! arr_grid {
    ($t:ty, $b:expr, $n:expr, $c:expr, $vals:expr; $( ($N:literal, $C:literal) ),* ) => {
        match ($n, $c) {
            $( ($N, $C) => {
                if $b == 0 {
                    drive::<_, $t, $N>(window_type::new_with_array_storage::<$t, $N, $C>(), $vals)
                } else {
                    #[cfg(feature = "unsafe")]
                    { drive::<_, $t, $N>(window_type::new_with_unsafe_array_storage::<$t, $N, $C>(), $vals) }
                    #[cfg(not(feature = "unsafe"))]
                    { vec![-555] }
                }
            } )*
            _ => vec![-556],
        }
    };
}

macro_rules! vec_grid {
    ($t:ty, $b:expr, $n:expr, $c:expr, $vals:expr; $( $N:literal ),* ) => {
        match $n {
            $( $N => {
                let mult = $c / $N;
                if $b == 1 {
                    drive::<_, $t, $N>(window_type::new_with_vector_storage::<$t>($N, mult), $vals)
                } else {
                    #[cfg(feature = "unsafe")]
                    { drive::<_, $t, $N>(window_type::new_with_unsafe_vector_storage::<$t>($N, mult), $vals) }
                    #[cfg(not(feature = "unsafe"))]
                    { vec![-555] }
                }
            } )*
            _ => vec![-556],
        }
    };
}

macro_rules! small_grid {
    ($t:ty, $b:expr, $n:expr, $c:expr, $vals:expr) => {
        arr_grid!($t, $b, $n, $c, $vals;
            (1,2),(1,3),(1,4),
            (2,3),(2,4),(2,5),(2,6),(2,7),
            (3,4),(3,5),(3,6),(3,7),(3,8),(3,9),(3,10),
            (4,5),(4,6),(4,7),(4,8),(4,9),(4,10),(4,11),(4,12),(4,13),
            (5,6),(5,7),(5,8),(5,9),(5,10),(5,11),(5,12),(5,13),(5,14),(5,15),(5,16),
            (6,7),(6,8),(6,9),(6,10),(6,11),(6,12),(6,13),(6,14),(6,15),(6,16),(6,17),(6,18),(6,19))
    };
}
macro_rules! large_grid {
    ($t:ty, $b:expr, $n:expr, $c:expr, $vals:expr) => {
        arr_grid!($t, $b, $n, $c, $vals;
            (7,8),(7,9),(7,13),(7,22),
            (8,9),(8,11),(8,15),(8,16),(8,17),(8,25),
            (9,10),(9,17),(9,19),
            (11,12),(11,21),(11,23),
            (16,17),(16,19),(16,31),(16,32),(16,33),(16,40),
            (32,33),(32,37),(32,63),(32,70),
            (64,65),(64,66),(64,127),(64,200))
    };
}

#[inline(never)]
fn run_small<T: Elem>(b: i128, n: usize, c: usize, vals: &[i128]) -> Vec<i128> { small_grid!(T, b, n, c, vals) }
#[inline(never)]
fn run_large<T: Elem>(b: i128, n: usize, c: usize, vals: &[i128]) -> Vec<i128> { large_grid!(T, b, n, c, vals) }
#[inline(never)]
fn run_vec<T: Elem>(b: i128, n: usize, c: usize, vals: &[i128]) -> Vec<i128> {
    vec_grid!(T, b, n, c, vals; 1,2,3,4,5,6,7,8,9,11,16,32,64)
}

// Which (backend, element type, size class) combinations are instantiated (compile-time budget):
//   ArrayStorage        : u64 on the small and the large grid
//   UnsafeArrayStorage  : u8 u16 u32 u64 pair tri on the small grid; u8 tri on the large grid
//   VectorStorage       : u64 ; UnsafeVectorStorage : u8 u64 tri
pub fn run(ty: &str, args: &[i128]) -> Vec<i128> {
    let b = args[0];
    let n = args[1] as usize;
    let c = args[2] as usize;
    let vals = &args[3..];
    let small = n <= 6;
    match (b, ty, small) {
        (0, "u64", true) => run_small::<u64>(b, n, c, vals),
        (0, "u64", false) => run_large::<u64>(b, n, c, vals),
        (2, "u8", true) => run_small::<u8>(b, n, c, vals),
        (2, "u16", true) => run_small::<u16>(b, n, c, vals),
        (2, "u32", true) => run_small::<u32>(b, n, c, vals),
        (2, "u64", true) => run_small::<u64>(b, n, c, vals),
        (2, "pair", true) => run_small::<Pair>(b, n, c, vals),
        (2, "tri", true) => run_small::<Tri>(b, n, c, vals),
        (2, "u8", false) => run_large::<u8>(b, n, c, vals),
        (2, "tri", false) => run_large::<Tri>(b, n, c, vals),
        (1, "u64", _) => run_vec::<u64>(b, n, c, vals),
        (3, "u8", _) => run_vec::<u8>(b, n, c, vals),
        (3, "u64", _) => run_vec::<u64>(b, n, c, vals),
        (3, "tri", _) => run_vec::<Tri>(b, n, c, vals),
        _ => vec![-557],
    }
}

// LARGE windows (family windowbig_<ty>): backend size cap pushes v0.  The values v0, v0+1, ... are pushed; after each of the LAST
// FOUR pushes the window is compared, inside the harness, with the closed form of the model's theorem window_is_last_n (the slice is
// exactly the last N pushed values in push order; first / last / filled accordingly).
// output per checked push: number of slice positions that differ, first ok, last ok, filled, arr positions that differ (-1: arr failed)
fn drive_big<S: WindowStorage<T>, T: Elem, const N: usize>(mut w: SlidingWindow<S, T>, pushes: usize, v0: i128) -> Vec<i128> {
    let mut out = Vec::new();
    for i in 0..pushes {
        w.push(T::mk(v0 + i as i128));
        if i + 4 >= pushes {
            let newest = v0 + i as i128;
            if i + 1 < N { out.extend([-2, -2, -2, w.filled() as i128, -2]); continue; }      // not yet filled: not judged here (the small histories cover it)
            let oldest = newest - (N as i128 - 1);
            let bad = match w.slice() {
                Ok(s) => if s.len() != N { -3 } else { s.iter().enumerate().filter(|(j, x)| x.back() != T::mk(oldest + *j as i128).back()).count() as i128 },
                Err(_) => -1,
            };
            let bad_arr = match w.arr::<N>() {
                Ok(a) => a.iter().enumerate().filter(|(j, x)| x.back() != T::mk(oldest + *j as i128).back()).count() as i128,
                Err(_) => -1,
            };
            out.push(bad);
            out.push((w.first().map(|v| v.back()).unwrap_or(-1) == T::mk(oldest).back()) as i128);
            out.push((w.last().map(|v| v.back()).unwrap_or(-1) == T::mk(newest).back()) as i128);
            out.push(w.filled() as i128);
            out.push(bad_arr);
        }
    }
    out
}

macro_rules! big_arr {
    ($t:ty, $b:expr, $n:expr, $c:expr, $p:expr, $v0:expr; $( ($N:literal, $C:literal) ),* ) => {
        match ($n, $c) {
            $( ($N, $C) => {
                if $b == 0 { drive_big::<_, $t, $N>(window_type::new_with_array_storage::<$t, $N, $C>(), $p, $v0) }
                else {
                    #[cfg(feature = "unsafe")]
                    { drive_big::<_, $t, $N>(window_type::new_with_unsafe_array_storage::<$t, $N, $C>(), $p, $v0) }
                    #[cfg(not(feature = "unsafe"))]
                    { vec![-555] }
                }
            } )*
            _ => vec![-556],
        }
    };
}

pub fn run_big(ty: &str, args: &[i128]) -> Vec<i128> {
    let a: Vec<i128> = args.to_vec(); let ty = ty.to_string();
    // the array back-ends keep their storage inline: run on a thread with a large stack
    let h = std::thread::Builder::new().stack_size(512 << 20).spawn(move || {
        let (b, n, c, p, v0) = (a[0], a[1] as usize, a[2] as usize, a[3] as usize, a[4]);
        match (b, ty.as_str()) {
            (0, "u64") | (2, "u64") => big_arr!(u64, b, n, c, p, v0; (8192, 8200), (9000, 18001), (300, 301)),
            (2, "u32") => big_arr!(u32, b, n, c, p, v0; (16384, 16400), (20000, 20003)),
            (2, "tri") => big_arr!(Tri, b, n, c, p, v0; (6000, 6011)),
            (1, "u64") => drive_big::<_, u64, 70000>(window_type::new_with_vector_storage::<u64>(70000, 2), p, v0),
            (3, "u64") => {
                #[cfg(feature = "unsafe")]
                { drive_big::<_, u64, 70000>(window_type::new_with_unsafe_vector_storage::<u64>(70000, 2), p, v0) }
                #[cfg(not(feature = "unsafe"))]
                { vec![-555] }
            }
            _ => vec![-557],
        }
    }).unwrap();
    h.join().unwrap_or_else(|_| vec![-999])
}
