(* Bulk insertion through the Context API, for ANY number of contextoids: into the base context, and into a freshly created
   extra context (the base context stays empty).  Oracle of the large histories of the C09 check. *)
From Coq Require Import List Arith NArith ZArith Bool Lia.
From DC Require Import Common.AList Graph.UltraGraph Graph.BulkAdd Context.Model.
Import ListNotations.

Fixpoint cadd_many (c : ctx) (vs : list Z) : list Z * ctx :=
  match vs with
  | [] => ([], c)
  | v :: r => let '(k, c1) := cstep c (CAddNode v) in let '(ks, c2) := cadd_many c1 r in (k :: ks, c2)
  end.

Fixpoint xadd_many (c : ctx) (vs : list Z) : list Z * ctx :=
  match vs with
  | [] => ([], c)
  | v :: r => let '(k, c1) := cstep c (XAddNode v) in let '(ks, c2) := xadd_many c1 r in (k :: ks, c2)
  end.

Lemma cadd_many_base : forall vs c,
  cadd_many c vs = (map Z.of_nat (fst (add_many (base c) vs)), set_base c (snd (add_many (base c) vs))).
Proof.
  induction vs as [|v r IH]; intros c; cbn [cadd_many add_many].
  - destruct c; reflexivity.
  - cbn [cstep]. destruct (add_node (base c) v) as [k g1] eqn:E1. rewrite IH. cbn [base set_base].
    destruct (add_many g1 r) as [ks g2]. cbn [fst snd map]. reflexivity.
Qed.

Lemma current_extra_set c g g1 : current_extra c = Some g -> current_extra (set_extra c (current c) g1) = Some g1.
Proof.
  unfold current_extra, set_extra, check_exists. cbn [current count extras].
  destruct (current c =? 0); [discriminate|]. destruct (negb (current c <=? count c)); [discriminate|].
  intros _. unfold nget, nins. apply (aget_ainsert_eq Nat.eqb Nat.eqb_spec).
Qed.

Lemma xadd_many_extra : forall vs c g, current_extra c = Some g ->
  fst (xadd_many c vs) = map Z.of_nat (fst (add_many g vs)) /\
  current_extra (snd (xadd_many c vs)) = Some (snd (add_many g vs)) /\
  base (snd (xadd_many c vs)) = base c.
Proof.
  induction vs as [|v r IH]; intros c g Hc; cbn [xadd_many add_many].
  - cbn. auto.
  - cbn [cstep]. rewrite Hc. destruct (add_node g v) as [k g1] eqn:E1.
    destruct (IH (set_extra c (current c) g1) g1 (current_extra_set c g g1 Hc)) as (A & B & C).
    destruct (xadd_many (set_extra c (current c) g1) r) as [ks c2]. destruct (add_many g1 r) as [ks' g2].
    cbn [fst snd map] in *. split; [f_equal; exact A|]. split; [exact B|]. rewrite C. reflexivity.
Qed.

(* THE CLOSED FORMS *)
Theorem ctx_bulk_base vs :
  let '(rs, c) := cadd_many new_ctx vs in
  rs = map Z.of_nat (seq 0 (length vs)) /\
  (forall i, i < length vs -> contains_node (base c) i = true /\ get_node (base c) i = Some (nth i vs 0%Z)) /\
  (forall i, length vs <= i -> contains_node (base c) i = false) /\
  size (base c) = length vs /\ extras c = [] /\ current c = 0.
Proof.
  rewrite cadd_many_base. cbn [base new_ctx]. pose proof (bulk_add_fresh vs) as Hb.
  destruct (add_many empty_graph vs) as [ks g]. cbn [fst snd set_base base extras current new_ctx].
  destruct Hb as (A & B & C & D & _). rewrite A. split; [reflexivity|]. split; [exact B|]. split; [intros i Hi; apply C, Hi|]. auto.
Qed.

Theorem ctx_bulk_extra vs :
  let '(_, c0) := cstep new_ctx (XAddNew true) in
  let '(rs, c) := xadd_many c0 vs in
  rs = map Z.of_nat (seq 0 (length vs)) /\
  (exists g, current_extra c = Some g /\
     (forall i, i < length vs -> contains_node g i = true /\ get_node g i = Some (nth i vs 0%Z)) /\
     (forall i, length vs <= i -> contains_node g i = false) /\ size g = length vs) /\
  base c = empty_graph.
Proof.
  cbn [cstep new_ctx count base extras current cur_idx prev_idx].
  set (c0 := mkCtx empty_graph (nins 1 empty_graph []) 1 1 [] []).
  assert (Hc : current_extra c0 = Some empty_graph) by reflexivity.
  destruct (xadd_many_extra vs c0 empty_graph Hc) as (A & B & C).
  pose proof (bulk_add_fresh vs) as Hb.
  destruct (xadd_many c0 vs) as [rs c]. destruct (add_many empty_graph vs) as [ks g]. cbn [fst snd] in *.
  destruct Hb as (E & F & G & S & _). rewrite A, E. split; [reflexivity|]. split; [|exact C].
  exists g. split; [exact B|]. split; [exact F|]. split; [intros i Hi; apply G, Hi | exact S].
Qed.
