(* Abstract specification for C09: a base directed graph, a map of extra directed graphs, a selection,
   two index maps; and the checker validating an observed run against it. Component graphs are C08's
   specification graphs (Graph/Spec.v). *)
From Coq Require Import List Arith NArith ZArith Bool.
From DC Require Import Common.AList Graph.UltraGraph Graph.Spec Context.Model.
Import ListNotations.

Record sctx := mkSCtx {
  sbase : sgraph;
  sextras : list (nat * sgraph);
  scount : nat;
  scurrent : nat;
  scur_idx : list (nat * nat);
  sprev_idx : list (nat * nat)
}.

Definition new_sctx : sctx := mkSCtx sempty [] 0 0 [] [].

(* the selected extra context, if a valid one is selected *)
Definition sselected (s : sctx) : option sgraph :=
  if scurrent s =? 0 then None
  else if negb (scurrent s <=? scount s) then None
  else nget (scurrent s) (sextras s).

Definition with_base (s : sctx) (g : sgraph) : sctx := mkSCtx g (sextras s) (scount s) (scurrent s) (scur_idx s) (sprev_idx s).
Definition with_extra (s : sctx) (k : nat) (g : sgraph) : sctx :=
  mkSCtx (sbase s) (nins k g (sextras s)) (scount s) (scurrent s) (scur_idx s) (sprev_idx s).

Definition on_base (s : sctx) (o : gop) (r : Z) : option sctx :=
  match sstep (sbase s) o r with Some g => Some (with_base s g) | None => None end.

(* an operation addressed to the selected extra context: with nothing selected it must fail
   (code [fail]) and change nothing; otherwise it acts on that graph only *)
Definition on_selected (s : sctx) (o : gop) (r fail : Z) : option sctx :=
  match sselected s with
  | Some g => match sstep g o r with Some g' => Some (with_extra s (scurrent s) g') | None => None end
  | None => if Z.eqb r fail then Some s else None
  end.

(* edge operations on the selected context re-check both end nodes first; when one is absent (or
   nothing is selected) they fail and change nothing *)
Definition on_selected_edge (s : sctx) (a b : nat) (o : gop) (r : Z) : option sctx :=
  match sselected s with
  | Some g => if smem g a && smem g b then on_selected s o r 0 else if Z.eqb r 0 then Some s else None
  | None => if Z.eqb r 0 then Some s else None
  end.

Definition csstep (s : sctx) (o : cop) (r : Z) : option sctx :=
  match o with
  | CAddNode v => on_base s (OAddNode v) r
  | CRemoveNode i => on_base s (ORemoveNode i) r
  | CAddEdge a b rel => on_base s (OAddEdgeW a b rel) r
  | CRemoveEdge a b => on_base s (ORemoveEdge a b) r
  | XAddNew default =>
      let n := S (scount s) in
      if Z.eqb r (Z.of_nat n)
      then Some (mkSCtx (sbase s) (nins n sempty (sextras s)) n (if default then n else scurrent s) (scur_idx s) (sprev_idx s))
      else None
  | XSetCurrent i =>
      if i <=? scount s
      then if Z.eqb r 1 then Some (mkSCtx (sbase s) (sextras s) (scount s) i (scur_idx s) (sprev_idx s)) else None
      else if Z.eqb r 0 then Some s else None
  | XUnset => if Z.eqb r 1 then Some (mkSCtx (sbase s) (sextras s) (scount s) 0 (scur_idx s) (sprev_idx s)) else None
  | XAddNode v => on_selected s (OAddNode v) r (-1)
  | XRemoveNode i => on_selected s (ORemoveNode i) r 0
  | XAddEdge a b rel => on_selected_edge s a b (OAddEdgeW a b rel) r
  | XRemoveEdge a b => on_selected_edge s a b (ORemoveEdge a b) r
  | ISet key idx cur =>
      if Z.eqb r 1
      then Some (if cur then mkSCtx (sbase s) (sextras s) (scount s) (scurrent s) (nins key idx (scur_idx s)) (sprev_idx s)
                 else mkSCtx (sbase s) (sextras s) (scount s) (scurrent s) (scur_idx s) (nins key idx (sprev_idx s)))
      else None
  end.

Definition sobs_graph (B : nat) (g : sgraph) : list Z :=
  let idx := seq 0 B in
  flat_map (fun i => [zb (smem g i); zopt (nget i (snodes g))]) idx
  ++ flat_map (fun i => map (fun j => zb (shas_edge g i j)) idx) idx
  ++ [Z.of_nat (length (snodes g)); zb (length (snodes g) =? 0); Z.of_nat (length (snodes g)); Z.of_nat (length (sedges g))].

Definition sobs_extra (B : nat) (s : sctx) : list Z :=
  match sselected s with Some g => sobs_graph B g | None => obs_none B end.

Definition scobserve (B : nat) (s : sctx) : list Z :=
  sobs_graph B (sbase s)
  ++ [Z.of_nat (scurrent s)]
  ++ map (fun i => zb (i <=? scount s)) (seq 0 (scount s + 3))
  ++ flat_map (fun k => sobs_extra B (mkSCtx (sbase s) (sextras s) (scount s) k (scur_idx s) (sprev_idx s))) (seq 1 (scount s))
  ++ sobs_extra B s
  ++ flat_map (fun k => [zoptn (nget k (scur_idx s)); zoptn (nget k (sprev_idx s))]) (seq 0 B).

Fixpoint cspec_run (B : nat) (s : sctx) (ops : list cop) (rets : list Z) : option (list Z) :=
  match ops, rets with
  | [], _ => Some []
  | o :: t, r :: rt =>
      match csstep s o r with
      | Some s' => match cspec_run B s' t rt with Some os => Some (scobserve B s' ++ os) | None => None end
      | None => None
      end
  | _ :: _, [] => None
  end.

Definition cspec_check (B : nat) (ops : list cop) (out : list Z) : bool :=
  let n := length ops in
  match cspec_run B new_sctx ops (firstn n out) with
  | Some os => zlist_eqb (skipn n out) os
  | None => false
  end.

Definition context_check_entry (l : list Z) : list Z :=
  match l with
  | nout :: b :: rest =>
      let nops := (length rest - Z.to_nat nout)%nat in
      let opsz := firstn nops rest in
      let out := skipn nops rest in
      [zb (cspec_check (Z.to_nat b) (decode_cops opsz (length opsz)) out)]
  | _ => [0%Z]
  end.
