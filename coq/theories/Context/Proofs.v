(* Proofs for the Context model: C09. *)
From Coq Require Import List Arith NArith ZArith Bool Lia.
From DC Require Import Common.AList Graph.UltraGraph Graph.Spec Graph.Refine Context.Model Context.Spec.
Import ListNotations.

(* ---------- isolation (frame) theorems, directly on the model --------------------------------- *)
Definition is_base_op (o : cop) : bool :=
  match o with CAddNode _ | CRemoveNode _ | CAddEdge _ _ _ | CRemoveEdge _ _ => true | _ => false end.
Definition is_extra_op (o : cop) : bool :=
  match o with XAddNode _ | XRemoveNode _ | XAddEdge _ _ _ | XRemoveEdge _ _ => true | _ => false end.

(* base operations touch only the base context *)
Theorem base_op_frame c o :
  is_base_op o = true ->
  let c' := snd (cstep c o) in
  extras c' = extras c /\ count c' = count c /\ current c' = current c /\ cur_idx c' = cur_idx c /\ prev_idx c' = prev_idx c.
Proof.
  destruct o; cbn [is_base_op]; try discriminate; intros _; cbn [cstep].
  - destruct (add_node (base c) v); cbn; auto.
  - destruct (negb (contains_node (base c) i)); [cbn; auto|]. destruct (remove_node (base c) i); cbn; auto.
  - destruct (negb (contains_node (base c) a)); [cbn; auto|]. destruct (negb (contains_node (base c) b)); [cbn; auto|].
    destruct (add_edge_with_weight (base c) a b rel); cbn; auto.
  - destruct (negb (contains_node (base c) a)); [cbn; auto|]. destruct (negb (contains_node (base c) b)); [cbn; auto|].
    destruct (remove_edge (base c) a b); cbn; auto.
Qed.

(* extra-context operations touch only the selected extra context *)
Theorem extra_op_frame c o :
  is_extra_op o = true ->
  let c' := snd (cstep c o) in
  base c' = base c /\ count c' = count c /\ current c' = current c /\ cur_idx c' = cur_idx c /\ prev_idx c' = prev_idx c /\
  forall j, j <> current c -> nget j (extras c') = nget j (extras c).
Proof.
  assert (Hset : forall k g j, j <> k -> nget j (extras (set_extra c k g)) = nget j (extras c)).
  { intros k g j Hj. unfold set_extra; cbn [extras]. rewrite nget_nins. destruct (Nat.eqb_spec j k); [congruence | reflexivity]. }
  destruct o; cbn [is_extra_op]; try discriminate; intros _; cbn [cstep]; destruct (current_extra c) as [g|]; try (cbn; auto 10).
  - destruct (add_node g v); cbn [snd]. repeat split; auto.
  - destruct (remove_node g i); cbn [snd]. repeat split; auto.
  - destruct (negb (contains_node g a)); [cbn; auto 10|]. destruct (negb (contains_node g b)); [cbn; auto 10|].
    destruct (add_edge_with_weight g a b rel); cbn [snd]. repeat split; auto.
  - destruct (negb (contains_node g a)); [cbn; auto 10|]. destruct (negb (contains_node g b)); [cbn; auto 10|].
    destruct (remove_edge g a b); cbn [snd]. repeat split; auto.
Qed.

(* with no extra context selected every extra mutator fails and changes nothing *)
Theorem nothing_selected_fails c o :
  is_extra_op o = true -> current c = 0 ->
  cstep c o = ((match o with XAddNode _ => -1 | _ => 0 end)%Z, c).
Proof.
  intros Ho Hc. assert (E : current_extra c = None) by (unfold current_extra; rewrite Hc; reflexivity).
  destruct o; cbn [is_extra_op] in Ho; try discriminate; cbn [cstep]; rewrite E; reflexivity.
Qed.

Theorem nothing_selected_reads_nothing B c : current c = 0 -> obs_extra B c = obs_none B.
Proof. intros Hc. unfold obs_extra, current_extra. rewrite Hc. reflexivity. Qed.

(* selecting: succeeds iff the id is at most the number of extra contexts; refused otherwise *)
Theorem set_current_spec c i :
  cstep c (XSetCurrent i) =
  if i <=? count c then (1%Z, mkCtx (base c) (extras c) (count c) i (cur_idx c) (prev_idx c)) else (0%Z, c).
Proof. reflexivity. Qed.

Theorem add_new_spec c d :
  let '(r, c') := cstep c (XAddNew d) in
  r = Z.of_nat (S (count c)) /\ count c' = S (count c) /\ base c' = base c /\
  nget (S (count c)) (extras c') = Some empty_graph /\
  (forall j, j <> S (count c) -> nget j (extras c') = nget j (extras c)) /\
  current c' = (if d then S (count c) else current c).
Proof.
  cbn [cstep count base extras current cur_idx prev_idx]. repeat split; auto.
  - rewrite nget_nins, Nat.eqb_refl. reflexivity.
  - intros j Hj. rewrite nget_nins. destruct (Nat.eqb_spec j (S (count c))); [congruence | reflexivity].
Qed.

(* the two index maps are independent last-write-wins maps *)
Theorem index_maps_spec c key idx cur k :
  let c' := snd (cstep c (ISet key idx cur)) in
  nget k (cur_idx c') = (if cur && (k =? key) then Some idx else nget k (cur_idx c)) /\
  nget k (prev_idx c') = (if negb cur && (k =? key) then Some idx else nget k (prev_idx c)) /\
  base c' = base c /\ extras c' = extras c /\ current c' = current c /\ count c' = count c.
Proof.
  cbn [cstep snd]. destruct cur; cbn [count base extras current cur_idx prev_idx andb negb]; rewrite ?nget_nins; destruct (k =? key); auto 10.
Qed.

(* ---------- refinement to the abstract context ------------------------------------------------- *)
Definition absx (kg : nat * ugraph) : nat * sgraph := (fst kg, abs (snd kg)).

Definition cabs (c : ctx) : sctx :=
  mkSCtx (abs (base c)) (map absx (extras c)) (count c) (current c) (cur_idx c) (prev_idx c).

Definition CInv (c : ctx) : Prop := Inv (base c) /\ Forall (fun kg => Inv (snd kg)) (extras c).

Lemma nget_map_abs k l : nget k (map absx l) = option_map abs (nget k l).
Proof.
  unfold nget. induction l as [|[k0 g] t IH]; cbn; auto. destruct (k =? k0); auto.
Qed.

Lemma nrem_map_abs k l : nrem k (map absx l) = map absx (nrem k l).
Proof.
  unfold nrem. induction l as [|[k0 g] t IH]; cbn; auto. destruct (k =? k0); cbn; rewrite IH; auto.
Qed.

Lemma nins_map_abs k g l : nins k (abs g) (map absx l) = map absx (nins k g l).
Proof. unfold nins, ainsert. cbn. fold (nrem k (map absx l)). rewrite nrem_map_abs. reflexivity. Qed.

Lemma nget_In {V} k (g : V) l : nget k l = Some g -> In (k, g) l.
Proof.
  unfold nget. induction l as [|[k0 g0] t IH]; cbn; [discriminate|].
  destruct (Nat.eqb_spec k k0) as [->|]; intros H; [inversion H; auto | auto].
Qed.

Lemma In_nrem {V} k (x : nat * V) l : In x (nrem k l) -> In x l.
Proof.
  unfold nrem. induction l as [|[k0 g0] t IH]; cbn; auto.
  destruct (k =? k0); cbn; intuition.
Qed.

Lemma CInv_set_extra c k g : CInv c -> Inv g -> CInv (set_extra c k g).
Proof.
  intros [Hb Hx] Hg. split; [exact Hb|]. cbn. constructor; [exact Hg|].
  rewrite Forall_forall in *. intros x Hin. apply Hx. eapply In_nrem; eauto.
Qed.

Lemma current_extra_abs c :
  sselected (cabs c) = option_map abs (current_extra c).
Proof.
  unfold sselected, current_extra, check_exists; cbn [scurrent scount sextras cabs].
  destruct (current c =? 0); [reflexivity|]. destruct (negb (current c <=? count c)); [reflexivity|].
  apply nget_map_abs.
Qed.

Lemma current_extra_Inv c g : CInv c -> current_extra c = Some g -> Inv g.
Proof.
  intros [_ Hx] H. unfold current_extra in H.
  destruct (current c =? 0); [discriminate|]. destruct (negb (check_exists c (current c))); [discriminate|].
  apply nget_In in H. rewrite Forall_forall in Hx. apply (Hx _ H).
Qed.

Lemma zb_if (b : bool) : zb b = (if b then 1 else 0)%Z.
Proof. reflexivity. Qed.

(* a guarded graph operation (the context re-checks the end nodes first) is still a spec step *)
Lemma guarded_remove_node g i :
  Inv g ->
  let '(r, g') := if negb (contains_node g i) then (0%Z, g) else let '(r, g') := remove_node g i in (zb r, g') in
  Inv g' /\ sstep (abs g) (ORemoveNode i) r = Some (abs g').
Proof.
  intros HI. destruct (contains_node g i) eqn:Ec; cbn [negb].
  - destruct (remove_node g i) as [r g'] eqn:E. apply (remove_node_refines g i r g' HI E).
  - split; [exact HI|]. cbn [sstep]. rewrite <- (Inv_contains g i HI), Ec. reflexivity.
Qed.

Lemma guarded_add_edge g a b w :
  Inv g ->
  let '(r, g') := if negb (contains_node g a) then (0%Z, g) else if negb (contains_node g b) then (0%Z, g)
                  else let '(r, g') := add_edge_with_weight g a b w in (zb r, g') in
  Inv g' /\ sstep (abs g) (OAddEdgeW a b w) r = Some (abs g').
Proof.
  intros HI. destruct (contains_node g a) eqn:Ea; cbn [negb].
  - destruct (contains_node g b) eqn:Eb; cbn [negb].
    + destruct (add_edge_with_weight g a b w) as [r g'] eqn:E. apply (add_edge_w_refines g a b w r g' HI E).
    + split; [exact HI|]. cbn [sstep]. rewrite <- (Inv_contains g b HI), Eb. rewrite andb_false_r. reflexivity.
  - split; [exact HI|]. cbn [sstep]. rewrite <- (Inv_contains g a HI), Ea. reflexivity.
Qed.

Lemma guarded_remove_edge g a b :
  Inv g ->
  let '(r, g') := if negb (contains_node g a) then (0%Z, g) else if negb (contains_node g b) then (0%Z, g)
                  else let '(r, g') := remove_edge g a b in (zb r, g') in
  Inv g' /\ sstep (abs g) (ORemoveEdge a b) r = Some (abs g').
Proof.
  intros HI. destruct (contains_node g a) eqn:Ea; cbn [negb].
  - destruct (contains_node g b) eqn:Eb; cbn [negb].
    + destruct (remove_edge g a b) as [r g'] eqn:E. apply (remove_edge_refines g a b r g' HI E).
    + split; [exact HI|]. cbn [sstep]. unfold shas_edge. rewrite <- (Inv_contains g b HI), Eb. rewrite andb_false_r. reflexivity.
  - split; [exact HI|]. cbn [sstep]. unfold shas_edge. rewrite <- (Inv_contains g a HI), Ea. reflexivity.
Qed.

Theorem cstep_refines c o r c' :
  CInv c -> cstep c o = (r, c') -> CInv c' /\ csstep (cabs c) o r = Some (cabs c').
Proof.
  intros HC H. pose proof HC as [Hb Hx].
  destruct o; cbn [cstep] in H.
  - (* CAddNode *)
    destruct (add_node (base c) v) as [k g] eqn:E. inversion H; subst; clear H.
    destruct (add_node_refines _ _ _ _ Hb E) as (Hg & Hs & _).
    split; [split; [exact Hg | exact Hx]|]. cbn [csstep]. unfold on_base. cbn [sbase cabs]. rewrite Hs. reflexivity.
  - pose proof (guarded_remove_node (base c) i Hb) as G.
    destruct (negb (contains_node (base c) i)).
    + inversion H; subst. destruct G as [_ Gs]. split; [exact HC|]. cbn [csstep]. unfold on_base; cbn [sbase cabs]. rewrite Gs. reflexivity.
    + destruct (remove_node (base c) i) as [r0 g]. inversion H; subst. destruct G as [Gi Gs].
      split; [split; [exact Gi | exact Hx]|]. cbn [csstep]. unfold on_base; cbn [sbase cabs]. rewrite Gs. reflexivity.
  - pose proof (guarded_add_edge (base c) a b rel Hb) as G.
    destruct (negb (contains_node (base c) a)).
    + inversion H; subst. destruct G as [_ Gs]. split; [exact HC|]. cbn [csstep]. unfold on_base; cbn [sbase cabs]. rewrite Gs. reflexivity.
    + destruct (negb (contains_node (base c) b)).
      * inversion H; subst. destruct G as [_ Gs]. split; [exact HC|]. cbn [csstep]. unfold on_base; cbn [sbase cabs]. rewrite Gs. reflexivity.
      * destruct (add_edge_with_weight (base c) a b rel) as [r0 g]. inversion H; subst. destruct G as [Gi Gs].
        split; [split; [exact Gi | exact Hx]|]. cbn [csstep]. unfold on_base; cbn [sbase cabs]. rewrite Gs. reflexivity.
  - pose proof (guarded_remove_edge (base c) a b Hb) as G.
    destruct (negb (contains_node (base c) a)).
    + inversion H; subst. destruct G as [_ Gs]. split; [exact HC|]. cbn [csstep]. unfold on_base; cbn [sbase cabs]. rewrite Gs. reflexivity.
    + destruct (negb (contains_node (base c) b)).
      * inversion H; subst. destruct G as [_ Gs]. split; [exact HC|]. cbn [csstep]. unfold on_base; cbn [sbase cabs]. rewrite Gs. reflexivity.
      * destruct (remove_edge (base c) a b) as [r0 g]. inversion H; subst. destruct G as [Gi Gs].
        split; [split; [exact Gi | exact Hx]|]. cbn [csstep]. unfold on_base; cbn [sbase cabs]. rewrite Gs. reflexivity.
  - (* XAddNew *)
    inversion H; subst; clear H. split.
    + split; [exact Hb|]. cbn. constructor; [apply Inv_empty|].
      rewrite Forall_forall in *. intros x Hin. apply Hx. eapply In_nrem; eauto.
    + cbn [csstep scount cabs]. rewrite Z.eqb_refl. unfold cabs; cbn [base extras count current cur_idx prev_idx sbase sextras scurrent scur_idx sprev_idx].
      change sempty with (abs empty_graph). rewrite nins_map_abs. reflexivity.
  - (* XSetCurrent *)
    cbn [csstep scount cabs]. unfold check_exists in H. destruct (i <=? count c); inversion H; subst; clear H.
    + split; [split; assumption | reflexivity].
    + split; [exact HC | reflexivity].
  - inversion H; subst; clear H. split; [split; assumption | reflexivity].
  - (* XAddNode *)
    cbn [csstep]. unfold on_selected. rewrite current_extra_abs.
    destruct (current_extra c) as [g|] eqn:Ec; cbn [option_map].
    + destruct (add_node g v) as [k g'] eqn:E. inversion H; subst; clear H.
      pose proof (current_extra_Inv c g HC Ec) as Hg.
      destruct (add_node_refines _ _ _ _ Hg E) as (Hg' & Hs & _). rewrite Hs.
      split; [apply CInv_set_extra; assumption|].
      unfold with_extra, cabs, set_extra; cbn. rewrite nins_map_abs. reflexivity.
    + inversion H; subst. split; [exact HC | reflexivity].
  - cbn [csstep]. unfold on_selected. rewrite current_extra_abs.
    destruct (current_extra c) as [g|] eqn:Ec; cbn [option_map].
    + destruct (remove_node g i) as [r0 g'] eqn:E. inversion H; subst; clear H.
      pose proof (current_extra_Inv c g HC Ec) as Hg.
      destruct (remove_node_refines _ _ _ _ Hg E) as (Hg' & Hs). rewrite zb_if, Hs.
      split; [apply CInv_set_extra; assumption|].
      unfold with_extra, cabs, set_extra; cbn. rewrite nins_map_abs. reflexivity.
    + inversion H; subst. split; [exact HC | reflexivity].
  - cbn [csstep]. unfold on_selected_edge, on_selected. rewrite current_extra_abs.
    destruct (current_extra c) as [g|] eqn:Ec; cbn [option_map].
    + pose proof (current_extra_Inv c g HC Ec) as Hg.
      rewrite <- !(Inv_contains g _ Hg).
      destruct (contains_node g a) eqn:Ea; cbn [negb andb] in *.
      * destruct (contains_node g b) eqn:Eb; cbn [negb andb] in *.
        -- destruct (add_edge_with_weight g a b rel) as [r0 g'] eqn:E. inversion H; subst; clear H.
           destruct (add_edge_w_refines _ _ _ _ _ _ Hg E) as (Hg' & Hs). rewrite zb_if, Hs.
           split; [apply CInv_set_extra; assumption|].
           unfold with_extra, cabs, set_extra; cbn. rewrite nins_map_abs. reflexivity.
        -- inversion H; subst. split; [exact HC | reflexivity].
      * inversion H; subst. split; [exact HC | reflexivity].
    + inversion H; subst. split; [exact HC | reflexivity].
  - cbn [csstep]. unfold on_selected_edge, on_selected. rewrite current_extra_abs.
    destruct (current_extra c) as [g|] eqn:Ec; cbn [option_map].
    + pose proof (current_extra_Inv c g HC Ec) as Hg.
      rewrite <- !(Inv_contains g _ Hg).
      destruct (contains_node g a) eqn:Ea; cbn [negb andb] in *.
      * destruct (contains_node g b) eqn:Eb; cbn [negb andb] in *.
        -- destruct (remove_edge g a b) as [r0 g'] eqn:E. inversion H; subst; clear H.
           destruct (remove_edge_refines _ _ _ _ _ Hg E) as (Hg' & Hs). rewrite zb_if, Hs.
           split; [apply CInv_set_extra; assumption|].
           unfold with_extra, cabs, set_extra; cbn. rewrite nins_map_abs. reflexivity.
        -- inversion H; subst. split; [exact HC | reflexivity].
      * inversion H; subst. split; [exact HC | reflexivity].
    + inversion H; subst. split; [exact HC | reflexivity].
  - (* ISet *)
    inversion H; subst; clear H. destruct cur; (split; [split; assumption | reflexivity]).
Qed.

(* ---------- observations ---------------------------------------------------------------------- *)
Lemma obs_graph_abs B g : Inv g -> obs_graph B g = sobs_graph B (abs g).
Proof.
  intros HI. unfold obs_graph, sobs_graph.
  assert (Hc : forall i, contains_node g i = smem (abs g) i) by (intros; apply Inv_contains, HI).
  assert (Hg : forall i, get_node g i = nget i (node_map g)).
  { intros i. unfold get_node. rewrite (Inv_index_map g i HI).
    destruct (amem Nat.eqb i (node_map g)) eqn:E; [reflexivity|].
    symmetry. apply nget_None. intros Hin. apply amem_In in Hin. congruence. }
  assert (He : forall i j, contains_edge g i j = shas_edge (abs g) i j).
  { intros i j. unfold contains_edge, shas_edge, smem, abs, pg_has_edge; cbn [snodes sedges].
    rewrite (Inv_index_map g i HI), (Inv_index_map g j HI).
    destruct (amem Nat.eqb i (node_map g)), (amem Nat.eqb j (node_map g)); reflexivity. }
  assert (Hs : size g = length (node_map g)) by (apply Inv_size, HI).
  assert (Hn : number_edges g = length (adj g)) by (unfold number_edges; apply HI).
  f_equal.
  { apply flat_map_ext. intros i. rewrite Hc, Hg. reflexivity. }
  f_equal.
  { apply flat_map_ext. intros i. apply map_ext. intros j. rewrite He. reflexivity. }
  cbn [abs snodes sedges]. unfold is_empty. fold (size g). rewrite Hs, Hn. reflexivity.
Qed.

Lemma obs_extra_abs B c : CInv c -> obs_extra B c = sobs_extra B (cabs c).
Proof.
  intros HC. unfold obs_extra, sobs_extra. rewrite current_extra_abs.
  destruct (current_extra c) as [g|] eqn:Ec; cbn [option_map]; [|reflexivity].
  apply obs_graph_abs. eapply current_extra_Inv; eauto.
Qed.

Theorem cobserve_abs B c : CInv c -> cobserve B c = scobserve B (cabs c).
Proof.
  intros HC. unfold cobserve, scobserve. cbn [sbase scurrent scount sextras scur_idx sprev_idx cabs].
  rewrite (obs_graph_abs B (base c)) by apply HC.
  f_equal. f_equal. f_equal. f_equal; [|f_equal].
  - apply flat_map_ext. intros k.
    apply (obs_extra_abs B (mkCtx (base c) (extras c) (count c) k (cur_idx c) (prev_idx c))). exact HC.
  - apply (obs_extra_abs B c HC).
Qed.

Lemma CInv_new : CInv new_ctx.
Proof. split; [apply Inv_empty | constructor]. Qed.

Theorem crun_refines B ops c rs os :
  CInv c -> crun B c ops = (rs, os) -> cspec_run B (cabs c) ops rs = Some os.
Proof.
  revert c rs os. induction ops as [|o t IH]; intros c rs os HC H; cbn [crun] in H.
  - inversion H; subst. reflexivity.
  - destruct (cstep c o) as [r c'] eqn:Es. destruct (crun B c' t) as [rs' os'] eqn:Er.
    inversion H; subst; clear H.
    destruct (cstep_refines c o r c' HC Es) as [HC' Hs].
    cbn [cspec_run]. rewrite Hs, (IH c' rs' os' HC' Er), (cobserve_abs B c' HC'). reflexivity.
Qed.

Lemma crun_length B c ops : length (fst (crun B c ops)) = length ops.
Proof.
  revert c. induction ops as [|o t IH]; intros c; cbn; auto.
  destruct (cstep c o) as [r c']. specialize (IH c'). destruct (crun B c' t). cbn in *. lia.
Qed.

Theorem model_passes_cspec_check B ops :
  let '(rs, os) := crun B new_ctx ops in cspec_check B ops (rs ++ os) = true.
Proof.
  destruct (crun B new_ctx ops) as [rs os] eqn:E.
  pose proof (crun_length B new_ctx ops) as Hl. rewrite E in Hl. cbn in Hl.
  unfold cspec_check. rewrite <- Hl, firstn_app, Nat.sub_diag, firstn_all, firstn_O, app_nil_r.
  change new_sctx with (cabs new_ctx).
  rewrite (crun_refines B ops new_ctx rs os CInv_new E).
  rewrite skipn_app, skipn_all, Nat.sub_diag. cbn. apply zlist_eqb_refl.
Qed.

(* the abstract context keeps its components apart: a step addressed to the base leaves every extra
   graph untouched and vice versa (the specification-level statement of isolation) *)
Theorem spec_isolation s o r s' :
  csstep s o r = Some s' ->
  (is_base_op o = true -> sextras s' = sextras s /\ scurrent s' = scurrent s) /\
  (is_extra_op o = true -> sbase s' = sbase s /\ forall j, j <> scurrent s -> nget j (sextras s') = nget j (sextras s)).
Proof.
  intros H. split; intros Ho; destruct o; cbn [is_base_op is_extra_op] in Ho; try discriminate; cbn [csstep] in H.
  1-4: unfold on_base in H; destruct (sstep (sbase s) _ r); inversion H; subst; auto.
  - unfold on_selected in H. destruct (sselected s); [destruct (sstep s0 _ r); inversion H; subst; unfold with_extra; cbn [sbase sextras scurrent]; split; auto; intros j Hj; rewrite nget_nins; destruct (Nat.eqb_spec j (scurrent s)); congruence |].
    destruct (Z.eqb r (-1)); inversion H; subst; auto.
  - unfold on_selected in H. destruct (sselected s); [destruct (sstep s0 _ r); inversion H; subst; unfold with_extra; cbn [sbase sextras scurrent]; split; auto; intros j Hj; rewrite nget_nins; destruct (Nat.eqb_spec j (scurrent s)); congruence |].
    destruct (Z.eqb r 0); inversion H; subst; auto.
  - unfold on_selected_edge, on_selected in H. destruct (sselected s).
    + destruct (smem s0 a && smem s0 b).
      * destruct (sstep s0 _ r); inversion H; subst; unfold with_extra; cbn [sbase sextras scurrent]; split; auto; intros j Hj; rewrite nget_nins; destruct (Nat.eqb_spec j (scurrent s)); congruence.
      * destruct (Z.eqb r 0); inversion H; subst; auto.
    + destruct (Z.eqb r 0); inversion H; subst; auto.
  - unfold on_selected_edge, on_selected in H. destruct (sselected s).
    + destruct (smem s0 a && smem s0 b).
      * destruct (sstep s0 _ r); inversion H; subst; unfold with_extra; cbn [sbase sextras scurrent]; split; auto; intros j Hj; rewrite nget_nins; destruct (Nat.eqb_spec j (scurrent s)); congruence.
      * destruct (Z.eqb r 0); inversion H; subst; auto.
    + destruct (Z.eqb r 0); inversion H; subst; auto.
Qed.
