(* Model of deep_causality/src/types/context_types/context_graph: Context = base UltraGraph of
   contextoids + optional map of extra UltraGraphs + the selected extra id (0 = none) + two index maps.
   Contextoids are represented by their id (Z); relation kinds by their u64 code (edge weight). *)
From Coq Require Import List Arith NArith ZArith Bool.
From DC Require Import Common.AList Graph.UltraGraph.
Import ListNotations.

Record ctx := mkCtx {
  base : ugraph;
  extras : list (nat * ugraph);      (* HashMap<u64, UltraGraph> ; None and empty map behave alike *)
  count : nat;                       (* number_of_extra_contexts *)
  current : nat;                     (* extra_context_id, 0 = none selected *)
  cur_idx : list (nat * nat);        (* current_index_map *)
  prev_idx : list (nat * nat)        (* previous_index_map *)
}.

Definition new_ctx : ctx := mkCtx empty_graph [] 0 0 [] [].

Definition set_base (c : ctx) (g : ugraph) : ctx := mkCtx g (extras c) (count c) (current c) (cur_idx c) (prev_idx c).
Definition set_extra (c : ctx) (k : nat) (g : ugraph) : ctx :=
  mkCtx (base c) (nins k g (extras c)) (count c) (current c) (cur_idx c) (prev_idx c).

(* extra_ctx_check_exists: idx <= number_of_extra_contexts  (0 is accepted) *)
Definition check_exists (c : ctx) (i : nat) : bool := i <=? count c.

(* get_current_extra_context(_mut) *)
Definition current_extra (c : ctx) : option ugraph :=
  if current c =? 0 then None
  else if negb (check_exists c (current c)) then None
  else nget (current c) (extras c).

Inductive cop :=
| CAddNode (v : Z) | CRemoveNode (i : nat) | CAddEdge (a b : nat) (rel : N) | CRemoveEdge (a b : nat)
| XAddNew (default : bool) | XSetCurrent (i : nat) | XUnset
| XAddNode (v : Z) | XRemoveNode (i : nat) | XAddEdge (a b : nat) (rel : N) | XRemoveEdge (a b : nat)
| ISet (key idx : nat) (cur : bool).

(* return code: index / new id for adds, 1 Ok, 0 Err *)
Definition cstep (c : ctx) (o : cop) : Z * ctx :=
  match o with
  | CAddNode v => let '(k, g) := add_node (base c) v in (Z.of_nat k, set_base c g)
  | CRemoveNode i =>
      if negb (contains_node (base c) i) then (0%Z, c)
      else let '(r, g) := remove_node (base c) i in (zb r, set_base c g)
  | CAddEdge a b rel =>
      if negb (contains_node (base c) a) then (0%Z, c)
      else if negb (contains_node (base c) b) then (0%Z, c)
      else let '(r, g) := add_edge_with_weight (base c) a b rel in (zb r, set_base c g)
  | CRemoveEdge a b =>
      if negb (contains_node (base c) a) then (0%Z, c)
      else if negb (contains_node (base c) b) then (0%Z, c)
      else let '(r, g) := remove_edge (base c) a b in (zb r, set_base c g)
  | XAddNew default =>
      let n := S (count c) in
      (Z.of_nat n, mkCtx (base c) (nins n empty_graph (extras c)) n (if default then n else current c) (cur_idx c) (prev_idx c))
  | XSetCurrent i =>
      if check_exists c i then (1%Z, mkCtx (base c) (extras c) (count c) i (cur_idx c) (prev_idx c)) else (0%Z, c)
  | XUnset => (1%Z, mkCtx (base c) (extras c) (count c) 0 (cur_idx c) (prev_idx c))
  | XAddNode v =>
      match current_extra c with
      | Some g => let '(k, g') := add_node g v in (Z.of_nat k, set_extra c (current c) g')
      | None => ((-1)%Z, c)
      end
  | XRemoveNode i =>
      match current_extra c with
      | Some g => let '(r, g') := remove_node g i in (zb r, set_extra c (current c) g')
      | None => (0%Z, c)
      end
  | XAddEdge a b rel =>
      match current_extra c with
      | Some g =>
          if negb (contains_node g a) then (0%Z, c)
          else if negb (contains_node g b) then (0%Z, c)
          else let '(r, g') := add_edge_with_weight g a b rel in (zb r, set_extra c (current c) g')
      | None => (0%Z, c)
      end
  | XRemoveEdge a b =>
      match current_extra c with
      | Some g =>
          if negb (contains_node g a) then (0%Z, c)
          else if negb (contains_node g b) then (0%Z, c)
          else let '(r, g') := remove_edge g a b in (zb r, set_extra c (current c) g')
      | None => (0%Z, c)
      end
  | ISet key idx cur =>
      (1%Z, if cur then mkCtx (base c) (extras c) (count c) (current c) (nins key idx (cur_idx c)) (prev_idx c)
            else mkCtx (base c) (extras c) (count c) (current c) (cur_idx c) (nins key idx (prev_idx c)))
  end.

(* observation of one graph through the context API: contains/get per index, contains_edge per pair,
   size, is_empty, node_count, edge_count *)
Definition obs_graph (B : nat) (g : ugraph) : list Z :=
  let idx := seq 0 B in
  flat_map (fun i => [zb (contains_node g i); zopt (get_node g i)]) idx
  ++ flat_map (fun i => map (fun j => zb (contains_edge g i j)) idx) idx
  ++ [Z.of_nat (size g); zb (is_empty g); Z.of_nat (size g); Z.of_nat (number_edges g)].

(* what the extra_ctx_* readers report when nothing (valid) is selected *)
Definition obs_none (B : nat) : list Z :=
  let idx := seq 0 B in
  flat_map (fun i => [0%Z; (-1)%Z]) idx ++ flat_map (fun i => map (fun j => 0%Z) idx) idx
  ++ [(-1)%Z; (-1)%Z; (-1)%Z; (-1)%Z].

Definition obs_extra (B : nat) (c : ctx) : list Z :=
  match current_extra c with Some g => obs_graph B g | None => obs_none B end.

(* full observation: base; current id; check_exists over 0..count+2; every extra context 1..count
   read through the API after selecting it (the previous selection is restored afterwards);
   the extra readers under the actual selection; both index maps over the key window *)
Definition cobserve (B : nat) (c : ctx) : list Z :=
  obs_graph B (base c)
  ++ [Z.of_nat (current c)]
  ++ map (fun i => zb (check_exists c i)) (seq 0 (count c + 3))
  ++ flat_map (fun k => obs_extra B (mkCtx (base c) (extras c) (count c) k (cur_idx c) (prev_idx c))) (seq 1 (count c))
  ++ obs_extra B c
  ++ flat_map (fun k => [zoptn (nget k (cur_idx c)); zoptn (nget k (prev_idx c))]) (seq 0 B).

Fixpoint crun (B : nat) (c : ctx) (ops : list cop) : list Z * list Z :=
  match ops with
  | [] => ([], [])
  | o :: t => let '(r, c') := cstep c o in
              let '(rs, os) := crun B c' t in (r :: rs, cobserve B c' ++ os)
  end.

(* integer coding: B then ops as 4 ints: code x y z
   0 add_node v | 1 remove_node i | 2 add_edge a b rel | 3 remove_edge a b
   | 4 extra_add_new default | 5 set_current i | 6 unset
   | 7 x_add_node v | 8 x_remove_node i | 9 x_add_edge a b rel | 10 x_remove_edge a b
   | 11 set_index key idx cur  *)
Fixpoint decode_cops (l : list Z) (fuel : nat) : list cop :=
  match fuel with
  | O => []
  | S f =>
    match l with
    | c :: x :: y :: z :: rest =>
        (if Z.eqb c 0 then CAddNode x
         else if Z.eqb c 1 then CRemoveNode (Z.to_nat x)
         else if Z.eqb c 2 then CAddEdge (Z.to_nat x) (Z.to_nat y) (Z.to_N z)
         else if Z.eqb c 3 then CRemoveEdge (Z.to_nat x) (Z.to_nat y)
         else if Z.eqb c 4 then XAddNew (negb (Z.eqb x 0))
         else if Z.eqb c 5 then XSetCurrent (Z.to_nat x)
         else if Z.eqb c 6 then XUnset
         else if Z.eqb c 7 then XAddNode x
         else if Z.eqb c 8 then XRemoveNode (Z.to_nat x)
         else if Z.eqb c 9 then XAddEdge (Z.to_nat x) (Z.to_nat y) (Z.to_N z)
         else if Z.eqb c 10 then XRemoveEdge (Z.to_nat x) (Z.to_nat y)
         else ISet (Z.to_nat x) (Z.to_nat y) (negb (Z.eqb z 0))) :: decode_cops rest f
    | _ => []
    end
  end.

Definition context_model_entry (l : list Z) : list Z :=
  match l with
  | b :: rest => let '(rs, os) := crun (Z.to_nat b) new_ctx (decode_cops rest (length rest)) in rs ++ os
  | [] => []
  end.
