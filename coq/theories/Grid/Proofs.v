(* Proofs for the ArrayGrid model: C17. *)
From Coq Require Import List Arith ZArith Bool Lia.
From DC Require Import Common.ListAux Grid.Model.
Import ListNotations.

(* Laws of one storage level: wf = shape, inb = the code's own bounds condition *)
Record laws {X P : Type} (get_in : X -> P -> option Z) (set_in : X -> P -> Z -> option X)
            (wf : X -> Prop) (inb : P -> bool) : Prop := {
  get_inb : forall x p, wf x -> inb p = true -> exists v, get_in x p = Some v;
  get_oob : forall x p, wf x -> inb p = false -> get_in x p = None;
  set_inb : forall x p v, wf x -> inb p = true ->
            exists x', set_in x p v = Some x' /\ wf x' /\ get_in x' p = Some v /\
                       (forall q, q <> p -> get_in x' q = get_in x q);
  set_oob : forall x p v, wf x -> inb p = false -> set_in x p v = None
}.

Lemma laws0 : laws get0 set0 (fun _ => True) (fun _ => true).
Proof.
  constructor; intros; try discriminate.
  - eexists; reflexivity.
  - exists v. repeat split; auto. intros [] ; destruct p. congruence.
Qed.

Lemma nth_error_upd_eq {A} n (x : A) l : n < length l -> nth_error (upd n x l) n = Some x.
Proof. revert n; induction l as [|h t IH]; intros [|n] H; simpl in *; try lia; auto. apply IH; lia. Qed.

Lemma nth_error_upd_neq {A} n m (x : A) l : n <> m -> nth_error (upd n x l) m = nth_error l m.
Proof. revert n m; induction l as [|h t IH]; intros [|n] [|m] H; simpl; auto; try lia. Qed.

Lemma Forall_upd {A} (Q : A -> Prop) n x l : Forall Q l -> Q x -> Forall Q (upd n x l).
Proof.
  intros HF Hx. revert n; induction HF as [|h t Hh Ht IH]; intros [|n]; simpl; auto.
Qed.

Section LevelLaws.
  Context {X P : Type}.
  Variables (get_in : X -> P -> option Z) (set_in : X -> P -> Z -> option X).
  Variables (wf : X -> Prop) (inb : P -> bool).
  Hypothesis L : laws get_in set_in wf inb.
  Variable n : nat.

  Definition wfL (l : list X) : Prop := length l = n /\ Forall wf l.
  Definition inbL (ip : nat * P) : bool := (fst ip <? n) && inb (snd ip).

  Lemma lawsL : laws (getL get_in) (setL set_in) wfL inbL.
  Proof.
    constructor.
    - intros l [i p] [Hlen HF] Hin. unfold inbL in Hin; cbn [fst snd] in Hin.
      apply andb_prop in Hin as [Hi Hp]. apply Nat.ltb_lt in Hi.
      unfold getL; cbn [fst snd].
      destruct (nth_error l i) as [r|] eqn:E.
      + apply (get_inb _ _ _ _ L); auto. eapply Forall_forall; eauto. eapply nth_error_In; eauto.
      + apply nth_error_None in E. lia.
    - intros l [i p] [Hlen HF] Hin. unfold inbL in Hin; cbn [fst snd] in Hin.
      unfold getL; cbn [fst snd].
      destruct (nth_error l i) as [r|] eqn:E; [|reflexivity].
      apply andb_false_iff in Hin as [Hi|Hp].
      + apply Nat.ltb_ge in Hi. assert (i < length l) by (apply nth_error_Some; congruence). lia.
      + apply (get_oob _ _ _ _ L); auto. eapply Forall_forall; eauto. eapply nth_error_In; eauto.
    - intros l [i p] v [Hlen HF] Hin. unfold inbL in Hin; cbn [fst snd] in Hin.
      apply andb_prop in Hin as [Hi Hp]. apply Nat.ltb_lt in Hi.
      unfold setL, getL; cbn [fst snd].
      destruct (nth_error l i) as [r|] eqn:E.
      2:{ apply nth_error_None in E. lia. }
      assert (Hr : wf r) by (eapply Forall_forall; eauto; eapply nth_error_In; eauto).
      destruct (set_inb _ _ _ _ L r p v Hr Hp) as (r' & Hs & Hwf' & Hg & Hfr).
      rewrite Hs. exists (upd i r' l). split; [reflexivity|]. split; [|split].
      + split; [rewrite upd_length; exact Hlen | apply Forall_upd; auto].
      + rewrite nth_error_upd_eq by lia. exact Hg.
      + intros [j q] Hne. cbn [fst snd].
        destruct (Nat.eq_dec i j) as [->|Hij].
        * rewrite nth_error_upd_eq by lia. rewrite E. apply Hfr. congruence.
        * rewrite nth_error_upd_neq by exact Hij. reflexivity.
    - intros l [i p] v [Hlen HF] Hin. unfold inbL in Hin; cbn [fst snd] in Hin.
      unfold setL; cbn [fst snd].
      destruct (nth_error l i) as [r|] eqn:E; [|reflexivity].
      apply andb_false_iff in Hin as [Hi|Hp].
      + apply Nat.ltb_ge in Hi. assert (i < length l) by (apply nth_error_Some; congruence). lia.
      + rewrite (set_oob _ _ _ _ L r p v); auto. eapply Forall_forall; eauto. eapply nth_error_In; eauto.
  Qed.
End LevelLaws.

(* shapes and bounds of the four storages *)
Definition wf1 (H : nat) : S1 -> Prop := wfL (fun _ : Z => True) H.
Definition inb1 (H : nat) : P1 -> bool := inbL (fun _ : unit => true) H.
Definition wf2 (W H : nat) : S2 -> Prop := wfL (wf1 W) H.
Definition inb2 (W H : nat) : P2 -> bool := inbL (inb1 W) H.
Definition wf3 (W H D : nat) : S3 -> Prop := wfL (wf2 W H) D.
Definition inb3 (W H D : nat) : P3 -> bool := inbL (inb2 W H) D.
Definition wf4 (W H D C : nat) : S4 -> Prop := wfL (wf3 W H D) C.
Definition inb4 (W H D C : nat) : P4 -> bool := inbL (inb3 W H D) C.

Lemma laws1 H : laws get1 set1 (wf1 H) (inb1 H).
Proof. apply lawsL, laws0. Qed.
Lemma laws2 W H : laws get2 set2 (wf2 W H) (inb2 W H).
Proof. apply lawsL, laws1. Qed.
Lemma laws3 W H D : laws get3 set3 (wf3 W H D) (inb3 W H D).
Proof. apply lawsL, laws2. Qed.
Lemma laws4 W H D C : laws get4 set4 (wf4 W H D C) (inb4 W H D C).
Proof. apply lawsL, laws3. Qed.

Lemma wfL_repeat {X} (wf : X -> Prop) n x : wf x -> wfL wf n (repeat x n).
Proof.
  intros Hx. split; [apply repeat_length|]. apply Forall_forall. intros y Hy.
  apply repeat_spec in Hy. subst. exact Hx.
Qed.

(* grid-level well-formedness for a kind and extents *)
Definition wfG (kind W H D C : nat) (g : grid) : Prop :=
  match kind, g with
  | 1, G1 s => wf1 H s
  | 2, G2 s => wf2 W H s
  | 3, G3 s => wf3 W H D s
  | 4, G4 s => wf4 W H D C s
  | _, _ => False
  end.

Definition valid_kind (k : nat) : Prop := k = 1 \/ k = 2 \/ k = 3 \/ k = 4.

Lemma new_grid_wf kind W H D C : valid_kind kind -> wfG kind W H D C (new_grid kind W H D C).
Proof.
  intros [-> | [-> | [-> | ->]]]; cbn [wfG new_grid];
    unfold wf4, wf3, wf2, wf1; repeat apply wfL_repeat; exact I.
Qed.

Lemma in_bounds_path kind W H D C p : valid_kind kind ->
  in_bounds kind W H D C p =
  match kind with
  | 1 => inb1 H (path1 p) | 2 => inb2 W H (path2 p)
  | 3 => inb3 W H D (path3 p) | _ => inb4 W H D C (path4 p)
  end.
Proof.
  intros [-> | [-> | [-> | ->]]]; cbn [in_bounds]; unfold inb4, inb3, inb2, inb1, inbL, path1, path2, path3, path4;
    cbn [fst snd]; rewrite ?andb_true_r, ?andb_assoc; reflexivity.
Qed.

Lemma same_cell_path kind p q : valid_kind kind ->
  same_cell kind p q = true <->
  match kind with
  | 1 => path1 p = path1 q | 2 => path2 p = path2 q
  | 3 => path3 p = path3 q | _ => path4 p = path4 q
  end.
Proof.
  intros [-> | [-> | [-> | ->]]]; cbn [same_cell]; unfold path1, path2, path3, path4;
    rewrite ?andb_true_iff, ?Nat.eqb_eq; split; intros Hx;
    repeat match goal with H : _ /\ _ |- _ => destruct H end; try congruence;
    inversion Hx; auto.
Qed.

Lemma get_initial kind W H D C p : valid_kind kind ->
  in_bounds kind W H D C p = true -> get (new_grid kind W H D C) p = Some 0%Z.
Proof.
  intros Hk Hin.
  assert (E : forall n i (x : Z), i < n -> nth_error (repeat x n) i = Some x).
  { induction n as [|n IH]; intros [|i] x Hi; simpl; try lia; auto. apply IH; lia. }
  assert (E2 : forall {A} n i (x : A), i < n -> nth_error (repeat x n) i = Some x).
  { intros A; induction n as [|n IH]; intros [|i] x Hi; simpl; try lia; auto. apply IH; lia. }
  destruct Hk as [-> | [-> | [-> | ->]]]; cbn [in_bounds new_grid get] in *;
    unfold get4, get3, get2, get1, getL, get0, path1, path2, path3, path4; cbn [fst snd];
    repeat (apply andb_prop in Hin as [Hin ?]);
    repeat match goal with H : (_ <? _) = true |- _ => apply Nat.ltb_lt in H end;
    repeat (rewrite E2 by assumption); reflexivity.
Qed.

(* The four store/load laws at grid level *)
Theorem get_set_same kind W H D C g p v :
  valid_kind kind -> wfG kind W H D C g -> in_bounds kind W H D C p = true ->
  exists g', set g p v = Some g' /\ wfG kind W H D C g' /\ get g' p = Some v /\
             (forall q, same_cell kind p q = false -> get g' q = get g q).
Proof.
  intros Hk Hwf Hin. rewrite in_bounds_path in Hin by exact Hk.
  destruct Hk as [-> | [-> | [-> | ->]]]; destruct g; cbn [wfG] in Hwf; try contradiction; cbn [set get].
  - destruct (set_inb _ _ _ _ (laws1 H) s (path1 p) v Hwf Hin) as (s' & Hs & Hw & Hg & Hf).
    rewrite Hs. exists (G1 s'). cbn [option_map wfG get].
    split; [reflexivity|]. split; [exact Hw|]. split; [exact Hg|].
    intros q Hq. apply Hf. intros E. symmetry in E.
    apply (same_cell_path 1 p q) in E; [congruence|left; reflexivity].
  - destruct (set_inb _ _ _ _ (laws2 W H) s (path2 p) v Hwf Hin) as (s' & Hs & Hw & Hg & Hf).
    rewrite Hs. exists (G2 s'). cbn [option_map wfG get].
    split; [reflexivity|]. split; [exact Hw|]. split; [exact Hg|].
    intros q Hq. apply Hf. intros E. symmetry in E.
    apply (same_cell_path 2 p q) in E; [congruence|right; left; reflexivity].
  - destruct (set_inb _ _ _ _ (laws3 W H D) s (path3 p) v Hwf Hin) as (s' & Hs & Hw & Hg & Hf).
    rewrite Hs. exists (G3 s'). cbn [option_map wfG get].
    split; [reflexivity|]. split; [exact Hw|]. split; [exact Hg|].
    intros q Hq. apply Hf. intros E. symmetry in E.
    apply (same_cell_path 3 p q) in E; [congruence|right; right; left; reflexivity].
  - destruct (set_inb _ _ _ _ (laws4 W H D C) s (path4 p) v Hwf Hin) as (s' & Hs & Hw & Hg & Hf).
    rewrite Hs. exists (G4 s'). cbn [option_map wfG get].
    split; [reflexivity|]. split; [exact Hw|]. split; [exact Hg|].
    intros q Hq. apply Hf. intros E. symmetry in E.
    apply (same_cell_path 4 p q) in E; [congruence|right; right; right; reflexivity].
Qed.

Theorem set_out_of_bounds kind W H D C g p v :
  valid_kind kind -> wfG kind W H D C g -> in_bounds kind W H D C p = false ->
  set g p v = None /\ get g p = None.
Proof.
  intros Hk Hwf Hin. rewrite in_bounds_path in Hin by exact Hk.
  destruct Hk as [-> | [-> | [-> | ->]]]; destruct g; cbn [wfG] in Hwf; try contradiction; cbn [set get].
  - rewrite (set_oob _ _ _ _ (laws1 H)), (get_oob _ _ _ _ (laws1 H)); auto.
  - rewrite (set_oob _ _ _ _ (laws2 W H)), (get_oob _ _ _ _ (laws2 W H)); auto.
  - rewrite (set_oob _ _ _ _ (laws3 W H D)), (get_oob _ _ _ _ (laws3 W H D)); auto.
  - rewrite (set_oob _ _ _ _ (laws4 W H D C)), (get_oob _ _ _ _ (laws4 W H D C)); auto.
Qed.

Lemma get_in_bounds kind W H D C g p :
  valid_kind kind -> wfG kind W H D C g -> in_bounds kind W H D C p = true -> exists v, get g p = Some v.
Proof.
  intros Hk Hwf Hin. rewrite in_bounds_path in Hin by exact Hk.
  destruct Hk as [-> | [-> | [-> | ->]]]; destruct g; cbn [wfG] in Hwf; try contradiction; cbn [get].
  - apply (get_inb _ _ _ _ (laws1 H)); auto.
  - apply (get_inb _ _ _ _ (laws2 W H)); auto.
  - apply (get_inb _ _ _ _ (laws3 W H D)); auto.
  - apply (get_inb _ _ _ _ (laws4 W H D C)); auto.
Qed.

Lemma same_cell_get kind W H D C g p q :
  valid_kind kind -> same_cell kind p q = true -> get g p = get g q \/ ~ wfG kind W H D C g.
Proof.
  intros Hk E. apply (same_cell_path kind p q Hk) in E.
  destruct Hk as [-> | [-> | [-> | ->]]]; destruct g; cbn [wfG get]; auto; left; rewrite E; reflexivity.
Qed.

Lemma same_cell_in_bounds kind W H D C p q :
  valid_kind kind -> same_cell kind p q = true -> in_bounds kind W H D C p = in_bounds kind W H D C q.
Proof.
  intros Hk E. rewrite !in_bounds_path by exact Hk. apply (same_cell_path kind p q Hk) in E.
  destruct Hk as [-> | [-> | [-> | ->]]]; rewrite E; reflexivity.
Qed.

(* the grid agrees with the list of stores made so far *)
Definition agrees (kind W H D C : nat) (g : grid) (stores : list (point * Z)) : Prop :=
  wfG kind W H D C g /\
  forall p, in_bounds kind W H D C p = true -> get g p = Some (lookup kind stores p).

Lemma agrees_init kind W H D C : valid_kind kind -> agrees kind W H D C (new_grid kind W H D C) [].
Proof. intros Hk. split; [apply new_grid_wf, Hk|]. intros p Hp. apply get_initial; auto. Qed.

(* C17 main theorem: every sequence of stores and loads behaves like the map of last stores;
   an out-of-bounds access (by the code's own per-axis condition) panics in both. *)
Theorem run_model_eq_spec kind W H D C ops g stores :
  valid_kind kind -> agrees kind W H D C g stores ->
  run_model g ops = run_spec kind W H D C stores ops.
Proof.
  intros Hk. revert g stores. induction ops as [|[p v|p] ops IH]; intros g stores [Hwf Hag]; cbn [run_model run_spec].
  - reflexivity.
  - destruct (in_bounds kind W H D C p) eqn:Hin.
    + destruct (get_set_same kind W H D C g p v Hk Hwf Hin) as (g' & Hs & Hwf' & Hg & Hfr).
      rewrite Hs. apply IH. split; [exact Hwf'|].
      intros q Hq. cbn [lookup]. destruct (same_cell kind p q) eqn:Esc.
      * destruct (same_cell_get kind W H D C g' p q Hk Esc) as [Eg|Hn]; [|contradiction].
        rewrite <- Eg. exact Hg.
      * rewrite Hfr by exact Esc. apply Hag, Hq.
    + destruct (set_out_of_bounds kind W H D C g p v Hk Hwf Hin) as [Hs _]. rewrite Hs. reflexivity.
  - destruct (in_bounds kind W H D C p) eqn:Hin.
    + rewrite (Hag p Hin). rewrite (IH g stores); [reflexivity | split; assumption].
    + destruct (set_out_of_bounds kind W H D C g p 0%Z Hk Hwf Hin) as [_ Hg]. rewrite Hg. reflexivity.
Qed.

Theorem grid_store_load kind W H D C ops :
  valid_kind kind ->
  run_model (new_grid kind W H D C) ops = run_spec kind W H D C [] ops.
Proof. intros Hk. apply run_model_eq_spec; auto using agrees_init. Qed.

(* the property's "all coordinates below the smallest extent" implies the code's per-axis condition *)
Lemma below_min_in_bounds kind W H D C p :
  valid_kind kind ->
  let m := Nat.min (Nat.min W H) (Nat.min D C) in
  px p < m -> py p < m -> pz p < m -> pt p < m -> in_bounds kind W H D C p = true.
Proof.
  intros Hk m Hx Hy Hz Ht. unfold m in *.
  destruct Hk as [-> | [-> | [-> | ->]]]; cbn [in_bounds];
    rewrite ?andb_true_iff, ?Nat.ltb_lt; repeat split; lia.
Qed.

Example grid_example :
  run_model (new_grid 3 2 3 4 1)
    [GSet (mkPoint 2 3 1 0) 7%Z; GSet (mkPoint 1 3 1 0) 8%Z; GGet (mkPoint 2 3 1 0); GGet (mkPoint 1 3 1 0);
     GGet (mkPoint 2 3 0 0); GSet (mkPoint 2 3 1 9) 5%Z; GGet (mkPoint 2 3 1 0)]
  = Some [7; 8; 0; 5]%Z.
Proof. vm_compute. reflexivity. Qed.
