(* Model of dcl_data_structures/src/grid_type: ArrayGrid over nested arrays.
   A k-dimensional storage is a k-fold nested list; indexing out of bounds is a panic (None).
   Coordinate order exactly as storage_array_{1,2,3,4}d.rs:
     1D  self[x]                [T;H]               x < H
     2D  self[y][x]             [[T;W];H]           y < H, x < W
     3D  self[y][x][z]          [[[T;W];H];D]       y < D, x < H, z < W
     4D  self[y][x][z][t]       [[[[T;W];H];D];C]   y < C, x < D, z < H, t < W *)
From Coq Require Import List Arith ZArith Bool.
From DC Require Import Common.ListAux.
Import ListNotations.

(* one more array level on top of an element type X addressed by paths P *)
Section Level.
  Context {X P : Type}.
  Variable get_in : X -> P -> option Z.
  Variable set_in : X -> P -> Z -> option X.

  Definition getL (l : list X) (ip : nat * P) : option Z :=
    match nth_error l (fst ip) with Some r => get_in r (snd ip) | None => None end.

  Definition setL (l : list X) (ip : nat * P) (v : Z) : option (list X) :=
    match nth_error l (fst ip) with
    | Some r => match set_in r (snd ip) v with
                | Some r' => Some (upd (fst ip) r' l)
                | None => None
                end
    | None => None
    end.
End Level.

Definition get0 (x : Z) (_ : unit) : option Z := Some x.
Definition set0 (_ : Z) (_ : unit) (v : Z) : option Z := Some v.

Definition P1 := (nat * unit)%type.
Definition P2 := (nat * P1)%type.
Definition P3 := (nat * P2)%type.
Definition P4 := (nat * P3)%type.
Definition S1 := list Z.
Definition S2 := list S1.
Definition S3 := list S2.
Definition S4 := list S3.

Definition get1 : S1 -> P1 -> option Z := getL get0.
Definition set1 : S1 -> P1 -> Z -> option S1 := setL set0.
Definition get2 : S2 -> P2 -> option Z := getL get1.
Definition set2 : S2 -> P2 -> Z -> option S2 := setL set1.
Definition get3 : S3 -> P3 -> option Z := getL get2.
Definition set3 : S3 -> P3 -> Z -> option S3 := setL set2.
Definition get4 : S4 -> P4 -> option Z := getL get3.
Definition set4 : S4 -> P4 -> Z -> option S4 := setL set3.

Inductive grid := G1 (s : S1) | G2 (s : S2) | G3 (s : S3) | G4 (s : S4).

Record point := mkPoint { px : nat; py : nat; pz : nat; pt : nat }.

(* ArrayGrid::new(array_type): extents W H D C, default value 0 *)
Definition new_grid (kind W H D C : nat) : grid :=
  match kind with
  | 1 => G1 (repeat 0%Z H)
  | 2 => G2 (repeat (repeat 0%Z W) H)
  | 3 => G3 (repeat (repeat (repeat 0%Z W) H) D)
  | _ => G4 (repeat (repeat (repeat (repeat 0%Z W) H) D) C)
  end.

Definition path1 (p : point) : P1 := (px p, tt).
Definition path2 (p : point) : P2 := (py p, (px p, tt)).
Definition path3 (p : point) : P3 := (py p, (px p, (pz p, tt))).
Definition path4 (p : point) : P4 := (py p, (px p, (pz p, (pt p, tt)))).

Definition get (g : grid) (p : point) : option Z :=
  match g with
  | G1 s => get1 s (path1 p) | G2 s => get2 s (path2 p)
  | G3 s => get3 s (path3 p) | G4 s => get4 s (path4 p)
  end.

Definition set (g : grid) (p : point) (v : Z) : option grid :=
  match g with
  | G1 s => option_map G1 (set1 s (path1 p) v) | G2 s => option_map G2 (set2 s (path2 p) v)
  | G3 s => option_map G3 (set3 s (path3 p) v) | G4 s => option_map G4 (set4 s (path4 p) v)
  end.

(* ---- specification: a finite map from the relevant coordinates to the last stored value ---- *)
Definition in_bounds (kind W H D C : nat) (p : point) : bool :=
  match kind with
  | 1 => px p <? H
  | 2 => (py p <? H) && (px p <? W)
  | 3 => (py p <? D) && (px p <? H) && (pz p <? W)
  | _ => (py p <? C) && (px p <? D) && (pz p <? H) && (pt p <? W)
  end.

(* two points denote the same cell of a kind-k grid *)
Definition same_cell (kind : nat) (p q : point) : bool :=
  match kind with
  | 1 => px p =? px q
  | 2 => (py p =? py q) && (px p =? px q)
  | 3 => (py p =? py q) && (px p =? px q) && (pz p =? pz q)
  | _ => (py p =? py q) && (px p =? px q) && (pz p =? pz q) && (pt p =? pt q)
  end.

Inductive gop := GSet (p : point) (v : Z) | GGet (p : point).

(* stores so far, newest first *)
Fixpoint lookup (kind : nat) (stores : list (point * Z)) (p : point) : Z :=
  match stores with
  | [] => 0%Z
  | (q, v) :: t => if same_cell kind q p then v else lookup kind t p
  end.

(* run: results of the gets; None as soon as an operation is out of bounds (panic) *)
Fixpoint run_model (g : grid) (ops : list gop) : option (list Z) :=
  match ops with
  | [] => Some []
  | GSet p v :: t => match set g p v with Some g' => run_model g' t | None => None end
  | GGet p :: t => match get g p with
                   | Some x => option_map (cons x) (run_model g t)
                   | None => None
                   end
  end.

Fixpoint run_spec (kind W H D C : nat) (stores : list (point * Z)) (ops : list gop) : option (list Z) :=
  match ops with
  | [] => Some []
  | GSet p v :: t => if in_bounds kind W H D C p then run_spec kind W H D C ((p, v) :: stores) t else None
  | GGet p :: t => if in_bounds kind W H D C p
                   then option_map (cons (lookup kind stores p)) (run_spec kind W H D C stores t)
                   else None
  end.

Definition norm_kind (k : nat) : nat := match k with 1 => 1 | 2 => 2 | 3 => 3 | _ => 4 end.

(* ---- integer coding: kind W H D C then ops: 0 x y z t v (set) | 1 x y z t (get) ----------- *)
Fixpoint decode_gops (fuel : nat) (l : list Z) : list gop :=
  match fuel with
  | O => []
  | S f =>
    match l with
    | o :: x :: y :: z :: t :: rest =>
        let p := mkPoint (Z.to_nat x) (Z.to_nat y) (Z.to_nat z) (Z.to_nat t) in
        if Z.eqb o 0 then
          match rest with
          | v :: rest' => GSet p v :: decode_gops f rest'
          | [] => []
          end
        else GGet p :: decode_gops f rest
    | _ => []
    end
  end.

Definition out_opt (o : option (list Z)) : list Z := match o with Some l => l | None => [(-999)%Z] end.

Definition grid_model_entry (l : list Z) : list Z :=
  match l with
  | k :: w :: h :: d :: c :: ops =>
      let kind := norm_kind (Z.to_nat k) in
      out_opt (run_model (new_grid kind (Z.to_nat w) (Z.to_nat h) (Z.to_nat d) (Z.to_nat c))
                         (decode_gops (length ops) ops))
  | _ => []
  end.

Definition grid_spec_entry (l : list Z) : list Z :=
  match l with
  | k :: w :: h :: d :: c :: ops =>
      let kind := norm_kind (Z.to_nat k) in
      out_opt (run_spec kind (Z.to_nat w) (Z.to_nat h) (Z.to_nat d) (Z.to_nat c) []
                        (decode_gops (length ops) ops))
  | _ => []
  end.
