(* IEEE-754 binary64 as used by the models: Coq's SpecFloat (pure Z arithmetic, round to nearest
   even, no axioms), with conversion from/to the 64-bit patterns exchanged with the harness.
   NaN payloads are not represented (every NaN prints as the canonical quiet NaN). *)
From Coq Require Import ZArith Bool Floats.SpecFloat.
Local Open Scope Z_scope.

Definition prec := 53.
Definition emax := 1024.

Definition f64 := spec_float.

Definition of_bits (b : Z) : f64 :=
  let s := Z.leb 9223372036854775808 b in                (* bit 63 *)
  let mag := if s then b - 9223372036854775808 else b in
  let ex := mag / 4503599627370496 in                    (* >> 52 *)
  let m := mag mod 4503599627370496 in
  if ex =? 0 then
    match m with Zpos p => S754_finite s p (-1074) | _ => S754_zero s end
  else if ex =? 2047 then
    (if m =? 0 then S754_infinity s else S754_nan)
  else
    match m + 4503599627370496 with Zpos p => S754_finite s p (ex - 1075) | _ => S754_nan end.

Definition to_bits (x : f64) : Z :=
  let sb (s : bool) := if s then 9223372036854775808 else 0 in
  match x with
  | S754_zero s => sb s
  | S754_infinity s => sb s + 9218868437227405312
  | S754_nan => 9221120237041090560
  | S754_finite s m e =>
      let mz := Zpos m in
      if mz <? 4503599627370496 then sb s + mz                                     (* subnormal, e = -1074 *)
      else sb s + (e + 1075) * 4503599627370496 + (mz - 4503599627370496)
  end.

Definition fmul : f64 -> f64 -> f64 := SFmul prec emax.
Definition fdiv : f64 -> f64 -> f64 := SFdiv prec emax.
Definition fsub : f64 -> f64 -> f64 := SFsub prec emax.
Definition fadd : f64 -> f64 -> f64 := SFadd prec emax.
Definition feqb : f64 -> f64 -> bool := SFeqb.            (* == *)
Definition fltb : f64 -> f64 -> bool := SFltb.            (* <  *)
Definition fleb : f64 -> f64 -> bool := SFleb.            (* <= *)

Definition of_Z (z : Z) : f64 := binary_normalize prec emax z 0 false.
Definition of_nat (n : nat) : f64 := of_Z (Z.of_nat n).

(* f64::total_cmp on the bit patterns: sign-magnitude order, -NaN < -inf < .. < -0 < +0 < .. < +inf < +NaN *)
Definition total_key (b : Z) : Z :=
  if b <? 9223372036854775808 then b else - 1 - (b - 9223372036854775808).
Definition total_cmp (a b : Z) : comparison := Z.compare (total_key a) (total_key b).

(* f64::trunc followed by ==, as one relation: [trunc_class] gives nan / +-inf / the integer *)
Inductive tclass := TNan | TInf (s : bool) | TInt (z : Z).
Definition trunc_class (x : f64) : tclass :=
  match x with
  | S754_nan => TNan
  | S754_infinity s => TInf s
  | S754_zero _ => TInt 0
  | S754_finite s m e =>
      let mag := if 0 <=? e then Zpos m * 2 ^ e else Zpos m / 2 ^ (- e) in
      TInt (if s then - mag else mag)
  end.
Definition tclass_eqb (a b : tclass) : bool :=
  match a, b with
  | TInt x, TInt y => x =? y
  | TInf s, TInf t => Bool.eqb s t
  | _, _ => false
  end.

Definition f_zero : f64 := S754_zero false.
Definition f_one : f64 := of_Z 1.
Definition f_hundred : f64 := of_Z 100.
Definition f_10000 : f64 := of_Z 10000.
Definition f_minus_one : f64 := of_Z (-1).
