(* Small list utilities shared by the models. Stdlib only. *)
From Coq Require Import List Arith Lia.
Import ListNotations.

Section Upd.
  Context {A : Type}.

  (* l[n] := x ; out of range leaves l unchanged *)
  Fixpoint upd (n : nat) (x : A) (l : list A) : list A :=
    match l, n with
    | [], _ => []
    | _ :: t, O => x :: t
    | h :: t, S m => h :: upd m x t
    end.

  Lemma upd_length n x l : length (upd n x l) = length l.
  Proof. revert n; induction l as [|h t IH]; intros [|n]; simpl; auto. Qed.

  Lemma nth_upd_eq n x l d : n < length l -> nth n (upd n x l) d = x.
  Proof.
    revert n; induction l as [|h t IH]; intros [|n] H; simpl in *; try lia; auto.
    apply IH; lia.
  Qed.

  Lemma nth_upd_neq n m x l d : n <> m -> nth m (upd n x l) d = nth m l d.
  Proof.
    revert n m; induction l as [|h t IH]; intros [|n] [|m] H; simpl; auto; try lia.
  Qed.

  Lemma skipn_skipn (x y : nat) (l : list A) : skipn x (skipn y l) = skipn (x + y) l.
  Proof.
    revert l; induction y as [|y IH]; intros l.
    - rewrite Nat.add_0_r. reflexivity.
    - destruct l as [|a l].
      + rewrite !skipn_nil. reflexivity.
      + rewrite Nat.add_succ_r. simpl. apply IH.
  Qed.

  (* last n elements of a list *)
  Definition lastn (n : nat) (l : list A) : list A := skipn (length l - n) l.

  Lemma lastn_length n l : length (lastn n l) = Nat.min n (length l).
  Proof. unfold lastn. rewrite skipn_length. lia. Qed.

  Lemma lastn_all n l : length l <= n -> lastn n l = l.
  Proof. unfold lastn; intros H. replace (length l - n) with 0 by lia. reflexivity. Qed.

  Lemma lastn_app_one n l x : lastn (S n) (l ++ [x]) = lastn n l ++ [x].
  Proof.
    unfold lastn. rewrite app_length; simpl.
    replace (length l + 1 - S n) with (length l - n) by lia.
    rewrite skipn_app.
    replace (length l - n - length l) with 0 by lia. reflexivity.
  Qed.
End Upd.
