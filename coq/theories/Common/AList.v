(* Association lists with a boolean key equality: the finite maps of the models
   (HashMap / AHashMap / adjacency cells). Stdlib only. *)
From Coq Require Import List Arith Bool Lia Permutation.
Import ListNotations.

Section AList.
  Context {K V : Type}.
  Variable eqb : K -> K -> bool.
  Hypothesis eqb_spec : forall a b, reflect (a = b) (eqb a b).

  Fixpoint aget (k : K) (l : list (K * V)) : option V :=
    match l with
    | [] => None
    | (k', v) :: t => if eqb k k' then Some v else aget k t
    end.

  Fixpoint aremove (k : K) (l : list (K * V)) : list (K * V) :=
    match l with
    | [] => []
    | (k', v) :: t => if eqb k k' then aremove k t else (k', v) :: aremove k t
    end.

  Definition amem (k : K) (l : list (K * V)) : bool :=
    match aget k l with Some _ => true | None => false end.

  (* HashMap::insert: replace the value of an existing key, else add *)
  Definition ainsert (k : K) (v : V) (l : list (K * V)) : list (K * V) :=
    (k, v) :: aremove k l.

  Definition keys (l : list (K * V)) : list K := map fst l.

  Lemma eqb_refl k : eqb k k = true.
  Proof. destruct (eqb_spec k k); congruence. Qed.

  Lemma aget_In_keys k l : amem k l = true <-> In k (keys l).
  Proof.
    unfold amem. induction l as [|[k' v] t IH]; simpl.
    - split; [discriminate | tauto].
    - destruct (eqb_spec k k') as [->|Hne].
      + split; auto.
      + rewrite IH. split; [auto | intros [E|H]; [congruence | exact H]].
  Qed.

  Lemma aget_None_not_In k l : aget k l = None <-> ~ In k (keys l).
  Proof.
    rewrite <- aget_In_keys. unfold amem. destruct (aget k l).
    - split; [discriminate | intros H; exfalso; apply H; reflexivity].
    - split; [intros _ H; discriminate | reflexivity].
  Qed.

  Lemma keys_aremove k l k' : In k' (keys (aremove k l)) <-> In k' (keys l) /\ k' <> k.
  Proof.
    induction l as [|[k0 v] t IH]; simpl.
    - tauto.
    - destruct (eqb_spec k k0) as [->|Hne].
      + rewrite IH. split; [tauto|]. intros [[E|H] Hn]; [congruence | tauto].
      + simpl. rewrite IH. split.
        * intros [E|[H Hn]]; [subst; split; auto | tauto].
        * intros [[E|H] Hn]; [auto | tauto].
  Qed.

  Lemma aget_aremove_eq k l : aget k (aremove k l) = None.
  Proof. apply aget_None_not_In. rewrite keys_aremove. tauto. Qed.

  Lemma aget_aremove_neq k k' l : k' <> k -> aget k' (aremove k l) = aget k' l.
  Proof.
    intros Hne. induction l as [|[k0 v] t IH]; simpl; auto.
    destruct (eqb_spec k k0) as [->|H0].
    - rewrite IH. destruct (eqb_spec k' k0); congruence.
    - simpl. rewrite IH. reflexivity.
  Qed.

  Lemma aget_ainsert_eq k v l : aget k (ainsert k v l) = Some v.
  Proof. unfold ainsert; simpl. rewrite eqb_refl. reflexivity. Qed.

  Lemma aget_ainsert_neq k k' v l : k' <> k -> aget k' (ainsert k v l) = aget k' l.
  Proof.
    intros Hne. unfold ainsert; simpl. destruct (eqb_spec k' k); [congruence|].
    apply aget_aremove_neq, Hne.
  Qed.

  Lemma NoDup_keys_aremove k l : NoDup (keys l) -> NoDup (keys (aremove k l)).
  Proof.
    induction l as [|[k0 v] t IH]; simpl; intros H; auto.
    inversion H as [|? ? Hn Ht]; subst.
    destruct (eqb_spec k k0); auto. simpl. constructor; auto.
    rewrite keys_aremove. tauto.
  Qed.

  Lemma aremove_not_In k l : ~ In k (keys l) -> aremove k l = l.
  Proof.
    induction l as [|[k0 v] t IH]; simpl; intros H; auto.
    destruct (eqb_spec k k0) as [->|Hne]; [tauto|]. rewrite IH; tauto.
  Qed.

  Lemma length_aremove_In k l : NoDup (keys l) -> In k (keys l) -> S (length (aremove k l)) = length l.
  Proof.
    induction l as [|[k0 v] t IH]; simpl; intros Hnd Hin; [tauto|].
    inversion Hnd as [|? ? Hn Ht]; subst.
    destruct (eqb_spec k k0) as [->|Hne].
    - rewrite aremove_not_In by exact Hn. reflexivity.
    - simpl. rewrite IH; auto. destruct Hin; congruence.
  Qed.

  Lemma keys_aremove_perm k l :
    NoDup (keys l) -> In k (keys l) -> Permutation (keys l) (k :: keys (aremove k l)).
  Proof.
    induction l as [|[k0 v] t IH]; simpl; intros Hnd Hin; [tauto|].
    inversion Hnd as [|? ? Hn Ht]; subst.
    destruct (eqb_spec k k0) as [->|Hne].
    - rewrite aremove_not_In by exact Hn. reflexivity.
    - simpl. destruct Hin as [E|Hin]; [congruence|].
      rewrite (IH Ht Hin) at 1. apply perm_swap.
  Qed.
End AList.

Arguments aget {K V} eqb k l.
Arguments aremove {K V} eqb k l.
Arguments amem {K V} eqb k l.
Arguments ainsert {K V} eqb k v l.
Arguments keys {K V} l.

Definition pair_eqb (a b : nat * nat) : bool := (fst a =? fst b) && (snd a =? snd b).
Lemma pair_eqb_spec a b : reflect (a = b) (pair_eqb a b).
Proof.
  destruct a as [a1 a2], b as [b1 b2]. unfold pair_eqb; simpl.
  destruct (Nat.eqb_spec a1 b1), (Nat.eqb_spec a2 b2); simpl; constructor; congruence.
Qed.
