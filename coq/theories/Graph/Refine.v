(* C08: the UltraGraph model refines the plain directed-graph specification. *)
From Coq Require Import List Arith NArith ZArith Bool Lia Permutation.
From DC Require Import Common.AList Graph.UltraGraph Graph.Spec.
Import ListNotations.

(* ---------- generic helpers ------------------------------------------------------------------- *)
Lemma nget_nins {V} i k (x : V) l : nget i (nins k x l) = if i =? k then Some x else nget i l.
Proof.
  unfold nget, nins. destruct (Nat.eqb_spec i k) as [->|Hne].
  - apply (aget_ainsert_eq Nat.eqb Nat.eqb_spec).
  - apply (aget_ainsert_neq Nat.eqb Nat.eqb_spec). exact Hne.
Qed.

Lemma nget_nrem {V} i k (l : list (nat * V)) : nget i (nrem k l) = if i =? k then None else nget i l.
Proof.
  unfold nget, nrem. destruct (Nat.eqb_spec i k) as [->|Hne].
  - apply (aget_aremove_eq Nat.eqb Nat.eqb_spec).
  - apply (aget_aremove_neq Nat.eqb Nat.eqb_spec). exact Hne.
Qed.

Lemma keys_nins {V} i k (x : V) l : In i (keys (nins k x l)) <-> i = k \/ In i (keys l).
Proof.
  unfold nins, ainsert. cbn [keys map fst]. fold (keys (aremove Nat.eqb k l)).
  cbn [In]. pose proof (keys_aremove Nat.eqb Nat.eqb_spec k l i) as Hk.
  destruct (Nat.eq_dec i k); intuition.
Qed.

Lemma keys_nrem {V} i k (l : list (nat * V)) : In i (keys (nrem k l)) <-> In i (keys l) /\ i <> k.
Proof. apply (keys_aremove Nat.eqb Nat.eqb_spec). Qed.

Lemma amem_In {V} i (l : list (nat * V)) : amem Nat.eqb i l = true <-> In i (keys l).
Proof. apply (aget_In_keys Nat.eqb Nat.eqb_spec). Qed.

Lemma nget_None {V} i (l : list (nat * V)) : nget i l = None <-> ~ In i (keys l).
Proof. apply (aget_None_not_In Nat.eqb Nat.eqb_spec). Qed.

Lemma emem_In k l : emem k l = true <-> In k (keys l).
Proof. apply (aget_In_keys pair_eqb pair_eqb_spec). Qed.

Lemma erem_filter k (l : list ((nat * nat) * N)) :
  erem k l = filter (fun c => negb (pair_eqb k (fst c))) l.
Proof.
  unfold erem. induction l as [|[k0 v] t IH]; simpl; auto.
  destruct (pair_eqb k k0); simpl; rewrite IH; reflexivity.
Qed.

Lemma keys_filter_In {K V} (f : K * V -> bool) (l : list (K * V)) k :
  In k (keys (filter f l)) -> In k (keys l).
Proof.
  unfold keys. rewrite !in_map_iff. intros (c & Hc & Hin). apply filter_In in Hin as [Hin _]. eauto.
Qed.

Lemma NoDup_keys_filter {K V} (f : K * V -> bool) (l : list (K * V)) :
  NoDup (keys l) -> NoDup (keys (filter f l)).
Proof.
  induction l as [|c t IH]; simpl; intros H; auto.
  inversion H as [|? ? Hn Ht]; subst.
  destruct (f c); simpl; auto. constructor; auto.
  intros Hin. apply Hn. eapply keys_filter_In; eauto.
Qed.

Lemma filter_id {A} (f : A -> bool) l : (forall x, In x l -> f x = true) -> filter f l = l.
Proof.
  induction l as [|x t IH]; simpl; intros H; auto.
  rewrite (H x) by auto. rewrite IH; auto.
Qed.

Lemma filter_filter {A} (f g : A -> bool) l : filter f (filter g l) = filter (fun x => g x && f x) l.
Proof.
  induction l as [|x t IH]; simpl; auto.
  destruct (g x); simpl; [destruct (f x); simpl; rewrite IH; reflexivity | exact IH].
Qed.

Lemma length_erem_In k (l : list ((nat * nat) * N)) :
  NoDup (keys l) -> In k (keys l) -> S (length (erem k l)) = length l.
Proof. apply (length_aremove_In pair_eqb pair_eqb_spec). Qed.

Lemma erem_not_In k (l : list ((nat * nat) * N)) : ~ In k (keys l) -> erem k l = l.
Proof. apply (aremove_not_In pair_eqb pair_eqb_spec). Qed.

(* ---------- abstraction and invariant --------------------------------------------------------- *)
Definition abs (g : ugraph) : sgraph := mkSG (node_map g) (adj g) (root_index g).

Definition Inv (g : ugraph) : Prop :=
  Permutation (keys (node_map g) ++ removed g) (seq 0 (ub g)) /\
  (forall i k, nget i (index_map g) = Some k <-> (k = i /\ In i (keys (node_map g)))) /\
  NoDup (keys (adj g)) /\
  (forall a b, In (a, b) (keys (adj g)) -> In a (keys (node_map g)) /\ In b (keys (node_map g))) /\
  nb_edges g = length (adj g).

Lemma Inv_empty : Inv empty_graph.
Proof.
  unfold Inv, empty_graph; cbn. repeat split; auto; try constructor; try tauto; try discriminate.
Qed.

Lemma NoDup_app_l {A} (l l' : list A) : NoDup (l ++ l') -> NoDup l.
Proof.
  induction l' as [|a l' IH]; [rewrite app_nil_r; auto|].
  intros H. apply NoDup_remove_1 in H. auto.
Qed.

Lemma Inv_NoDup_keys g : Inv g -> NoDup (keys (node_map g)).
Proof.
  intros (I1 & _). apply Permutation_sym in I1.
  assert (Hnd : NoDup (keys (node_map g) ++ removed g)) by (eapply Permutation_NoDup; [exact I1 | apply seq_NoDup]).
  apply NoDup_app_l in Hnd. exact Hnd.
Qed.

Lemma Inv_contains g i : Inv g -> contains_node g i = smem (abs g) i.
Proof.
  intros (_ & I2 & _). unfold contains_node, smem, abs; cbn [snodes].
  destruct (nget i (index_map g)) as [k|] eqn:E.
  - apply I2 in E as [_ Hin]. symmetry. apply amem_In, Hin.
  - destruct (amem Nat.eqb i (node_map g)) eqn:Em; [|reflexivity].
    apply amem_In in Em. assert (H : nget i (index_map g) = Some i) by (apply I2; auto). congruence.
Qed.

Lemma Inv_index_map g i : Inv g ->
  nget i (index_map g) = if amem Nat.eqb i (node_map g) then Some i else None.
Proof.
  intros HI. pose proof (Inv_contains g i HI) as Hc. unfold contains_node, smem, abs in Hc; cbn [snodes] in Hc.
  destruct HI as (_ & I2 & _).
  destruct (nget i (index_map g)) as [k|] eqn:E.
  - apply I2 in E as [-> _]. rewrite <- Hc. reflexivity.
  - rewrite <- Hc. reflexivity.
Qed.

Lemma Inv_size g : Inv g -> size g = length (node_map g).
Proof.
  intros (I1 & _). apply Permutation_length in I1. rewrite app_length, seq_length in I1.
  unfold size, pg_node_count, keys in *. rewrite map_length in I1. lia.
Qed.

(* ---------- observations agree ---------------------------------------------------------------- *)
Lemma observe_abs B g : Inv g -> observe B g = sobserve B (abs g).
Proof.
  intros HI. unfold observe, sobserve.
  assert (Hc : forall i, contains_node g i = smem (abs g) i) by (intros; apply Inv_contains, HI).
  assert (Hg : forall i, get_node g i = nget i (node_map g)).
  { intros i. unfold get_node. rewrite (Inv_index_map g i HI).
    destruct (amem Nat.eqb i (node_map g)) eqn:E; [reflexivity|].
    symmetry. apply nget_None. intros Hin. apply amem_In in Hin. congruence. }
  assert (He : forall i j, contains_edge g i j = shas_edge (abs g) i j).
  { intros i j. unfold contains_edge, shas_edge, smem, abs, pg_has_edge; cbn [snodes sedges].
    rewrite (Inv_index_map g i HI), (Inv_index_map g j HI).
    destruct (amem Nat.eqb i (node_map g)), (amem Nat.eqb j (node_map g)); reflexivity. }
  assert (Hs : size g = length (node_map g)) by (apply Inv_size, HI).
  assert (Hn : number_edges g = length (adj g)) by (unfold number_edges; apply HI).
  assert (Hout : forall a, pg_neighbors a g = sout (abs g) a) by reflexivity.
  f_equal.
  { apply flat_map_ext. intros i. rewrite Hc, Hg. reflexivity. }
  f_equal.
  { apply flat_map_ext. intros i. apply map_ext. intros j. rewrite He. reflexivity. }
  f_equal.
  { cbn [abs snodes sedges]. unfold is_empty. fold (size g). rewrite Hs, Hn. reflexivity. }
  f_equal.
  f_equal.
  f_equal.
  { apply flat_map_ext. intros i. unfold outgoing_edges. rewrite Hc, Hout. destruct (smem (abs g) i); reflexivity. }
  cbn [abs sroot snodes]. unfold get_root_index, get_root_node, get_last_index, is_empty. fold (size g). rewrite Hs.
  reflexivity.
Qed.

(* ---------- allocation ------------------------------------------------------------------------ *)
Lemma pg_add_node_fresh g k g1 :
  Inv g -> pg_add_node g = (k, g1) ->
  ~ In k (keys (node_map g)) /\
  Permutation ((k :: keys (node_map g)) ++ removed g1) (seq 0 (ub g1)) /\
  adj g1 = adj g /\ nb_edges g1 = nb_edges g /\ node_map g1 = node_map g /\ index_map g1 = index_map g /\
  root_index g1 = root_index g.
Proof.
  intros (I1 & _) H. unfold pg_add_node in H.
  destruct (removed g) as [|r rs] eqn:Er; inversion H; subst; clear H;
    cbn [ub removed adj nb_edges node_map index_map root_index].
  - rewrite app_nil_r in I1. split.
    + intros Hin. apply (Permutation_in _ I1) in Hin. apply in_seq in Hin. lia.
    + split; [|auto 6]. rewrite app_nil_r, seq_S. cbn [plus].
      apply Permutation_cons_app. rewrite app_nil_r. exact I1.
  - split.
    + intros Hin. assert (Hnd : NoDup (keys (node_map g) ++ k :: rs)).
      { apply Permutation_sym in I1. eapply Permutation_NoDup; [exact I1 | apply seq_NoDup]. }
      apply NoDup_remove_2 in Hnd. apply Hnd. apply in_or_app. auto.
    + split; [|auto 6]. cbn [app]. eapply Permutation_trans; [|exact I1]. apply Permutation_middle.
Qed.

Lemma add_node_refines g v k g' :
  Inv g -> add_node g v = (k, g') ->
  Inv g' /\ sstep (abs g) (OAddNode v) (Z.of_nat k) = Some (abs g') /\ index_map g' = nins k k (index_map g).
Proof.
  intros HI H. unfold add_node in H. destruct (pg_add_node g) as [k0 g1] eqn:Ea. inversion H; subst; clear H.
  destruct (pg_add_node_fresh g k g1 HI Ea) as (Hfresh & Hperm & Ea1 & Eb1 & Em1 & Ei1 & Er1).
  destruct HI as (I1 & I2 & I3a & I3b & I4).
  assert (Hk : keys (nins k v (node_map g)) = k :: keys (node_map g)).
  { unfold nins, ainsert. cbn. f_equal. unfold keys. f_equal.
    apply (aremove_not_In Nat.eqb Nat.eqb_spec). exact Hfresh. }
  split; [|split].
  - unfold Inv; cbn [ub removed adj nb_edges node_map index_map root_index].
    rewrite Em1, Ei1, Ea1, Eb1, Hk. repeat split; auto.
    + rewrite nget_nins in H. destruct (Nat.eqb_spec i k) as [->|Hne]; [congruence|]. apply I2 in H. tauto.
    + rewrite nget_nins in H. destruct (Nat.eqb_spec i k) as [->|Hne]; [left; reflexivity|].
      right. apply I2 in H. tauto.
    + intros [-> Hin]. rewrite nget_nins. destruct (Nat.eqb_spec i k) as [->|Hne]; [reflexivity|].
      apply I2. split; auto. destruct Hin; [congruence | assumption].
    + right. apply (I3b a b H).
    + right. apply (I3b a b H).
  - unfold sstep, abs; cbn [snodes sedges sroot node_map adj root_index].
    rewrite Nat2Z.id. assert (E0 : (0 <=? Z.of_nat k)%Z = true) by (apply Z.leb_le; lia). rewrite E0.
    assert (E1 : smem (mkSG (node_map g) (adj g) (root_index g)) k = false).
    { unfold smem; cbn. destruct (amem Nat.eqb k (node_map g)) eqn:E; [|reflexivity].
      apply amem_In in E. contradiction. }
    rewrite E1. cbn. rewrite Em1, Ea1, Er1. reflexivity.
  - cbn. rewrite Ei1. reflexivity.
Qed.

Lemma nins_idem_get i k (l : list (nat * nat)) : nget i (nins k k (nins k k l)) = nget i (nins k k l).
Proof. rewrite !nget_nins. destruct (i =? k); reflexivity. Qed.

Lemma add_root_refines g v k g' :
  Inv g -> add_root_node g v = (k, g') ->
  Inv g' /\ sstep (abs g) (OAddRoot v) (Z.of_nat k) = Some (abs g').
Proof.
  intros HI H. unfold add_root_node in H. destruct (add_node g v) as [k0 g1] eqn:Ea. inversion H; subst; clear H.
  destruct (add_node_refines g v k g1 HI Ea) as (HI1 & Hs & Him).
  split.
  - destruct HI1 as (I1 & I2 & I3a & I3b & I4).
    unfold Inv; cbn [ub removed adj nb_edges node_map index_map root_index]. repeat split; auto.
    + rewrite Him, nins_idem_get, <- Him in H. apply I2 in H. tauto.
    + rewrite Him, nins_idem_get, <- Him in H. apply I2 in H. tauto.
    + intros Hx. rewrite Him, nins_idem_get, <- Him. apply I2. exact Hx.
    + apply (I3b a b H).
    + apply (I3b a b H).
  - unfold sstep in *. destruct ((0 <=? Z.of_nat k)%Z && negb (smem (abs g) (Z.to_nat (Z.of_nat k)))); [|discriminate].
    inversion Hs as [[Hs' Hadj Hroot]]. unfold abs; cbn [snodes sedges sroot node_map adj root_index].
    rewrite Nat2Z.id. rewrite Nat2Z.id in Hs'. rewrite Hs', Hadj. reflexivity.
Qed.

(* ---------- edges ------------------------------------------------------------------------------ *)
Lemma add_edge_w_refines g a b w r g' :
  Inv g -> add_edge_with_weight g a b w = (r, g') ->
  Inv g' /\ sstep (abs g) (OAddEdgeW a b w) (if r then 1 else 0)%Z = Some (abs g').
Proof.
  intros HI H. unfold add_edge_with_weight in H.
  rewrite (Inv_index_map g a HI), (Inv_index_map g b HI) in H.
  unfold sstep, smem, abs; cbn [snodes sedges sroot].
  destruct (amem Nat.eqb a (node_map g)) eqn:Ea; [|inversion H; subst; cbn; auto].
  destruct (amem Nat.eqb b (node_map g)) eqn:Eb; [|inversion H; subst; cbn; auto].
  unfold pg_has_edge in H. destruct (emem (a, b) (adj g)) eqn:Ee; inversion H; subst; clear H; cbn; [auto|].
  split; [|reflexivity].
  destruct HI as (I1 & I2 & I3a & I3b & I4).
  assert (Hni : ~ In (a, b) (keys (adj g))) by (intros Hin; apply emem_In in Hin; congruence).
  unfold Inv, pg_add_edge; cbn [ub removed adj nb_edges node_map index_map root_index].
  rewrite Ee, erem_not_In by exact Hni.
  split; [exact I1|]. split; [exact I2|]. split; [|split].
  - cbn. constructor; auto.
  - intros x y H. cbn in H. destruct H as [E|H]; [inversion E; subst; split; apply amem_In; assumption | apply (I3b _ _ H)].
  - cbn. rewrite I4. reflexivity.
Qed.

Lemma add_edge_refines g a b r g' :
  Inv g -> add_edge g a b = (r, g') ->
  Inv g' /\ sstep (abs g) (OAddEdge a b) (if r then 1 else 0)%Z = Some (abs g').
Proof. intros HI H. apply (add_edge_w_refines g a b 0%N r g' HI H). Qed.

Lemma remove_edge_refines g a b r g' :
  Inv g -> remove_edge g a b = (r, g') ->
  Inv g' /\ sstep (abs g) (ORemoveEdge a b) (if r then 1 else 0)%Z = Some (abs g').
Proof.
  intros HI H. unfold remove_edge in H.
  rewrite (Inv_index_map g a HI), (Inv_index_map g b HI) in H.
  unfold sstep, shas_edge, smem, abs; cbn [snodes sedges sroot].
  destruct (amem Nat.eqb a (node_map g)) eqn:Ea; [|inversion H; subst; cbn; auto].
  destruct (amem Nat.eqb b (node_map g)) eqn:Eb; [|inversion H; subst; cbn; auto].
  unfold pg_has_edge in H. destruct (emem (a, b) (adj g)) eqn:Ee; inversion H; subst; clear H; cbn; [|auto].
  split; [|reflexivity].
  destruct HI as (I1 & I2 & I3a & I3b & I4).
  apply emem_In in Ee.
  unfold Inv, pg_remove_edge; cbn [ub removed adj nb_edges node_map index_map root_index].
  split; [exact I1|]. split; [exact I2|]. split; [|split].
  - apply (NoDup_keys_aremove pair_eqb pair_eqb_spec). exact I3a.
  - intros x y H. apply (keys_aremove pair_eqb pair_eqb_spec) in H as [H _]. apply (I3b _ _ H).
  - rewrite I4. pose proof (length_erem_In _ _ I3a Ee). lia.
Qed.

(* ---------- remove_node ------------------------------------------------------------------------ *)
Definition not_touching (k : nat) (ls : list nat) (c : (nat * nat) * N) : bool :=
  forallb (fun l => negb (pair_eqb (k, l) (fst c)) && negb (pair_eqb (l, k) (fst c))) ls.

Lemma drop_incident_spec k g l :
  NoDup (keys (adj g)) -> nb_edges g = length (adj g) ->
  let g' := drop_incident k g l in
  adj g' = filter (fun c => negb (pair_eqb (k, l) (fst c)) && negb (pair_eqb (l, k) (fst c))) (adj g) /\
  nb_edges g' = length (adj g') /\ NoDup (keys (adj g')) /\
  ub g' = ub g /\ removed g' = removed g /\ node_map g' = node_map g /\ index_map g' = index_map g /\
  root_index g' = root_index g.
Proof.
  intros Hnd Hnb. unfold drop_incident.
  set (g1 := if pg_has_edge k l g then pg_remove_edge k l g else g).
  assert (H1 : adj g1 = erem (k, l) (adj g) /\ nb_edges g1 = length (adj g1) /\ NoDup (keys (adj g1)) /\
                ub g1 = ub g /\ removed g1 = removed g /\ node_map g1 = node_map g /\ index_map g1 = index_map g /\
                root_index g1 = root_index g).
  { unfold g1, pg_has_edge. destruct (emem (k, l) (adj g)) eqn:E.
    - apply emem_In in E. unfold pg_remove_edge; cbn. repeat split; auto.
      + pose proof (length_erem_In _ _ Hnd E). lia.
      + apply (NoDup_keys_aremove pair_eqb pair_eqb_spec), Hnd.
    - assert (Hni : ~ In (k, l) (keys (adj g))) by (intros Hin; apply emem_In in Hin; congruence).
      rewrite erem_not_In by exact Hni. repeat split; auto. }
  destruct H1 as (A1 & N1 & D1 & U1 & R1 & M1 & X1 & T1).
  cbv zeta.
  assert (H2 : adj (if pg_has_edge l k g1 then pg_remove_edge l k g1 else g1) = erem (l, k) (adj g1) /\
               nb_edges (if pg_has_edge l k g1 then pg_remove_edge l k g1 else g1)
               = length (adj (if pg_has_edge l k g1 then pg_remove_edge l k g1 else g1)) /\
               NoDup (keys (adj (if pg_has_edge l k g1 then pg_remove_edge l k g1 else g1))) /\
               ub (if pg_has_edge l k g1 then pg_remove_edge l k g1 else g1) = ub g1 /\
               removed (if pg_has_edge l k g1 then pg_remove_edge l k g1 else g1) = removed g1 /\
               node_map (if pg_has_edge l k g1 then pg_remove_edge l k g1 else g1) = node_map g1 /\
               index_map (if pg_has_edge l k g1 then pg_remove_edge l k g1 else g1) = index_map g1 /\
               root_index (if pg_has_edge l k g1 then pg_remove_edge l k g1 else g1) = root_index g1).
  { unfold pg_has_edge. destruct (emem (l, k) (adj g1)) eqn:E.
    - apply emem_In in E. unfold pg_remove_edge; cbn. repeat split; auto.
      + pose proof (length_erem_In _ _ D1 E). lia.
      + apply (NoDup_keys_aremove pair_eqb pair_eqb_spec), D1.
    - assert (Hni : ~ In (l, k) (keys (adj g1))) by (intros Hin; apply emem_In in Hin; congruence).
      rewrite erem_not_In by exact Hni. repeat split; auto. }
  destruct H2 as (A2 & N2 & D2 & U2 & R2 & M2 & X2 & T2).
  repeat split; try congruence.
  rewrite A2, A1, !erem_filter, filter_filter. reflexivity.
Qed.

Lemma fold_drop_spec k ls g :
  NoDup (keys (adj g)) -> nb_edges g = length (adj g) ->
  let g' := fold_left (drop_incident k) ls g in
  adj g' = filter (not_touching k ls) (adj g) /\
  nb_edges g' = length (adj g') /\ NoDup (keys (adj g')) /\
  ub g' = ub g /\ removed g' = removed g /\ node_map g' = node_map g /\ index_map g' = index_map g /\
  root_index g' = root_index g.
Proof.
  revert g. induction ls as [|l ls IH]; intros g Hnd Hnb; cbn [fold_left].
  - repeat split; auto. symmetry. apply filter_id. reflexivity.
  - destruct (drop_incident_spec k g l Hnd Hnb) as (A1 & N1 & D1 & U1 & R1 & M1 & X1 & T1).
    destruct (IH (drop_incident k g l) D1 N1) as (A2 & N2 & D2 & U2 & R2 & M2 & X2 & T2).
    repeat split; try congruence.
    rewrite A2, A1, filter_filter. apply filter_ext. intros c. unfold not_touching. cbn [forallb]. reflexivity.
Qed.

Lemma remove_node_refines g i r g' :
  Inv g -> remove_node g i = (r, g') ->
  Inv g' /\ sstep (abs g) (ORemoveNode i) (if r then 1 else 0)%Z = Some (abs g').
Proof.
  intros HI H. unfold remove_node in H. rewrite (Inv_index_map g i HI) in H.
  unfold sstep, smem; cbn [abs snodes sedges sroot].
  destruct (amem Nat.eqb i (node_map g)) eqn:Ei; [|inversion H; subst; cbn; auto].
  apply amem_In in Ei.
  pose proof (Inv_NoDup_keys g HI) as Hndk.
  destruct HI as (I1 & I2 & I3a & I3b & I4).
  destruct (fold_drop_spec i (map snd (index_map g)) g I3a I4) as (A1 & N1 & D1 & U1 & R1 & M1 & X1 & T1).
  set (g1 := fold_left (drop_incident i) (map snd (index_map g)) g) in *.
  (* the fold removed exactly the edges incident to i *)
  assert (HA : adj g1 = filter (fun c : (nat * nat) * N => negb ((fst (fst c) =? i) || (snd (fst c) =? i))) (adj g)).
  { rewrite A1. apply filter_ext_in. intros [[x y] w] Hin. cbn [fst snd].
    assert (Hk : In (x, y) (keys (adj g))) by (apply in_map_iff; exists ((x, y), w); auto).
    destruct (I3b x y Hk) as [Hx Hy].
    assert (Vx : In x (map snd (index_map g))).
    { assert (E : nget x (index_map g) = Some x) by (apply I2; auto).
      apply in_map_iff. exists (x, x). split; auto. clear - E. unfold nget in E.
      induction (index_map g) as [|[a b] t IH]; simpl in *; [discriminate|].
      destruct (Nat.eqb_spec x a) as [->|]; [inversion E; auto | auto]. }
    assert (Vy : In y (map snd (index_map g))).
    { assert (E : nget y (index_map g) = Some y) by (apply I2; auto).
      apply in_map_iff. exists (y, y). split; auto. clear - E. unfold nget in E.
      induction (index_map g) as [|[a b] t IH]; simpl in *; [discriminate|].
      destruct (Nat.eqb_spec y a) as [->|]; [inversion E; auto | auto]. }
    unfold not_touching.
    destruct (Nat.eqb_spec x i) as [->|Hxi]; cbn [orb negb].
    - (* (i, y): killed by l = y *)
      apply not_true_is_false. intros Hall. rewrite forallb_forall in Hall. specialize (Hall y Vy).
      unfold pair_eqb in Hall; cbn in Hall. rewrite !Nat.eqb_refl in Hall. discriminate.
    - destruct (Nat.eqb_spec y i) as [->|Hyi]; cbn [negb].
      + apply not_true_is_false. intros Hall. rewrite forallb_forall in Hall. specialize (Hall x Vx).
        unfold pair_eqb in Hall; cbn in Hall. rewrite !Nat.eqb_refl in Hall.
        rewrite andb_false_r in Hall. discriminate.
      + apply forallb_forall. intros l _. unfold pair_eqb; cbn.
        destruct (Nat.eqb_spec i x); [congruence|]. destruct (Nat.eqb_spec i y); [congruence|].
        cbn. rewrite andb_false_r. reflexivity. }
  (* petgraph's own clearing is then a no-op *)
  assert (HF : filter (fun c : (nat * nat) * N => let '((x, y), _) := c in
                 negb (((x =? i) && pg_live g1 y) || ((y =? i) && pg_live g1 x))) (adj g1) = adj g1).
  { apply filter_id. intros [[x y] w] Hin. rewrite HA in Hin. apply filter_In in Hin as [_ Hp]. cbn [fst snd] in Hp.
    apply negb_true_iff in Hp. apply orb_false_iff in Hp as [Hx Hy]. rewrite Hx, Hy. reflexivity. }
  inversion H; subst; clear H. cbn [Z.eqb].
  assert (Hadj' : adj (pg_remove_node i g1) = adj g1).
  { unfold pg_remove_node. destruct (ub g1 - i =? 1); cbn [adj]; exact HF. }
  split.
  - unfold Inv; cbn [ub removed adj nb_edges node_map index_map root_index].
    assert (Hnm : node_map (pg_remove_node i g1) = node_map g) by (unfold pg_remove_node; destruct (ub g1 - i =? 1); cbn; exact M1).
    assert (Him : index_map (pg_remove_node i g1) = index_map g) by (unfold pg_remove_node; destruct (ub g1 - i =? 1); cbn; exact X1).
    assert (Hnb : nb_edges (pg_remove_node i g1) = nb_edges g1) by (unfold pg_remove_node; destruct (ub g1 - i =? 1); reflexivity).
    rewrite Hadj', Hnm, Him, Hnb.
    assert (Hperm : Permutation (keys (node_map g)) (i :: keys (nrem i (node_map g)))).
    { apply (keys_aremove_perm Nat.eqb Nat.eqb_spec); auto. }
    split; [|split; [|split; [|split]]].
    + unfold pg_remove_node. rewrite U1, R1.
      destruct (Nat.eqb_spec (ub g - i) 1) as [E1|E1]; cbn [ub removed].
      * assert (Eu : ub g = S i) by lia. rewrite Eu in *. replace (S i - 1) with i by lia.
        rewrite seq_S in I1. cbn in I1.
        apply Permutation_cons_inv with (a := i).
        eapply Permutation_trans; [|eapply Permutation_trans; [exact I1|]].
        -- apply Permutation_sym. apply (Permutation_app_tail (removed g)) in Hperm. exact Hperm.
        -- apply Permutation_sym, Permutation_cons_append.
      * eapply Permutation_trans; [|exact I1].
        apply Permutation_sym. eapply Permutation_trans.
        -- apply (Permutation_app_tail (removed g)) in Hperm. exact Hperm.
        -- cbn. apply Permutation_middle.
    + intros j k. rewrite nget_nrem, keys_nrem. destruct (Nat.eqb_spec j i) as [->|Hne].
      * split; [discriminate | intros [_ [_ Hn]]; congruence].
      * rewrite I2. tauto.
    + exact D1.
    + intros a b Hin. rewrite HA in Hin.
      assert (Hin0 := keys_filter_In _ _ _ Hin).
      unfold keys in Hin. apply in_map_iff in Hin as ([[x y] w] & Exy & Hf). cbn in Exy. inversion Exy; subst.
      apply filter_In in Hf as [_ Hp]. cbn [fst snd] in Hp. apply negb_true_iff, orb_false_iff in Hp as [Hx Hy].
      apply Nat.eqb_neq in Hx, Hy. destruct (I3b a b Hin0) as [Ha Hb].
      rewrite !keys_nrem. tauto.
    + exact N1.
  - unfold abs; cbn [node_map adj root_index].
    assert (Hnm : node_map (pg_remove_node i g1) = node_map g) by (unfold pg_remove_node; destruct (ub g1 - i =? 1); cbn; exact M1).
    assert (Hrt : root_index (pg_remove_node i g1) = root_index g) by (unfold pg_remove_node; destruct (ub g1 - i =? 1); cbn; exact T1).
    rewrite Hadj', Hnm, Hrt, HA. reflexivity.
Qed.

(* ---------- every step, every history ---------------------------------------------------------- *)
Theorem step_refines g o r g' :
  Inv g -> step g o = (r, g') -> Inv g' /\ sstep (abs g) o r = Some (abs g').
Proof.
  intros HI H. destruct o as [v|v|i|a b|a b w|a b|]; cbn [step] in H.
  - destruct (add_node g v) as [k g1] eqn:E. inversion H; subst.
    destruct (add_node_refines g v k g' HI E) as (H1 & H2 & _). auto.
  - destruct (add_root_node g v) as [k g1] eqn:E. inversion H; subst. apply add_root_refines; auto.
  - destruct (remove_node g i) as [b g1] eqn:E. inversion H; subst. apply remove_node_refines; auto.
  - destruct (add_edge g a b) as [c g1] eqn:E. inversion H; subst. apply add_edge_refines; auto.
  - destruct (add_edge_with_weight g a b w) as [c g1] eqn:E. inversion H; subst. apply add_edge_w_refines; auto.
  - destruct (remove_edge g a b) as [c g1] eqn:E. inversion H; subst. apply remove_edge_refines; auto.
  - inversion H; subst. split; [apply Inv_empty | reflexivity].
Qed.

Theorem run_refines B ops g rs os :
  Inv g -> run_obs B g ops = (rs, os) -> spec_run B (abs g) ops rs = Some os.
Proof.
  revert g rs os. induction ops as [|o t IH]; intros g rs os HI H; cbn [run_obs] in H.
  - inversion H; subst. reflexivity.
  - destruct (step g o) as [r g'] eqn:Es. destruct (run_obs B g' t) as [rs' os'] eqn:Er.
    inversion H; subst; clear H.
    destruct (step_refines g o r g' HI Es) as [HI' Hs].
    cbn [spec_run]. rewrite Hs. rewrite (IH g' rs' os' HI' Er).
    rewrite (observe_abs B g' HI'). reflexivity.
Qed.

Theorem run_inv ops g : Inv g -> Inv (run_graph g ops).
Proof.
  revert g. induction ops as [|o t IH]; intros g HI; cbn; auto.
  apply IH. destruct (step g o) as [r g'] eqn:E. cbn. apply (step_refines g o r g' HI E).
Qed.

Lemma zlist_eqb_refl l : zlist_eqb l l = true.
Proof. induction l; simpl; auto. rewrite Z.eqb_refl. exact IHl. Qed.

Lemma run_obs_length B g ops : length (fst (run_obs B g ops)) = length ops.
Proof.
  revert g. induction ops as [|o t IH]; intros g; cbn; auto.
  destruct (step g o) as [r g']. specialize (IH g'). destruct (run_obs B g' t). cbn in *. lia.
Qed.

(* the model passes the checker that is applied to the implementation *)
Theorem model_passes_spec_check B ops :
  let '(rs, os) := run_obs B empty_graph ops in spec_check B ops (rs ++ os) = true.
Proof.
  destruct (run_obs B empty_graph ops) as [rs os] eqn:E.
  pose proof (run_obs_length B empty_graph ops) as Hl. rewrite E in Hl. cbn in Hl.
  unfold spec_check. rewrite <- Hl, firstn_app, Nat.sub_diag, firstn_all, firstn_O, app_nil_r.
  change sempty with (abs empty_graph).
  rewrite (run_refines B ops empty_graph rs os Inv_empty E).
  rewrite skipn_app, skipn_all, Nat.sub_diag. cbn. apply zlist_eqb_refl.
Qed.

(* ---------- what the specification says, clause by clause (C08's statement) -------------------- *)
Definition is_add (o : gop) : bool := match o with OAddNode _ | OAddRoot _ => true | _ => false end.
Definition add_value (o : gop) : Z := match o with OAddNode v | OAddRoot v => v | _ => 0%Z end.

(* an index returned by an add is fresh and denotes the added value *)
Lemma spec_add_fresh s o r s' :
  is_add o = true -> sstep s o r = Some s' ->
  smem s (Z.to_nat r) = false /\ nget (Z.to_nat r) (snodes s') = Some (add_value o).
Proof.
  destruct o; cbn [is_add]; try discriminate; intros _ H; cbn [sstep] in H;
    destruct (0 <=? r)%Z; cbn [andb] in H; try discriminate;
    destruct (smem s (Z.to_nat r)) eqn:E; cbn [negb] in H; try discriminate;
    inversion H; subst; cbn [snodes add_value]; rewrite nget_nins, Nat.eqb_refl; auto.
Qed.

(* ... and keeps denoting that value until the node itself is removed (or the graph cleared) *)
Lemma spec_node_stable s o r s' i :
  sstep s o r = Some s' -> smem s i = true ->
  o <> ORemoveNode i -> o <> OClear ->
  nget i (snodes s') = nget i (snodes s).
Proof.
  intros H Hi Hnr Hnc. destruct o; cbn [sstep] in H.
  - destruct (0 <=? r)%Z; cbn [andb] in H; try discriminate.
    destruct (smem s (Z.to_nat r)) eqn:E; cbn [negb] in H; try discriminate. inversion H; subst; cbn [snodes].
    rewrite nget_nins. destruct (Nat.eqb_spec i (Z.to_nat r)); [congruence | reflexivity].
  - destruct (0 <=? r)%Z; cbn [andb] in H; try discriminate.
    destruct (smem s (Z.to_nat r)) eqn:E; cbn [negb] in H; try discriminate. inversion H; subst; cbn [snodes].
    rewrite nget_nins. destruct (Nat.eqb_spec i (Z.to_nat r)); [congruence | reflexivity].
  - destruct (smem s i0); destruct (Z.eqb r 1), (Z.eqb r 0); inversion H; subst; auto; cbn [snodes];
      rewrite nget_nrem; destruct (Nat.eqb_spec i i0); congruence.
  - destruct (smem s a && smem s b && negb (emem (a, b) (sedges s))); destruct (Z.eqb r 1), (Z.eqb r 0); inversion H; subst; auto.
  - destruct (smem s a && smem s b && negb (emem (a, b) (sedges s))); destruct (Z.eqb r 1), (Z.eqb r 0); inversion H; subst; auto.
  - destruct (shas_edge s a b); destruct (Z.eqb r 1), (Z.eqb r 0); inversion H; subst; auto.
  - congruence.
Qed.

(* a failing operation (absent node / absent edge / duplicate edge) changes nothing,
   and the spec decides exactly when an operation fails *)
Definition must_fail_op (s : sgraph) (o : gop) : bool :=
  match o with
  | ORemoveNode i => negb (smem s i)
  | OAddEdge a b | OAddEdgeW a b _ => negb (smem s a && smem s b && negb (emem (a, b) (sedges s)))
  | ORemoveEdge a b => negb (shas_edge s a b)
  | _ => false
  end.

Lemma spec_failure_changes_nothing s o r s' :
  is_add o = false -> o <> OClear -> sstep s o r = Some s' ->
  (must_fail_op s o = true -> r = 0%Z /\ s' = s) /\ (must_fail_op s o = false -> r = 1%Z).
Proof.
  intros Ha Hc H. destruct o; cbn [is_add] in Ha; try discriminate; try congruence; cbn [sstep must_fail_op] in *.
  - destruct (smem s i); cbn [negb]; destruct (Z.eqb_spec r 1), (Z.eqb_spec r 0); inversion H; subst; split; intros; try discriminate; auto.
  - destruct (smem s a && smem s b && negb (emem (a, b) (sedges s))); cbn [negb];
      destruct (Z.eqb_spec r 1), (Z.eqb_spec r 0); inversion H; subst; split; intros; try discriminate; auto.
  - destruct (smem s a && smem s b && negb (emem (a, b) (sedges s))); cbn [negb];
      destruct (Z.eqb_spec r 1), (Z.eqb_spec r 0); inversion H; subst; split; intros; try discriminate; auto.
  - destruct (shas_edge s a b); cbn [negb];
      destruct (Z.eqb_spec r 1), (Z.eqb_spec r 0); inversion H; subst; split; intros; try discriminate; auto.
Qed.

Lemma emem_filter_incident x y i (l : list ((nat * nat) * N)) :
  emem (x, y) (filter (fun c : nat * nat * N => negb ((fst (fst c) =? i) || (snd (fst c) =? i))) l)
  = emem (x, y) l && negb ((x =? i) || (y =? i)).
Proof.
  unfold emem, amem. induction l as [|[[p q] w] t IH]; cbn [filter aget fst snd]; [reflexivity|].
  destruct (pair_eqb_spec (x, y) (p, q)) as [E|Hne].
  - injection E as -> ->. destruct (negb ((p =? i) || (q =? i))) eqn:Ef; cbn [aget].
    + destruct (pair_eqb_spec (p, q) (p, q)); [reflexivity | congruence].
    + rewrite IH. rewrite !andb_false_r. reflexivity.
  - destruct (negb ((p =? i) || (q =? i))); cbn [aget]; [destruct (pair_eqb_spec (x, y) (p, q)); [congruence | exact IH] | exact IH].
Qed.

Lemma emem_erem x y k (l : list ((nat * nat) * N)) :
  emem (x, y) (erem k l) = emem (x, y) l && negb (pair_eqb (x, y) k).
Proof.
  unfold emem, amem, erem.
  destruct (pair_eqb_spec (x, y) k) as [<-|Hne].
  - rewrite (aget_aremove_eq pair_eqb pair_eqb_spec). rewrite andb_false_r. reflexivity.
  - rewrite (aget_aremove_neq pair_eqb pair_eqb_spec) by exact Hne. rewrite andb_true_r. reflexivity.
Qed.

Lemma emem_cons_erem x y a b w (l : list ((nat * nat) * N)) :
  emem (x, y) (((a, b), w) :: erem (a, b) l) = emem (x, y) l || pair_eqb (x, y) (a, b).
Proof.
  pose proof (emem_erem x y (a, b) l) as Hr.
  unfold emem, amem in *. cbn [aget].
  destruct (pair_eqb_spec (x, y) (a, b)) as [E|Hne]; [rewrite orb_true_r; reflexivity|].
  rewrite orb_false_r. rewrite Hr. apply andb_true_r.
Qed.

(* edges: remove_edge removes that edge only; remove_node removes exactly the incident edges;
   nothing else ever deletes an edge *)
Lemma spec_edges_after s o r s' x y :
  sstep s o r = Some s' ->
  emem (x, y) (sedges s') =
  match o with
  | OClear => false
  | ORemoveNode i => if smem s i then emem (x, y) (sedges s) && negb ((x =? i) || (y =? i)) else emem (x, y) (sedges s)
  | ORemoveEdge a b => if shas_edge s a b then emem (x, y) (sedges s) && negb (pair_eqb (x, y) (a, b)) else emem (x, y) (sedges s)
  | OAddEdge a b | OAddEdgeW a b _ =>
      if smem s a && smem s b && negb (emem (a, b) (sedges s)) then emem (x, y) (sedges s) || pair_eqb (x, y) (a, b)
      else emem (x, y) (sedges s)
  | _ => emem (x, y) (sedges s)
  end.
Proof.
  assert (Hrem : forall k l, emem (x, y) (erem k l) = emem (x, y) l && negb (pair_eqb (x, y) k)) by (intros; apply emem_erem).
  intros H. destruct o; cbn [sstep] in H.
  - destruct ((0 <=? r)%Z && negb (smem s (Z.to_nat r))); inversion H; reflexivity.
  - destruct ((0 <=? r)%Z && negb (smem s (Z.to_nat r))); inversion H; reflexivity.
  - destruct (smem s i); destruct (Z.eqb r 1), (Z.eqb r 0); inversion H; subst; auto; cbn [sedges];
    apply emem_filter_incident.
  - destruct (smem s a && smem s b && negb (emem (a, b) (sedges s))); destruct (Z.eqb r 1), (Z.eqb r 0); inversion H; subst; auto; cbn [sedges];
    apply emem_cons_erem.
  - destruct (smem s a && smem s b && negb (emem (a, b) (sedges s))); destruct (Z.eqb r 1), (Z.eqb r 0); inversion H; subst; auto; cbn [sedges];
    apply emem_cons_erem.
  - destruct (shas_edge s a b); destruct (Z.eqb r 1), (Z.eqb r 0); inversion H; subst; auto; cbn [sedges]; apply Hrem.
  - destruct (Z.eqb r 0); inversion H; reflexivity.
Qed.

(* non-vacuity: a history with growth, index reuse, self loop, node and edge removal *)
Example ug_example :
  let ops := [OAddNode 10; OAddNode 11; OAddRoot 12; OAddEdge 0 1; OAddEdgeW 1 2 5; OAddEdge 1 1;
              ORemoveEdge 0 1; ORemoveNode 1; OAddNode 13; OAddEdge 0 1; ORemoveNode 7]%Z in
  fst (run_obs 4 empty_graph ops) = [0; 1; 2; 1; 1; 1; 1; 1; 1; 1; 0]%Z
  /\ number_edges (run_graph empty_graph ops) = 1 /\ size (run_graph empty_graph ops) = 3
  /\ get_node (run_graph empty_graph ops) 1 = Some 13%Z.
Proof. vm_compute. auto. Qed.
