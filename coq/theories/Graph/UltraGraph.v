(* Model of ultragraph's UltraMatrixGraph on top of petgraph 0.7.1's MatrixGraph<bool,u64,Directed,Option<u64>,u32>.
   petgraph side, as it behaves (matrix_graph.rs): IdStorage (upper_bound, LIFO removed_ids, the
   top-id shortcut), adjacency cells as a finite map (capacity growth is representation only),
   the nb_edges counter exactly as petgraph maintains it (remove_node does NOT touch it).
   ultragraph side: node_map, index_map, root_index and every method of GraphLike / GraphRoot /
   GraphStorage / outgoing_edges as written in storage/matrix_graph/*.rs after the fixes D2, D3. *)
From Coq Require Import List Arith NArith ZArith Bool.
From DC Require Import Common.AList.
Import ListNotations.

Record ugraph := mkUG {
  ub : nat;                         (* IdStorage.upper_bound *)
  removed : list nat;               (* IdStorage.removed_ids; head = most recently inserted *)
  adj : list ((nat * nat) * N);     (* non-null adjacency cells (row, column) -> weight *)
  nb_edges : nat;                   (* MatrixGraph.nb_edges *)
  node_map : list (nat * Z);        (* AHashMap<NodeIndex, T> *)
  index_map : list (nat * nat);     (* AHashMap<usize, NodeIndex> *)
  root_index : option nat
}.

Definition empty_graph : ugraph := mkUG 0 [] [] 0 [] [] None.

Definition nget {V} := @aget nat V Nat.eqb.
Definition nrem {V} := @aremove nat V Nat.eqb.
Definition nins {V} := @ainsert nat V Nat.eqb.
Definition eget := @aget (nat * nat) N pair_eqb.
Definition erem := @aremove (nat * nat) N pair_eqb.
Definition emem := @amem (nat * nat) N pair_eqb.

Definition memb (i : nat) (l : list nat) : bool := existsb (Nat.eqb i) l.

(* ---- petgraph::matrix_graph --------------------------------------------------------------- *)
Definition pg_live (g : ugraph) (i : nat) : bool := (i <? ub g) && negb (memb i (removed g)).

(* IdStorage::add *)
Definition pg_add_node (g : ugraph) : nat * ugraph :=
  match removed g with
  | r :: rs => (r, mkUG (ub g) rs (adj g) (nb_edges g) (node_map g) (index_map g) (root_index g))
  | [] => (ub g, mkUG (S (ub g)) [] (adj g) (nb_edges g) (node_map g) (index_map g) (root_index g))
  end.

(* MatrixGraph::remove_node: clear cells [a][id] and [id][a] for every live id, then IdStorage::remove.
   nb_edges is left alone. *)
Definition pg_remove_node (a : nat) (g : ugraph) : ugraph :=
  let adj' := filter (fun c : (nat * nat) * N =>
                        let '((x, y), _) := c in
                        negb (((x =? a) && pg_live g y) || ((y =? a) && pg_live g x))) (adj g) in
  if ub g - a =? 1
  then mkUG (ub g - 1) (removed g) adj' (nb_edges g) (node_map g) (index_map g) (root_index g)
  else mkUG (ub g) (a :: removed g) adj' (nb_edges g) (node_map g) (index_map g) (root_index g).

(* MatrixGraph::update_edge / add_edge *)
Definition pg_add_edge (a b : nat) (w : N) (g : ugraph) : ugraph :=
  let was := emem (a, b) (adj g) in
  mkUG (ub g) (removed g) (((a, b), w) :: erem (a, b) (adj g))
       (if was then nb_edges g else S (nb_edges g)) (node_map g) (index_map g) (root_index g).

(* MatrixGraph::remove_edge *)
Definition pg_remove_edge (a b : nat) (g : ugraph) : ugraph :=
  mkUG (ub g) (removed g) (erem (a, b) (adj g)) (nb_edges g - 1) (node_map g) (index_map g) (root_index g).

Definition pg_has_edge (a b : nat) (g : ugraph) : bool := emem (a, b) (adj g).

Definition adj_bound (l : list ((nat * nat) * N)) : nat :=
  fold_right (fun c m => Nat.max (S (fst (fst c))) (Nat.max (S (snd (fst c))) m)) 0 l.

(* MatrixGraph::neighbors: walks the columns of row a in ascending order *)
Definition pg_neighbors (a : nat) (g : ugraph) : list nat :=
  filter (fun b => emem (a, b) (adj g)) (seq 0 (adj_bound (adj g))).

Definition pg_node_count (g : ugraph) : nat := ub g - length (removed g).

(* ---- ultragraph::storage::matrix_graph ------------------------------------------------------ *)
Definition contains_node (g : ugraph) (i : nat) : bool :=
  match nget i (index_map g) with Some _ => true | None => false end.

Definition get_node (g : ugraph) (i : nat) : option Z :=
  match nget i (index_map g) with Some k => nget k (node_map g) | None => None end.

Definition add_node (g : ugraph) (v : Z) : nat * ugraph :=
  let '(k, g1) := pg_add_node g in
  (k, mkUG (ub g1) (removed g1) (adj g1) (nb_edges g1) (nins k v (node_map g1)) (nins k k (index_map g1)) (root_index g1)).

Definition add_root_node (g : ugraph) (v : Z) : nat * ugraph :=
  let '(k, g1) := add_node g v in
  (k, mkUG (ub g1) (removed g1) (adj g1) (nb_edges g1) (node_map g1) (nins k k (index_map g1)) (Some k)).

Definition contains_edge (g : ugraph) (a b : nat) : bool :=
  match nget a (index_map g), nget b (index_map g) with
  | Some k, Some l => pg_has_edge k l g
  | _, _ => false
  end.

(* remove_node after the D3 fix: the incident edges are removed through MatrixGraph::remove_edge
   (which maintains nb_edges) before MatrixGraph::remove_node *)
Definition drop_incident (k : nat) (g : ugraph) (l : nat) : ugraph :=
  let g1 := if pg_has_edge k l g then pg_remove_edge k l g else g in
  if pg_has_edge l k g1 then pg_remove_edge l k g1 else g1.

Definition remove_node (g : ugraph) (i : nat) : bool * ugraph :=
  match nget i (index_map g) with
  | None => (false, g)
  | Some k =>
      let g1 := fold_left (drop_incident k) (map snd (index_map g)) g in
      let g2 := pg_remove_node k g1 in
      (true, mkUG (ub g2) (removed g2) (adj g2) (nb_edges g2) (nrem k (node_map g2)) (nrem k (index_map g2)) (root_index g2))
  end.

Definition add_edge_with_weight (g : ugraph) (a b : nat) (w : N) : bool * ugraph :=
  match nget a (index_map g), nget b (index_map g) with
  | Some k, Some l => if pg_has_edge k l g then (false, g) else (true, pg_add_edge k l w g)
  | _, _ => (false, g)
  end.

Definition add_edge (g : ugraph) (a b : nat) : bool * ugraph := add_edge_with_weight g a b 0%N.

(* remove_edge after the D2 fix (the two index_map.remove lines are gone) *)
Definition remove_edge (g : ugraph) (a b : nat) : bool * ugraph :=
  match nget a (index_map g), nget b (index_map g) with
  | Some k, Some l => if pg_has_edge k l g then (true, pg_remove_edge k l g) else (false, g)
  | _, _ => (false, g)
  end.

Definition clear (g : ugraph) : ugraph := empty_graph.

Definition size (g : ugraph) : nat := pg_node_count g.
Definition is_empty (g : ugraph) : bool := pg_node_count g =? 0.
Definition number_edges (g : ugraph) : nat := nb_edges g.

Definition get_root_index (g : ugraph) : option nat := root_index g.
Definition get_root_node (g : ugraph) : option Z :=
  match root_index g with Some r => nget r (node_map g) | None => None end.
Definition get_last_index (g : ugraph) : option nat :=
  if is_empty g then None else Some (length (node_map g)).

Definition outgoing_edges (g : ugraph) (a : nat) : option (list nat) :=
  if contains_node g a then Some (pg_neighbors a g) else None.

(* sorting (outputs of hash-map iteration are compared as sorted lists) *)
Section Sort.
  Context {A : Type} (leb : A -> A -> bool).
  Fixpoint insert_sorted (x : A) (l : list A) : list A :=
    match l with
    | [] => [x]
    | y :: t => if leb x y then x :: l else y :: insert_sorted x t
    end.
  Definition isort (l : list A) : list A := fold_right insert_sorted [] l.
End Sort.

Definition pair_leb (a b : nat * nat) : bool :=
  (fst a <? fst b) || ((fst a =? fst b) && (snd a <=? snd b)).

Definition get_all_nodes_sorted (g : ugraph) : list Z := isort Z.leb (map snd (node_map g)).
Definition get_all_edges_sorted (g : ugraph) : list (nat * nat) :=
  isort pair_leb (flat_map (fun kv : nat * Z => map (fun b => (fst kv, b)) (pg_neighbors (fst kv) g)) (node_map g)).

(* edge weight (observable through shortest_path only) *)
Definition edge_weight (g : ugraph) (a b : nat) : option N := eget (a, b) (adj g).

(* ---- operations and observations (correspondence interface) --------------------------------- *)
Inductive gop :=
| OAddNode (v : Z) | OAddRoot (v : Z) | ORemoveNode (i : nat)
| OAddEdge (a b : nat) | OAddEdgeW (a b : nat) (w : N) | ORemoveEdge (a b : nat) | OClear.

(* return value as an integer: index for adds, 1/0 for Ok/Err, 0 for clear *)
Definition step (g : ugraph) (o : gop) : Z * ugraph :=
  match o with
  | OAddNode v => let '(k, g') := add_node g v in (Z.of_nat k, g')
  | OAddRoot v => let '(k, g') := add_root_node g v in (Z.of_nat k, g')
  | ORemoveNode i => let '(r, g') := remove_node g i in ((if r then 1 else 0)%Z, g')
  | OAddEdge a b => let '(r, g') := add_edge g a b in ((if r then 1 else 0)%Z, g')
  | OAddEdgeW a b w => let '(r, g') := add_edge_with_weight g a b w in ((if r then 1 else 0)%Z, g')
  | ORemoveEdge a b => let '(r, g') := remove_edge g a b in ((if r then 1 else 0)%Z, g')
  | OClear => (0%Z, clear g)
  end.

Definition zb (b : bool) : Z := if b then 1%Z else 0%Z.
Definition zopt (o : option Z) : Z := match o with Some x => x | None => (-1)%Z end.
Definition zoptn (o : option nat) : Z := match o with Some x => Z.of_nat x | None => (-1)%Z end.

(* full observation over the index window 0..B-1 *)
Definition observe (B : nat) (g : ugraph) : list Z :=
  let idx := seq 0 B in
  flat_map (fun i => [zb (contains_node g i); zopt (get_node g i)]) idx
  ++ flat_map (fun i => map (fun j => zb (contains_edge g i j)) idx) idx
  ++ [Z.of_nat (size g); zb (is_empty g); Z.of_nat (number_edges g)]
  ++ (let ns := get_all_nodes_sorted g in Z.of_nat (length ns) :: ns)
  ++ (let es := get_all_edges_sorted g in
      Z.of_nat (length es) :: flat_map (fun e : nat * nat => [Z.of_nat (fst e); Z.of_nat (snd e)]) es)
  ++ flat_map (fun i => match outgoing_edges g i with
                        | None => [(-1)%Z]
                        | Some l => Z.of_nat (length l) :: map Z.of_nat l
                        end) idx
  ++ [zb (match root_index g with Some _ => true | None => false end);
      zoptn (get_root_index g); zopt (get_root_node g); zoptn (get_last_index g)].

Fixpoint run_obs (B : nat) (g : ugraph) (ops : list gop) : list Z * list Z :=
  match ops with
  | [] => ([], [])
  | o :: t => let '(r, g') := step g o in
              let '(rs, os) := run_obs B g' t in
              (r :: rs, observe B g' ++ os)
  end.

Definition run_graph (g : ugraph) (ops : list gop) : ugraph := fold_left (fun s o => snd (step s o)) ops g.

(* integer coding: B then ops as 4 ints: code x y z
   0 add_node v | 1 add_root v | 2 remove_node i | 3 add_edge a b | 4 add_edge_w a b w | 5 remove_edge a b | 6 clear *)
Fixpoint decode_ops (l : list Z) (fuel : nat) : list gop :=
  match fuel with
  | O => []
  | S f =>
    match l with
    | c :: x :: y :: z :: rest =>
        (if Z.eqb c 0 then OAddNode x
         else if Z.eqb c 1 then OAddRoot x
         else if Z.eqb c 2 then ORemoveNode (Z.to_nat x)
         else if Z.eqb c 3 then OAddEdge (Z.to_nat x) (Z.to_nat y)
         else if Z.eqb c 4 then OAddEdgeW (Z.to_nat x) (Z.to_nat y) (Z.to_N z)
         else if Z.eqb c 5 then ORemoveEdge (Z.to_nat x) (Z.to_nat y)
         else OClear) :: decode_ops rest f
    | _ => []
    end
  end.

Definition ugraph_model_entry (l : list Z) : list Z :=
  match l with
  | b :: rest =>
      let '(rs, os) := run_obs (Z.to_nat b) empty_graph (decode_ops rest (length rest)) in rs ++ os
  | [] => []
  end.
