(* Bulk insertion into a fresh graph, for ANY number of nodes: the n-th add_node returns index n-1, afterwards exactly the
   indices below n exist and each returns the value stored under it, the node count is n.  This closed form is the oracle for
   the LARGE histories of the C08 / C09 checks (10^5 nodes: index width, growth of the underlying storage), which are far
   beyond what the association-list model can evaluate; the small histories are compared with the model itself. *)
From Coq Require Import List Arith NArith ZArith Bool Lia.
From DC Require Import Common.AList Graph.UltraGraph.
Import ListNotations.

Fixpoint add_many (g : ugraph) (vs : list Z) : list nat * ugraph :=
  match vs with
  | [] => ([], g)
  | v :: r => let '(k, g1) := add_node g v in let '(ks, g2) := add_many g1 r in (k :: ks, g2)
  end.

Definition Dense (g : ugraph) (vs : list Z) : Prop :=
  removed g = [] /\ ub g = length vs /\
  (forall i, i < length vs -> nget i (index_map g) = Some i /\ nget i (node_map g) = Some (nth i vs 0%Z)) /\
  (forall i, length vs <= i -> nget i (index_map g) = None).

Lemma dense_empty : Dense empty_graph [].
Proof. split; [reflexivity|]. split; [reflexivity|]. split; [cbn; intros; lia | intros; reflexivity]. Qed.

Lemma add_node_dense g vs v : Dense g vs ->
  fst (add_node g v) = length vs /\ Dense (snd (add_node g v)) (vs ++ [v]).
Proof.
  intros (Hr & Hu & Hin & Hout). unfold add_node, pg_add_node. rewrite Hr. cbn [fst snd ub removed adj nb_edges node_map index_map root_index].
  split; [exact Hu|]. rewrite Hu. unfold Dense. cbn [ub removed node_map index_map]. rewrite app_length. cbn [length].
  split; [reflexivity|]. split; [lia|]. split.
  - intros i Hi. destruct (Nat.eq_dec i (length vs)) as [->|Hne].
    + unfold nget, nins. rewrite !(aget_ainsert_eq Nat.eqb Nat.eqb_spec). rewrite app_nth2 by lia. rewrite Nat.sub_diag. split; reflexivity.
    + unfold nget, nins. rewrite !(aget_ainsert_neq Nat.eqb Nat.eqb_spec) by exact Hne. rewrite app_nth1 by lia. apply Hin. lia.
  - intros i Hi. unfold nget, nins. rewrite (aget_ainsert_neq Nat.eqb Nat.eqb_spec) by lia. apply Hout. lia.
Qed.

Lemma add_many_dense : forall ws g vs, Dense g vs ->
  fst (add_many g ws) = seq (length vs) (length ws) /\ Dense (snd (add_many g ws)) (vs ++ ws).
Proof.
  induction ws as [|w ws IH]; intros g vs HD; cbn [add_many].
  - rewrite app_nil_r. split; [reflexivity | exact HD].
  - destruct (add_node g w) as [k g1] eqn:E1. destruct (add_many g1 ws) as [ks g2] eqn:E2.
    destruct (add_node_dense g vs w HD) as [Hk HD1]. rewrite E1 in Hk, HD1. cbn [fst snd] in Hk, HD1.
    destruct (IH g1 (vs ++ [w]) HD1) as [Hks HD2]. rewrite E2 in Hks, HD2. cbn [fst snd] in Hks, HD2 |- *.
    rewrite app_length in Hks. cbn [length] in Hks. rewrite <- app_assoc in HD2. cbn [app] in HD2.
    split; [|exact HD2]. cbn [seq length]. rewrite Hk. f_equal. rewrite Hks. f_equal. lia.
Qed.

(* THE CLOSED FORM *)
Theorem bulk_add_fresh vs :
  let '(ks, g) := add_many empty_graph vs in
  ks = seq 0 (length vs) /\
  (forall i, i < length vs -> contains_node g i = true /\ get_node g i = Some (nth i vs 0%Z)) /\
  (forall i, length vs <= i -> contains_node g i = false /\ get_node g i = None) /\
  size g = length vs /\ is_empty g = (length vs =? 0).
Proof.
  destruct (add_many empty_graph vs) as [ks g] eqn:E.
  destruct (add_many_dense vs empty_graph [] dense_empty) as [Hks HD]. rewrite E in Hks, HD. cbn [fst snd length app] in Hks, HD.
  destruct HD as (Hr & Hu & Hin & Hout).
  split; [exact Hks|]. split; [|split; [|split]].
  - intros i Hi. destruct (Hin i Hi) as [A B]. unfold contains_node, get_node. rewrite A. split; [reflexivity | exact B].
  - intros i Hi. unfold contains_node, get_node. rewrite (Hout i Hi). split; reflexivity.
  - unfold size, pg_node_count. rewrite Hr, Hu. cbn. lia.
  - unfold is_empty, pg_node_count. rewrite Hr, Hu. cbn [length]. rewrite Nat.sub_0_r. reflexivity.
Qed.

(* removing the LAST node of such a graph leaves every other node alone (the top-id shortcut of IdStorage) *)
Example bulk_small : let '(ks, g) := add_many empty_graph [5; 6; 7]%Z in ks = [0; 1; 2] /\ get_node g 2 = Some 7%Z /\ size g = 3.
Proof. vm_compute. repeat split. Qed.
