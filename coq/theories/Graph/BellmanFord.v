(* The reference distances of the shortest-path checker (Graph/ShortestPath.v: |nodes| rounds of Bellman-Ford relaxation over the
   edge list, weights in N) ARE closed under relaxation, for every graph whose edges join nodes of the graph: the checker never
   fails to judge a query because its own labelling is unfinished.  (Soundness of the checker - an accepted answer is a real
   minimum-weight path - is Graph/ShortestPathProofs.v and does not depend on this.) *)
From Coq Require Import List Arith NArith ZArith Bool Lia.
From DC Require Import Common.AList Graph.UltraGraph Graph.Spec Graph.ShortestPath.
Import ListNotations.
Open Scope N_scope.

Notation edge := ((nat * nat) * N)%type.
Definition esrc (e : edge) : nat := fst (fst e).
Definition edst (e : edge) : nat := snd (fst e).
Definition ewt (e : edge) : N := snd e.

Lemma NoDup_app_l {A} (a b : list A) : NoDup (a ++ b) -> NoDup a.
Proof.
  induction a as [|x a IH]; intros H; [constructor|]. cbn in H. inversion H as [|? ? Hn Hd]; subst.
  constructor; [intros Hin; apply Hn; apply in_or_app; left; exact Hin | apply IH; exact Hd].
Qed.
Lemma NoDup_snoc {A} (l : list A) x : NoDup l -> ~ In x l -> NoDup (l ++ [x]).
Proof.
  induction l as [|y l IH]; intros Hd Hn; cbn; [constructor; [intros []|constructor]|].
  inversion Hd as [|? ? Hy Hd']; subst. constructor.
  - intros Hin. apply in_app_or in Hin. destruct Hin as [Hin|[<-|[]]]; [exact (Hy Hin) | apply Hn; left; reflexivity].
  - apply IH; [exact Hd' | intros Hin; apply Hn; right; exact Hin].
Qed.

Section BF.
  Variable edges : list edge.
  Variable s : nat.

  (* walks from s along entries of the edge list, built by appending edges *)
  Inductive walk : nat -> list edge -> Prop :=
  | w_nil : walk s []
  | w_snoc u es e : walk u es -> In e edges -> esrc e = u -> walk (edst e) (es ++ [e]).

  Definition weight (es : list edge) : N := fold_right (fun e acc => ewt e + acc) 0 es.
  Lemma weight_app a b : weight (a ++ b) = weight a + weight b.
  Proof. unfold weight. induction a as [|x a IH]; cbn [app fold_right]; [lia | rewrite IH; lia]. Qed.

  (* ---- relaxation only lowers labels and never forgets one ------------------------------------------------------- *)
  Definition le_dmap (d d' : dmap) : Prop := forall x a, dget d x = Some a -> exists a', dget d' x = Some a' /\ a' <= a.

  Lemma le_refl d : le_dmap d d.
  Proof. intros x a H. exists a. split; [exact H | lia]. Qed.
  Lemma le_trans d1 d2 d3 : le_dmap d1 d2 -> le_dmap d2 d3 -> le_dmap d1 d3.
  Proof. intros A B x a H. destruct (A x a H) as (a' & H' & L). destruct (B x a' H') as (a'' & H'' & L'). exists a''. split; [exact H'' | lia]. Qed.

  Lemma dget_ins_eq v a d : dget (nins v a d) v = Some a.
  Proof. unfold dget, nget, nins. apply (aget_ainsert_eq Nat.eqb Nat.eqb_spec). Qed.
  Lemma dget_ins_neq v a d x : x <> v -> dget (nins v a d) x = dget d x.
  Proof. unfold dget, nget, nins. intros H. apply (aget_ainsert_neq Nat.eqb Nat.eqb_spec). exact H. Qed.

  Lemma relax_edge_le d e : le_dmap d (relax_edge d e).
  Proof.
    destruct e as [[u v] w]. unfold relax_edge. destruct (dget d u) as [du|] eqn:Eu; [|apply le_refl].
    destruct (dget d v) as [dv|] eqn:Ev.
    - destruct (N.ltb_spec (du + w) dv) as [L|L]; [|apply le_refl].
      intros x a H. destruct (Nat.eq_dec x v) as [->|Hne].
      + exists (du + w). rewrite dget_ins_eq. split; [reflexivity|]. rewrite Ev in H. inversion H; subst. lia.
      + exists a. rewrite dget_ins_neq by exact Hne. split; [exact H | lia].
    - intros x a H. destruct (Nat.eq_dec x v) as [->|Hne]; [rewrite Ev in H; discriminate|].
      exists a. rewrite dget_ins_neq by exact Hne. split; [exact H | lia].
  Qed.

  Lemma relax_list_le l : forall d, le_dmap d (fold_left relax_edge l d).
  Proof. induction l as [|e l IH]; intros d; cbn; [apply le_refl|]. eapply le_trans; [apply relax_edge_le | apply IH]. Qed.

  (* relaxing an edge makes its target at most source + weight *)
  Lemma relax_edge_target d u v w du : dget d u = Some du ->
    exists dv, dget (relax_edge d ((u, v), w)) v = Some dv /\ dv <= du + w.
  Proof.
    intros Eu. unfold relax_edge. rewrite Eu. destruct (dget d v) as [dv|] eqn:Ev.
    - destruct (N.ltb_spec (du + w) dv) as [L|L].
      + exists (du + w). rewrite dget_ins_eq. split; [reflexivity | lia].
      + exists dv. split; [exact Ev | lia].
    - exists (du + w). rewrite dget_ins_eq. split; [reflexivity | lia].
  Qed.

  (* a whole round over a list that contains the edge *)
  Lemma round_target l : forall d u v w du, In ((u, v), w) l -> dget d u = Some du ->
    exists dv, dget (fold_left relax_edge l d) v = Some dv /\ dv <= du + w.
  Proof.
    induction l as [|e l IH]; intros d u v w du Hin Eu; [contradiction|]. cbn [fold_left].
    destruct Hin as [->|Hin].
    - destruct (relax_edge_target d u v w du Eu) as (dv & Ev & L).
      destruct (relax_list_le l _ v dv Ev) as (dv' & Ev' & L'). exists dv'. split; [exact Ev' | lia].
    - destruct (relax_edge_le d e u du Eu) as (du' & Eu' & L).
      destruct (IH _ u v w du' Hin Eu') as (dv & Ev & L'). exists dv. split; [exact Ev | lia].
  Qed.

  Definition d0 : dmap := [(s, 0)].

  Lemma iterate_le n : forall d, le_dmap d (iterate n edges d).
  Proof. induction n as [|n IH]; intros d; cbn [iterate]; [apply le_refl|]. eapply le_trans; [apply relax_list_le | apply IH]. Qed.

  Lemma iterate_S n d : iterate (S n) edges d = relax_all edges (iterate n edges d).
  Proof.
    revert d. induction n as [|n IH]; intros d; [reflexivity|].
    change (iterate (S (S n)) edges d) with (iterate (S n) edges (relax_all edges d)). rewrite IH. reflexivity.
  Qed.

  (* (A) after k rounds every walk of at most k edges bounds the label of its end *)
  Lemma upper_bound : forall k v es, walk v es -> (length es <= k)%nat ->
    exists x, dget (iterate k edges d0) v = Some x /\ x <= weight es.
  Proof.
    induction k as [|k IH]; intros v es Hw Hl.
    - destruct es; [|cbn in Hl; lia]. inversion Hw; subst; [|destruct es; discriminate].
      exists 0. cbn. unfold dget, nget, d0. cbn. rewrite Nat.eqb_refl. split; [reflexivity | lia].
    - destruct (le_lt_dec (length es) k) as [Hs|Hs].
      + destruct (IH v es Hw Hs) as (x & Ex & Lx). rewrite iterate_S.
        destruct (relax_list_le edges _ v x Ex) as (x' & Ex' & Lx'). exists x'. split; [exact Ex' | lia].
      + inversion Hw as [|u es0 e Hw0 Hin Hsrc]; subst; [cbn in Hs; lia|].
        rewrite app_length in Hl, Hs. cbn in Hl, Hs.
        destruct (IH (esrc e) es0 Hw0 ltac:(lia)) as (x & Ex & Lx).
        rewrite iterate_S. destruct e as [[u v] w]. cbn [esrc edst] in *.
        destruct (round_target edges _ u v w x Hin Ex) as (dv & Ev & Lv).
        exists dv. split; [exact Ev|]. rewrite weight_app. cbn [weight fold_right ewt snd]. lia.
  Qed.

  (* (B) every label is the weight of some walk *)
  Definition realised (d : dmap) : Prop := forall v x, dget d v = Some x -> exists es, walk v es /\ weight es = x.

  Lemma realised_d0 : realised d0.
  Proof.
    intros v x H. unfold dget, nget, d0 in H. cbn in H. destruct (Nat.eqb_spec v s) as [->|]; [|discriminate].
    inversion H; subst. exists []. split; [constructor | reflexivity].
  Qed.

  Lemma realised_relax d e : In e edges -> realised d -> realised (relax_edge d e).
  Proof.
    intros Hin R. destruct e as [[u v] w]. unfold relax_edge.
    destruct (dget d u) as [du|] eqn:Eu; [|exact R].
    assert (NEW : forall x0 xv, dget (nins v (du + w) d) x0 = Some xv -> exists es, walk x0 es /\ weight es = xv).
    { intros x0 xv H. destruct (Nat.eq_dec x0 v) as [->|Hne].
      - rewrite dget_ins_eq in H. inversion H; subst. destruct (R u du Eu) as (es & Hw & Hwt).
        exists (es ++ [((u, v), w)]). split.
        + apply (w_snoc u es ((u, v), w) Hw Hin eq_refl).
        + rewrite weight_app. cbn. rewrite Hwt. lia.
      - rewrite dget_ins_neq in H by exact Hne. apply (R x0 xv H). }
    destruct (dget d v) as [dv|]; [destruct (du + w <? dv); [exact NEW | exact R] | exact NEW].
  Qed.

  Lemma realised_list l : incl l edges -> forall d, realised d -> realised (fold_left relax_edge l d).
  Proof.
    induction l as [|e l IH]; intros Hl d R; cbn; [exact R|].
    apply IH; [intros x Hx; apply Hl; right; exact Hx | apply realised_relax; [apply Hl; left; reflexivity | exact R]].
  Qed.

  Lemma realised_iterate n : forall d, realised d -> realised (iterate n edges d).
  Proof. induction n as [|n IH]; intros d R; cbn [iterate]; [exact R|]. apply IH. apply realised_list; [apply incl_refl | exact R]. Qed.

  (* ---- cycle removal: a walk can be replaced by one that visits no node twice and is not heavier ---------------- *)
  Definition nodes_of (es : list edge) : list nat := s :: map edst es.

  Lemma walk_end_in v es : walk v es -> In v (nodes_of es).
  Proof.
    intros H. destruct H as [|u es e _ _ _]; [left; reflexivity|].
    right. rewrite map_app. apply in_or_app. right. left. reflexivity.
  Qed.

  (* a node that occurs on a walk is the end of a prefix of it *)
  Lemma walk_prefix v es : walk v es -> forall x, In x (nodes_of es) ->
    exists es1 es2, es = es1 ++ es2 /\ walk x es1.
  Proof.
    induction 1 as [|u es e Hw IH Hin Hsrc]; intros x Hx.
    - destruct Hx as [<-|[]]. exists [], []. split; [reflexivity | constructor].
    - unfold nodes_of in Hx. rewrite map_app in Hx. cbn in Hx.
      destruct Hx as [<-|Hx].
      + exists [], (es ++ [e]). split; [reflexivity | constructor].
      + apply in_app_or in Hx. destruct Hx as [Hx|[<-|[]]].
        * destruct (IH x (or_intror Hx)) as (es1 & es2 & E & W1). exists es1, (es2 ++ [e]). split; [rewrite E, app_assoc; reflexivity | exact W1].
        * exists (es ++ [e]), []. split; [rewrite app_nil_r; reflexivity | econstructor; eauto].
  Qed.

  Lemma simple_walk v es : walk v es -> exists es', walk v es' /\ weight es' <= weight es /\ NoDup (nodes_of es').
  Proof.
    induction 1 as [|u es e Hw IH Hin Hsrc].
    - exists []. split; [constructor|]. split; [lia|]. constructor; [intros []|constructor].
    - destruct IH as (es' & W' & L' & ND).
      destruct (in_dec Nat.eq_dec (edst e) (nodes_of es')) as [Hv|Hv].
      + destruct (walk_prefix u es' W' (edst e) Hv) as (es1 & es2 & E & W1).
        exists es1. split; [exact W1|]. split.
        * rewrite weight_app. subst es'. rewrite weight_app in L'. lia.
        * subst es'. unfold nodes_of in *. rewrite map_app in ND. rewrite app_comm_cons in ND. apply NoDup_app_l in ND. exact ND.
      + exists (es' ++ [e]). split; [econstructor; eauto|]. split; [rewrite !weight_app; lia|].
        unfold nodes_of in *. rewrite map_app. cbn [map]. rewrite app_comm_cons.
        apply NoDup_snoc; assumption.
  Qed.

  (* ---- the labelling after at least |nodes| rounds is closed ------------------------------------------------------ *)
  Variable nodes : list nat.
  Hypothesis s_node : In s nodes.
  Hypothesis edges_in_nodes : forall e, In e edges -> In (esrc e) nodes /\ In (edst e) nodes.

  Lemma walk_nodes_incl v es : walk v es -> incl (nodes_of es) nodes.
  Proof.
    induction 1 as [|u es e Hw IH Hin Hsrc]; intros x Hx.
    - destruct Hx as [<-|[]]. exact s_node.
    - unfold nodes_of in Hx. rewrite map_app in Hx. cbn in Hx. destruct Hx as [<-|Hx]; [exact s_node|].
      apply in_app_or in Hx. destruct Hx as [Hx|[<-|[]]]; [apply IH; right; exact Hx | apply (edges_in_nodes e Hin)].
  Qed.

  Theorem closed_after n : (length nodes <= n)%nat ->
    closed edges (iterate n edges d0) = true /\ dget (iterate n edges d0) s = Some 0.
  Proof.
    intros Hn. split.
    - unfold closed. apply forallb_forall. intros [[u v] w] Hin. cbn [edge_ok].
      destruct (dget (iterate n edges d0) u) as [du|] eqn:Eu; [|reflexivity].
      destruct (realised_iterate n d0 realised_d0 u du Eu) as (es & Hw & Hwt).
      destruct (simple_walk u es Hw) as (es' & Hw' & Hle & Hnd).
      pose proof (NoDup_incl_length Hnd (walk_nodes_incl u es' Hw')) as Hlen.
      unfold nodes_of in Hlen. cbn [length] in Hlen. rewrite map_length in Hlen.
      assert (Hw2 : walk v (es' ++ [((u, v), w)])) by (apply (w_snoc u es' ((u, v), w) Hw' Hin eq_refl)).
      destruct (upper_bound n v _ Hw2) as (x & Ex & Lx); [rewrite app_length; cbn; lia|].
      rewrite Ex. apply N.leb_le. rewrite weight_app in Lx. cbn [weight fold_right ewt snd] in Lx. lia.
    - destruct (iterate_le n d0 s 0) as (a & Ea & La); [unfold dget, nget, d0; cbn; rewrite Nat.eqb_refl; reflexivity|].
      rewrite Ea. f_equal. lia.
  Qed.
End BF.

(* for the specification graph of the checker: the reference distances are closed and the source has distance 0, whenever the
   source is a node and every edge joins nodes (both hold for every graph the store can hold) *)
Theorem ref_dist_closed g s :
  In s (keys (snodes g)) ->
  (forall e, In e (sedges g) -> In (esrc e) (keys (snodes g)) /\ In (edst e) (keys (snodes g))) ->
  closed (sedges g) (ref_dist g s) = true /\ dget (ref_dist g s) s = Some 0.
Proof.
  intros Hs He. unfold ref_dist.
  apply (closed_after (sedges g) s (keys (snodes g)) Hs He). unfold keys. rewrite map_length. lia.
Qed.

(* ... in particular for the abstraction of EVERY graph the store model can reach (Graph/Refine.v: the representation
   invariant says that adjacency cells join live nodes) *)
From DC Require Graph.Refine.
Corollary ref_dist_closed_reachable (g : ugraph) s :
  Refine.Inv g -> In s (keys (node_map g)) ->
  closed (sedges (Refine.abs g)) (ref_dist (Refine.abs g) s) = true /\ dget (ref_dist (Refine.abs g) s) s = Some 0.
Proof.
  intros (_ & _ & _ & He & _) Hs. apply ref_dist_closed; [exact Hs|].
  intros [[a b] w] Hin. cbn [Refine.abs sedges snodes esrc edst fst snd] in *.
  apply (He a b). unfold keys. change (a, b) with (fst ((a, b), w)). apply in_map. exact Hin.
Qed.

(* ================================================================================================================
   COMPLETENESS of the shortest-path checker: on a well-formed specification graph (distinct edge keys, edges joining nodes)
   the checker ACCEPTS every correct answer - a real path of minimum total weight, or "nothing" when an end node is absent
   or no path exists.  Together with its soundness (Graph/ShortestPathProofs.v) the checker decides the property exactly:
   a rejection is always a violation, never an artefact of the checker. *)
From DC Require Import Graph.ShortestPathProofs.

Section Complete.
  Variable g : sgraph.
  Variable s : nat.
  Hypothesis keys_nodup : NoDup (keys (sedges g)).

  Notation walk := (walk (sedges g) s).

  Lemma eget_of_In a b w : In ((a, b), w) (sedges g) -> eget (a, b) (sedges g) = Some w.
  Proof.
    unfold eget. revert keys_nodup. generalize (sedges g). induction l as [|[k0 v0] l IH]; intros Hnd Hin; [contradiction|].
    cbn [keys map fst] in Hnd. inversion Hnd as [|? ? Hn Hd]; subst. cbn [aget].
    destruct Hin as [E|Hin].
    - inversion E; subst. destruct (pair_eqb_spec (a, b) (a, b)); [reflexivity | congruence].
    - destruct (pair_eqb_spec (a, b) k0) as [<-|Hne]; [|apply IH; assumption].
      exfalso. apply Hn. change (a, b) with (fst ((a, b), w)). apply in_map. exact Hin.
  Qed.

  Lemma path_ok_snoc q a b : path_ok g ((q ++ [a]) ++ [b]) = path_ok g (q ++ [a]) && emem (a, b) (sedges g).
  Proof.
    induction q as [|x q IH]; cbn [app].
    - cbn [path_ok]. rewrite andb_true_r, andb_true_l. reflexivity.
    - destruct (q ++ [a]) as [|y r] eqn:E; [destruct q; discriminate|].
      cbn [app] in *. rewrite !path_ok_cons2. rewrite IH. rewrite andb_assoc. reflexivity.
  Qed.

  Lemma path_weight_snoc q a b :
    path_weight g ((q ++ [a]) ++ [b]) = path_weight g (q ++ [a]) + (match eget (a, b) (sedges g) with Some w => w | None => 0 end).
  Proof.
    induction q as [|x q IH]; cbn [app].
    - cbn [path_weight]. lia.
    - destruct (q ++ [a]) as [|y r] eqn:E; [destruct q; discriminate|].
      cbn [app] in *. rewrite !path_weight_cons2. rewrite IH. lia.
  Qed.

  (* the node sequence of a walk is a path of the same weight *)
  Lemma walk_is_path v es : walk v es ->
    exists q, nodes_of s es = q ++ [v] /\ path_ok g (q ++ [v]) = true /\ path_weight g (q ++ [v]) = weight es.
  Proof.
    induction 1 as [|u es e Hw IH Hin Hsrc].
    - exists []. cbn. auto.
    - destruct IH as (q & Eq & Hok & Hwt). destruct e as [[a b] w]. cbn [esrc edst fst snd] in *. subst a.
      exists (q ++ [u]). split; [|split].
      + unfold nodes_of in *. rewrite map_app. cbn [map edst fst snd]. rewrite app_comm_cons. rewrite Eq. reflexivity.
      + rewrite path_ok_snoc, Hok. cbn. unfold emem, amem. fold (eget (u, b) (sedges g)). rewrite (eget_of_In u b w Hin). reflexivity.
      + rewrite path_weight_snoc, Hwt, (eget_of_In u b w Hin), weight_app. cbn. lia.
  Qed.

  Lemma nodes_of_head es : exists r, nodes_of s es = s :: r.
  Proof. unfold nodes_of. eauto. Qed.

  Lemma last_snoc (q : list nat) v d : last (q ++ [v]) d = v.
  Proof. induction q as [|x q IH]; [reflexivity|]. cbn [app]. destruct (q ++ [v]) eqn:E; [destruct q; discriminate|]. exact IH. Qed.

  Lemma walk_gives_pathb v es : walk v es -> exists p, is_pathb g s v p = true /\ path_weight g p = weight es.
  Proof.
    intros Hw. destruct (walk_is_path v es Hw) as (q & Eq & Hok & Hwt). exists (q ++ [v]). split; [|exact Hwt].
    destruct (nodes_of_head es) as (r & Er). rewrite Eq in Er.
    unfold is_pathb. rewrite Er. rewrite Nat.eqb_refl. rewrite <- Er. rewrite last_snoc, Nat.eqb_refl, Hok. reflexivity.
  Qed.

  Hypothesis s_node : In s (keys (snodes g)).
  Hypothesis edges_in_nodes : forall e, In e (sedges g) -> In (esrc e) (keys (snodes g)) /\ In (edst e) (keys (snodes g)).

  Lemma smem_In i : smem g i = true <-> In i (keys (snodes g)).
  Proof. unfold smem. apply aget_In_keys. apply Nat.eqb_spec. Qed.

  (* a minimum-weight path is accepted *)
  Theorem check_some_complete t p :
    smem g t = true -> is_pathb g s t p = true ->
    (forall q, is_pathb g s t q = true -> path_weight g p <= path_weight g q) ->
    check_answer g s t (Some p) = true.
  Proof.
    intros Ht Hp Hmin. destruct (ref_dist_closed g s s_node edges_in_nodes) as [Hc H0].
    unfold check_answer. rewrite (proj2 (smem_In s) s_node), Ht, Hp, Hc, H0. cbn [andb].
    destruct (is_pathb_shape g s t p Hp) as (q' & -> & Hl & Hok).
    destruct (closed_bounds_path g _ q' s 0 Hc Hok H0) as (dl & Hdl & Hle). rewrite Hl in Hdl. rewrite Hdl.
    apply N.eqb_eq.
    destruct (realised_iterate (sedges g) s (length (snodes g)) (d0 s) (realised_d0 (sedges g) s) t dl Hdl) as (es & Hw & Hwt).
    destruct (walk_gives_pathb t es Hw) as (p2 & Hp2 & Hw2).
    specialize (Hmin p2 Hp2). lia.
  Qed.

  (* "nothing" is accepted when an end is absent or no path exists *)
  Theorem check_none_complete t :
    (smem g t = false \/ forall q, is_pathb g s t q = false) -> check_answer g s t None = true.
  Proof.
    intros H. unfold check_answer. destruct H as [H|H]; [rewrite H; cbn [negb]; rewrite orb_true_r; reflexivity|].
    destruct (ref_dist_closed g s s_node edges_in_nodes) as [Hc H0]. rewrite Hc, H0. cbn [andb].
    destruct (dget (ref_dist g s) t) as [x|] eqn:E; [|apply orb_true_r].
    destruct (realised_iterate (sedges g) s (length (snodes g)) (d0 s) (realised_d0 (sedges g) s) t x E) as (es & Hw & _).
    destruct (walk_gives_pathb t es Hw) as (p2 & Hp2 & _). rewrite H in Hp2. discriminate.
  Qed.
End Complete.
