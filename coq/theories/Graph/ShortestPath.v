(* C15: a reference distance computation (Bellman-Ford relaxation over the adjacency map) and a
   checker for the answer of UltraGraph::shortest_path, with its soundness proof.
   petgraph's astar is NOT modelled; its answers are validated (translation validation). *)
From Coq Require Import List Arith NArith ZArith Bool Lia.
From DC Require Import Common.AList Graph.UltraGraph Graph.Spec.
Import ListNotations.
Open Scope N_scope.

Definition dmap := list (nat * N).            (* node -> finite distance; absent = infinity *)

Definition dget (d : dmap) (v : nat) : option N := nget v d.

(* relax one edge (u,v,w): d(v) := min(d(v), d(u)+w) *)
Definition relax_edge (d : dmap) (e : (nat * nat) * N) : dmap :=
  let '((u, v), w) := e in
  match dget d u with
  | None => d
  | Some du =>
      match dget d v with
      | None => nins v (du + w) d
      | Some dv => if du + w <? dv then nins v (du + w) d else d
      end
  end.

Definition relax_all (edges : list ((nat * nat) * N)) (d : dmap) : dmap := fold_left relax_edge edges d.

Fixpoint iterate (n : nat) (edges : list ((nat * nat) * N)) (d : dmap) : dmap :=
  match n with O => d | S k => iterate k edges (relax_all edges d) end.

(* reference distances from s: |nodes| rounds *)
Definition ref_dist (g : sgraph) (s : nat) : dmap :=
  iterate (length (snodes g)) (sedges g) [(s, 0)].

(* d is closed under relaxation: d(u) finite -> d(v) <= d(u) + w for every edge *)
Definition edge_ok (d : dmap) (e : (nat * nat) * N) : bool :=
  let '((u, v), w) := e in
  match dget d u with
  | None => true
  | Some du => match dget d v with Some dv => dv <=? du + w | None => false end
  end.
Definition closed (edges : list ((nat * nat) * N)) (d : dmap) : bool := forallb (edge_ok d) edges.

(* paths *)
Fixpoint path_ok (g : sgraph) (p : list nat) : bool :=
  match p with
  | a :: ((b :: _) as t) => emem (a, b) (sedges g) && path_ok g t
  | _ => true
  end.

Fixpoint path_weight (g : sgraph) (p : list nat) : N :=
  match p with
  | a :: ((b :: _) as t) => (match eget (a, b) (sedges g) with Some w => w | None => 0 end) + path_weight g t
  | _ => 0
  end.

(* p is a path from s to t along existing edges, in their direction *)
Definition is_pathb (g : sgraph) (s t : nat) (p : list nat) : bool :=
  match p with
  | [] => false
  | a :: _ => (a =? s)%nat && (last p s =? t)%nat && path_ok g p
  end.

(* the checker for one query *)
Definition check_answer (g : sgraph) (s t : nat) (r : option (list nat)) : bool :=
  let d := ref_dist g s in
  match r with
  | Some p =>
      smem g s && smem g t && is_pathb g s t p && closed (sedges g) d
      && (match dget d s with Some 0 => true | _ => false end)
      && (match dget d t with Some x => path_weight g p =? x | None => false end)
  | None =>
      negb (smem g s) || negb (smem g t)
      || (closed (sedges g) d && (match dget d s with Some 0 => true | _ => false end)
          && (match dget d t with None => true | Some _ => false end))
  end.

(* ---- queries after a build/removal history (correspondence interface) -----------------------
   input : nout B ops(4 ints each, as for C08) ... then the implementation's output:
           the return values of the ops, then for every ordered pair (s,t) of 0..B-1 in row-major
           order the answer: -1 (None) or len n1 .. nlen
   output: 1 if every answer passes check_answer on the specification graph reached by the run
           (the run itself is validated by C08's spec checker), else 0 and the index of the first
           rejected pair *)
Fixpoint parse_answers (fuel : nat) (l : list Z) : list (option (list nat)) :=
  match fuel with
  | O => []
  | S f =>
    match l with
    | [] => []
    | x :: rest =>
        if (x <? 0)%Z then None :: parse_answers f rest
        else let k := Z.to_nat x in
             Some (map Z.to_nat (firstn k rest)) :: parse_answers f (skipn k rest)
    end
  end.

Fixpoint spec_final (s : sgraph) (ops : list gop) (rets : list Z) : option sgraph :=
  match ops, rets with
  | [], _ => Some s
  | o :: t, r :: rt => match sstep s o r with Some s' => spec_final s' t rt | None => None end
  | _ :: _, [] => None
  end.

Fixpoint check_all (g : sgraph) (pairs : list (nat * nat)) (ans : list (option (list nat))) (i : Z) : list Z :=
  match pairs, ans with
  | [], _ => [1%Z]
  | (s, t) :: ps, a :: rest => if check_answer g s t a then check_all g ps rest (i + 1)%Z else [0%Z; i]
  | _ :: _, [] => [0%Z; i]
  end.

Definition all_pairs (B : nat) : list (nat * nat) :=
  flat_map (fun s => map (fun t => (s, t)) (seq 0 B)) (seq 0 B).

Definition spath_check_entry (l : list Z) : list Z :=
  match l with
  | nout :: b :: rest =>
      let nops := (length rest - Z.to_nat nout)%nat in
      let opsz := firstn nops rest in
      let out := skipn nops rest in
      let ops := decode_ops opsz (length opsz) in
      let n := length ops in
      match spec_final sempty ops (firstn n out) with
      | None => [0%Z; (-1)%Z]
      | Some g => check_all g (all_pairs (Z.to_nat b)) (parse_answers (length out) (skipn n out)) 0%Z
      end
  | _ => [0%Z]
  end.
