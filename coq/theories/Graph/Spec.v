(* The abstract specification for C08: a plain directed graph with node values, edge weights and
   a root pointer; plus the executable checker that validates an observed run against it.
   Node indices are chosen by the implementation; the spec only demands freshness. *)
From Coq Require Import List Arith NArith ZArith Bool.
From DC Require Import Common.AList Graph.UltraGraph.
Import ListNotations.

Record sgraph := mkSG {
  snodes : list (nat * Z);            (* live index -> value *)
  sedges : list ((nat * nat) * N);    (* (from, to) -> weight *)
  sroot : option nat
}.

Definition sempty : sgraph := mkSG [] [] None.

Definition smem (s : sgraph) (i : nat) : bool := amem Nat.eqb i (snodes s).
Definition shas_edge (s : sgraph) (a b : nat) : bool := smem s a && smem s b && emem (a, b) (sedges s).

(* one step of the spec, given the value [r] the implementation returned.
   None = the returned value is not allowed by the spec. *)
Definition sstep (s : sgraph) (o : gop) (r : Z) : option sgraph :=
  match o with
  | OAddNode v =>
      let i := Z.to_nat r in
      if (0 <=? r)%Z && negb (smem s i) then Some (mkSG (nins i v (snodes s)) (sedges s) (sroot s)) else None
  | OAddRoot v =>
      let i := Z.to_nat r in
      if (0 <=? r)%Z && negb (smem s i) then Some (mkSG (nins i v (snodes s)) (sedges s) (Some i)) else None
  | ORemoveNode i =>
      if smem s i
      then if Z.eqb r 1
           then Some (mkSG (nrem i (snodes s))
                           (filter (fun c : (nat * nat) * N => negb ((fst (fst c) =? i) || (snd (fst c) =? i))) (sedges s))
                           (sroot s))
           else None
      else if Z.eqb r 0 then Some s else None
  | OAddEdge a b =>
      if smem s a && smem s b && negb (emem (a, b) (sedges s))
      then if Z.eqb r 1 then Some (mkSG (snodes s) (((a, b), 0%N) :: erem (a, b) (sedges s)) (sroot s)) else None
      else if Z.eqb r 0 then Some s else None
  | OAddEdgeW a b w =>
      if smem s a && smem s b && negb (emem (a, b) (sedges s))
      then if Z.eqb r 1 then Some (mkSG (snodes s) (((a, b), w) :: erem (a, b) (sedges s)) (sroot s)) else None
      else if Z.eqb r 0 then Some s else None
  | ORemoveEdge a b =>
      if shas_edge s a b
      then if Z.eqb r 1 then Some (mkSG (snodes s) (erem (a, b) (sedges s)) (sroot s)) else None
      else if Z.eqb r 0 then Some s else None
  | OClear => if Z.eqb r 0 then Some sempty else None
  end.

(* observations of the abstract graph *)
Definition sout (s : sgraph) (a : nat) : list nat :=
  filter (fun b => emem (a, b) (sedges s)) (seq 0 (adj_bound (sedges s))).

Definition sobserve (B : nat) (s : sgraph) : list Z :=
  let idx := seq 0 B in
  flat_map (fun i => [zb (smem s i); zopt (nget i (snodes s))]) idx
  ++ flat_map (fun i => map (fun j => zb (shas_edge s i j)) idx) idx
  ++ [Z.of_nat (length (snodes s)); zb (length (snodes s) =? 0); Z.of_nat (length (sedges s))]
  ++ (let ns := isort Z.leb (map snd (snodes s)) in Z.of_nat (length ns) :: ns)
  ++ (let es := isort pair_leb (flat_map (fun kv : nat * Z => map (fun b => (fst kv, b)) (sout s (fst kv))) (snodes s)) in
      Z.of_nat (length es) :: flat_map (fun e : nat * nat => [Z.of_nat (fst e); Z.of_nat (snd e)]) es)
  ++ flat_map (fun i => if smem s i
                        then let l := sout s i in Z.of_nat (length l) :: map Z.of_nat l
                        else [(-1)%Z]) idx
  ++ [zb (match sroot s with Some _ => true | None => false end);
      zoptn (sroot s);
      zopt (match sroot s with Some r => nget r (snodes s) | None => None end);
      zoptn (if length (snodes s) =? 0 then None else Some (length (snodes s)))].

(* expected observation stream for a run whose return values were [rets];
   None when some return value is not allowed *)
Fixpoint spec_run (B : nat) (s : sgraph) (ops : list gop) (rets : list Z) : option (list Z) :=
  match ops, rets with
  | [], _ => Some []
  | o :: t, r :: rt =>
      match sstep s o r with
      | Some s' => match spec_run B s' t rt with
                   | Some os => Some (sobserve B s' ++ os)
                   | None => None
                   end
      | None => None
      end
  | _ :: _, [] => None
  end.

Fixpoint zlist_eqb (a b : list Z) : bool :=
  match a, b with
  | [], [] => true
  | x :: a', y :: b' => Z.eqb x y && zlist_eqb a' b'
  | _, _ => false
  end.

(* the checker: [out] = return values followed by the observation stream *)
Definition spec_check (B : nat) (ops : list gop) (out : list Z) : bool :=
  let n := length ops in
  match spec_run B sempty ops (firstn n out) with
  | Some os => zlist_eqb (skipn n out) os
  | None => false
  end.

(* entry: nout B ops(4 ints each)... out... *)
Definition ugraph_check_entry (l : list Z) : list Z :=
  match l with
  | nout :: b :: rest =>
      let nops := (length rest - Z.to_nat nout)%nat in
      let opsz := firstn nops rest in
      let out := skipn nops rest in
      [zb (spec_check (Z.to_nat b) (decode_ops opsz (length opsz)) out)]
  | _ => [0%Z]
  end.
