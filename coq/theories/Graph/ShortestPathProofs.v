(* Soundness of the shortest-path checker: C15. *)
From Coq Require Import List Arith NArith ZArith Bool Lia.
From DC Require Import Common.AList Graph.UltraGraph Graph.Spec Graph.ShortestPath.
Import ListNotations.
Open Scope N_scope.

Lemma eget_In k w (l : list ((nat * nat) * N)) : eget k l = Some w -> In (k, w) l.
Proof.
  unfold eget. induction l as [|[k0 v] t IH]; simpl; [discriminate|].
  destruct (pair_eqb_spec k k0) as [->|Hne]; intros H; [inversion H; auto | auto].
Qed.

Lemma emem_eget k (l : list ((nat * nat) * N)) : emem k l = true -> exists w, eget k l = Some w.
Proof. unfold emem, amem, eget. destruct (aget pair_eqb k l); [eauto | discriminate]. Qed.

Lemma path_weight_cons2 g a b q :
  path_weight g (a :: b :: q) = (match eget (a, b) (sedges g) with Some w => w | None => 0 end) + path_weight g (b :: q).
Proof. reflexivity. Qed.

Lemma path_ok_cons2 g a b q : path_ok g (a :: b :: q) = emem (a, b) (sedges g) && path_ok g (b :: q).
Proof. reflexivity. Qed.

Lemma last_default_irrel (q : list nat) b x y : last (b :: q) x = last (b :: q) y.
Proof.
  revert b. induction q as [|c q IH]; intros b; [reflexivity|].
  change (last (b :: c :: q) x) with (last (c :: q) x). change (last (b :: c :: q) y) with (last (c :: q) y). apply IH.
Qed.

(* along any path from a node with a finite label, a closed labelling stays finite and is bounded by
   the label of the start plus the weight walked *)
Lemma closed_bounds_path g d q a da :
  closed (sedges g) d = true ->
  path_ok g (a :: q) = true -> dget d a = Some da ->
  exists dl, dget d (last (a :: q) a) = Some dl /\ dl <= da + path_weight g (a :: q).
Proof.
  intros Hc. revert a da. induction q as [|b q IH]; intros a da Hp Ha.
  - exists da. cbn. split; [exact Ha | lia].
  - rewrite path_ok_cons2 in Hp. apply andb_prop in Hp as [He Hp].
    destruct (emem_eget _ _ He) as [w Hw].
    assert (Hin := eget_In _ _ _ Hw).
    unfold closed in Hc. rewrite forallb_forall in Hc. specialize (Hc _ Hin). cbn [edge_ok] in Hc.
    rewrite Ha in Hc. destruct (dget d b) as [db|] eqn:Eb; [|discriminate].
    apply N.leb_le in Hc.
    destruct (IH b db Hp Eb) as (dl & Hl & Hle).
    exists dl. split.
    + change (last (a :: b :: q) a) with (last (b :: q) a).
      rewrite (last_default_irrel q b a b). exact Hl.
    + rewrite path_weight_cons2, Hw. lia.
Qed.

Lemma is_pathb_shape g s t p : is_pathb g s t p = true ->
  exists q, p = s :: q /\ last (s :: q) s = t /\ path_ok g (s :: q) = true.
Proof.
  destruct p as [|a q]; cbn [is_pathb]; [discriminate|].
  intros H. apply andb_prop in H as [H Hp]. apply andb_prop in H as [Ha Hl].
  apply Nat.eqb_eq in Ha, Hl. subst a. exists q. auto.
Qed.

(* C15 soundness, answer Some p: p is a real path from s to t and no path from s to t is lighter *)
Theorem check_some_sound g s t p :
  check_answer g s t (Some p) = true ->
  smem g s = true /\ smem g t = true /\ is_pathb g s t p = true /\
  forall q, is_pathb g s t q = true -> path_weight g p <= path_weight g q.
Proof.
  unfold check_answer. intros H.
  repeat (apply andb_prop in H as [H ?]).
  repeat split; auto.
  intros q Hq. destruct (is_pathb_shape g s t q Hq) as (q' & -> & Hl & Hp).
  destruct (dget (ref_dist g s) s) as [[|?]|] eqn:Es; try discriminate.
  destruct (dget (ref_dist g s) t) as [x|] eqn:Et; [|discriminate].
  match goal with Hw : (path_weight g p =? x) = true |- _ => apply N.eqb_eq in Hw; rewrite Hw end.
  match goal with Hc : closed _ _ = true |- _ =>
    destruct (closed_bounds_path g _ q' s 0 Hc Hp Es) as (dl & Hdl & Hle) end.
  rewrite Hl in Hdl. rewrite Et in Hdl. inversion Hdl; subst. lia.
Qed.

(* C15 soundness, answer None: an end is absent or there is no path at all *)
Theorem check_none_sound g s t :
  check_answer g s t None = true ->
  smem g s = false \/ smem g t = false \/ forall q, is_pathb g s t q = false.
Proof.
  unfold check_answer. intros H.
  apply orb_prop in H as [H|H]; [apply orb_prop in H as [H|H]; apply negb_true_iff in H; auto|].
  right; right. intros q. destruct (is_pathb g s t q) eqn:Hq; [|reflexivity]. exfalso.
  repeat (apply andb_prop in H as [H ?]).
  destruct (is_pathb_shape g s t q Hq) as (q' & -> & Hl & Hp).
  destruct (dget (ref_dist g s) s) as [[|?]|] eqn:Es; try discriminate.
  destruct (closed_bounds_path g _ q' s 0 H Hp Es) as (dl & Hdl & _).
  rewrite Hl in Hdl. rewrite Hdl in *. discriminate.
Qed.

(* non-vacuity: a weighted graph with a cheaper detour, a cycle, a zero-weight edge and a tie *)
Example sp_example :
  let g := mkSG [(0,1%Z);(1,1%Z);(2,1%Z);(3,1%Z);(4,1%Z)]%nat
                [((0,1)%nat,10);((0,2)%nat,1);((2,1)%nat,2);((1,3)%nat,0);((3,0)%nat,1);((2,3)%nat,2)] None in
  check_answer g 0%nat 3%nat (Some [0;2;1;3]%nat) = true
  /\ check_answer g 0%nat 3%nat (Some [0;2;3]%nat) = true
  /\ check_answer g 0%nat 3%nat (Some [0;1;3]%nat) = false
  /\ check_answer g 0%nat 4%nat None = true
  /\ check_answer g 0%nat 3%nat None = false
  /\ check_answer g 0%nat 1%nat (Some [0;3;1]%nat) = false
  /\ check_answer g 2%nat 2%nat (Some [2]%nat) = true.
Proof. vm_compute. repeat split. Qed.
