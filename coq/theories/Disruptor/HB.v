(* C05, happens-before half: every conflicting pair of slot accesses in the single-producer pipeline is
   ordered by happens-before, given the memory orderings the code uses (Release stores and Acquire loads on
   every sequence counter — pinned by trace validation).

   Happens-before is tracked as KNOWLEDGE, the vector-clock construction specialised to this system: every
   thread's slot accesses are totally ordered by sequence number, so "thread t is ordered after the first n
   accesses of thread u" is a number.  [kP t] = t is ordered after the producer's fills of all sequences < kP t;
   [kH t g] = t is ordered after handler g's accesses to all sequences <= kH t g.  Rules (C11 release/acquire):
     - a thread always knows its own progress;
     - a Release store copies the storing thread's knowledge onto the location (each cursor has one writer);
     - an Acquire load joins the location's knowledge into the loading thread's.
   Cursors are read ONE AT A TIME here (no atomic-snapshot abstraction): the knowledge a thread has is exactly
   what the loads it really performed gave it.  Loads may be STALE: a load returns ANY store ever made to the
   cursor (value and attached knowledge), not necessarily the latest - a superset of what C11 coherence allows.

   A slot access is RACE FREE when the accessing thread's knowledge covers every earlier conflicting access:
     handler h touching sequence i:  the fill of i, every access of earlier-stage handlers to i, and every access
                                     of any handler to the previous occupants i-N, i-2N, ... of the slot;
     producer filling sequence q:    every access of every handler to the previous occupants q-N, ... *)
From Coq Require Import Arith Lia Bool List.
Import ListNotations.

Section HB.
  Variable N : nat.
  Variable H : nat.
  Variable stage : nat -> nat.
  Variable last : nat.
  Hypothesis N_pos : 1 <= N.
  Hypothesis stage_le : forall h, h < H -> stage h <= last.
  Hypothesis stage_nonempty : forall k, k <= last -> exists h, h < H /\ stage h = k.

  (* knowledge: about the producer's fills, and about every handler *)
  Record know := mkK { kP : nat; kH : nat -> nat }.
  Definition kjoin (a b : know) : know := mkK (Nat.max (kP a) (kP b)) (fun g => Nat.max (kH a g) (kH b g)).
  Definition k0 : know := mkK 0 (fun _ => 0).

  Inductive ppc :=
  | PIdle
  | PGate (e : nat) (todo : list nat) (m : option nat)   (* claim end; last-stage cursors still to read; partial min *)
  | PFill (q e m : nat)
  | PPub (e m : nat).

  Inductive hpc :=
  | HIdle
  | HRead (next : nat) (todo : list nat) (m : option nat)  (* cursors of the previous stage still to read (stage > 0) *)
  | HReadP (next : nat)                                      (* stage 0: about to read the producer cursor *)
  | HBatch (i avail : nat)
  | HStore (avail : nat).

  Record st := mkSt {
    cursor : nat; hcur : nat -> nat;
    pnext : nat; pcached : nat; pp : ppc; hp : nat -> hpc;
    fill_ptr : nat; done : nat -> nat;
    (* happens-before knowledge *)
    kprod : know;                 (* the producer thread *)
    khand : nat -> know;          (* handler threads *)
    hist_c : list (nat * know);          (* every Release store made to the producer cursor: value, knowledge *)
    hist_h : nat -> list (nat * know)    (* ... to each handler cursor *)
  }.

  Definition upd {A} (f : nat -> A) (k : nat) (v : A) : nat -> A := fun x => if x =? k then v else f x.
  Definition omin (m : option nat) (v : nat) : nat := match m with None => v | Some x => Nat.min x v end.

  (* ids of the handlers of a stage, in ascending order *)
  Definition stage_ids (k : nat) : list nat := filter (fun h => stage h =? k) (seq 0 H).

  Definition init : st :=
    mkSt 0 (fun _ => 0) 0 0 PIdle (fun _ => HIdle) 0 (fun _ => 0) k0 (fun _ => k0) [(0, k0)] (fun _ => [(0, k0)]).

  (* own progress is always known *)
  Definition with_own_fill (k : know) (n : nat) : know := mkK (Nat.max (kP k) n) (kH k).
  Definition with_own_done (k : know) (h n : nat) : know := mkK (kP k) (upd (kH k) h (Nat.max (kH k h) n)).

  Inductive step : st -> st -> Prop :=
  (* ---- producer: next(c) ---- *)
  | p_begin_cached s c :
      pp s = PIdle -> 1 <= c -> pnext s + c - 1 <= pcached s + N ->           (* cached minimum suffices: no load *)
      step s (mkSt (cursor s) (hcur s) (pnext s) (pcached s) (PFill (pnext s) (pnext s + c - 1) (pcached s)) (hp s)
                   (fill_ptr s) (done s) (kprod s) (khand s) (hist_c s) (hist_h s))
  | p_begin_gate s c :
      pp s = PIdle -> 1 <= c -> pcached s + N < pnext s + c - 1 ->
      step s (mkSt (cursor s) (hcur s) (pnext s) (pcached s) (PGate (pnext s + c - 1) (stage_ids last) None) (hp s)
                   (fill_ptr s) (done s) (kprod s) (khand s) (hist_c s) (hist_h s))
  | p_read s e l rest m v k :                                                   (* Acquire load of one gating cursor *)
      pp s = PGate e (l :: rest) m -> In (v, k) (hist_h s l) ->
      step s (mkSt (cursor s) (hcur s) (pnext s) (pcached s) (PGate e rest (Some (omin m v))) (hp s)
                   (fill_ptr s) (done s) (kjoin (kprod s) k) (khand s) (hist_c s) (hist_h s))
  | p_gate_ok s e m :
      pp s = PGate e [] (Some m) -> e <= m + N ->
      step s (mkSt (cursor s) (hcur s) (pnext s) (pcached s) (PFill (pnext s) e m) (hp s)
                   (fill_ptr s) (done s) (kprod s) (khand s) (hist_c s) (hist_h s))
  | p_gate_retry s e m :
      pp s = PGate e [] (Some m) -> m + N < e ->
      step s (mkSt (cursor s) (hcur s) (pnext s) (pcached s) (PGate e (stage_ids last) None) (hp s)
                   (fill_ptr s) (done s) (kprod s) (khand s) (hist_c s) (hist_h s))
  | p_fill s q e m :                                                            (* slot access *)
      pp s = PFill q e m ->
      step s (mkSt (cursor s) (hcur s) (pnext s) (pcached s) (if q =? e then PPub e m else PFill (S q) e m) (hp s)
                   (S q) (done s) (with_own_fill (kprod s) (S q)) (khand s) (hist_c s) (hist_h s))
  | p_publish s e m :                                                           (* Release store of the cursor *)
      pp s = PPub e m ->
      step s (mkSt e (hcur s) (S e) m PIdle (hp s) (fill_ptr s) (done s) (kprod s) (khand s) ((e, kprod s) :: hist_c s) (hist_h s))
  (* ---- handlers ---- *)
  | h_begin s h :
      h < H -> hp s h = HIdle ->
      step s (mkSt (cursor s) (hcur s) (pnext s) (pcached s) (pp s)
                   (upd (hp s) h (if stage h =? 0 then HReadP (hcur s h + 1) else HRead (hcur s h + 1) (stage_ids (stage h - 1)) None))
                   (fill_ptr s) (done s) (kprod s) (khand s) (hist_c s) (hist_h s))
  | h_read_p s h next v k :                                                     (* Acquire load of the producer cursor *)
      h < H -> hp s h = HReadP next -> In (v, k) (hist_c s) ->
      step s (mkSt (cursor s) (hcur s) (pnext s) (pcached s) (pp s)
                   (upd (hp s) h (if next <=? v then HBatch next v else HIdle))
                   (fill_ptr s) (done s) (kprod s) (upd (khand s) h (kjoin (khand s h) k)) (hist_c s) (hist_h s))
  | h_read s h next d rest m v k :                                              (* Acquire load of one dependency cursor *)
      h < H -> hp s h = HRead next (d :: rest) m -> In (v, k) (hist_h s d) ->
      step s (mkSt (cursor s) (hcur s) (pnext s) (pcached s) (pp s)
                   (upd (hp s) h (HRead next rest (Some (omin m v))))
                   (fill_ptr s) (done s) (kprod s) (upd (khand s) h (kjoin (khand s h) k)) (hist_c s) (hist_h s))
  | h_read_done s h next m :
      h < H -> hp s h = HRead next [] (Some m) ->
      step s (mkSt (cursor s) (hcur s) (pnext s) (pcached s) (pp s)
                   (upd (hp s) h (if next <=? m then HBatch next m else HIdle))
                   (fill_ptr s) (done s) (kprod s) (khand s) (hist_c s) (hist_h s))
  | h_handle s h i a :                                                          (* slot access + handler call *)
      h < H -> hp s h = HBatch i a ->
      step s (mkSt (cursor s) (hcur s) (pnext s) (pcached s) (pp s)
                   (upd (hp s) h (if i =? a then HStore a else HBatch (S i) a))
                   (fill_ptr s) (upd (done s) h i) (kprod s) (upd (khand s) h (with_own_done (khand s h) h i)) (hist_c s) (hist_h s))
  | h_store s h a :                                                             (* Release store of the own cursor *)
      h < H -> hp s h = HStore a ->
      step s (mkSt (cursor s) (upd (hcur s) h a) (pnext s) (pcached s) (pp s) (upd (hp s) h HIdle)
                   (fill_ptr s) (done s) (kprod s) (khand s) (hist_c s) (upd (hist_h s) h ((a, khand s h) :: hist_h s h))).

  Inductive reachable : st -> Prop :=
  | reach_init : reachable init
  | reach_step s s' : reachable s -> step s s' -> reachable s'.

  (* ---------- what race freedom demands at each slot access ---------------------------------------- *)
  (* knowledge "up to sequence a": the fill of a and everything earlier-stage handlers did to a, and everybody's
     accesses to the previous lap *)
  Definition covers (k : know) (stg a : nat) : Prop :=
    (1 <= a -> a < kP k) /\
    (forall g, g < H -> stage g < stg -> a <= kH k g) /\
    (forall g, g < H -> a <= kH k g + N).

  Definition handler_access_ordered (s : st) (h i : nat) : Prop := covers (khand s h) (stage h) i.
  Definition producer_access_ordered (s : st) (q : nat) : Prop := forall g, g < H -> q <= kH (kprod s) g + N.

  (* ---------- knowledge order ------------------------------------------------------------------------ *)
  Definition kle (a b : know) : Prop := kP a <= kP b /\ forall g, kH a g <= kH b g.
  Lemma kle_refl a : kle a a. Proof. split; auto. Qed.
  Lemma kle_join_l a b : kle a (kjoin a b). Proof. split; cbn; intros; lia. Qed.
  Lemma kle_join_r a b : kle b (kjoin a b). Proof. split; cbn; intros; lia. Qed.
  Lemma kle_own_fill k n : kle k (with_own_fill k n). Proof. split; cbn; intros; lia. Qed.
  Lemma kle_own_done k h n : kle k (with_own_done k h n).
  Proof. split; cbn; [lia|]. intros g. unfold upd. destruct (g =? h) eqn:E; [apply Nat.eqb_eq in E; subst|]; lia. Qed.

  Lemma covers_mono k k' stg a : kle k k' -> covers k stg a -> covers k' stg a.
  Proof.
    intros [HP HHg] (C1 & C2 & C3). split; [|split].
    - intros Ha. specialize (C1 Ha). lia.
    - intros g Hg Hs. specialize (C2 g Hg Hs). specialize (HHg g). lia.
    - intros g Hg. specialize (C3 g Hg). specialize (HHg g). lia.
  Qed.

  Lemma covers_down k stg a i : i <= a -> covers k stg a -> covers k stg i.
  Proof.
    intros Hi (C1 & C2 & C3). split; [|split].
    - intros H1. assert (1 <= a) by lia. specialize (C1 H0). lia.
    - intros g Hg Hs. specialize (C2 g Hg Hs). lia.
    - intros g Hg. specialize (C3 g Hg). lia.
  Qed.

  Lemma In_stage_ids g k : In g (stage_ids k) <-> g < H /\ stage g = k.
  Proof.
    unfold stage_ids. rewrite filter_In, in_seq, Nat.eqb_eq. split; intros; [split|split]; try tauto; try lia.
  Qed.

  Lemma upd_same {A} (f : nat -> A) k v : upd f k v k = v.
  Proof. unfold upd. rewrite Nat.eqb_refl. reflexivity. Qed.
  Lemma upd_other {A} (f : nat -> A) k v x : x <> k -> upd f k v x = f x.
  Proof. unfold upd. intros Hne. destruct (Nat.eqb_spec x k); congruence. Qed.

  (* ---------- the invariant ---------------------------------------------------------------------------- *)
  Definition coversL (k : know) (a : nat) : Prop := (1 <= a -> a < kP k) /\ (forall g, g < H -> a <= kH k g + N).
  Definition coversH (k : know) (h a : nat) : Prop := covers k (stage h) a /\ a <= kH k h.

  Definition all_ge (k : know) (m : nat) : Prop := forall g, g < H -> m <= kH k g.

  Definition gate_ok (k : know) (p : nat) (todo : list nat) : Prop :=
    (forall g, g < H -> stage g < last -> p <= kH k g) /\
    (forall g, In g (stage_ids last) -> In g todo \/ p <= kH k g).

  Definition prod_inv (s : st) : Prop :=
    all_ge (kprod s) (pcached s) /\
    match pp s with
    | PIdle => True
    | PGate e todo m =>
        pnext s <= e /\ (forall l, In l todo -> In l (stage_ids last)) /\
        match m with Some p => gate_ok (kprod s) p todo | None => todo = stage_ids last end
    | PFill q e m => q <= e /\ e <= m + N /\ all_ge (kprod s) m
    | PPub e m => S e <= kP (kprod s) /\ e <= m + N /\ all_ge (kprod s) m
    end.

  Definition partial_ok (k : know) (h p : nat) (todo : list nat) : Prop :=
    (1 <= p -> p < kP k) /\
    (forall g, g < H -> S (stage g) < stage h -> p <= kH k g) /\
    (forall g, In g (stage_ids (stage h - 1)) -> In g todo \/ p <= kH k g) /\
    (forall g, g < H -> p <= kH k g + N).

  Definition hand_inv (s : st) (h : nat) : Prop :=
    done s h <= kH (khand s h) h /\
    match hp s h with
    | HIdle => True
    | HReadP next => stage h = 0
    | HRead next todo m =>
        1 <= stage h /\ (forall d, In d todo -> In d (stage_ids (stage h - 1))) /\
        match m with Some p => partial_ok (khand s h) h p todo | None => todo = stage_ids (stage h - 1) end
    | HBatch i a => i <= a /\ covers (khand s h) (stage h) a
    | HStore a => done s h = a /\ covers (khand s h) (stage h) a
    end.

  Definition Inv (s : st) : Prop :=
    prod_inv s /\ (forall v k, In (v, k) (hist_c s) -> coversL k v) /\
    (forall h, h < H -> forall v k, In (v, k) (hist_h s h) -> coversH k h v) /\
    (forall h, h < H -> hand_inv s h).

  Lemma Inv_init : Inv init.
  Proof.
    unfold Inv, init, prod_inv, all_ge, coversL, coversH, covers, hand_inv; cbn.
    split; [split; [intros; lia | exact I]|]. split; [intros v k [E|[]]; inversion E; subst; cbn; split; intros; lia|].
    split; [intros h Hh v k [E|[]]; inversion E; subst; cbn; repeat split; intros; lia|].
    intros h Hh. split; [lia | exact I].
  Qed.

  Lemma all_ge_mono k k' m : kle k k' -> all_ge k m -> all_ge k' m.
  Proof. intros [_ Hk] Ha g Hg. specialize (Ha g Hg). specialize (Hk g). lia. Qed.

  (* a handler left alone: its invariant only depends on its own pc, done and knowledge *)
  Lemma hand_inv_frame s s' h :
    hand_inv s h -> hp s' h = hp s h -> done s' h = done s h -> khand s' h = khand s h -> hand_inv s' h.
  Proof. unfold hand_inv. intros HI E1 E2 E3. rewrite E1, E2, E3. exact HI. Qed.

  Theorem Inv_step s s' : Inv s -> step s s' -> Inv s'.
  Proof.
    intros (HP & HL & HLh & HHd) Hs.
    destruct Hs as [s c Hpp Hc Hcap | s c Hpp Hc Hcap | s e l rest m v k Hpp Hvk | s e m Hpp Hle | s e m Hpp Hlt | s q e m Hpp | s e m Hpp
                    | s h Hh Hhp | s h next v k Hh Hhp Hvk | s h next d rest m v k Hh Hhp Hvk | s h next m Hh Hhp | s h i a Hh Hhp | s h a Hh Hhp];
      unfold Inv; cbn [cursor hcur pnext pcached pp hp fill_ptr done kprod khand hist_c hist_h].
    - (* p_begin_cached *)
      destruct HP as [G _]. split; [|split; [exact HL | split; [exact HLh|]]].
      + unfold prod_inv; cbn. split; [exact G|]. split; [lia|]. split; [lia | exact G].
      + intros h Hh. apply (hand_inv_frame s); auto.
    - (* p_begin_gate *)
      destruct HP as [G _]. split; [|split; [exact HL | split; [exact HLh|]]].
      + unfold prod_inv; cbn. split; [exact G|]. split; [lia|]. split; [auto | reflexivity].
      + intros h Hh. apply (hand_inv_frame s); auto.
    - (* p_read: Acquire load of the cursor of last-stage handler l *)
      destruct HP as [G P]. rewrite Hpp in P.
      split; [|split; [exact HL | split; [exact HLh|]]].
      + unfold prod_inv; cbn [pcached kprod pp pnext]. split; [eapply all_ge_mono; [apply kle_join_l | exact G]|].
        destruct P as (Pe & Pin & Pm). split; [exact Pe|]. split; [intros x Hx; apply Pin; right; exact Hx|].
        assert (Hl : l < H /\ stage l = last) by (apply In_stage_ids, Pin; left; reflexivity). destruct Hl as [Hl Hsl].
        destruct (HLh l Hl v k Hvk) as [(C1 & C2 & C3) Cown].
        assert (Hmin : omin m v <= v) by (destruct m; cbn; lia).
        split.
        * intros g Hg Hsg. cbn. destruct m as [p|]; cbn.
          -- destruct Pm as [G1 _]. specialize (G1 g Hg Hsg). lia.
          -- specialize (C2 g Hg ltac:(lia)). lia.
        * intros g Hg. destruct (Nat.eq_dec g l) as [->|Hne]; [right; cbn; lia|].
          destruct m as [p|]; cbn.
          -- destruct Pm as [_ G2]. destruct (G2 g Hg) as [[E|Hin]|Hle]; [congruence | left; exact Hin | right; lia].
          -- rewrite <- Pm in Hg. destruct Hg as [E|Hin]; [congruence | left; exact Hin].
      + intros h Hh. apply (hand_inv_frame s); auto.
    - (* p_gate_ok *)
      destruct HP as [G P]. rewrite Hpp in P. split; [|split; [exact HL | split; [exact HLh|]]].
      + destruct P as (Pe & Pin & [G1 G2]). unfold prod_inv; cbn. split; [exact G|]. split; [exact Pe|]. split; [exact Hle|].
        intros g Hg. pose proof (stage_le g Hg) as Hs. destruct (Nat.eq_dec (stage g) last) as [E|E].
        * destruct (G2 g) as [[]|Hk]; [apply In_stage_ids; auto | exact Hk].
        * apply G1; [exact Hg | lia].
      + intros h Hh. apply (hand_inv_frame s); auto.
    - (* p_gate_retry *)
      destruct HP as [G P]. rewrite Hpp in P. destruct P as (Pe & _). split; [|split; [exact HL | split; [exact HLh|]]].
      + unfold prod_inv; cbn. split; [exact G|]. split; [exact Pe|]. split; [auto | reflexivity].
      + intros h Hh. apply (hand_inv_frame s); auto.
    - (* p_fill *)
      destruct HP as [G P]. rewrite Hpp in P. destruct P as (Q1 & Q2 & Q3).
      split; [|split; [exact HL | split; [exact HLh|]]].
      + unfold prod_inv; cbn [pcached kprod pp]. split; [eapply all_ge_mono; [apply kle_own_fill | exact G]|].
        destruct (Nat.eqb_spec q e) as [->|Hne].
        * split; [cbn; lia|]. split; [exact Q2|]. eapply all_ge_mono; [apply kle_own_fill | exact Q3].
        * split; [lia|]. split; [exact Q2|]. eapply all_ge_mono; [apply kle_own_fill | exact Q3].
      + intros h Hh. apply (hand_inv_frame s); auto.
    - (* p_publish: Release store *)
      destruct HP as [G P]. rewrite Hpp in P. destruct P as (Q1 & Q2 & Q3).
      split; [|split; [|split; [exact HLh|]]].
      + unfold prod_inv; cbn. split; [exact Q3 | exact I].
      + intros v k [E|Hold]; [inversion E; subst|apply HL; exact Hold].
        split; [intros _; lia|]. intros g Hg. specialize (Q3 g Hg). lia.
      + intros h Hh. apply (hand_inv_frame s); auto.
    - (* h_begin *)
      split; [exact HP | split; [exact HL | split; [exact HLh|]]].
      intros g Hg. destruct (Nat.eq_dec g h) as [->|Hne].
      + destruct (HHd h Hh) as [D0 _]. unfold hand_inv; cbn [hp done khand]. rewrite upd_same. split; [exact D0|].
        destruct (Nat.eqb_spec (stage h) 0) as [E|E]; [exact E | split; [lia | split; [auto | reflexivity]]].
      + apply (hand_inv_frame s); auto. cbn. rewrite upd_other by exact Hne. reflexivity.
    - (* h_read_p: Acquire load of the producer cursor *)
      split; [exact HP | split; [exact HL | split; [exact HLh|]]].
      intros g Hg. destruct (Nat.eq_dec g h) as [->|Hne].
      + destruct (HHd h Hh) as [D0 D1]. rewrite Hhp in D1. unfold hand_inv; cbn [hp done khand]. rewrite !upd_same.
        split; [cbn; lia|].
        destruct (Nat.leb_spec next v) as [Hle|Hgt]; [|exact I].
        split; [exact Hle|]. destruct (HL v k Hvk) as [L1 L2]. split; [|split].
        * intros Ha. specialize (L1 Ha). cbn. lia.
        * intros g' Hg' Hs. lia.
        * intros g' Hg'. specialize (L2 g' Hg'). cbn. lia.
      + apply (hand_inv_frame s); auto; cbn; rewrite upd_other by exact Hne; reflexivity.
    - (* h_read: Acquire load of the cursor of dependency d *)
      split; [exact HP | split; [exact HL | split; [exact HLh|]]].
      intros g Hg. destruct (Nat.eq_dec g h) as [->|Hne].
      + destruct (HHd h Hh) as [D0 D1]. rewrite Hhp in D1. destruct D1 as (Hst & Pin & Pm).
        unfold hand_inv; cbn [hp done khand]. rewrite !upd_same. split; [cbn; lia|]. split; [exact Hst|].
        split; [intros x Hx; apply Pin; right; exact Hx|].
        assert (Hd : d < H /\ stage d = stage h - 1) by (apply In_stage_ids, Pin; left; reflexivity). destruct Hd as [Hd Hsd].
        destruct (HLh d Hd v k Hvk) as [(C1 & C2 & C3) Cown].
        assert (Hmin : omin m v <= v) by (destruct m; cbn; lia).
        split; [|split; [|split]].
        * intros H1. cbn. assert (1 <= v) by lia. specialize (C1 H0). lia.
        * intros g' Hg' Hs. cbn. specialize (C2 g' Hg' ltac:(lia)). lia.
        * intros g' Hg'. destruct (Nat.eq_dec g' d) as [->|Hne]; [right; cbn; lia|].
          destruct m as [p|]; cbn.
          -- destruct Pm as (_ & _ & P3 & _). destruct (P3 g' Hg') as [[E|Hin]|Hle]; [congruence | left; exact Hin | right; lia].
          -- rewrite <- Pm in Hg'. destruct Hg' as [E|Hin]; [congruence | left; exact Hin].
        * intros g' Hg'. cbn. specialize (C3 g' Hg'). lia.
      + apply (hand_inv_frame s); auto; cbn; rewrite upd_other by exact Hne; reflexivity.
    - (* h_read_done *)
      split; [exact HP | split; [exact HL | split; [exact HLh|]]].
      intros g Hg. destruct (Nat.eq_dec g h) as [->|Hne].
      + destruct (HHd h Hh) as [D0 D1]. rewrite Hhp in D1. destruct D1 as (Hst & Pin & (P1 & P2 & P3 & P4)).
        unfold hand_inv; cbn [hp done khand]. rewrite !upd_same. split; [exact D0|].
        destruct (Nat.leb_spec next m) as [Hle|Hgt]; [|exact I].
        split; [exact Hle|]. split; [exact P1|]. split; [|exact P4].
        intros g' Hg' Hs. destruct (Nat.eq_dec (S (stage g')) (stage h)) as [E|E].
        * destruct (P3 g') as [[]|Hk]; [apply In_stage_ids; split; [exact Hg' | lia] | exact Hk].
        * apply P2; [exact Hg' | lia].
      + apply (hand_inv_frame s); auto; cbn; rewrite upd_other by exact Hne; reflexivity.
    - (* h_handle *)
      split; [exact HP | split; [exact HL | split; [exact HLh|]]].
      intros g Hg. destruct (Nat.eq_dec g h) as [->|Hne].
      + destruct (HHd h Hh) as [D0 D1]. rewrite Hhp in D1. destruct D1 as [Hia C].
        unfold hand_inv; cbn [hp done khand]. rewrite !upd_same. split; [cbn; rewrite upd_same; lia|].
        assert (C' : covers (with_own_done (khand s h) h i) (stage h) a) by (eapply covers_mono; [apply kle_own_done | exact C]).
        destruct (Nat.eqb_spec i a) as [->|Hne]; [split; [reflexivity | exact C'] | split; [lia | exact C']].
      + apply (hand_inv_frame s); auto; cbn; rewrite upd_other by exact Hne; reflexivity.
    - (* h_store: Release store of the own cursor *)
      destruct (HHd h Hh) as [D0 D1]. rewrite Hhp in D1. destruct D1 as [Hd C].
      split; [exact HP | split; [exact HL | split]].
      + intros g Hg. destruct (Nat.eq_dec g h) as [->|Hne].
        * rewrite !upd_same. intros v k [E|Hold]; [inversion E; subst; split; [exact C | lia] | apply HLh; assumption].
        * rewrite !upd_other by exact Hne. apply HLh, Hg.
      + intros g Hg. destruct (Nat.eq_dec g h) as [->|Hne].
        * unfold hand_inv; cbn [hp done khand]. rewrite upd_same. split; [exact D0 | exact I].
        * apply (hand_inv_frame s); auto; cbn; rewrite upd_other by exact Hne; reflexivity.
  Qed.

  Theorem reachable_Inv s : reachable s -> Inv s.
  Proof. induction 1 as [|s s' _ IH Hs]; [apply Inv_init | eapply Inv_step; eauto]. Qed.

  (* R1: whenever a handler is about to touch sequence i, its happens-before knowledge covers the fill of i, every
     access of every earlier-stage handler to i, and every handler's accesses to the slot's previous occupant. *)
  Theorem handler_accesses_ordered s h i a :
    reachable s -> h < H -> hp s h = HBatch i a -> handler_access_ordered s h i.
  Proof.
    intros HR Hh Hhp. destruct (reachable_Inv s HR) as (_ & _ & _ & HHd).
    destruct (HHd h Hh) as [_ D]. rewrite Hhp in D. destruct D as [Hle C].
    unfold handler_access_ordered. eapply covers_down; eauto.
  Qed.

  (* R2: whenever the producer is about to fill sequence q, its knowledge covers every handler's accesses to the
     slot's previous occupant q - N. *)
  Theorem producer_accesses_ordered s q e m :
    reachable s -> pp s = PFill q e m -> producer_access_ordered s q.
  Proof.
    intros HR Hpp. destruct (reachable_Inv s HR) as ((_ & P) & _). rewrite Hpp in P. destruct P as (Q1 & Q2 & Q3).
    intros g Hg. specialize (Q3 g Hg). lia.
  Qed.
  (* ---------- progress invariant: how far every thread REALLY is ------------------------------------------ *)
  (* The knowledge invariant above says what a thread is ordered after; to conclude that EVERY earlier conflicting
     access is among those, one also needs to know how far the other threads can actually have got.  That is a
     plain state invariant over the same per-cursor-read transition system. *)
  Definition hJ (cur : nat) (hc : nat -> nat) (h dn : nat) (pc : hpc) : Prop :=
    hc h <= dn /\
    (stage h = 0 -> dn <= cur) /\
    (forall d, d < H -> S (stage d) = stage h -> dn <= hc d) /\
    match pc with
    | HIdle => dn = hc h
    | HReadP next => stage h = 0 /\ dn = hc h /\ next = S dn
    | HRead next todo m =>
        1 <= stage h /\ dn = hc h /\ next = S dn /\
        match m with
        | Some p => forall d, d < H -> S (stage d) = stage h -> In d todo \/ p <= hc d
        | None => todo = stage_ids (stage h - 1)
        end
    | HBatch i a => i = S dn /\ i <= a /\ (stage h = 0 -> a <= cur) /\ (forall d, d < H -> S (stage d) = stage h -> a <= hc d)
    | HStore a => dn = a
    end.

  Definition pJ (cur : nat) (hc : nat -> nat) (pn pcach fp : nat) (pc : ppc) : Prop :=
    cur <= pn /\ (1 <= cur -> pn = S cur) /\
    (forall l, l < H -> stage l = last -> pcach <= hc l) /\
    (forall l, l < H -> stage l = last -> fp <= hc l + N + 1) /\
    match pc with
    | PIdle => fp = pn
    | PGate e todo m =>
        fp = pn /\ pn <= e /\
        match m with
        | Some p => forall l, l < H -> stage l = last -> In l todo \/ p <= hc l
        | None => todo = stage_ids last
        end
    | PFill q e m => fp = q /\ pn <= q /\ q <= e /\ e <= m + N /\ (forall l, l < H -> stage l = last -> m <= hc l)
    | PPub e m => fp = S e /\ pn <= e /\ e <= m + N /\ (forall l, l < H -> stage l = last -> m <= hc l)
    end.

  Definition J (s : st) : Prop :=
    pJ (cursor s) (hcur s) (pnext s) (pcached s) (fill_ptr s) (pp s) /\
    forall h, h < H -> hJ (cursor s) (hcur s) h (done s h) (hp s h).

  Lemma hJ_mono cur cur' hc hc' h dn pc :
    cur <= cur' -> (forall g, hc g <= hc' g) -> hc' h = hc h -> hJ cur hc h dn pc -> hJ cur' hc' h dn pc.
  Proof.
    intros Hc Hm He (A & B & C & D). unfold hJ. rewrite He. split; [exact A|]. split; [intros E; specialize (B E); lia|].
    split; [intros d Hd E; specialize (C d Hd E); specialize (Hm d); lia|].
    destruct pc as [|next todo m|next|i a|a]; auto.
    - destruct D as (D1 & D2 & D3 & D4). repeat (split; [assumption|]).
      destruct m as [p|]; [|exact D4]. intros d Hd E. destruct (D4 d Hd E) as [|L]; [left; assumption|right]. specialize (Hm d); lia.
    - destruct D as (D1 & D2 & D3 & D4). repeat (split; [assumption|]). split; [intros E; specialize (D3 E); lia|].
      intros d Hd E. specialize (D4 d Hd E). specialize (Hm d); lia.
  Qed.

  Lemma pJ_mono cur hc hc' pn pcach fp pc :
    (forall g, hc g <= hc' g) -> pJ cur hc pn pcach fp pc -> pJ cur hc' pn pcach fp pc.
  Proof.
    intros Hm (A & B & C & D & E). unfold pJ. split; [exact A|]. split; [exact B|].
    split; [intros l Hl El; specialize (C l Hl El); specialize (Hm l); lia|].
    split; [intros l Hl El; specialize (D l Hl El); specialize (Hm l); lia|].
    destruct pc as [|e todo m|q e m|e m]; auto.
    - destruct E as (E1 & E2 & E3). repeat (split; [assumption|]). destruct m as [p|]; [|exact E3].
      intros l Hl El. destruct (E3 l Hl El) as [|L]; [left; assumption|right]. specialize (Hm l); lia.
    - destruct E as (E1 & E2 & E3 & E4 & E5). repeat (split; [assumption|]). intros l Hl El. specialize (E5 l Hl El). specialize (Hm l); lia.
    - destruct E as (E1 & E2 & E3 & E5). repeat (split; [assumption|]). intros l Hl El. specialize (E5 l Hl El). specialize (Hm l); lia.
  Qed.

  Lemma J_init : J init.
  Proof.
    unfold J, init, pJ, hJ; cbn. split; [repeat split; intros; lia|]. intros h Hh. repeat split; intros; lia.
  Qed.

  Lemma upd_le (f : nat -> nat) h a : f h <= a -> forall g, f g <= upd f h a g.
  Proof. intros Hle g. unfold upd. destruct (Nat.eqb_spec g h); subst; lia. Qed.

  (* a stale load still returns a value some store really wrote: never above the cursor's current value *)
  Definition JB (s : st) : Prop :=
    (forall v k, In (v, k) (hist_c s) -> v <= cursor s) /\
    (forall h v k, In (v, k) (hist_h s h) -> v <= hcur s h).

  Lemma JB_init : JB init.
  Proof. split; cbn; [intros v k [E|[]] | intros h v k [E|[]]]; inversion E; lia. Qed.

  Theorem JB_step s s' : J s -> JB s -> step s s' -> JB s'.
  Proof.
    intros [JP JH] [B1 B2] Hs.
    destruct Hs as [s c Hpp Hc Hcap | s c Hpp Hc Hcap | s e l rest m v k Hpp Hvk | s e m Hpp Hle | s e m Hpp Hlt | s q e m Hpp | s e m Hpp
                    | s h Hh Hhp | s h next v k Hh Hhp Hvk | s h next d rest m v k Hh Hhp Hvk | s h next m Hh Hhp | s h i a Hh Hhp | s h a Hh Hhp];
      unfold JB; cbn [cursor hcur hist_c hist_h]; try (split; assumption).
    - (* p_publish *)
      split; [|exact B2]. destruct JP as (A & _ & _ & _ & E). rewrite Hpp in E. destruct E as (_ & E2 & _).
      intros v k [X|X]; [inversion X; lia | specialize (B1 v k X); lia].
    - (* h_store *)
      split; [exact B1|]. destruct (JH h Hh) as (A & _ & _ & D). rewrite Hhp in D.
      intros g v k. unfold upd. destruct (Nat.eqb_spec g h) as [->|Hne]; [|apply B2].
      intros [X|X]; [inversion X; lia | specialize (B2 h v k X); lia].
  Qed.

  Theorem J_step s s' : JB s -> J s -> step s s' -> J s'.
  Proof.
    intros [B1 B2] [JP JH] Hs.
    destruct Hs as [s c Hpp Hc Hcap | s c Hpp Hc Hcap | s e l rest m v k Hpp Hvk | s e m Hpp Hle | s e m Hpp Hlt | s q e m Hpp | s e m Hpp
                    | s h Hh Hhp | s h next v k Hh Hhp Hvk | s h next d rest m v k Hh Hhp Hvk | s h next m Hh Hhp | s h i a Hh Hhp | s h a Hh Hhp];
      unfold J; cbn [cursor hcur pnext pcached pp hp fill_ptr done].
    - (* p_begin_cached *)
      split; [|exact JH]. destruct JP as (A & B & C & D & E). rewrite Hpp in E. unfold pJ.
      repeat (split; [assumption|]). repeat split; try lia. exact C.
    - (* p_begin_gate *)
      split; [|exact JH]. destruct JP as (A & B & C & D & E). rewrite Hpp in E. unfold pJ.
      repeat (split; [assumption|]). repeat split; try lia.
    - (* p_read *)
      split; [|exact JH]. destruct JP as (A & B & C & D & E). rewrite Hpp in E. destruct E as (E1 & E2 & E3). unfold pJ.
      repeat (split; [assumption|]). pose proof (B2 l v k Hvk) as Hv.
      intros l' Hl' El'. destruct (Nat.eq_dec l' l) as [->|Hne]; [right; destruct m; cbn; lia|].
      destruct m as [p|]; cbn.
      + destruct (E3 l' Hl' El') as [[X|X]|X]; [congruence | left; exact X | right; lia].
      + assert (Hin : In l' (stage_ids last)) by (apply In_stage_ids; auto). rewrite <- E3 in Hin.
        destruct Hin as [X|X]; [congruence | left; exact X].
    - (* p_gate_ok *)
      split; [|exact JH]. destruct JP as (A & B & C & D & E). rewrite Hpp in E. destruct E as (E1 & E2 & E3). unfold pJ.
      repeat (split; [assumption|]). split; [lia|]. split; [exact E2|]. split; [exact Hle|].
      intros l Hl El. destruct (E3 l Hl El) as [[]|X]; exact X.
    - (* p_gate_retry *)
      split; [|exact JH]. destruct JP as (A & B & C & D & E). rewrite Hpp in E. destruct E as (E1 & E2 & E3). unfold pJ.
      repeat (split; [assumption|]). reflexivity.
    - (* p_fill *)
      split; [|exact JH]. destruct JP as (A & B & C & D & E). rewrite Hpp in E. destruct E as (E1 & E2 & E3 & E4 & E5). unfold pJ.
      split; [exact A|]. split; [exact B|]. split; [exact C|].
      split; [intros l Hl El; specialize (E5 l Hl El); lia|].
      destruct (Nat.eqb_spec q e) as [->|Hne]; repeat split; try lia; exact E5.
    - (* p_publish *)
      destruct JP as (A & B & C & D & E). rewrite Hpp in E. destruct E as (E1 & E2 & E3 & E5). split.
      + unfold pJ. split; [lia|]. split; [lia|]. split; [exact E5|]. split; [exact D | exact E1].
      + intros h Hh. eapply hJ_mono; [| |reflexivity|apply JH; exact Hh]; [lia | auto].
    - (* h_begin *)
      split; [exact JP|]. intros g Hg. destruct (Nat.eq_dec g h) as [->|Hne]; [|rewrite upd_other by exact Hne; apply JH; exact Hg].
      rewrite upd_same. destruct (JH h Hh) as (A & B & C & D). rewrite Hhp in D. unfold hJ. repeat (split; [assumption|]).
      destruct (Nat.eqb_spec (stage h) 0) as [E|E]; repeat split; try lia.
    - (* h_read_p *)
      split; [exact JP|]. intros g Hg. destruct (Nat.eq_dec g h) as [->|Hne]; [|rewrite upd_other by exact Hne; apply JH; exact Hg].
      rewrite upd_same. destruct (JH h Hh) as (A & B & C & D). rewrite Hhp in D. destruct D as (D1 & D2 & D3). unfold hJ.
      pose proof (B1 v k Hvk) as Hv.
      repeat (split; [assumption|]). destruct (Nat.leb_spec next v) as [L|L]; [|exact D2].
      repeat split; try lia.
    - (* h_read *)
      split; [exact JP|]. intros g Hg. destruct (Nat.eq_dec g h) as [->|Hne]; [|rewrite upd_other by exact Hne; apply JH; exact Hg].
      rewrite upd_same. destruct (JH h Hh) as (A & B & C & D). rewrite Hhp in D. destruct D as (D1 & D2 & D3 & D4). unfold hJ.
      pose proof (B2 d v k Hvk) as Hv.
      repeat (split; [assumption|]). intros d' Hd' E'. destruct (Nat.eq_dec d' d) as [->|Hne]; [right; destruct m; cbn; lia|].
      destruct m as [p|]; cbn.
      + destruct (D4 d' Hd' E') as [[X|X]|X]; [congruence | left; exact X | right; lia].
      + assert (Hin : In d' (stage_ids (stage h - 1))) by (apply In_stage_ids; split; [exact Hd' | lia]). rewrite <- D4 in Hin.
        destruct Hin as [X|X]; [congruence | left; exact X].
    - (* h_read_done *)
      split; [exact JP|]. intros g Hg. destruct (Nat.eq_dec g h) as [->|Hne]; [|rewrite upd_other by exact Hne; apply JH; exact Hg].
      rewrite upd_same. destruct (JH h Hh) as (A & B & C & D). rewrite Hhp in D. destruct D as (D1 & D2 & D3 & D4). unfold hJ.
      repeat (split; [assumption|]). destruct (Nat.leb_spec next m) as [L|L]; [|exact D2].
      repeat split; try lia. intros d Hd E. destruct (D4 d Hd E) as [[]|X]; exact X.
    - (* h_handle *)
      split; [exact JP|]. intros g Hg. destruct (Nat.eq_dec g h) as [->|Hne]; [|rewrite !upd_other by exact Hne; apply JH; exact Hg].
      rewrite !upd_same. destruct (JH h Hh) as (A & B & C & D). rewrite Hhp in D. destruct D as (D1 & D2 & D3 & D4). unfold hJ.
      split; [lia|]. split; [intros E; specialize (D3 E); lia|]. split; [intros d Hd E; specialize (D4 d Hd E); lia|].
      destruct (Nat.eqb_spec i a) as [->|Hne]; [reflexivity|]. repeat split; try lia; auto.
    - (* h_store *)
      assert (Hmono : forall g, hcur s g <= upd (hcur s) h a g).
      { apply upd_le. destruct (JH h Hh) as (A & _ & _ & D). rewrite Hhp in D. lia. }
      split; [eapply pJ_mono; [exact Hmono | exact JP]|].
      intros g Hg. destruct (Nat.eq_dec g h) as [->|Hne].
      + rewrite upd_same. destruct (JH h Hh) as (A & B & C & D). rewrite Hhp in D. unfold hJ. rewrite upd_same.
        split; [lia|]. split; [exact B|]. split; [|lia]. intros d Hd E. specialize (C d Hd E). specialize (Hmono d). lia.
      + rewrite upd_other by exact Hne. eapply hJ_mono; [reflexivity | exact Hmono | apply upd_other; exact Hne | apply JH; exact Hg].
  Qed.

  Theorem reachable_JJB s : reachable s -> J s /\ JB s.
  Proof.
    induction 1 as [|s s' _ [IH1 IH2] Hs]; [split; [apply J_init | apply JB_init]|].
    split; [eapply J_step; eauto | eapply JB_step; eauto].
  Qed.

  Theorem reachable_J s : reachable s -> J s.
  Proof. intros HR. apply reachable_JJB, HR. Qed.
  (* ---------- chains through the stages ------------------------------------------------------------------- *)
  Lemma done_le_cursor s : J s -> forall g, g < H -> done s g <= cursor s.
  Proof.
    intros [_ JH]. assert (K : forall k g, g < H -> stage g = k -> done s g <= cursor s).
    { induction k as [|k IH]; intros g Hg Eg.
      - destruct (JH g Hg) as (_ & B & _). auto.
      - destruct (stage_nonempty k) as (d & Hd & Ed); [pose proof (stage_le g Hg); lia|].
        destruct (JH g Hg) as (_ & _ & C & _). specialize (C d Hd ltac:(lia)).
        destruct (JH d Hd) as (A & _). specialize (IH d Hd Ed). lia. }
    intros g Hg. eapply K; eauto.
  Qed.

  Lemma last_stage_lowest s X : J s -> (forall l, l < H -> stage l = last -> X <= hcur s l) -> forall g, g < H -> X <= hcur s g.
  Proof.
    intros [_ JH] HX. assert (K : forall k g, g < H -> stage g + k = last -> X <= hcur s g).
    { induction k as [|k IH]; intros g Hg Eg.
      - apply HX; [exact Hg | lia].
      - destruct (stage_nonempty (S (stage g))) as (d & Hd & Ed); [lia|].
        specialize (IH d Hd ltac:(lia)). destruct (JH d Hd) as (A & _ & C & _). specialize (C g Hg ltac:(lia)). lia. }
    intros g Hg. apply (K (last - stage g)); [exact Hg|]. pose proof (stage_le g Hg). lia.
  Qed.

  Lemma later_stage_behind s : J s -> forall h g, h < H -> g < H -> stage h < stage g -> done s g <= hcur s h.
  Proof.
    intros [_ JH] h g Hh. revert g. assert (K : forall k g, g < H -> stage g = stage h + S k -> done s g <= hcur s h).
    { induction k as [|k IH]; intros g Hg Eg.
      - destruct (JH g Hg) as (_ & _ & C & _). apply C; [exact Hh | lia].
      - destruct (stage_nonempty (stage h + S k)) as (d & Hd & Ed); [pose proof (stage_le g Hg); lia|].
        destruct (JH g Hg) as (_ & _ & C & _). specialize (C d Hd ltac:(lia)). specialize (IH d Hd Ed).
        destruct (JH d Hd) as (A & _). lia. }
    intros g Hg Hlt. apply (K (stage g - stage h - 1)); [exact Hg | lia].
  Qed.

  Lemma same_slot_gap a b : a mod N = b mod N -> a < b -> a + N <= b.
  Proof.
    intros Hm Hlt. assert (HN : N <> 0) by lia.
    pose proof (Nat.div_mod a N HN) as Ha. pose proof (Nat.div_mod b N HN) as Hb.
    rewrite Hm in Ha. assert (a / N < b / N) by nia. nia.
  Qed.

  (* ---------- race freedom, in full: every EARLIER conflicting access is happens-before the current one ---- *)
  (* Handler h is about to touch sequence i (slot i mod N).  Every fill of that slot performed so far, and every
     access to that slot performed so far by a handler of a different stage, is within h's happens-before
     knowledge.  (Handlers of the same stage touch the same sequence concurrently by design: see finding D9.) *)
  Theorem handler_no_race s h i a :
    reachable s -> h < H -> hp s h = HBatch i a ->
    (forall j, j < fill_ptr s -> j mod N = i mod N -> j < kP (khand s h)) /\
    (forall g j, g < H -> stage g <> stage h -> 1 <= j -> j <= done s g -> j mod N = i mod N -> j <= kH (khand s h) g).
  Proof.
    intros HR Hh Hhp. pose proof (reachable_J s HR) as HJ. pose proof (handler_accesses_ordered s h i a HR Hh Hhp) as (C1 & C2 & C3).
    pose proof HJ as [JP JH]. destruct (JH h Hh) as (A & B & C & D). rewrite Hhp in D. destruct D as (D1 & D2 & D3 & D4).
    destruct JP as (P1 & P2 & P3 & P4 & P5).
    assert (Hfp : fill_ptr s <= i + N).
    { pose proof (last_stage_lowest s (fill_ptr s - N - 1) HJ) as K. specialize (K ltac:(intros l Hl El; specialize (P4 l Hl El); lia) h Hh). lia. }
    assert (Hpn : pnext s <= fill_ptr s).
    { destruct (pp s) as [|e todo m|q e m|e m]; [lia | destruct P5; lia | destruct P5 as (? & ? & _); lia | destruct P5 as (? & ? & _); lia]. }
    split.
    - intros j Hj Hm. assert (j <= i); [|specialize (C1 ltac:(lia)); lia].
      destruct (le_lt_dec j i) as [|Hgt]; [assumption|]. pose proof (same_slot_gap i j (eq_sym Hm) Hgt). lia.
    - intros g j Hg Hne H1 Hj Hm. pose proof (done_le_cursor s HJ g Hg) as Hcur.
      destruct (lt_dec (stage g) (stage h)) as [Hlt|Hge].
      + specialize (C2 g Hg Hlt). assert (j <= i); [|lia].
        destruct (le_lt_dec j i) as [|Hgt]; [assumption|]. pose proof (same_slot_gap i j (eq_sym Hm) Hgt). specialize (P2 ltac:(lia)). lia.
      + pose proof (later_stage_behind s HJ h g Hh Hg ltac:(lia)) as Hb. specialize (C3 g Hg).
        pose proof (same_slot_gap j i Hm ltac:(lia)). lia.
  Qed.

  (* The producer is about to fill sequence q (slot q mod N): every access to that slot performed so far by any
     handler is within the producer's happens-before knowledge. *)
  Theorem producer_no_race s q e m :
    reachable s -> pp s = PFill q e m ->
    forall g j, g < H -> 1 <= j -> j <= done s g -> j mod N = q mod N -> j <= kH (kprod s) g.
  Proof.
    intros HR Hpp g j Hg H1 Hj Hm. pose proof (reachable_J s HR) as HJ. pose proof (producer_accesses_ordered s q e m HR Hpp g Hg) as K.
    pose proof (done_le_cursor s HJ g Hg) as Hcur. destruct HJ as [(P1 & P2 & _ & _ & P5) _]. rewrite Hpp in P5. destruct P5 as (_ & Q & _).
    specialize (P2 ltac:(lia)). pose proof (same_slot_gap j q Hm ltac:(lia)). lia.
  Qed.
  (* ---------- C04 / C13 on this model: no atomic-snapshot abstraction, stale loads allowed ---------------- *)
  (* Whenever handler h is about to handle sequence i (state HBatch i a): *)
  Theorem hb_delivery s h i a :
    reachable s -> h < H -> hp s h = HBatch i a ->
    (* in order, exactly once, no gaps: i is the successor of the last sequence it returned from *)
    i = S (done s h) /\
    (* only what is completely written and published *)
    i <= cursor s /\ i < fill_ptr s /\
    (* every handler of every EARLIER stage has returned from i (so h sees their modifications) *)
    (forall g, g < H -> stage g < stage h -> i <= done s g) /\
    (* no handler of a LATER stage has touched i, and the producer has not begun to overwrite the slot *)
    (forall g, g < H -> stage h < stage g -> done s g < i) /\ fill_ptr s <= i + N.
  Proof.
    intros HR Hh Hhp. pose proof (reachable_J s HR) as HJ. pose proof HJ as [JP JH].
    destruct (JH h Hh) as (A & B & C & D). rewrite Hhp in D. destruct D as (D1 & D2 & D3 & D4).
    destruct JP as (P1 & P2 & P3 & P4 & P5).
    assert (Hpn : pnext s <= fill_ptr s).
    { destruct (pp s) as [|e todo m|q e m|e m]; [lia | destruct P5; lia | destruct P5 as (? & ? & _); lia | destruct P5 as (? & ? & _); lia]. }
    (* everything a handler may take as available is published *)
    assert (Hav : a <= cursor s).
    { destruct (Nat.eq_dec (stage h) 0) as [E|E]; [auto|].
      destruct (stage_nonempty (stage h - 1)) as (d & Hd & Ed); [pose proof (stage_le h Hh); lia|].
      specialize (D4 d Hd ltac:(lia)). pose proof (done_le_cursor s HJ d Hd). destruct (JH d Hd) as (Ad & _). lia. }
    split; [exact D1|]. split; [lia|]. split; [specialize (P2 ltac:(lia)); lia|].
    split; [|split].
    - (* earlier stages: by induction on the distance *)
      assert (K : forall k g, g < H -> stage g + S k = stage h -> a <= hcur s g).
      { induction k as [|k IH]; intros g Hg Eg; [apply D4; [exact Hg | lia]|].
        destruct (stage_nonempty (S (stage g))) as (d & Hd & Ed); [pose proof (stage_le h Hh); lia|].
        specialize (IH d Hd ltac:(lia)). destruct (JH d Hd) as (_ & _ & Cd & _). specialize (Cd g Hg ltac:(lia)).
        destruct (JH d Hd) as (Ad & _). lia. }
      intros g Hg Hlt. specialize (K (stage h - stage g - 1) g Hg ltac:(lia)). destruct (JH g Hg) as (Ag & _). lia.
    - intros g Hg Hlt. pose proof (later_stage_behind s HJ h g Hh Hg Hlt). lia.
    - pose proof (last_stage_lowest s (fill_ptr s - N - 1) HJ) as K. specialize (K ltac:(intros l Hl El; specialize (P4 l Hl El); lia) h Hh). lia.
  Qed.

  (* No overwrite before consumption, re-proved here where gating cursors are read one at a time (the Pipeline
     model reads them in one atomic snapshot): while the producer fills q, every handler has finished q - N. *)
  Theorem no_overwrite_percursor s q e m :
    reachable s -> pp s = PFill q e m -> forall h, h < H -> q <= done s h + N.
  Proof.
    intros HR Hpp h Hh. pose proof (reachable_J s HR) as HJ. pose proof HJ as [(_ & _ & _ & _ & P5) JH]. rewrite Hpp in P5.
    destruct P5 as (_ & _ & Q1 & Q2 & Q3). pose proof (last_stage_lowest s m HJ Q3 h Hh). destruct (JH h Hh) as (A & _). lia.
  Qed.

  (* and a handler never runs ahead of what is published, nor ahead of the stage before it *)
  Theorem handler_behind_dependencies s h :
    reachable s -> h < H -> done s h <= cursor s /\ forall d, d < H -> stage d < stage h -> done s h <= done s d.
  Proof.
    intros HR Hh. pose proof (reachable_J s HR) as HJ. split; [apply done_le_cursor; auto|].
    intros d Hd Hlt. pose proof (later_stage_behind s HJ d h Hd Hh Hlt). destruct HJ as [_ JH]. destruct (JH d Hd) as (A & _). lia.
  Qed.
End HB.

(* Non-vacuity: with one handler on a ring of two slots the state "handler about to touch sequence 1" is
   reachable (two one-slot claims: the first lands on sequence 0, see finding D7), and so is a PFill state. *)
Example hb_premises_reachable :
  exists s, reachable 2 1 (fun _ => 0) 0 s /\ hp s 0 = HBatch 1 1.
Proof.
  eexists. split.
  - eapply reach_step. eapply reach_step. eapply reach_step. eapply reach_step. eapply reach_step.
    eapply reach_step. eapply reach_step. eapply reach_step. apply reach_init.
    + apply p_begin_cached with (c := 1); cbn; [reflexivity | lia | lia].
    + eapply p_fill; cbn; reflexivity.
    + cbn. eapply p_publish; cbn; reflexivity.
    + cbn. apply p_begin_cached with (c := 1); cbn; [reflexivity | lia | lia].
    + cbn. eapply p_fill; cbn; reflexivity.
    + cbn. eapply p_publish; cbn; reflexivity.
    + cbn. apply h_begin with (h := 0); cbn; [lia | reflexivity].
    + cbn. eapply h_read_p with (h := 0) (v := 1); cbn; [lia | reflexivity | left; reflexivity].
  - cbn. reflexivity.
Qed.
