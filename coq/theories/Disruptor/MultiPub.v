(* C14 / C04, multi-producer sequencer under TRUE CONCURRENCY: any number of producer threads, every atomic operation of
   next() and publish() a separate step, any interleaving, consumers moving at any time.

   multi_producer.rs:
     next(c):    loop { hw = high.get(); if has_capacity(hw, c) && high.cas(hw, hw + c) { return (hw+1, hw+c) } }
     publish(lo, hi):
       for n in lo..=hi { ready.set(n) }                       -- one fetch_or per sequence
       lw = low_watermark.get(); good = lw;
       while good < hi { if !ready.is_set(good+1) { break }; good += 1 }
       if good > lw {
         for n in lw..=good { ready.unset(n) }                 -- one fetch_and per sequence
         current = lw;
         while !cursor.cas(current, good) { current = cursor.get(); if current > good { break } }
         low_watermark.set(good); signal }

   The ready bitmap is abstracted to its specification (BitMap/Proofs.v, C19): one bit per residue modulo N.

   SAFETY (theorem [cursor_only_published]): in every reachable state every sequence 1..cursor has been published
   (its owner has set its ready bit, which it does only after filling the slots) - the cursor never moves past a
   sequence whose claimant has not yet published it, whatever the interleaving.
   LIVENESS FAILS (finding D8, [stranding_reachable]): a state with all producers idle, everything published and the
   cursor below the high watermark is reachable. *)
From Coq Require Import Arith Lia Bool List.
Import ListNotations.

Section MultiPub.
  Variable N : nat.
  Hypothesis N_pos : 1 <= N.

  Inductive tpc :=
  | TIdle
  | TClaimed (lo hi : nat)                 (* claimed, filling the slots *)
  | TSet (lo hi n : nat)                   (* publish: next ready bit to set is n *)
  | TReadLw (lo hi : nat)
  | TScan (lo hi l g : nat)                (* l = low watermark read, g = good_to_release so far *)
  | TUnset (lo hi l g n : nat)             (* clearing the released bits, next is n *)
  | TCas (lo hi l g cur : nat)             (* about to cas(cur, g) on the cursor *)
  | TCasLoad (lo hi l g : nat)             (* cas failed: about to re-read the cursor *)
  | TSetLw (lo hi l g : nat).

  Record st := mkSt {
    bits : nat -> bool;                    (* ready bit of each residue *)
    lw : nat; cursor : nat; high : nat;
    gate : nat;                            (* minimum of the consumer cursors *)
    tp : nat -> tpc;
    (* ghosts *)
    pub : nat -> bool;                     (* the owner has set the ready bit of this sequence *)
    bsrc : nat -> nat;                     (* which sequence last set the bit of a residue *)
    own : nat -> nat                       (* which thread claimed a sequence *)
  }.

  Definition upd {A} (f : nat -> A) (k : nat) (v : A) : nat -> A := fun x => if x =? k then v else f x.
  Definition updr {A} (f : nat -> A) (lo hi : nat) (v : A) : nat -> A := fun x => if (lo <=? x) && (x <=? hi) then v else f x.

  Definition init : st := mkSt (fun _ => false) 0 0 0 0 (fun _ => TIdle) (fun _ => false) (fun _ => 0) (fun _ => 0).

  Definition setp (s : st) (t : nat) (p : tpc) : nat -> tpc := upd (tp s) t p.

  Inductive step : st -> st -> Prop :=
  | s_claim s t c :                        (* successful CAS on the high watermark, capacity seen *)
      tp s t = TIdle -> 1 <= c -> (high s - gate s) + c < N ->
      step s (mkSt (bits s) (lw s) (cursor s) (high s + c) (gate s) (setp s t (TClaimed (high s + 1) (high s + c)))
                   (pub s) (bsrc s) (updr (own s) (high s + 1) (high s + c) t))
  | s_begin s t lo hi :                    (* all slots filled: publish starts *)
      tp s t = TClaimed lo hi ->
      step s (mkSt (bits s) (lw s) (cursor s) (high s) (gate s) (setp s t (TSet lo hi lo)) (pub s) (bsrc s) (own s))
  | s_set s t lo hi n :
      tp s t = TSet lo hi n -> n <= hi ->
      step s (mkSt (upd (bits s) (n mod N) true) (lw s) (cursor s) (high s) (gate s) (setp s t (TSet lo hi (S n)))
                   (upd (pub s) n true) (upd (bsrc s) (n mod N) n) (own s))
  | s_set_done s t lo hi n :
      tp s t = TSet lo hi n -> hi < n ->
      step s (mkSt (bits s) (lw s) (cursor s) (high s) (gate s) (setp s t (TReadLw lo hi)) (pub s) (bsrc s) (own s))
  | s_read_lw s t lo hi :
      tp s t = TReadLw lo hi ->
      step s (mkSt (bits s) (lw s) (cursor s) (high s) (gate s) (setp s t (TScan lo hi (lw s) (lw s))) (pub s) (bsrc s) (own s))
  | s_scan_more s t lo hi l g :
      tp s t = TScan lo hi l g -> g < hi -> bits s (S g mod N) = true ->
      step s (mkSt (bits s) (lw s) (cursor s) (high s) (gate s) (setp s t (TScan lo hi l (S g))) (pub s) (bsrc s) (own s))
  | s_scan_end s t lo hi l g :
      tp s t = TScan lo hi l g -> (hi <= g \/ bits s (S g mod N) = false) ->
      step s (mkSt (bits s) (lw s) (cursor s) (high s) (gate s)
                   (setp s t (if l <? g then TUnset lo hi l g l else TIdle)) (pub s) (bsrc s) (own s))
  | s_unset s t lo hi l g n :
      tp s t = TUnset lo hi l g n -> n <= g ->
      step s (mkSt (upd (bits s) (n mod N) false) (lw s) (cursor s) (high s) (gate s) (setp s t (TUnset lo hi l g (S n)))
                   (pub s) (bsrc s) (own s))
  | s_unset_done s t lo hi l g n :
      tp s t = TUnset lo hi l g n -> g < n ->
      step s (mkSt (bits s) (lw s) (cursor s) (high s) (gate s) (setp s t (TCas lo hi l g l)) (pub s) (bsrc s) (own s))
  | s_cas_ok s t lo hi l g cur :
      tp s t = TCas lo hi l g cur -> cursor s = cur ->
      step s (mkSt (bits s) (lw s) g (high s) (gate s) (setp s t (TSetLw lo hi l g)) (pub s) (bsrc s) (own s))
  | s_cas_fail s t lo hi l g cur :
      tp s t = TCas lo hi l g cur -> cursor s <> cur ->
      step s (mkSt (bits s) (lw s) (cursor s) (high s) (gate s) (setp s t (TCasLoad lo hi l g)) (pub s) (bsrc s) (own s))
  | s_cas_load s t lo hi l g :
      tp s t = TCasLoad lo hi l g ->
      step s (mkSt (bits s) (lw s) (cursor s) (high s) (gate s)
                   (setp s t (if g <? cursor s then TSetLw lo hi l g else TCas lo hi l g (cursor s))) (pub s) (bsrc s) (own s))
  | s_set_lw s t lo hi l g :
      tp s t = TSetLw lo hi l g ->
      step s (mkSt (bits s) g (cursor s) (high s) (gate s) (setp s t TIdle) (pub s) (bsrc s) (own s))
  | s_consume s v :                         (* consumers advance, never past the cursor *)
      gate s <= v -> v <= cursor s ->
      step s (mkSt (bits s) (lw s) (cursor s) (high s) v (tp s) (pub s) (bsrc s) (own s)).

  Inductive reachable : st -> Prop :=
  | reach_init : reachable init
  | reach_step s s' : reachable s -> step s s' -> reachable s'.
  (* ---------------- invariant ---------------------------------------------------------------------------- *)
  Lemma mod_window a b : a mod N = b mod N -> a <= b -> b < a + N -> a = b.
  Proof.
    intros Hm H1 H2. assert (HN : N <> 0) by lia.
    pose proof (Nat.div_mod a N HN) as Ea. pose proof (Nat.div_mod b N HN) as Eb. rewrite Hm in Ea.
    destruct (Nat.eq_dec (a / N) (b / N)) as [E|E]; [rewrite E in Ea; lia|].
    assert (a / N <= b / N) by (apply Nat.div_le_mono; lia).
    assert (N * (a / N + 1) <= N * (b / N)) by (apply Nat.mul_le_mono_l; lia). lia.
  Qed.

  Lemma upd_same {A} (f : nat -> A) k v : upd f k v k = v.
  Proof. unfold upd. rewrite Nat.eqb_refl. reflexivity. Qed.
  Lemma upd_other {A} (f : nat -> A) k v x : x <> k -> upd f k v x = f x.
  Proof. unfold upd. intros Hne. destruct (Nat.eqb_spec x k); congruence. Qed.
  Lemma updr_in {A} (f : nat -> A) lo hi v x : lo <= x <= hi -> updr f lo hi v x = v.
  Proof. unfold updr. intros H. destruct (Nat.leb_spec lo x); destruct (Nat.leb_spec x hi); cbn; try reflexivity; lia. Qed.
  Lemma updr_out {A} (f : nat -> A) lo hi v x : x < lo \/ hi < x -> updr f lo hi v x = f x.
  Proof. unfold updr. intros H. destruct (Nat.leb_spec lo x); destruct (Nat.leb_spec x hi); cbn; try reflexivity; lia. Qed.

  (* "the ready bit of q is not (any longer) the one q itself set" *)
  Definition clr (bt : nat -> bool) (bs : nat -> nat) (q : nat) : Prop := ~ (bt (q mod N) = true /\ bs (q mod N) = q).

  Definition owns (hg : nat) (ow : nat -> nat) (t lo hi : nat) : Prop :=
    1 <= lo /\ lo <= hi /\ hi <= hg /\ forall q, lo <= q <= hi -> ow q = t.

  (* what is known about a thread at each point of its program *)
  Definition tinv (cur hg : nat) (pb : nat -> bool) (bt : nat -> bool) (bs ow : nat -> nat) (t : nat) (p : tpc) : Prop :=
    match p with
    | TIdle => True
    | TClaimed lo hi => owns hg ow t lo hi /\ forall q, lo <= q <= hi -> pb q = false
    | TSet lo hi n => owns hg ow t lo hi /\ lo <= n /\ n <= S hi /\ (forall q, n <= q <= hi -> pb q = false)
    | TReadLw lo hi => hi <= hg
    | TScan lo hi l g => hi <= hg /\ l <= g /\ l <= cur /\ (g <= hi \/ g = l) /\ forall q, l < q <= g -> pb q = true
    | TUnset lo hi l g n => l <= cur /\ l < g /\ l <= n /\ (forall q, l < q <= g -> pb q = true) /\
                            (forall q, l < q <= g -> q < n -> clr bt bs q)
    | TCas lo hi l g c => l <= cur /\ l < g /\ c <= g /\ forall q, l < q <= g -> pb q = true /\ clr bt bs q
    | TCasLoad lo hi l g => l <= cur /\ l < g /\ forall q, l < q <= g -> pb q = true /\ clr bt bs q
    | TSetLw lo hi l g => g <= cur
    end.

  Definition Inv (s : st) : Prop :=
    (lw s <= cursor s /\ cursor s <= high s /\ gate s <= cursor s /\ high s < gate s + N) /\
    (forall q, 1 <= q <= cursor s -> pub s q = true) /\
    (forall q, pub s q = true -> 1 <= q <= high s) /\
    (forall r, bits s r = true -> bsrc s r mod N = r /\ pub s (bsrc s r) = true /\ cursor s < bsrc s r) /\
    (forall t, tinv (cursor s) (high s) (pub s) (bits s) (bsrc s) (own s) t (tp s t)).

  Lemma Inv_init : Inv init.
  Proof.
    unfold Inv, init; cbn. split; [lia|]. split; [intros; lia|]. split; [intros; discriminate|].
    split; [intros; discriminate | intros; exact I].
  Qed.

  (* ---- stability of a thread's knowledge under what the OTHER threads do ---- *)
  (* (a) the cursor grows, the high watermark grows with fresh sequences given to somebody else *)
  Lemma tinv_grow cur cur' hg hg' pb bt bs ow ow' t p :
    cur <= cur' -> hg <= hg' -> (forall q, q <= hg -> ow' q = ow q) ->
    tinv cur hg pb bt bs ow t p -> tinv cur' hg' pb bt bs ow' t p.
  Proof.
    intros Hc Hh Ho. destruct p as [|lo hi|lo hi n|lo hi|lo hi l g|lo hi l g n|lo hi l g c|lo hi l g|lo hi l g]; cbn [tinv]; auto.
    - intros [(A & B & C & D) E]. split; [|exact E]. repeat split; try lia. intros q Hq. rewrite Ho by lia. apply D, Hq.
    - intros [(A & B & C & D) E]. split; [|exact E]. repeat split; try lia. intros q Hq. rewrite Ho by lia. apply D, Hq.
    - lia.
    - intros (A & B & C & D & E). repeat split; try lia; auto.
    - intros (A & B & C & D & E). repeat split; try lia; auto.
    - intros (A & B & C & D). repeat split; try lia; apply D; assumption.
    - intros (A & B & D). repeat split; try lia; apply D; assumption.
    - lia.
  Qed.

  (* (b) a ready bit is cleared *)
  Lemma clr_unset bt bs r q : clr bt bs q -> clr (upd bt r false) bs q.
  Proof. unfold clr, upd. intros H [A B]. destruct (q mod N =? r); [discriminate | apply H; auto]. Qed.

  Lemma tinv_unset cur hg pb bt bs ow t p r :
    tinv cur hg pb bt bs ow t p -> tinv cur hg pb (upd bt r false) bs ow t p.
  Proof.
    destruct p as [|lo hi|lo hi n|lo hi|lo hi l g|lo hi l g n|lo hi l g c|lo hi l g|lo hi l g]; cbn [tinv]; auto.
    - intros (A & B & C & D & E). repeat split; auto. intros q H1 H2. apply clr_unset, E; assumption.
    - intros (A & B & C & D). repeat split; auto; [apply D; assumption | apply clr_unset, D; assumption].
    - intros (A & B & D). repeat split; auto; [apply D; assumption | apply clr_unset, D; assumption].
  Qed.

  (* (c) another thread t' publishes one of ITS sequences n (not yet published) *)
  Lemma clr_set bt bs n q (pb : nat -> bool) : pb q = true -> pb n = false -> clr bt bs q -> clr (upd bt (n mod N) true) (upd bs (n mod N) n) q.
  Proof.
    unfold clr, upd. intros Hq Hn H [A B]. destruct (Nat.eqb_spec (q mod N) (n mod N)) as [E|E].
    - subst. congruence.
    - apply H; auto.
  Qed.

  Lemma tinv_set cur hg pb bt bs ow t t' p n :
    t <> t' -> ow n = t' -> pb n = false ->
    tinv cur hg pb bt bs ow t p -> tinv cur hg (upd pb n true) (upd bt (n mod N) true) (upd bs (n mod N) n) ow t p.
  Proof.
    intros Hne Hown Hpn.
    assert (Hpub : forall q, pb q = true -> upd pb n true q = true) by (intros q Hq; unfold upd; destruct (q =? n); auto).
    destruct p as [|lo hi|lo hi m|lo hi|lo hi l g|lo hi l g m|lo hi l g c|lo hi l g|lo hi l g]; cbn [tinv]; auto.
    - intros [(A & B & C & D) E]. split; [repeat split; auto|]. intros q Hq. rewrite upd_other; [apply E, Hq|]. intros ->. rewrite D in Hown by exact Hq. congruence.
    - intros [(A & B & C & D) (E & F & G)]. split; [repeat split; auto|]. repeat split; auto.
      intros q Hq. rewrite upd_other; [apply G, Hq|]. intros ->. rewrite D in Hown by lia. congruence.
    - intros (A & B & C & D & E). repeat split; auto.
    - intros (A & B & C & D & E). split; [exact A|]. split; [exact B|]. split; [exact C|]. split; [intros q Hq; apply Hpub, D, Hq|].
      intros q H1 H2. apply (clr_set bt bs n q pb); [apply D; exact H1 | exact Hpn | apply E; assumption].
    - intros (A & B & C & D). split; [exact A|]. split; [exact B|]. split; [exact C|]. intros q Hq. destruct (D q Hq) as [D1 D2].
      split; [apply Hpub, D1 | apply (clr_set bt bs n q pb); assumption].
    - intros (A & B & D). split; [exact A|]. split; [exact B|]. intros q Hq. destruct (D q Hq) as [D1 D2].
      split; [apply Hpub, D1 | apply (clr_set bt bs n q pb); assumption].
  Qed.
  Lemma setp_same s t p : setp s t p t = p.
  Proof. apply upd_same. Qed.
  Lemma setp_other s t p t' : t' <> t -> setp s t p t' = tp s t'.
  Proof. apply upd_other. Qed.

  (* a step that only moves one thread's program counter *)
  Lemma Inv_tp s t p :
    Inv s -> tinv (cursor s) (high s) (pub s) (bits s) (bsrc s) (own s) t p ->
    Inv (mkSt (bits s) (lw s) (cursor s) (high s) (gate s) (setp s t p) (pub s) (bsrc s) (own s)).
  Proof.
    intros (G1 & G2 & G3 & G4 & G5) Hp. unfold Inv; cbn [bits lw cursor high gate tp pub bsrc own].
    repeat (split; [assumption|]). intros t'. destruct (Nat.eq_dec t' t) as [->|Hne]; [rewrite setp_same; exact Hp | rewrite setp_other by exact Hne; apply G5].
  Qed.

  Theorem Inv_step s s' : Inv s -> step s s' -> Inv s'.
  Proof.
    intros HI Hs. pose proof HI as ((G1a & G1b & G1c & G1d) & G2 & G3 & G4 & G5).
    destruct Hs as [s t c Htp Hc Hcap | s t lo hi Htp | s t lo hi n Htp Hn | s t lo hi n Htp Hn | s t lo hi Htp
                    | s t lo hi l g Htp Hg Hbit | s t lo hi l g Htp Hend | s t lo hi l g n Htp Hn | s t lo hi l g n Htp Hn
                    | s t lo hi l g cur Htp Hcur | s t lo hi l g cur Htp Hcur | s t lo hi l g Htp | s t lo hi l g Htp | s v Hv1 Hv2];
      try (pose proof (G5 t) as Ht; rewrite Htp in Ht; cbn [tinv] in Ht).
    - (* claim *)
      unfold Inv; cbn [bits lw cursor high gate tp pub bsrc own].
      split; [lia|]. split; [exact G2|]. split; [intros q Hq; specialize (G3 q Hq); lia|]. split; [exact G4|].
      intros t'. destruct (Nat.eq_dec t' t) as [->|Hne].
      + rewrite setp_same. cbn [tinv]. split.
        * unfold owns. repeat split; try lia. intros q Hq. apply updr_in; exact Hq.
        * intros q Hq. destruct (pub s q) eqn:E; [|reflexivity]. specialize (G3 q E). lia.
      + rewrite setp_other by exact Hne. eapply tinv_grow; [| | |apply G5]; [lia | lia|].
        intros q Hq. apply updr_out. lia.
    - (* begin publish *)
      apply Inv_tp; [exact HI|]. cbn [tinv]. destruct Ht as [Ho Hu]. split; [exact Ho|]. destruct Ho as (A & B & _). repeat split; try lia. exact Hu.
    - (* set the ready bit of n *)
      destruct Ht as [(O1 & O2 & O3 & O4) (S1 & S2 & S3)].
      assert (Hpn : pub s n = false) by (apply S3; lia).
      assert (Hncur : cursor s < n).
      { destruct (le_lt_dec n (cursor s)) as [Hle|]; [|assumption]. rewrite G2 in Hpn by lia. discriminate. }
      unfold Inv; cbn [bits lw cursor high gate tp pub bsrc own].
      split; [lia|].
      split; [intros q Hq; unfold upd; destruct (q =? n); [reflexivity | apply G2, Hq]|].
      split; [intros q Hq; unfold upd in Hq; destruct (Nat.eqb_spec q n) as [Eq|Eq]; [subst q; lia | apply G3, Hq]|].
      split.
      + intros r Hr. unfold upd in *. destruct (Nat.eqb_spec r (n mod N)) as [Er|Hne].
        * subst r. rewrite Nat.eqb_refl. split; [reflexivity|]. split; [reflexivity | exact Hncur].
        * destruct (G4 r Hr) as (A & B & C). split; [exact A|]. split; [|exact C]. destruct (bsrc s r =? n); [reflexivity | exact B].
      + intros t'. destruct (Nat.eq_dec t' t) as [->|Hne].
        * rewrite setp_same. cbn [tinv]. split; [repeat split; assumption|]. split; [lia|]. split; [lia|].
          intros q Hq. rewrite upd_other by lia. apply S3. lia.
        * rewrite setp_other by exact Hne. eapply tinv_set; [exact Hne | apply O4; lia | exact Hpn | apply G5].
    - (* all bits set *)
      apply Inv_tp; [exact HI|]. cbn [tinv]. destruct Ht as [(O1 & O2 & O3 & O4) _]. exact O3.
    - (* read the low watermark *)
      apply Inv_tp; [exact HI|]. cbn [tinv]. split; [exact Ht|]. split; [lia|]. split; [lia|]. split; [right; reflexivity | intros; lia].
    - (* scan: one more ready bit *)
      apply Inv_tp; [exact HI|]. cbn [tinv]. destruct Ht as (A & B & C & D & E).
      split; [exact A|]. split; [lia|]. split; [exact C|]. split; [left; lia|].
      intros q Hq. destruct (Nat.eq_dec q (S g)) as [->|Hne]; [|apply E; lia].
      destruct (le_lt_dec (S g) (cursor s)) as [Hle|Hgt]; [apply G2; lia|].
      destruct (G4 _ Hbit) as (M1 & M2 & M3). pose proof (G3 _ M2) as M4.
      assert (E2 : bsrc s (S g mod N) = S g).
      { destruct (le_lt_dec (bsrc s (S g mod N)) (S g)); [apply mod_window; [exact M1 | assumption | lia] | symmetry; apply mod_window; [symmetry; exact M1 | lia | lia]]. }
      rewrite <- E2. exact M2.
    - (* scan ends *)
      apply Inv_tp; [exact HI|]. destruct Ht as (A & B & C & D & E).
      destruct (Nat.ltb_spec l g) as [Hlt|Hge]; cbn [tinv]; [|exact I].
      split; [exact C|]. split; [exact Hlt|]. split; [lia|]. split; [exact E|]. intros q H1 H2. lia.
    - (* clear one released bit *)
      destruct Ht as (A & B & C & D & E).
      unfold Inv; cbn [bits lw cursor high gate tp pub bsrc own].
      split; [lia|]. split; [exact G2|]. split; [exact G3|].
      split; [intros r Hr; unfold upd in Hr; destruct (r =? n mod N); [discriminate | apply G4, Hr]|].
      intros t'. destruct (Nat.eq_dec t' t) as [->|Hne].
      + rewrite setp_same. cbn [tinv]. split; [exact A|]. split; [exact B|]. split; [lia|]. split; [exact D|].
        intros q H1 H2. destruct (Nat.eq_dec q n) as [->|Hqn].
        * unfold clr. rewrite upd_same. intros [X _]. discriminate.
        * apply clr_unset, E; [exact H1 | lia].
      + rewrite setp_other by exact Hne. apply tinv_unset, G5.
    - (* all released bits cleared *)
      apply Inv_tp; [exact HI|]. cbn [tinv]. destruct Ht as (A & B & C & D & E).
      split; [exact A|]. split; [exact B|]. split; [lia|]. intros q Hq. split; [apply D, Hq | apply E; [exact Hq | lia]].
    - (* the CAS on the cursor succeeds *)
      destruct Ht as (A & B & C & D). subst cur.
      unfold Inv; cbn [bits lw cursor high gate tp pub bsrc own].
      assert (Hgh : g <= high s) by (destruct (D g ltac:(lia)) as [P _]; specialize (G3 _ P); lia).
      split; [lia|].
      split; [intros q Hq; destruct (le_lt_dec q l); [apply G2; lia | apply D; lia]|].
      split; [exact G3|].
      split.
      + intros r Hr. destruct (G4 r Hr) as (M1 & M2 & M3). split; [exact M1|]. split; [exact M2|].
        destruct (le_lt_dec (bsrc s r) g) as [Hle|]; [|assumption]. exfalso.
        destruct (D (bsrc s r) ltac:(lia)) as [_ Hclr]. apply Hclr. rewrite M1. split; [exact Hr | reflexivity].
      + intros t'. destruct (Nat.eq_dec t' t) as [->|Hne].
        * rewrite setp_same. cbn [tinv]. lia.
        * rewrite setp_other by exact Hne. eapply tinv_grow; [| | |apply G5]; [lia | lia | auto].
    - (* the CAS fails *)
      apply Inv_tp; [exact HI|]. cbn [tinv]. destruct Ht as (A & B & C & D). auto.
    - (* re-read the cursor *)
      apply Inv_tp; [exact HI|]. destruct Ht as (A & B & D).
      destruct (Nat.ltb_spec g (cursor s)) as [Hlt|Hge]; cbn [tinv]; [lia|]. auto.
    - (* store the low watermark *)
      unfold Inv; cbn [bits lw cursor high gate tp pub bsrc own].
      split; [lia|]. repeat (split; [assumption|]).
      intros t'. destruct (Nat.eq_dec t' t) as [->|Hne]; [rewrite setp_same; exact I | rewrite setp_other by exact Hne; apply G5].
    - (* consumers advance *)
      unfold Inv; cbn [bits lw cursor high gate tp pub bsrc own].
      split; [lia|]. repeat (split; [assumption|]). exact G5.
  Qed.

  Theorem reachable_Inv s : reachable s -> Inv s.
  Proof. induction 1; [apply Inv_init | eapply Inv_step; eauto]. Qed.

  (* THE SAFETY HALF OF C14 (and of C04 for the multi producer): whatever the interleaving of any number of producers,
     the cursor never covers a sequence whose claimant has not published it; it never decreases ([cursor_monotone]);
     consumers, which stay at or below the cursor, only ever see published sequences. *)
  Theorem cursor_only_published s : reachable s -> forall q, 1 <= q <= cursor s -> pub s q = true.
  Proof. intros HR. destruct (reachable_Inv s HR) as (_ & G2 & _). exact G2. Qed.

  Theorem consumers_see_only_published s :
    reachable s -> gate s <= cursor s /\ forall q, 1 <= q <= cursor s -> pub s q = true.
  Proof. intros HR. destruct (reachable_Inv s HR) as ((_ & _ & G & _) & G2 & _). split; assumption. Qed.

  Theorem cursor_monotone s s' : reachable s -> step s s' -> cursor s <= cursor s'.
  Proof.
    intros HR Hs. pose proof (reachable_Inv s HR) as (_ & _ & _ & _ & G5).
    destruct Hs; cbn [cursor]; try lia.
    match goal with H : tp ?s ?t = TCas _ _ _ _ _ |- _ => pose proof (G5 t) as Ht; rewrite H in Ht; cbn [tinv] in Ht end. lia.
  Qed.
  (* no overwrite before consumption (C05, value level) for the multi producer: while a producer fills the slots of its
     claim, every consumer has finished the previous occupant q - N of each of them (consumers at [gate] have returned
     from everything up to [gate]) *)
  Theorem mp_no_overwrite s t lo hi :
    reachable s -> tp s t = TClaimed lo hi -> forall q, lo <= q <= hi -> q < gate s + N.
  Proof.
    intros HR Htp q Hq. destruct (reachable_Inv s HR) as ((_ & _ & _ & G1d) & _ & _ & _ & G5).
    pose proof (G5 t) as Ht. rewrite Htp in Ht. cbn [tinv] in Ht. destruct Ht as [(A & B & C & D) _]. lia.
  Qed.

  (* concurrent claims are pairwise disjoint (each sequence has one owner) *)
  Theorem mp_claims_disjoint s t t' lo hi lo' hi' :
    reachable s -> t <> t' -> tp s t = TClaimed lo hi -> tp s t' = TClaimed lo' hi' -> hi < lo' \/ hi' < lo.
  Proof.
    intros HR Hne H1 H2. destruct (reachable_Inv s HR) as (_ & _ & _ & _ & G5).
    pose proof (G5 t) as Ht. rewrite H1 in Ht. pose proof (G5 t') as Ht'. rewrite H2 in Ht'. cbn [tinv] in *.
    destruct Ht as [(A & B & C & D) _]. destruct Ht' as [(A' & B' & C' & D') _].
    destruct (le_lt_dec lo' hi) as [X|X]; [|left; exact X]. destruct (le_lt_dec lo hi') as [Y|Y]; [|right; exact Y].
    exfalso. apply Hne. destruct (le_lt_dec lo lo').
    - rewrite <- (D lo') by lia. apply D'. lia.
    - rewrite <- (D lo) by lia. apply D'. lia.
  Qed.
End MultiPub.


(* FINDING D8 at the level of interleavings (ring of 8 slots, two producers): thread 1 claims 3..4 after thread 0 claimed
   1..2, and publishes first; then thread 0 publishes.  Both are idle again, all four sequences are published - and the
   cursor stays at 2: nothing will ever release 3..4 unless somebody publishes again. *)
Example stranding_reachable :
  exists s, reachable 8 s /\ tp s 0 = TIdle /\ tp s 1 = TIdle /\ high s = 4 /\ cursor s = 2 /\
            pub s 1 = true /\ pub s 2 = true /\ pub s 3 = true /\ pub s 4 = true.
Proof.
  eexists. split.
  - eapply reach_step. eapply reach_step. eapply reach_step. eapply reach_step. eapply reach_step. eapply reach_step. eapply reach_step. eapply reach_step. eapply reach_step. eapply reach_step. eapply reach_step. eapply reach_step. eapply reach_step. eapply reach_step. eapply reach_step. eapply reach_step. eapply reach_step. eapply reach_step. eapply reach_step. eapply reach_step. eapply reach_step. eapply reach_step. eapply reach_step. eapply reach_step. apply reach_init.
    + apply s_claim with (t := 0) (c := 2); cbn; [reflexivity | lia | lia].
    + cbn. apply s_claim with (t := 1) (c := 2); cbn; [reflexivity | lia | lia].
    + cbn. eapply s_begin with (t := 1); cbn; reflexivity.
    + cbn. eapply s_set with (t := 1); cbn; [reflexivity | lia].
    + cbn. eapply s_set with (t := 1); cbn; [reflexivity | lia].
    + cbn. eapply s_set_done with (t := 1); cbn; [reflexivity | lia].
    + cbn. eapply s_read_lw with (t := 1); cbn; reflexivity.
    + cbn. eapply s_scan_end with (t := 1); cbn; [reflexivity | right; reflexivity].
    + cbn. eapply s_begin with (t := 0); cbn; reflexivity.
    + cbn. eapply s_set with (t := 0); cbn; [reflexivity | lia].
    + cbn. eapply s_set with (t := 0); cbn; [reflexivity | lia].
    + cbn. eapply s_set_done with (t := 0); cbn; [reflexivity | lia].
    + cbn. eapply s_read_lw with (t := 0); cbn; reflexivity.
    + cbn. eapply s_scan_more with (t := 0); cbn; [reflexivity | lia | reflexivity].
    + cbn. eapply s_scan_more with (t := 0); cbn; [reflexivity | lia | reflexivity].
    + cbn. eapply s_scan_end with (t := 0); cbn; [reflexivity | left; lia].
    + cbn. eapply s_unset with (t := 0); cbn; [reflexivity | lia].
    + cbn. eapply s_unset with (t := 0); cbn; [reflexivity | lia].
    + cbn. eapply s_unset with (t := 0); cbn; [reflexivity | lia].
    + cbn. eapply s_unset_done with (t := 0); cbn; [reflexivity | lia].
    + cbn. eapply s_cas_ok with (t := 0); cbn; reflexivity.
    + cbn. eapply s_set_lw with (t := 0); cbn; reflexivity.
    + cbn. eapply s_consume with (v := 2); cbn; lia.
    + cbn. eapply s_consume with (v := 2); cbn; lia.
  - cbn. repeat split; reflexivity.
Qed.
