(* MULTI-PRODUCER PIPELINE OF ANY TOPOLOGY = the multi-producer sequencer under true concurrency (Disruptor/MultiPub.v: any
   number of producer threads, every atomic operation of next() / publish() a step) composed with the handler side
   (Disruptor/Handlers.v: any number of barrier stages and handlers per stage, any batch sizes).  The two share the producer
   cursor; the sequencer's gating value is a snapshot of the LAST stage's cursors (any value between the previous snapshot and
   their current minimum).
   Every execution of the composition projects to an execution of each component ([proj_multipub], [proj_handlers]), so the
   component theorems combine:
   - C04: a handler handles sequence i only if its claimant has published it, and handles the successor of what it returned
     from last ([mp_handles_only_published]);
   - C13: stage order ([mp_stage_order]) and earlier-stages-done / later-stages-untouched;
   - C05: a producer filling the slots of its claim [lo, hi] finds that EVERY handler of EVERY stage has returned from the
     previous occupant q - N of each slot ([mp_no_overwrite_any_stage]).
   Liveness of this system fails (finding D8: MultiPub.stranding_reachable). *)
From Coq Require Import Arith Lia Bool.
From DC Require Import Disruptor.Pipeline Disruptor.MultiPub Disruptor.Handlers.

Section MultiPipe.
  Variable N : nat.
  Hypothesis N_pos : 1 <= N.
  Variable H : nat.
  Variable stage : nat -> nat.
  Variable last : nat.
  Hypothesis stage_le : forall h, h < H -> stage h <= last.
  Hypothesis stage_nonempty : forall k, k <= last -> exists h, h < H /\ stage h = k.

  Notation pstep := (MultiPub.step N).
  Notation preach := (MultiPub.reachable N).
  Notation hstep := (Handlers.hstep H stage).
  Notation hreach := (Handlers.hreachable H stage).
  Notation HInv := (Handlers.HInv H stage).

  Record mst := mkM { ms : MultiPub.st; hs : Handlers.hst }.

  Definition with_cur (h : hst) (c : nat) : hst := mkH c (Handlers.hcur h) (Handlers.hp h) (Handlers.done h).
  Definition with_gate (m : MultiPub.st) (v : nat) : MultiPub.st :=
    MultiPub.mkSt (bits m) (lw m) (MultiPub.cursor m) (high m) v (tp m) (pub m) (bsrc m) (own m).

  Inductive mstep : mst -> mst -> Prop :=
  | m_prod m m' h :                      (* any step of a producer thread; the handlers see the new cursor *)
      pstep m m' -> gate m' = gate m -> mstep (mkM m h) (mkM m' (with_cur h (MultiPub.cursor m')))
  | m_gate m h v :                       (* the gating sequences are read: a snapshot of the last stage *)
      gate m <= v -> (forall l, l < H -> stage l = last -> v <= Handlers.hcur h l) ->
      mstep (mkM m h) (mkM (with_gate m v) h)
  | m_hand m h h' :                      (* any step of a handler thread *)
      hstep h h' -> cur h' = cur h -> mstep (mkM m h) (mkM m h').

  Definition minit : mst := mkM (MultiPub.init) (Handlers.hinit).

  Inductive mreachable : mst -> Prop :=
  | mreach_init : mreachable minit
  | mreach_step x x' : mreachable x -> mstep x x' -> mreachable x'.

  (* what ties the two components together *)
  Definition Coupled (x : mst) : Prop :=
    cur (hs x) = MultiPub.cursor (ms x) /\ forall l, l < H -> stage l = last -> gate (ms x) <= Handlers.hcur (hs x) l.

  Lemma hcur_mono h h' : HInv h -> hstep h h' -> forall l, Handlers.hcur h l <= Handlers.hcur h' l.
  Proof.
    intros HH Hs l. destruct Hs as [s c Hc | s g a Hg Hhp Ha Hd | s g i a Hg Hhp | s g a Hg Hhp | s g Hg Hhp]; cbn [Handlers.hcur]; try apply le_n.
    unfold Pipeline.upd. destruct (Nat.eqb_spec l g) as [E|E]; [subst l | apply le_n].
    destruct (HH g Hg) as [_ X]. rewrite Hhp in X. destruct X as (A & B & D). lia.
  Qed.

  Theorem reach_all x : mreachable x -> preach (ms x) /\ hreach (hs x) /\ Coupled x.
  Proof.
    induction 1 as [|x x' Hr (IP & IH & IC & IG) Hs].
    - split; [constructor|]. split; [constructor|]. split; [reflexivity|]. intros; cbn; lia.
    - destruct Hs as [m m' h Hp Hg | m h v Hv Hl | m h h' Hh Hc]; cbn [ms hs] in *.
      + pose proof (MultiPub.cursor_monotone N N_pos m m' IP Hp) as Hm.
        split; [econstructor; eauto|]. split.
        * econstructor; [exact IH|]. apply e_publish. lia.
        * split; [reflexivity|]. intros l Hl El. cbn [ms hs with_cur Handlers.hcur]. rewrite Hg. apply IG; assumption.
      + assert (Hvc : v <= MultiPub.cursor m).
        { destruct (stage_nonempty last (le_n _)) as (l & Hl0 & El).
          pose proof (Hl l Hl0 El). pose proof (Handlers.hcur_le_cur H stage last stage_le stage_nonempty h l (Handlers.HInv_reachable H stage h IH) Hl0). lia. }
        split; [econstructor; [exact IP|]; apply (MultiPub.s_consume N m v); assumption|].
        split; [exact IH|]. split; [exact IC|]. intros l Hl0 El. cbn [ms hs with_gate gate]. apply Hl; assumption.
      + split; [exact IP|]. split; [econstructor; eauto|]. split; [cbn [ms hs]; congruence|].
        intros l Hl El. cbn [ms hs]. pose proof (hcur_mono h h' (Handlers.HInv_reachable H stage h IH) Hh l). specialize (IG l Hl El). lia.
  Qed.

  Corollary proj_multipub x : mreachable x -> preach (ms x).
  Proof. intros Hr. apply (reach_all x Hr). Qed.
  Corollary proj_handlers x : mreachable x -> hreach (hs x).
  Proof. intros Hr. apply (reach_all x Hr). Qed.

  (* ---------- the combined theorems ------------------------------------------------------------------------------- *)
  (* C04: only published sequences, in order, exactly once *)
  Theorem mp_handles_only_published x h i a :
    mreachable x -> h < H -> Handlers.hp (hs x) h = HBatch i a ->
    pub (ms x) i = true /\ i = S (Handlers.done (hs x) h).
  Proof.
    intros Hr Hh Hhp. destruct (reach_all x Hr) as (IP & IH & IC & _).
    pose proof (Handlers.HInv_reachable H stage _ IH) as HI.
    destruct (Handlers.only_below_cursor H stage last stage_le stage_nonempty _ h i a HI Hh Hhp) as [L1 L2].
    split; [apply (MultiPub.cursor_only_published N N_pos _ IP); lia|].
    apply (Handlers.in_order H stage _ h i a HI Hh Hhp).
  Qed.

  (* C13: stage order *)
  Theorem mp_stage_order x h i a g :
    mreachable x -> h < H -> g < H -> Handlers.hp (hs x) h = HBatch i a -> S (stage g) = stage h -> i <= Handlers.done (hs x) g.
  Proof.
    intros Hr Hh Hg Hhp E. destruct (reach_all x Hr) as (_ & IH & _).
    apply (Handlers.stage_order H stage _ h i a g (Handlers.HInv_reachable H stage _ IH) Hh Hg Hhp E).
  Qed.

  Theorem mp_earlier_done_later_untouched x h i a :
    mreachable x -> h < H -> Handlers.hp (hs x) h = HBatch i a ->
    (forall g, g < H -> stage g < stage h -> i <= Handlers.done (hs x) g) /\
    (forall g, g < H -> stage h < stage g -> Handlers.done (hs x) g < i).
  Proof.
    intros Hr Hh Hhp. destruct (reach_all x Hr) as (_ & IH & _).
    apply (Handlers.earlier_done_later_untouched H stage last stage_le stage_nonempty _ h i a (Handlers.HInv_reachable H stage _ IH) Hh Hhp).
  Qed.

  (* C05: while a producer fills its claim, every handler of every stage is done with the previous occupant of each slot *)
  Theorem mp_no_overwrite_any_stage x t lo hi :
    mreachable x -> tp (ms x) t = TClaimed lo hi -> forall q h, lo <= q <= hi -> h < H -> q < Handlers.done (hs x) h + N.
  Proof.
    intros Hr Htp q h Hq Hh. destruct (reach_all x Hr) as (IP & IH & _ & IG).
    pose proof (Handlers.HInv_reachable H stage _ IH) as HI.
    pose proof (MultiPub.mp_no_overwrite N N_pos _ t lo hi IP Htp q Hq) as Hg.
    destruct (Handlers.last_stage_slowest H stage last stage_le stage_nonempty _ HI _ h Hh eq_refl) as (l & Hl & El & Hlh).
    pose proof (IG l Hl El). pose proof (Handlers.hcur_le_done H stage _ h HI Hh). lia.
  Qed.

  (* ... and while a handler is at sequence i, no producer has claimed (let alone filled) the next lap i + N of its slot *)
  Theorem mp_slot_not_reclaimed x h i a :
    mreachable x -> h < H -> Handlers.hp (hs x) h = HBatch i a -> forall t lo hi, tp (ms x) t = TClaimed lo hi -> hi < i + N.
  Proof.
    intros Hr Hh Hhp t lo hi Htp. destruct (reach_all x Hr) as (IP & IH & _ & IG).
    pose proof (Handlers.HInv_reachable H stage _ IH) as HI.
    pose proof (MultiPub.mp_no_overwrite N N_pos _ t lo hi IP Htp hi) as Hg.
    destruct (reachable_Inv N N_pos _ IP) as (_ & _ & _ & _ & G5). pose proof (G5 t) as Ht. rewrite Htp in Ht. cbn [tinv] in Ht.
    destruct Ht as [(A & B & C & D) _]. specialize (Hg ltac:(lia)).
    destruct (Handlers.last_stage_slowest H stage last stage_le stage_nonempty _ HI _ h Hh eq_refl) as (l & Hl & El & Hlh).
    pose proof (IG l Hl El). destruct (HI h Hh) as [_ X]. rewrite Hhp in X. lia.
  Qed.
End MultiPipe.

(* the premises are satisfiable: ring of 4, two stages of one handler each, one producer publishing sequence 1; the
   second-stage handler is about to handle sequence 1, which is published and which the first stage has returned from *)
Example multipipe_state_reachable :
  exists x, mreachable 4 2 (fun h => h) 1 x /\ Handlers.hp (hs x) 1 = HBatch 1 1 /\ pub (ms x) 1 = true /\ Handlers.done (hs x) 0 = 1.
Proof.
  eexists. split.
  - eapply mreach_step. eapply mreach_step. eapply mreach_step. eapply mreach_step. eapply mreach_step. eapply mreach_step.
    eapply mreach_step. eapply mreach_step. eapply mreach_step. eapply mreach_step. eapply mreach_step. eapply mreach_step.
    eapply mreach_step. eapply mreach_step. eapply mreach_step. eapply mreach_step. apply mreach_init.
    + eapply m_prod; [apply s_claim with (t := 0) (c := 1); cbn; [reflexivity | lia | lia] | reflexivity].
    + cbn. eapply m_prod; [eapply s_begin with (t := 0); cbn; reflexivity | reflexivity].
    + cbn. eapply m_prod; [eapply s_set with (t := 0); cbn; [reflexivity | lia] | reflexivity].
    + cbn. eapply m_prod; [eapply s_set_done with (t := 0); cbn; [reflexivity | lia] | reflexivity].
    + cbn. eapply m_prod; [eapply s_read_lw with (t := 0); cbn; reflexivity | reflexivity].
    + cbn. eapply m_prod; [eapply s_scan_more with (t := 0); cbn; [reflexivity | lia | reflexivity] | reflexivity].
    + cbn. eapply m_prod; [eapply s_scan_end with (t := 0); cbn; [reflexivity | left; lia] | reflexivity].
    + cbn. eapply m_prod; [eapply s_unset with (t := 0); cbn; [reflexivity | lia] | reflexivity].
    + cbn. eapply m_prod; [eapply s_unset with (t := 0); cbn; [reflexivity | lia] | reflexivity].
    + cbn. eapply m_prod; [eapply s_unset_done with (t := 0); cbn; [reflexivity | lia] | reflexivity].
    + cbn. eapply m_prod; [eapply s_cas_ok with (t := 0); cbn; reflexivity | reflexivity].
    + cbn. eapply m_prod; [eapply s_set_lw with (t := 0); cbn; reflexivity | reflexivity].
    + cbn. eapply m_hand; [eapply a_wait with (h := 0) (a := 1); cbn; [lia | reflexivity | lia | unfold Handlers.dep_ok; cbn; split; [intros; lia | intros g Hg E; lia]] | reflexivity].
    + cbn. eapply m_hand; [eapply a_handle with (h := 0); cbn; [lia | reflexivity] | reflexivity].
    + cbn. eapply m_hand; [eapply a_store with (h := 0); cbn; [lia | reflexivity] | reflexivity].
    + cbn. eapply m_hand; [eapply a_wait with (h := 1) (a := 1); cbn; [lia | reflexivity | lia | unfold Handlers.dep_ok; cbn; split; [intros; lia | intros g Hg E; assert (g = 0) by lia; subst g; cbn; lia]] | reflexivity].
  - cbn. repeat split; reflexivity.
Qed.
