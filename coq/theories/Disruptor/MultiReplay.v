(* Trace validation AGAINST THE PROOF MODEL for multi-producer pipelines: the logged execution of the hooked implementation is
   replayed on Disruptor/MultiPub.v itself.  Every event of a writer thread that corresponds to a step of the model (the
   successful CAS on the high watermark, each ready-bit set, the low-watermark read, each ready-bit test, each bit clear,
   each attempt of the cursor CAS loop, the cursor re-read, the low-watermark store) must be ENABLED in the model's current
   state and every value the implementation observed must be the value the model holds (high watermark, low watermark,
   the tested ready bit, the cursor).  [replay_sound]: an accepted trace is an execution of MultiPub - so the invariants
   and theorems proved there ([cursor_only_published], ...) hold for that very execution.
   Consumers appear through their cursor stores only (the model's [gate] is raised to their minimum before a claim). *)
From Coq Require Import List ZArith Arith Bool Lia.
From DC Require Import Disruptor.MultiPub Disruptor.Threads.
Import ListNotations.

Section Replay.
  Variable N : nat.
  Hypothesis N_pos : 1 <= N.
  Variable gating_ids : list nat.          (* handler ids whose cursors gate the producers (the last stage) *)

  Notation mstep := (MultiPub.step N).

  Inductive msteps : MultiPub.st -> MultiPub.st -> Prop :=
  | ms_refl s : msteps s s
  | ms_step s s' s'' : mstep s s' -> msteps s' s'' -> msteps s s''.
  Lemma msteps_trans a b c : msteps a b -> msteps b c -> msteps a c.
  Proof. induction 1; intros; [assumption | econstructor; eauto]. Qed.
  Lemma msteps_one a b : mstep a b -> msteps a b.
  Proof. intros; econstructor; [eassumption | constructor]. Qed.

  Record rs := mkR { rm : MultiPub.st; rhc : nat -> nat }.     (* model state; consumer cursors as last stored *)

  Definition zn (z : Z) : nat := Z.to_nat z.
  Definition with_tp (b : MultiPub.st) (t : nat) (p : tpc) : MultiPub.st :=
    mkSt (bits b) (lw b) (cursor b) (high b) (gate b) (MultiPub.upd (tp b) t p) (pub b) (bsrc b) (own b).

  Fixpoint min_over (l : list nat) (f : nat -> nat) (acc : option nat) : option nat :=
    match l with
    | [] => acc
    | x :: r => min_over r f (Some (match acc with Some a => Nat.min a (f x) | None => f x end))
    end.

  (* silent transitions: the scan loop ends without a further bit test, the clearing loop is complete *)
  Definition settle (b : MultiPub.st) (t : nat) : MultiPub.st :=
    match tp b t with
    | TScan lo hi l g => if hi <=? g then with_tp b t (if l <? g then TUnset lo hi l g l else TIdle) else b
    | TUnset lo hi l g n => if g <? n then with_tp b t (TCas lo hi l g l) else b
    | TSet lo hi n => b
    | _ => b
    end.

  Lemma settle_steps b t : msteps b (settle b t).
  Proof.
    unfold settle. destruct (tp b t) as [|lo hi|lo hi n|lo hi|lo hi l g|lo hi l g n|lo hi l g c|lo hi l g|lo hi l g] eqn:E; try constructor.
    - destruct (Nat.leb_spec hi g) as [H|H]; [|constructor]. apply msteps_one. apply s_scan_end; [exact E | left; exact H].
    - destruct (Nat.ltb_spec g n) as [H|H]; [|constructor]. apply msteps_one. eapply s_unset_done; eauto.
  Qed.

  Definition bit_z (n : nat) : Z := Z.shiftl 1 (Z.of_nat ((n mod N) mod 64)).

  Definition replay_step (r : rs) (e : ev) : option rs :=
    let b := rm r in
    let t := zn (e_tid e) in
    let keep := Some r in
    let go (b' : MultiPub.st) := Some (mkR (settle b' t) (rhc r)) in
    if (e_kind e =? kSTORE)%Z && (e_cls e =? cHCUR)%Z then
      (* a consumer publishes its progress *)
      Some (mkR b (MultiPub.upd (rhc r) (zn (e_off e)) (zn (e_a e))))
    else if (e_kind e =? kCAS)%Z && (e_cls e =? cINLINE)%Z then
      (* next(): compare-and-swap on the high watermark *)
      if (e_ok e =? 1)%Z then
        match tp b t with
        | TIdle =>
            let c := zn (e_b e - e_a e) in
            let v := match min_over gating_ids (rhc r) None with Some m => Nat.max (gate b) m | None => gate b end in
            if (zn (e_a e) =? high b) && (v <=? cursor b) && (1 <=? c) && ((high b - v) + c <? N) then
              go (mkSt (bits b) (lw b) (cursor b) (high b + c) v
                       (MultiPub.upd (tp b) t (TClaimed (high b + 1) (high b + c))) (pub b) (bsrc b)
                       (MultiPub.updr (own b) (high b + 1) (high b + c) t))
            else None
        | _ => None
        end
      else keep
    else if (e_kind e =? kFOR)%Z then
      (* ready.set(n) *)
      match tp b t with
      | TClaimed lo hi =>
          if (lo <=? hi) && (e_a e =? bit_z lo)%Z then
            go (mkSt (MultiPub.upd (bits b) (lo mod N) true) (lw b) (cursor b) (high b) (gate b)
                     (MultiPub.upd (MultiPub.upd (tp b) t (TSet lo hi lo)) t (TSet lo hi (S lo))) (MultiPub.upd (pub b) lo true)
                     (MultiPub.upd (bsrc b) (lo mod N) lo) (own b))
          else None
      | TSet lo hi n =>
          if (n <=? hi) && (e_a e =? bit_z n)%Z then
            go (mkSt (MultiPub.upd (bits b) (n mod N) true) (lw b) (cursor b) (high b) (gate b)
                     (MultiPub.upd (tp b) t (TSet lo hi (S n))) (MultiPub.upd (pub b) n true)
                     (MultiPub.upd (bsrc b) (n mod N) n) (own b))
          else None
      | _ => None
      end
    else if (e_kind e =? kLOAD)%Z && (e_cls e =? cINLINE)%Z then
      match tp b t with
      | TSet lo hi n =>
          (* publish(): the low watermark is read *)
          if (hi <? n) && (zn (e_obs e) =? lw b)
          then go (mkSt (bits b) (lw b) (cursor b) (high b) (gate b)
                        (MultiPub.upd (MultiPub.upd (tp b) t (TReadLw lo hi)) t (TScan lo hi (lw b) (lw b))) (pub b) (bsrc b) (own b))
          else None
      | _ => keep                          (* next(): the high watermark is read *)
      end
    else if (e_kind e =? kLOAD)%Z && (e_cls e =? cHEAP)%Z then
      (* ready.is_set(good + 1) *)
      match tp b t with
      | TScan lo hi l g =>
          if g <? hi then
            let bit := Z.testbit (e_obs e) (Z.of_nat ((S g mod N) mod 64)) in
            if Bool.eqb bit (bits b (S g mod N)) then
              go (with_tp b t (if bit then TScan lo hi l (S g) else (if l <? g then TUnset lo hi l g l else TIdle)))
            else None
          else None
      | _ => None
      end
    else if (e_kind e =? kFAND)%Z then
      match tp b t with
      | TUnset lo hi l g n =>
          if (n <=? g) && (e_a e =? Threads.ones64 - bit_z n)%Z then
            go (mkSt (MultiPub.upd (bits b) (n mod N) false) (lw b) (cursor b) (high b) (gate b)
                     (MultiPub.upd (tp b) t (TUnset lo hi l g (S n))) (pub b) (bsrc b) (own b))
          else None
      | _ => None
      end
    else if (e_kind e =? kCAS)%Z && (e_cls e =? cPCUR)%Z then
      match tp b t with
      | TCas lo hi l g cur =>
          if (zn (e_a e) =? cur) && (zn (e_b e) =? g) then
            if (e_ok e =? 1)%Z then
              (if cursor b =? cur then
                 go (mkSt (bits b) (lw b) g (high b) (gate b) (MultiPub.upd (tp b) t (TSetLw lo hi l g)) (pub b) (bsrc b) (own b))
               else None)
            else (if cursor b =? cur then None else go (with_tp b t (TCasLoad lo hi l g)))
          else None
      | _ => None
      end
    else if (e_kind e =? kLOAD)%Z && (e_cls e =? cPCUR)%Z then
      match tp b t with
      | TCasLoad lo hi l g =>
          if zn (e_obs e) =? cursor b
          then go (with_tp b t (if g <? cursor b then TSetLw lo hi l g else TCas lo hi l g (cursor b)))
          else None
      | _ => keep                          (* consumers and the draining thread read the cursor too *)
      end
    else if (e_kind e =? kSTORE)%Z && (e_cls e =? cINLINE)%Z then
      match tp b t with
      | TSetLw lo hi l g =>
          if zn (e_a e) =? g
          then go (mkSt (bits b) g (cursor b) (high b) (gate b) (MultiPub.upd (tp b) t TIdle) (pub b) (bsrc b) (own b))
          else None
      | _ => None
      end
    else keep.
  Ltac bools :=
    repeat match goal with
           | H : _ && _ = true |- _ => apply andb_true_iff in H; destruct H
           | H : (_ <=? _) = true |- _ => apply Nat.leb_le in H
           | H : (_ <? _) = true |- _ => apply Nat.ltb_lt in H
           | H : (_ =? _) = true |- _ => apply Nat.eqb_eq in H
           | H : (_ =? _) = false |- _ => apply Nat.eqb_neq in H
           end.

  Theorem replay_step_sound r e r' : replay_step r e = Some r' -> msteps (rm r) (rm r').
  Proof.
    unfold replay_step. set (b := rm r). set (t := zn (e_tid e)).
    assert (GO : forall b', msteps b b' -> msteps b (settle b' t)) by (intros b' Hb; eapply msteps_trans; [exact Hb | apply settle_steps]).
    destruct ((e_kind e =? kSTORE)%Z && (e_cls e =? cHCUR)%Z); [intros E; inversion E; subst; cbn; constructor|].
    destruct ((e_kind e =? kCAS)%Z && (e_cls e =? cINLINE)%Z).
    { destruct (e_ok e =? 1)%Z; [|intros E; inversion E; subst; constructor].
      destruct (tp b t) eqn:Et; try discriminate.
      match goal with |- context [if ?c then _ else None] => destruct c eqn:Ec end; [|discriminate].
      intros E; inversion E; subst; cbn [rm]. apply GO. bools.
      set (v := match min_over gating_ids (rhc r) None with Some m => Nat.max (gate b) m | None => gate b end) in *.
      eapply ms_step; [apply (s_consume N b v); [unfold v; destruct (min_over gating_ids (rhc r) None); lia | assumption]|].
      apply msteps_one.
      pose (b1 := mkSt (bits b) (lw b) (cursor b) (high b) v (tp b) (pub b) (bsrc b) (own b)).
      apply (s_claim N b1 t (zn (e_b e - e_a e))); unfold b1; cbn; [exact Et | assumption | assumption]. }
    destruct (e_kind e =? kFOR)%Z.
    { destruct (tp b t) as [|lo hi|lo hi n|lo hi|lo hi l g|lo hi l g n|lo hi l g c|lo hi l g|lo hi l g] eqn:Et; try discriminate.
      - match goal with |- context [if ?c then _ else None] => destruct c eqn:Ec end; [|discriminate].
        intros E; inversion E; subst; cbn [rm]. apply GO. bools.
        eapply ms_step; [apply (s_begin N b t lo hi); exact Et|]. apply msteps_one.
        pose (b1 := mkSt (bits b) (lw b) (cursor b) (high b) (gate b) (setp b t (TSet lo hi lo)) (pub b) (bsrc b) (own b)).
        assert (X : mstep b1 (mkSt (MultiPub.upd (bits b1) (lo mod N) true) (lw b1) (cursor b1) (high b1) (gate b1)
                                  (setp b1 t (TSet lo hi (S lo))) (MultiPub.upd (pub b1) lo true) (MultiPub.upd (bsrc b1) (lo mod N) lo) (own b1))).
        { apply s_set; [unfold b1; cbn; apply MultiPub.upd_same | assumption]. }
        unfold b1, setp in X; cbn in X. exact X.
      - match goal with |- context [if ?c then _ else None] => destruct c eqn:Ec end; [|discriminate].
        intros E; inversion E; subst; cbn [rm]. apply GO. bools. apply msteps_one. apply s_set; assumption. }
    destruct ((e_kind e =? kLOAD)%Z && (e_cls e =? cINLINE)%Z).
    { destruct (tp b t) as [|lo hi|lo hi n|lo hi|lo hi l g|lo hi l g n|lo hi l g c|lo hi l g|lo hi l g] eqn:Et;
        try (intros E; inversion E; subst; constructor).
      match goal with |- context [if ?c then _ else None] => destruct c eqn:Ec end; [|discriminate].
      intros E; inversion E; subst; cbn [rm]. apply GO. bools.
      eapply ms_step; [apply (s_set_done N b t lo hi n); assumption|]. apply msteps_one.
      pose (b1 := mkSt (bits b) (lw b) (cursor b) (high b) (gate b) (setp b t (TReadLw lo hi)) (pub b) (bsrc b) (own b)).
      assert (X : mstep b1 (mkSt (bits b1) (lw b1) (cursor b1) (high b1) (gate b1) (setp b1 t (TScan lo hi (lw b1) (lw b1))) (pub b1) (bsrc b1) (own b1))).
      { apply s_read_lw. unfold b1; cbn. apply MultiPub.upd_same. }
      unfold b1, setp in X; cbn in X. exact X. }
    destruct ((e_kind e =? kLOAD)%Z && (e_cls e =? cHEAP)%Z).
    { destruct (tp b t) as [|lo hi|lo hi n|lo hi|lo hi l g|lo hi l g n|lo hi l g c|lo hi l g|lo hi l g] eqn:Et; try discriminate.
      destruct (g <? hi) eqn:Eg; [|discriminate].
      destruct (Z.testbit (e_obs e) (Z.of_nat ((S g mod N) mod 64))) eqn:Eb;
        destruct (bits b (S g mod N)) eqn:Ebit; cbn [Bool.eqb]; try discriminate;
        intros E; inversion E; subst; cbn [rm]; apply GO; bools; apply msteps_one.
      - apply s_scan_more; [exact Et | assumption | exact Ebit].
      - apply s_scan_end; [exact Et | right; exact Ebit]. }
    destruct (e_kind e =? kFAND)%Z.
    { destruct (tp b t) as [|lo hi|lo hi n|lo hi|lo hi l g|lo hi l g n|lo hi l g c|lo hi l g|lo hi l g] eqn:Et; try discriminate.
      match goal with |- context [if ?x && ?y then _ else None] => destruct (x && y) eqn:En; [|discriminate] end.
      intros E; inversion E; subst; cbn [rm]. apply GO. bools. apply msteps_one. apply s_unset; assumption. }
    destruct ((e_kind e =? kCAS)%Z && (e_cls e =? cPCUR)%Z).
    { destruct (tp b t) as [|lo hi|lo hi n|lo hi|lo hi l g|lo hi l g n|lo hi l g c|lo hi l g|lo hi l g] eqn:Et; try discriminate.
      match goal with |- context [if ?x && ?y then _ else None] => destruct (x && y) eqn:Ec; [|discriminate] end.
      destruct (e_ok e =? 1)%Z; destruct (cursor b =? c) eqn:Ecur; try discriminate;
        intros E; inversion E; subst; cbn [rm]; apply GO; bools; apply msteps_one.
      + eapply s_cas_ok; eauto.
      + eapply s_cas_fail; eauto. }
    destruct ((e_kind e =? kLOAD)%Z && (e_cls e =? cPCUR)%Z).
    { destruct (tp b t) as [|lo hi|lo hi n|lo hi|lo hi l g|lo hi l g n|lo hi l g c|lo hi l g|lo hi l g] eqn:Et;
        try (intros E; inversion E; subst; constructor).
      destruct (zn (e_obs e) =? cursor b); [|discriminate].
      intros E; inversion E; subst; cbn [rm]. apply GO. apply msteps_one. apply s_cas_load; exact Et. }
    destruct ((e_kind e =? kSTORE)%Z && (e_cls e =? cINLINE)%Z).
    { destruct (tp b t) as [|lo hi|lo hi n|lo hi|lo hi l g|lo hi l g n|lo hi l g c|lo hi l g|lo hi l g] eqn:Et; try discriminate.
      destruct (zn (e_a e) =? g); [|discriminate].
      intros E; inversion E; subst; cbn [rm]. apply GO. apply msteps_one. eapply s_set_lw; exact Et. }
    intros E; inversion E; subst; constructor.
  Qed.
  Fixpoint replay (r : rs) (l : list ev) (i : Z) : Z * rs :=
    match l with
    | [] => ((-1)%Z, r)
    | e :: t => match replay_step r e with Some r' => replay r' t (i + 1)%Z | None => (i, r) end
    end.

  Definition rinit : rs := mkR MultiPub.init (fun _ => 0).

  Lemma replay_steps : forall l r i r', replay r l i = ((-1)%Z, r') -> msteps (rm r) (rm r').
  Proof.
    induction l as [|e t IH]; intros r i r' H; cbn [replay] in H.
    - inversion H; subst. constructor.
    - destruct (replay_step r e) as [r1|] eqn:E.
      + eapply msteps_trans; [eapply replay_step_sound; exact E | eapply IH; exact H].
      + inversion H; subst. constructor.
  Qed.

  (* AN ACCEPTED TRACE IS AN EXECUTION OF THE MODEL: the state the replay ends in is reachable in Disruptor/MultiPub.v, hence
     satisfies its invariant - in particular the cursor covers published sequences only *)
  Theorem replay_sound l r' : replay rinit l 0 = ((-1)%Z, r') -> MultiPub.reachable N (rm r').
  Proof.
    intros H. apply replay_steps in H. cbn [rinit rm] in H.
    assert (K : forall a b, msteps a b -> MultiPub.reachable N a -> MultiPub.reachable N b).
    { induction 1; intros; [assumption | apply IHmsteps; econstructor; eauto]. }
    eapply K; [exact H | apply MultiPub.reach_init].
  Qed.

  Corollary replay_cursor_only_published l r' :
    replay rinit l 0 = ((-1)%Z, r') -> forall q, 1 <= q <= cursor (rm r') -> pub (rm r') q = true.
  Proof. intros H. apply (MultiPub.cursor_only_published N N_pos). eapply replay_sound; eauto. Qed.
End Replay.

(* ---- integer entry: the coding of ring_validate_entry (Disruptor/Threads.v): N multi block drain nstages (nh kind^nh)^nstages
   nwriters (nb size^nb)^nwriters, then 10 integers per event.  Answer: -1 accepted, -2 not a multi-producer trace, else the
   index of the first event the model cannot take. *)
Definition last_stage_ids (stages : list (list Z)) : list nat :=
  let '(f, n) := stage_bounds stages (length stages - 1)%nat 0 in map Z.to_nat (zseq f n).

Definition ring_replay_entry (l : list Z) : list Z :=
  match l with
  | n :: multi :: block :: drain :: ns :: rest =>
      let '(stages, rest1) := take_lists (Z.to_nat ns) rest in
      match rest1 with
      | nw :: rest2 =>
          let '(writers, evs) := take_lists (Z.to_nat nw) rest2 in
          if (multi =? 0)%Z then [(-2)%Z]
          else [fst (replay (Z.to_nat n) (last_stage_ids stages) rinit (events_of (length evs) evs) 0)]
      | [] => [(-3)%Z]
      end
  | _ => [(-3)%Z]
  end.
