(* C14: claiming sequence ranges by compare-and-swap on the high watermark (multi_producer.rs next),
   and monotonicity of the consumer-visible cursor (publish).
   The history of one atomic location is a list of operations in the order the hardware serialises
   them; every load / RMW observes the latest value (atomicity of a single location). *)
From Coq Require Import List Arith Lia Bool.
Import ListNotations.

(* operations on the high watermark, in serialisation order, for any number of threads *)
Inductive hw_op :=
| HwLoad (tid v : nat)                      (* high_watermark.get() returned v *)
| HwCas (tid expected count : nat) (ok : bool).   (* compare_and_swap(expected, expected + count) *)

(* atomicity: a load returns the current value; a CAS succeeds iff the current value is the expected one *)
Fixpoint hw_consistent (cur : nat) (l : list hw_op) : Prop :=
  match l with
  | [] => True
  | HwLoad _ v :: t => v = cur /\ hw_consistent cur t
  | HwCas _ e c true :: t => e = cur /\ hw_consistent (e + c) t
  | HwCas _ e c false :: t => e <> cur /\ hw_consistent cur t
  end.

(* the ranges handed out: next returns (expected + 1, expected + count) on a successful CAS *)
Fixpoint claims (l : list hw_op) : list (nat * nat) :=
  match l with
  | [] => []
  | HwCas _ e c true :: t => (e + 1, e + c) :: claims t
  | _ :: t => claims t
  end.

(* ranges tile the sequence space after [cur] in claim order *)
Fixpoint tiles (cur : nat) (rs : list (nat * nat)) : Prop :=
  match rs with
  | [] => True
  | (lo, hi) :: t => lo = cur + 1 /\ tiles hi t
  end.

Fixpoint hw_final (cur : nat) (l : list hw_op) : nat :=
  match l with
  | [] => cur
  | HwCas _ e c true :: t => hw_final (e + c) t
  | _ :: t => hw_final cur t
  end.

Theorem claims_tile cur l : hw_consistent cur l -> tiles cur (claims l).
Proof.
  revert cur. induction l as [|o t IH]; intros cur H; cbn in *; auto.
  destruct o as [tid v|tid e c [|]]; cbn in *.
  - apply IH, H.
  - destruct H as [-> H]. split; [reflexivity|]. apply IH, H.
  - apply IH, H.
Qed.

(* every claim asks for at least one sequence *)
Fixpoint counts_pos (l : list hw_op) : Prop :=
  match l with
  | [] => True
  | HwCas _ _ c true :: t => 1 <= c /\ counts_pos t
  | _ :: t => counts_pos t
  end.

Lemma claims_nonempty l : counts_pos l -> forall lo hi, In (lo, hi) (claims l) -> lo <= hi.
Proof.
  induction l as [|o t IH]; cbn; intros H lo hi Hin; [contradiction|].
  destruct o as [tid v|tid e c [|]]; cbn in *; auto.
  destruct H as [Hc H]. destruct Hin as [E|Hin]; [inversion E; lia | auto].
Qed.

Lemma tiles_after cur rs :
  tiles cur rs -> (forall lo hi, In (lo, hi) rs -> lo <= hi) -> forall lo hi, In (lo, hi) rs -> cur < lo.
Proof.
  revert cur. induction rs as [|[l0 h0] t IH]; intros cur H Hne lo hi Hin; cbn in *; [contradiction|].
  destruct H as [-> Ht]. destruct Hin as [E|Hin]; [inversion E; lia|].
  assert (h0 < lo) by (apply (IH h0 Ht (fun a b Hab => Hne a b (or_intror Hab)) lo hi Hin)).
  specialize (Hne (cur + 1) h0 (or_introl eq_refl)). lia.
Qed.

(* pairwise disjoint, in claim order: an earlier range lies completely below a later one *)
Theorem claims_disjoint cur l i j lo1 hi1 lo2 hi2 :
  hw_consistent cur l -> counts_pos l -> i < j ->
  nth_error (claims l) i = Some (lo1, hi1) -> nth_error (claims l) j = Some (lo2, hi2) ->
  lo1 <= hi1 /\ hi1 < lo2 /\ lo2 <= hi2.
Proof.
  intros Hc Hp. pose proof (claims_tile cur l Hc) as Ht. pose proof (claims_nonempty l Hp) as Hne.
  clear Hc Hp. revert cur Ht i j. induction (claims l) as [|[l0 h0] t IH]; intros cur Ht i j Hij Ei Ej.
  - destruct i; discriminate.
  - cbn in Ht. destruct Ht as [-> Ht].
    destruct i as [|i]; destruct j as [|j]; try lia; cbn in *.
    + inversion Ei; subst. pose proof (nth_error_In _ _ Ej) as Hin.
      split; [apply (Hne _ _ (or_introl eq_refl))|]. split; [|apply (Hne _ _ (or_intror Hin))].
      apply (tiles_after hi1 t Ht (fun a b Hab => Hne a b (or_intror Hab)) lo2 hi2 Hin).
    + apply (IH (fun a b Hab => Hne a b (or_intror Hab)) h0 Ht i j); auto; lia.
Qed.

(* gap-free: the ranges cover exactly cur+1 .. final value of the high watermark *)
Theorem claims_cover cur l :
  hw_consistent cur l -> counts_pos l ->
  forall q, cur < q <= hw_final cur l <-> exists lo hi, In (lo, hi) (claims l) /\ lo <= q <= hi.
Proof.
  revert cur. induction l as [|o t IH]; intros cur Hc Hp q; cbn in *.
  - split; [lia | intros (lo & hi & [] & _)].
  - destruct o as [tid v|tid e c [|]]; cbn in *.
    + destruct Hc as [_ Hc]. apply IH; auto.
    + destruct Hc as [-> Hc]. destruct Hp as [Hpc Hp]. specialize (IH (cur + c) Hc Hp q).
      assert (Hmono : forall x l0, hw_consistent x l0 -> x <= hw_final x l0).
      { clear. intros x l0; revert x. induction l0 as [|o t IH]; intros x H; cbn in *; auto.
        destruct o as [?|? e c [|]]; cbn in *.
        - destruct H as [_ H]; auto.
        - destruct H as [-> H]. specialize (IH _ H). lia.
        - destruct H as [_ H]; auto. }
      pose proof (Hmono _ _ Hc). split.
      * intros Hq. destruct (Nat.le_gt_cases q (cur + c)).
        -- exists (cur + 1), (cur + c). split; [left; reflexivity | lia].
        -- destruct (proj1 IH ltac:(lia)) as (lo & hi & Hin & Hb). exists lo, hi. auto.
      * intros (lo & hi & [E|Hin] & Hb); [inversion E; subst; lia|].
        assert (cur + c < q <= hw_final (cur + c) t) by (apply IH; eauto). lia.
    + destruct Hc as [_ Hc]. apply IH; auto.
Qed.

(* each successful claim has exactly the requested length *)
Theorem claims_length l lo hi : In (lo, hi) (claims l) -> exists tid e c, In (HwCas tid e c true) l /\ lo = e + 1 /\ hi + 1 - lo = c.
Proof.
  induction l as [|o t IH]; cbn; intros Hin; [contradiction|].
  destruct o as [tid v|tid e c [|]]; cbn in *.
  - destruct (IH Hin) as (x & y & z & H1 & H2). exists x, y, z. auto.
  - destruct Hin as [E|Hin].
    + inversion E; subst. exists tid, e, c. split; [left; reflexivity | lia].
    + destruct (IH Hin) as (x & y & z & H1 & H2). exists x, y, z. auto.
  - destruct (IH Hin) as (x & y & z & H1 & H2). exists x, y, z. auto.
Qed.

(* ---------- the consumer-visible cursor never decreases -------------------------------------------
   multi_producer.rs publish: current := low_watermark (< good); while !CAS(current, good) { current := cursor.get(); if current > good break }
   Every CAS a thread issues has expected <= new; single producer: cursor.set(hi) with hi above everything set before. *)
Inductive cur_op :=
| CurCas (expected new_ : nat) (ok : bool)
| CurLoad (v : nat).

Fixpoint cur_consistent (cur : nat) (l : list cur_op) : Prop :=
  match l with
  | [] => True
  | CurLoad v :: t => v = cur /\ cur_consistent cur t
  | CurCas e n true :: t => e = cur /\ cur_consistent n t
  | CurCas e n false :: t => e <> cur /\ cur_consistent cur t
  end.

(* what the code guarantees about the CASes it issues *)
Definition cas_upward (l : list cur_op) : Prop := forall e n ok, In (CurCas e n ok) l -> e <= n.

Fixpoint cur_values (cur : nat) (l : list cur_op) : list nat :=
  match l with
  | [] => [cur]
  | CurCas e n true :: t => cur :: cur_values n t
  | _ :: t => cur_values cur t
  end.

Theorem cursor_never_decreases cur l :
  cur_consistent cur l -> cas_upward l ->
  forall i j x y, i <= j -> nth_error (cur_values cur l) i = Some x -> nth_error (cur_values cur l) j = Some y -> x <= y.
Proof.
  assert (Hhd : forall c l0, cur_consistent c l0 -> cas_upward l0 -> forall y, In y (cur_values c l0) -> c <= y).
  { intros c l0; revert c. induction l0 as [|o t IH]; intros c Hc Hu y Hin; cbn in *.
    - destruct Hin as [<-|[]]. lia.
    - destruct o as [e n [|]|v]; cbn in *.
      + destruct Hc as [-> Hc]. destruct Hin as [<-|Hin]; [lia|].
        assert (c <= n) by (apply (Hu c n true); left; reflexivity).
        specialize (IH n Hc (fun a b k H => Hu a b k (or_intror H)) y Hin). lia.
      + destruct Hc as [_ Hc]. apply (IH c Hc (fun a b k H => Hu a b k (or_intror H)) y Hin).
      + destruct Hc as [_ Hc]. apply (IH c Hc (fun a b k H => Hu a b k (or_intror H)) y Hin). }
  revert cur. induction l as [|o t IH]; intros cur Hc Hu i j x y Hij Ei Ej; cbn in *.
  - destruct i as [|i]; destruct j as [|j]; cbn in *; try lia; try (destruct i; discriminate); try (destruct j; discriminate).
    inversion Ei; inversion Ej; subst; lia.
  - destruct o as [e n [|]|v]; cbn in *.
    + destruct Hc as [-> Hc]. destruct i as [|i]; destruct j as [|j]; cbn in *; try lia.
      * inversion Ei; inversion Ej; subst; lia.
      * inversion Ei; subst. apply nth_error_In in Ej.
        assert (x <= n) by (apply (Hu x n true); left; reflexivity).
        pose proof (Hhd n t Hc (fun a b k H => Hu a b k (or_intror H)) y Ej). lia.
      * apply (IH n Hc (fun a b k H => Hu a b k (or_intror H)) i j); auto; lia.
    + destruct Hc as [_ Hc]. apply (IH cur Hc (fun a b k H => Hu a b k (or_intror H)) i j); auto.
    + destruct Hc as [_ Hc]. apply (IH cur Hc (fun a b k H => Hu a b k (or_intror H)) i j); auto.
Qed.

Example claims_example :
  let l := [HwLoad 1 0; HwLoad 2 0; HwCas 2 0 3 true; HwCas 1 0 2 false; HwLoad 1 3; HwCas 1 3 2 true; HwCas 3 5 1 true] in
  hw_consistent 0 l /\ claims l = [(1, 3); (4, 5); (6, 6)] /\ hw_final 0 l = 6.
Proof. cbn. repeat split; auto; lia. Qed.
