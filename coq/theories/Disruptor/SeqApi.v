(* C14, sequential view: the two sequencers driven directly through the Sequencer API
   (next / publish / consumer progress) from one thread, with SEVERAL claims outstanding at once and, for the
   multi-producer sequencer, publishes in any order.  (Concurrent claims are Disruptor/Claims.v.)

   [sp_step] / [mp_step] mirror single_producer.rs / multi_producer.rs statement by statement (the multi-producer
   ready bitmap is BitMap/Model.v itself); [check] is the executable statement of the property over an observed
   history: what each next returned and what the consumer-visible cursor was after every operation. *)
From Coq Require Import List NArith ZArith Bool Lia.
From DC Require Import Common.ListAux BitMap.Model.
Import ListNotations.
Local Open Scope N_scope.

Inductive sop := SNext (c : N) | SPublish (lo hi : N) | SGate (i : nat) (v : N).
Inductive res := RClaim (s e : N) | RNone | RBlock.

(* get_min_cursor_sequence: minimum, 0 when there is no gating sequence *)
Definition min_gating (g : list N) : N := match g with [] => 0 | x :: r => fold_left N.min r x end.

(* ---------------- SingleProducerSequencer ---------------- *)
Record sp := mkSp { sp_cursor : N; sp_nextw : N; sp_cached : N; sp_gating : list N; sp_size : N }.

Definition sp_init (size : N) (ng : nat) : sp := mkSp 0 0 0 (repeat 0 ng) size.

Definition sp_step (s : sp) (o : sop) : sp * res :=
  match o with
  | SNext c =>
      let e := sp_nextw s + (c - 1) in
      if sp_cached s + sp_size s <? e then
        (* the wait loop re-reads the gating cursors until there is room: sequentially, once *)
        let m := min_gating (sp_gating s) in
        if m + sp_size s <? e then (s, RBlock)
        else (mkSp (sp_cursor s) (e + 1) m (sp_gating s) (sp_size s), RClaim (sp_nextw s) e)
      else (mkSp (sp_cursor s) (e + 1) (sp_cached s) (sp_gating s) (sp_size s), RClaim (sp_nextw s) e)
  | SPublish _ hi => (mkSp hi (sp_nextw s) (sp_cached s) (sp_gating s) (sp_size s), RNone)
  | SGate i v => (mkSp (sp_cursor s) (sp_nextw s) (sp_cached s) (upd i v (sp_gating s)) (sp_size s), RNone)
  end.

(* ---------------- MultiProducerSequencer ---------------- *)
Record mp := mkMp { mp_cursor : N; mp_high : N; mp_low : N; mp_ready : bitmap; mp_gating : list N; mp_size : N }.

Definition mp_init (size : N) (ng : nat) : mp := mkMp 0 0 0 (build size) (repeat 0 ng) size.

Fixpoint set_range (b : bitmap) (lo : N) (n : nat) : bitmap :=
  match n with O => b | S k => set_range (set b lo) (lo + 1) k end.
Fixpoint unset_range (b : bitmap) (lo : N) (n : nat) : bitmap :=
  match n with O => b | S k => unset_range (unset b lo) (lo + 1) k end.
(* while good < hi { if !is_set(good+1) break; good += 1 } *)
Fixpoint scan (b : bitmap) (good hi : N) (fuel : nat) : N :=
  match fuel with
  | O => good
  | S k => if good <? hi then (if is_set b (good + 1) then scan b (good + 1) hi k else good) else good
  end.

Definition mp_step (s : mp) (o : sop) : mp * res :=
  match o with
  | SNext c =>
      let hw := mp_high s in
      (* has_capacity: buffer_size > hw.saturating_sub(min gating) + count *)
      if (hw - min_gating (mp_gating s)) + c <? mp_size s
      then (mkMp (mp_cursor s) (hw + c) (mp_low s) (mp_ready s) (mp_gating s) (mp_size s), RClaim (hw + 1) (hw + c))
      else (s, RBlock)
  | SPublish lo hi =>
      let b1 := set_range (mp_ready s) lo (N.to_nat (hi + 1 - lo)) in
      let lw := mp_low s in
      let good := scan b1 lw hi (N.to_nat (hi - lw)) in
      if lw <? good then
        let b2 := unset_range b1 lw (N.to_nat (good + 1 - lw)) in
        (* CAS loop on the cursor starting from the low watermark: sequentially the cursor ends at
           max(cursor, good) *)
        (mkMp (N.max (mp_cursor s) good) (mp_high s) good b2 (mp_gating s) (mp_size s), RNone)
      else (mkMp (mp_cursor s) (mp_high s) lw b1 (mp_gating s) (mp_size s), RNone)
  | SGate i v => (mkMp (mp_cursor s) (mp_high s) (mp_low s) (mp_ready s) (upd i v (mp_gating s)) (mp_size s), RNone)
  end.

(* ---------------- observed history: per operation what next returned and the cursor afterwards -------- *)
Definition obs := (res * N)%type.

Fixpoint sp_run (s : sp) (l : list sop) : list obs :=
  match l with
  | [] => []
  | o :: r => let '(s', x) := sp_step s o in
              match x with RBlock => [(RBlock, sp_cursor s)] | _ => (x, sp_cursor s') :: sp_run s' r end
  end.
Fixpoint mp_run (s : mp) (l : list sop) : list obs :=
  match l with
  | [] => []
  | o :: r => let '(s', x) := mp_step s o in
              match x with RBlock => [(RBlock, mp_cursor s)] | _ => (x, mp_cursor s') :: mp_run s' r end
  end.

(* ---------------- the property over an observed history ------------------------------------------------ *)
(* checker state: outstanding claims in claim order, the end of the latest claim (if any), the previous cursor *)
Record cst := mkC { c_out : list (N * N); c_last : option N; c_cur : N }.
Definition c_init : cst := mkC [] None 0.

Fixpoint remove_claim (lo hi : N) (l : list (N * N)) : option (list (N * N)) :=
  match l with
  | [] => None
  | (a, b) :: r => if (a =? lo) && (b =? hi) then Some r
                   else match remove_claim lo hi r with Some r' => Some ((a, b) :: r') | None => None end
  end.

(* the single-producer sequencer has ONE claimant, which publishes in claim order ([strict]): a publish of anything but
   the oldest outstanding claim is outside its contract and makes the history malformed, not a violation *)
Definition take_claim (strict : bool) (lo hi : N) (l : list (N * N)) : option (list (N * N)) :=
  if strict then match l with
                 | (a, b) :: r => if (a =? lo) && (b =? hi) then Some r else None
                 | [] => None
                 end
  else remove_claim lo hi l.

(* the highest cursor the property allows: just below the oldest unpublished claim; the latest claim's end
   when everything claimed is published; the initial 0 before any claim *)
Definition bound (out : list (N * N)) (last : option N) : N :=
  match out with
  | (lo, _) :: _ => lo - 1
  | [] => match last with Some e => e | None => 0 end
  end.

(* 0 = holds; 1 claim does not continue the previous one; 2 wrong length; 3 cursor decreased;
   4 cursor past an unpublished (or unclaimed) sequence; 5 everything published but cursor below the highest claim;
   6 malformed history (a publish of something not outstanding, or observation of the wrong kind) *)
Definition check_step (strict : bool) (c : cst) (o : sop) (x : obs) : cst * N :=
  let '(r, cur) := x in
  match o, r with
  | SNext n, RClaim s e =>
      let out' := c_out c ++ [(s, e)] in
      let c' := mkC out' (Some e) cur in
      if match c_last c with Some l => negb (s =? l + 1) | None => false end then (c', 1)
      else if negb (e + 1 - s =? n) || (e <? s) then (c', 2)
      else if cur <? c_cur c then (c', 3)
      else if bound out' (Some e) <? cur then (c', 4)
      else (c', 0)
  | SPublish lo hi, RNone =>
      match take_claim strict lo hi (c_out c) with
      | None => (c, 6)
      | Some out' =>
          let c' := mkC out' (c_last c) cur in
          if cur <? c_cur c then (c', 3)
          else if bound out' (c_last c) <? cur then (c', 4)
          else if match out' with [] => cur <? bound out' (c_last c) | _ => false end then (c', 5)
          else (c', 0)
      end
  | SGate _ _, RNone =>
      let c' := mkC (c_out c) (c_last c) cur in
      if cur <? c_cur c then (c', 3) else if bound (c_out c) (c_last c) <? cur then (c', 4) else (c', 0)
  | _, _ => (c, 6)
  end.

(* the verdict of a whole history: the first verdict among 1-4 / 6 if there is one; otherwise 5 if verdict 5 occurred
   (it does not stop the examination: finding D8 must not hide what happens afterwards); otherwise 0 *)
Fixpoint check (strict : bool) (c : cst) (l : list sop) (xs : list obs) : N :=
  match l, xs with
  | [], [] => 0
  | o :: r, x :: xr =>
      let '(c', v) := check_step strict c o x in
      if v =? 0 then check strict c' r xr
      else if v =? 5 then (let w := check strict c' r xr in if w =? 0 then 5 else w)
      else v
  | _, _ => 6
  end.

(* ---------------- the disciplines under which the property is claimed ------------------------------- *)
(* The discipline of its one producer thread: counts >= 1, no claim that would block, publishes in claim order
   (any number of claims may be outstanding), consumers never pass the cursor.  [sp_wf s out l]: the operations l are well formed from model
   state s with outstanding claims out. *)
Fixpoint sp_wf (s : sp) (out : list (N * N)) (l : list sop) : bool :=
  match l with
  | [] => true
  | o :: r =>
      let '(s', x) := sp_step s o in
      match o, x with
      | SNext c, RClaim a b => (1 <=? c) && sp_wf s' (out ++ [(a, b)]) r
      | SPublish lo hi, _ =>
          match out with
          | (a, b) :: out' => (a =? lo) && (b =? hi) && sp_wf s' out' r
          | [] => false
          end
      | SGate _ v, _ => (v <=? sp_cursor s) && sp_wf s' out r          (* consumers never pass the cursor *)
      | _, _ => false
      end
  end.


(* ---- the discipline of the claimants and consumers ---- *)
(* counts >= 1, no claim that would block, every publish is of an outstanding claim (ANY of them: publishes may
   complete in a different order than the claims), consumers never pass the cursor *)
Fixpoint mp_wf (s : mp) (out : list (N * N)) (l : list sop) : bool :=
  match l with
  | [] => true
  | o :: r =>
      let '(s', x) := mp_step s o in
      match o, x with
      | SNext c, RClaim a b => (1 <=? c) && mp_wf s' (out ++ [(a, b)]) r
      | SPublish lo hi, _ =>
          match remove_claim lo hi out with Some out' => mp_wf s' out' r | None => false end
      | SGate _ v, _ => (v <=? mp_cursor s) && mp_wf s' out r
      | _, _ => false
      end
  end.


(* ---------------- integer entry points --------------------------------------------------------------- *)
(* case: kind (0 single, 1 multi), size, number of gating cursors, then (op, a, b)*:
   1 next(a) ; 2 publish(a, b) ; 3 gating cursor a := b *)
Fixpoint decode_sops (l : list Z) : list sop :=
  match l with
  | op :: a :: b :: r =>
      (if Z.eqb op 1 then SNext (Z.to_N a) else if Z.eqb op 2 then SPublish (Z.to_N a) (Z.to_N b)
       else SGate (Z.to_nat a) (Z.to_N b)) :: decode_sops r
  | _ => []
  end.

Definition obs_out (x : obs) : list Z :=
  match fst x with
  | RClaim s e => [Z.of_N s; Z.of_N e; Z.of_N (snd x)]
  | RNone => [Z.of_N (snd x)]
  | RBlock => [(-777)%Z]
  end.

Definition seqapi_model_entry (l : list Z) : list Z :=
  match l with
  | kind :: size :: ng :: r =>
      let ops := decode_sops r in
      flat_map obs_out (if Z.eqb kind 0 then sp_run (sp_init (Z.to_N size) (Z.to_nat ng)) ops
                        else mp_run (mp_init (Z.to_N size) (Z.to_nat ng)) ops)
  | _ => [(-1)%Z]
  end.

(* re-read an implementation's output against the operations *)
Fixpoint parse_obs (l : list sop) (out : list Z) : option (list obs) :=
  match l with
  | [] => match out with [] => Some [] | _ => None end
  | SNext _ :: r =>
      match out with
      | s :: e :: c :: out' => match parse_obs r out' with
                               | Some xs => Some ((RClaim (Z.to_N s) (Z.to_N e), Z.to_N c) :: xs) | None => None end
      | _ => None
      end
  | _ :: r =>
      match out with
      | c :: out' => match parse_obs r out' with Some xs => Some ((RNone, Z.to_N c) :: xs) | None => None end
      | _ => None
      end
  end.

(* nout, case, implementation output -> verdict of [check] (7 = output does not parse, e.g. negative / short;
   8 = the history is outside the discipline under which the property is claimed: not judged) *)
Definition seqapi_check_entry (l : list Z) : list Z :=
  match l with
  | nout :: rest =>
      let n := Z.to_nat nout in
      let cs := firstn (length rest - n) rest in
      let out := skipn (length rest - n) rest in
      match cs with
      | kind :: size :: ng :: r =>
          let ops := decode_sops r in
          if negb (if Z.eqb kind 0 then sp_wf (sp_init (Z.to_N size) (Z.to_nat ng)) [] ops
                   else mp_wf (mp_init (Z.to_N size) (Z.to_nat ng)) [] ops) then [8%Z]
          else if existsb (fun z => Z.ltb z 0) out then [7%Z]
          else match parse_obs ops out with
               | Some xs => [Z.of_N (check (Z.eqb kind 0) c_init ops xs)]
               | None => [7%Z]
               end
      | _ => [(-1)%Z]
      end
  | _ => [(-1)%Z]
  end.
