(* C06, blocking wait strategy: a waiter whose condition holds can always get through WITHOUT relying on spurious
   wake-ups - from every reachable state of the wait / signal protocol (Disruptor/WaitSignal.v) there is a continuation,
   made of genuine steps only, in which that waiter has returned.  (Possibility statement, like Disruptor/Progress.v:
   no reachable state is stuck for it; with the no-lost-wake-up invariant it says a parked waiter with a true condition
   is woken by a notification that is still to come.) *)
From Coq Require Import Arith Lia Bool List.
From DC Require Import Disruptor.WaitSignal.
Import ListNotations.

Section WaitProgress.
  Variable need : nat -> nat.
  Notation step := (WaitSignal.step need).

  (* a step that is not a spurious wake-up: if no signaller moved, nobody left the parked state *)
  Definition genuine (s s' : st) : Prop :=
    step s s' /\ (sp s' = sp s -> forall w, wp s w = WParked -> wp s' w = WParked).

  Inductive gsteps : st -> st -> Prop :=
  | g_refl s : gsteps s s
  | g_step s s' s'' : genuine s s' -> gsteps s' s'' -> gsteps s s''.

  Lemma gsteps_trans s s' s'' : gsteps s s' -> gsteps s' s'' -> gsteps s s''.
  Proof. induction 1; intros; [assumption | econstructor; eauto]. Qed.
  Lemma gsteps_one s s' : genuine s s' -> gsteps s s'.
  Proof. intros; econstructor; [eassumption | constructor]. Qed.

  (* who holds the mutex is in a mutex-holding program point (converse of MutexInv) *)
  Definition HolderInv (s : st) : Prop :=
    match holder s with
    | None => True
    | Some (true, w) => holds_w (wp s w) = true
    | Some (false, k) => holds_s (sp s k) = true
    end.

  Lemma upd_same {A} (f : nat -> A) k v : upd f k v k = v.
  Proof. unfold upd. rewrite Nat.eqb_refl. reflexivity. Qed.
  Lemma upd_other {A} (f : nat -> A) k v i : i <> k -> upd f k v i = f i.
  Proof. unfold upd. intros H. destruct (Nat.eqb_spec i k); congruence. Qed.

  Lemma HolderInv_step s s' : Inv need s -> HolderInv s -> step s s' -> HolderInv s'.
  Proof.
    intros [[MW MS] _] HH Hs. unfold HolderInv in *.
    destruct Hs; cbn [holder wp sp] in *; try exact I; try (rewrite upd_same; reflexivity).
    - (* check_ok *) pose proof (MW w ltac:(rewrite H; reflexivity)) as E. rewrite E. rewrite upd_same. reflexivity.
    - (* check_no *) pose proof (MW w ltac:(rewrite H; reflexivity)) as E. rewrite E. rewrite upd_same. reflexivity.
    - (* spurious *) destruct (holder s) as [[[|] i]|]; auto.
      destruct (Nat.eq_dec i w) as [->|Hne]; [rewrite H in HH; discriminate | rewrite upd_other by exact Hne; exact HH].
    - (* bump *) destruct (holder s) as [[[|] i]|]; auto.
      destruct (Nat.eq_dec i k) as [->|Hne]; [rewrite H in HH; discriminate | rewrite upd_other by exact Hne; exact HH].
    - (* finish *) destruct (holder s) as [[[|] i]|]; auto.
      destruct (Nat.eq_dec i k) as [->|Hne]; [rewrite H in HH; discriminate | rewrite upd_other by exact Hne; exact HH].
    - (* notify *) pose proof (MS k ltac:(rewrite H; reflexivity)) as E. rewrite E. rewrite upd_same. reflexivity.
  Qed.
  Definition WInv (s : st) : Prop := Inv need s /\ HolderInv s.

  Lemma WInv_step s s' : WInv s -> step s s' -> WInv s'.
  Proof. intros [A B] Hs. split; [eapply Inv_step; eauto | eapply HolderInv_step; eauto]. Qed.

  Lemma WInv_gsteps s s' : WInv s -> gsteps s s' -> WInv s'.
  Proof. intros HI Hs. induction Hs as [|s s' s'' [Hst _] _ IH]; [assumption | apply IH; eapply WInv_step; eauto]. Qed.

  Lemma genuine_w s s' w p : step s s' -> wp s' = upd (wp s) w p -> wp s w <> WParked -> genuine s s'.
  Proof.
    intros Hs E Hne. split; [exact Hs|]. intros _ w0 Hw0. rewrite E.
    destruct (Nat.eq_dec w0 w) as [->|Hd]; [congruence | rewrite upd_other by exact Hd; exact Hw0].
  Qed.

  Lemma genuine_s s s' k p : step s s' -> sp s' = upd (sp s) k p -> sp s k <> p -> genuine s s'.
  Proof.
    intros Hs E Hne. split; [exact Hs|]. intros E2. exfalso. apply Hne.
    assert (X : sp s' k = sp s k) by (rewrite E2; reflexivity). rewrite E, upd_same in X. congruence.
  Qed.

  (* ---- the mutex can always be released, by its holder alone ---- *)
  Lemma release s : WInv s -> holder s <> None ->
    exists s', gsteps s s' /\ holder s' = None /\ x s' = x s /\
               (forall k, holds_s (sp s k) = false -> sp s' k = sp s k) /\
               (forall w, holds_w (wp s w) = false -> wp s' w = wp s w \/ (wp s w = WParked /\ wp s' w = WWoken)).
  Proof.
    intros [[[MW MS] WK] HH] Hh. unfold HolderInv in HH.
    destruct (holder s) as [[[|] i]|] eqn:Eh; [| |congruence].
    - (* a waiter holds it *)
      assert (Others : forall (f : nat -> wpc) p w, holds_w (wp s w) = false -> upd f i p w = f w).
      { intros f p w Hw. apply upd_other. intros ->. rewrite HH in Hw. discriminate. }
      destruct (wp s i) eqn:Ei; try discriminate.
      + (* WLocked: check, then go or park *)
        destruct (le_lt_dec (need i) (x s)) as [Hok|Hno].
        * pose (s1 := mkSt (x s) (holder s) (upd (wp s) i WGo) (sp s) (todo s)).
          pose (s2 := mkSt (x s1) None (upd (wp s1) i WDone) (sp s1) (todo s1)).
          exists s2. split; [|split; [reflexivity|]; split; [reflexivity|]; split; [auto|]].
          -- eapply g_step; [apply (genuine_w s s1 i WGo); [apply w_check_ok; assumption | reflexivity | congruence]|].
             apply gsteps_one. apply (genuine_w s1 s2 i WDone); [apply w_go; unfold s1; cbn; apply upd_same | reflexivity | unfold s1; cbn; rewrite upd_same; discriminate].
          -- intros w Hw. left. unfold s2, s1; cbn. rewrite !Others by exact Hw. reflexivity.
        * pose (s1 := mkSt (x s) (holder s) (upd (wp s) i WMustPark) (sp s) (todo s)).
          pose (s2 := mkSt (x s1) None (upd (wp s1) i WParked) (sp s1) (todo s1)).
          exists s2. split; [|split; [reflexivity|]; split; [reflexivity|]; split; [auto|]].
          -- eapply g_step; [apply (genuine_w s s1 i WMustPark); [apply w_check_no; assumption | reflexivity | congruence]|].
             apply gsteps_one. apply (genuine_w s1 s2 i WParked); [apply w_park; unfold s1; cbn; apply upd_same | reflexivity | unfold s1; cbn; rewrite upd_same; discriminate].
          -- intros w Hw. left. unfold s2, s1; cbn. rewrite !Others by exact Hw. reflexivity.
      + (* WMustPark *)
        pose (s1 := mkSt (x s) None (upd (wp s) i WParked) (sp s) (todo s)).
        exists s1. split; [|split; [reflexivity|]; split; [reflexivity|]; split; [auto|]].
        * apply gsteps_one. apply (genuine_w s s1 i WParked); [apply w_park; assumption | reflexivity | congruence].
        * intros w Hw. left. unfold s1; cbn. apply Others, Hw.
      + (* WHolding *)
        pose (s1 := mkSt (x s) None (upd (wp s) i WIdle) (sp s) (todo s)).
        exists s1. split; [|split; [reflexivity|]; split; [reflexivity|]; split; [auto|]].
        * apply gsteps_one. apply (genuine_w s s1 i WIdle); [apply w_loop; assumption | reflexivity | congruence].
        * intros w Hw. left. unfold s1; cbn. apply Others, Hw.
      + (* WGo *)
        pose (s1 := mkSt (x s) None (upd (wp s) i WDone) (sp s) (todo s)).
        exists s1. split; [|split; [reflexivity|]; split; [reflexivity|]; split; [auto|]].
        * apply gsteps_one. apply (genuine_w s s1 i WDone); [apply w_go; assumption | reflexivity | congruence].
        * intros w Hw. left. unfold s1; cbn. apply Others, Hw.
    - (* a signaller holds it *)
      assert (OthersS : forall (f : nat -> spc) p k, holds_s (sp s k) = false -> upd f i p k = f k).
      { intros f p k Hk. apply upd_other. intros ->. rewrite HH in Hk. discriminate. }
      destruct (sp s i) eqn:Ei; try discriminate.
      + (* SNotify: notify, unlock *)
        pose (s1 := mkSt (x s) (holder s) (fun w => match wp s w with WParked => WWoken | p => p end) (upd (sp s) i SUnlock) (todo s)).
        pose (s2 := mkSt (x s1) None (wp s1) (upd (sp s1) i SBump) (todo s1)).
        exists s2. split; [|split; [reflexivity|]; split; [reflexivity|]; split].
        * eapply g_step; [apply (genuine_s s s1 i SUnlock); [apply s_notify; assumption | reflexivity | congruence]|].
          apply gsteps_one. apply (genuine_s s1 s2 i SBump); [apply s_unlock; unfold s1; cbn; apply upd_same | reflexivity | unfold s1; cbn; rewrite upd_same; discriminate].
        * intros k Hk. unfold s2, s1; cbn. rewrite !OthersS by exact Hk. reflexivity.
        * intros w Hw. unfold s2, s1; cbn. destruct (wp s w); auto.
      + (* SUnlock *)
        pose (s1 := mkSt (x s) None (wp s) (upd (sp s) i SBump) (todo s)).
        exists s1. split; [|split; [reflexivity|]; split; [reflexivity|]; split].
        * apply gsteps_one. apply (genuine_s s s1 i SBump); [apply s_unlock; assumption | reflexivity | congruence].
        * intros k Hk. unfold s1; cbn. apply OthersS, Hk.
        * intros w Hw. left. reflexivity.
  Qed.
  Lemma ex_trans s s1 (P : st -> Prop) : gsteps s s1 -> (exists s', gsteps s1 s' /\ P s') -> exists s', gsteps s s' /\ P s'.
  Proof. intros H (s' & H1 & H2). exists s'. split; [eapply gsteps_trans; eauto | exact H2]. Qed.

  Lemma from_idle_free s w : WInv s -> holder s = None -> wp s w = WIdle -> need w <= x s ->
    exists s', gsteps s s' /\ wp s' w = WDone.
  Proof.
    intros HI Hh Hw Hx.
    pose (s1 := mkSt (x s) (Some (true, w)) (upd (wp s) w WLocked) (sp s) (todo s)).
    pose (s2 := mkSt (x s1) (holder s1) (upd (wp s1) w WGo) (sp s1) (todo s1)).
    pose (s3 := mkSt (x s2) None (upd (wp s2) w WDone) (sp s2) (todo s2)).
    exists s3. split; [|unfold s3; cbn; apply upd_same].
    eapply g_step; [apply (genuine_w s s1 w WLocked); [apply w_lock; assumption | reflexivity | congruence]|].
    eapply g_step; [apply (genuine_w s1 s2 w WGo); [apply w_check_ok; unfold s1; cbn; [apply upd_same | exact Hx] | reflexivity | unfold s1; cbn; rewrite upd_same; discriminate]|].
    apply gsteps_one. apply (genuine_w s2 s3 w WDone); [apply w_go; unfold s2; cbn; apply upd_same | reflexivity | unfold s2; cbn; rewrite upd_same; discriminate].
  Qed.

  Lemma from_idle s w : WInv s -> wp s w = WIdle -> need w <= x s -> exists s', gsteps s s' /\ wp s' w = WDone.
  Proof.
    intros HI Hw Hx. destruct (holder s) eqn:Eh; [|apply from_idle_free; assumption].
    destruct (release s HI ltac:(congruence)) as (s1 & G & H1 & H2 & _ & H4).
    eapply ex_trans; [exact G|]. apply from_idle_free; [eapply WInv_gsteps; eauto | exact H1 | | lia].
    destruct (H4 w ltac:(rewrite Hw; reflexivity)) as [E|[E _]]; congruence.
  Qed.

  Lemma from_holding s w : WInv s -> wp s w = WHolding -> need w <= x s -> exists s', gsteps s s' /\ wp s' w = WDone.
  Proof.
    intros HI Hw Hx.
    pose (s1 := mkSt (x s) None (upd (wp s) w WIdle) (sp s) (todo s)).
    assert (G : genuine s s1) by (apply (genuine_w s s1 w WIdle); [apply w_loop; assumption | reflexivity | congruence]).
    eapply ex_trans; [apply gsteps_one; exact G|].
    apply from_idle_free; [eapply WInv_step; [exact HI | apply G] | reflexivity | unfold s1; cbn; apply upd_same | exact Hx].
  Qed.

  Lemma from_woken s w : WInv s -> wp s w = WWoken -> need w <= x s -> exists s', gsteps s s' /\ wp s' w = WDone.
  Proof.
    intros HI Hw Hx.
    assert (Free : forall s0, WInv s0 -> holder s0 = None -> wp s0 w = WWoken -> need w <= x s0 -> exists s', gsteps s0 s' /\ wp s' w = WDone).
    { intros s0 HI0 Hh0 Hw0 Hx0.
      pose (s1 := mkSt (x s0) (Some (true, w)) (upd (wp s0) w WHolding) (sp s0) (todo s0)).
      assert (G : genuine s0 s1) by (apply (genuine_w s0 s1 w WHolding); [apply w_reacquire; assumption | reflexivity | congruence]).
      eapply ex_trans; [apply gsteps_one; exact G|].
      apply from_holding; [eapply WInv_step; [exact HI0 | apply G] | unfold s1; cbn; apply upd_same | exact Hx0]. }
    destruct (holder s) eqn:Eh; [|apply Free; assumption].
    destruct (release s HI ltac:(congruence)) as (s1 & G & H1 & H2 & _ & H4).
    eapply ex_trans; [exact G|]. apply Free; [eapply WInv_gsteps; eauto | exact H1 | | lia].
    destruct (H4 w ltac:(rewrite Hw; reflexivity)) as [E|[E _]]; congruence.
  Qed.

  (* a notification reaches the parked waiter: the signaller that is still to signal takes the mutex and notifies *)
  Lemma from_parked s w : WInv s -> wp s w = WParked -> need w <= x s -> exists s', gsteps s s' /\ wp s' w = WDone.
  Proof.
    intros HI Hw Hx. pose proof HI as [[[MW MS] WK] HH].
    destruct (WK w (or_intror Hw) Hx) as (k & Hk).
    assert (Notify : forall s0, WInv s0 -> sp s0 k = SNotify -> wp s0 w = WParked -> need w <= x s0 -> exists s', gsteps s0 s' /\ wp s' w = WDone).
    { intros s0 HI0 Hk0 Hw0 Hx0.
      pose (s1 := mkSt (x s0) (holder s0) (fun w' => match wp s0 w' with WParked => WWoken | p => p end) (upd (sp s0) k SUnlock) (todo s0)).
      assert (G : genuine s0 s1) by (apply (genuine_s s0 s1 k SUnlock); [apply s_notify; assumption | reflexivity | congruence]).
      eapply ex_trans; [apply gsteps_one; exact G|].
      apply from_woken; [eapply WInv_step; [exact HI0 | apply G] | unfold s1; cbn; rewrite Hw0; reflexivity | exact Hx0]. }
    destruct (sp s k) eqn:Ek; try discriminate.
    - (* SLock: free the mutex first *)
      assert (Lock : forall s0, WInv s0 -> holder s0 = None -> sp s0 k = SLock -> wp s0 w = WParked -> need w <= x s0 -> exists s', gsteps s0 s' /\ wp s' w = WDone).
      { intros s0 HI0 Hh0 Hk0 Hw0 Hx0.
        pose (s1 := mkSt (x s0) (Some (false, k)) (wp s0) (upd (sp s0) k SNotify) (todo s0)).
        assert (G : genuine s0 s1) by (apply (genuine_s s0 s1 k SNotify); [apply s_lock; assumption | reflexivity | congruence]).
        eapply ex_trans; [apply gsteps_one; exact G|].
        apply Notify; [eapply WInv_step; [exact HI0 | apply G] | unfold s1; cbn; apply upd_same | exact Hw0 | exact Hx0]. }
      destruct (holder s) eqn:Eh; [|apply Lock; assumption].
      destruct (release s HI ltac:(congruence)) as (s1 & G & H1 & H2 & H3 & H4).
      eapply ex_trans; [exact G|].
      pose proof (WInv_gsteps _ _ HI G) as HI1.
      destruct (H4 w ltac:(rewrite Hw; reflexivity)) as [E|[_ E]].
      + apply Lock; [exact HI1 | exact H1 | rewrite H3; [exact Ek | rewrite Ek; reflexivity] | congruence | lia].
      + apply from_woken; [exact HI1 | exact E | lia].
    - (* SNotify *)
      apply Notify; assumption.
  Qed.

  Lemma from_mustpark s w : WInv s -> wp s w = WMustPark -> need w <= x s -> exists s', gsteps s s' /\ wp s' w = WDone.
  Proof.
    intros HI Hw Hx.
    pose (s1 := mkSt (x s) None (upd (wp s) w WParked) (sp s) (todo s)).
    assert (G : genuine s s1) by (apply (genuine_w s s1 w WParked); [apply w_park; assumption | reflexivity | congruence]).
    eapply ex_trans; [apply gsteps_one; exact G|].
    apply from_parked; [eapply WInv_step; [exact HI | apply G] | unfold s1; cbn; apply upd_same | exact Hx].
  Qed.

  (* THE PROGRESS THEOREM of the blocking wait strategy: whatever state the protocol is in, a waiter whose condition
     holds can return, by genuine steps only (no spurious wake-up is needed). *)
  Theorem waiter_can_return s0 s w :
    initial s0 -> reachable need s0 s -> need w <= x s -> exists s', gsteps s s' /\ wp s' w = WDone.
  Proof.
    intros Hi Hr.
    assert (HI : WInv s).
    { induction Hr as [|s s' _ IH Hs]; [|eapply WInv_step; eauto].
      split; [apply Inv_initial, Hi|]. unfold HolderInv. destruct Hi as (Hh & _). rewrite Hh. exact I. }
    intros Hx.
    destruct (wp s w) eqn:Ew.
    - apply from_idle; assumption.
    - (* WLocked *)
      pose (s1 := mkSt (x s) (holder s) (upd (wp s) w WGo) (sp s) (todo s)).
      pose (s2 := mkSt (x s1) None (upd (wp s1) w WDone) (sp s1) (todo s1)).
      exists s2. split; [|unfold s2; cbn; apply upd_same].
      eapply g_step; [apply (genuine_w s s1 w WGo); [apply w_check_ok; assumption | reflexivity | congruence]|].
      apply gsteps_one. apply (genuine_w s1 s2 w WDone); [apply w_go; unfold s1; cbn; apply upd_same | reflexivity | unfold s1; cbn; rewrite upd_same; discriminate].
    - apply from_mustpark; assumption.
    - apply from_parked; assumption.
    - apply from_woken; assumption.
    - apply from_holding; assumption.
    - (* WGo *)
      pose (s1 := mkSt (x s) None (upd (wp s) w WDone) (sp s) (todo s)).
      exists s1. split; [|unfold s1; cbn; apply upd_same].
      apply gsteps_one. apply (genuine_w s s1 w WDone); [apply w_go; assumption | reflexivity | congruence].
    - exists s. split; [constructor | exact Ew].
  Qed.
End WaitProgress.
