(* C14, sequential view, multi-producer sequencer: finding D8 needs publishes that overtake each other.  When every
   publish is of the OLDEST outstanding claim (several claims may be outstanding, any consumer progress), the property
   checker accepts the whole history: the cursor equals the highest claim whenever everything is published. *)
From Coq Require Import List NArith ZArith Bool Lia.
From Coq Require Import ZifyBool ZifyN.
From DC Require Import Common.ListAux BitMap.Model BitMap.Proofs Disruptor.SeqApi Disruptor.SeqApiMulti.
Import ListNotations.
Local Open Scope N_scope.
Ltac Zify.zify_post_hook ::= Z.div_mod_to_equations.

Section InOrder.
  Variable k : N.
  Let size := 2 ^ k.

  (* the discipline: as mp_wf, but only the oldest outstanding claim may be published *)
  Fixpoint mp_wf_inorder (s : mp) (out : list (N * N)) (l : list sop) : bool :=
    match l with
    | [] => true
    | o :: r =>
        let '(s', x) := mp_step s o in
        match o, x with
        | SNext c, RClaim a b => (1 <=? c) && mp_wf_inorder s' (out ++ [(a, b)]) r
        | SPublish lo hi, _ =>
            match out with
            | (a, b) :: out' => (a =? lo) && (b =? hi) && mp_wf_inorder s' out' r
            | [] => false
            end
        | SGate _ v, _ => (v <=? mp_cursor s) && mp_wf_inorder s' out r
        | _, _ => false
        end
    end.

  Lemma scan_full fuel : forall b good hi,
    good <= hi -> (N.to_nat (hi - good) <= fuel)%nat -> (forall q, good < q <= hi -> is_set b q = true) ->
    scan b good hi fuel = hi.
  Proof.
    induction fuel as [|fuel IH]; intros b good hi Hle Hf Hall; cbn [scan].
    - assert (hi = good) by lia. congruence.
    - destruct (N.ltb_spec good hi) as [Hlt|Hge]; [|lia].
      rewrite Hall by lia. apply IH; [lia | lia | intros q Hq; apply Hall; lia].
  Qed.

  (* outstanding claims tile (low, high] exactly *)
  Fixpoint tiles (start : N) (out : list (N * N)) (high : N) : Prop :=
    match out with
    | [] => start = high + 1
    | (lo, hi) :: r => lo = start /\ lo <= hi /\ tiles (hi + 1) r high
    end.

  Lemma tiles_app start out high a b : tiles start out high -> a = high + 1 -> a <= b -> tiles start (out ++ [(a, b)]) b.
  Proof.
    revert start. induction out as [|[lo hi] r IH]; cbn [tiles app]; intros start Ht Ha Hab.
    - subst. repeat split; lia.
    - destruct Ht as (A & B & C). repeat split; auto.
  Qed.
  (* publishing the oldest outstanding claim releases it completely: the cursor lands on its end *)
  Lemma publish_head s lo hi out' :
    mI k s ((lo, hi) :: out') -> tiles (mp_low s + 1) ((lo, hi) :: out') (mp_high s) ->
    let s' := fst (mp_step s (SPublish lo hi)) in mp_cursor s' = hi /\ mp_low s' = hi.
  Proof.
    intros (I0 & I1 & I2 & I3 & I4 & I5 & I6 & I7 & I8 & I9) Ht. cbn [tiles] in Ht. destruct Ht as (Elo & Hle & _).
    cbn [sorted_out] in I6. destruct I6 as (_ & _ & Hhi & _).
    pose proof (size_pos k) as Hsz. fold size in Hsz, I1, I4, I8.
    cbn [mp_step]. set (lw := mp_low s) in *. set (b1 := set_range (mp_ready s) lo (N.to_nat (hi + 1 - lo))).
    assert (HI1 : Inv size b1) by (apply (set_range_inv k), I1).
    assert (Hall : forall q, lw < q <= hi -> is_set b1 q = true).
    { intros q Hq. unfold size in HI1. rewrite (is_set_abs k _ _ HI1). fold size. unfold b1.
      rewrite (set_range_abs k) by (auto; apply N.mod_lt; lia).
      rewrite (in_res_window k lw) by lia. replace ((lo <=? q) && (q <=? hi)) with true by lia. reflexivity. }
    rewrite (scan_full _ b1 lw hi) by (auto; lia).
    replace (lw <? hi) with true by lia. cbn [fst mp_cursor mp_low]. split; lia.
  Qed.

  Theorem mp_inorder_checks : forall l s c out,
    mI k s out -> tiles (mp_low s + 1) out (mp_high s) -> mp_rel s c out -> mp_wf_inorder s out l = true ->
    check true c l (mp_run s l) = 0.
  Proof.
    induction l as [|o r IH]; intros s c out HI Ht (Hout & Hcur & Hlast) Hwf; [reflexivity|].
    cbn [mp_wf_inorder] in Hwf. cbn [mp_run].
    destruct (mp_step s o) as [s' x] eqn:Est.
    destruct o as [n|lo hi|i v].
    - (* next *)
      destruct x as [a b| |]; try discriminate.
      apply andb_true_iff in Hwf. destruct Hwf as [Hn Hwf]. apply N.leb_le in Hn.
      destruct (mI_next k _ _ _ _ _ _ HI Hn Est) as (Ka & Kb & Kc & Kh & HI').
      pose proof (mI_bound k _ _ HI') as Hbd. rewrite Kh in Hbd.
      replace (b =? 0) with false in Hbd by lia.
      cbn [check check_step]. rewrite Hlast, Hout.
      assert (E1 : (match (if mp_high s =? 0 then None else Some (mp_high s)) with Some l => negb (a =? l + 1) | None => false end) = false).
      { destruct (N.eqb_spec (mp_high s) 0); [reflexivity|]. lia. }
      rewrite E1.
      assert (E2 : negb (b + 1 - a =? n) || (b <? a) = false) by lia.
      rewrite E2. rewrite Kc, Hcur, N.ltb_irrefl.
      replace (bound (out ++ [(a, b)]) (Some b) <? mp_cursor s) with false by lia.
      cbn [N.eqb].
      assert (Elow : mp_low s' = mp_low s) by (cbn [mp_step] in Est; destruct (_ <? _) in Est; inversion Est; reflexivity).
      apply (IH s' _ (out ++ [(a, b)])); [exact HI' | | | exact Hwf].
      + rewrite Elow, Kh. apply tiles_app with (high := mp_high s); [exact Ht | lia | lia].
      + split; [reflexivity|]. split; [cbn [c_cur]; congruence|]. cbn [c_last]. rewrite Kh. replace (b =? 0) with false by lia. reflexivity.
    - (* publish the oldest outstanding claim *)
      destruct out as [|[a b] out']; [discriminate|].
      apply andb_true_iff in Hwf. destruct Hwf as [Hab Hwf]. apply andb_true_iff in Hab. destruct Hab as [Ha Hb].
      apply N.eqb_eq in Ha. apply N.eqb_eq in Hb. subst a b.
      assert (Erm : remove_claim lo hi ((lo, hi) :: out') = Some out') by (cbn [remove_claim]; rewrite !N.eqb_refl; reflexivity).
      pose proof (mI_publish k _ _ _ _ _ HI Erm) as Hp. cbv zeta in Hp. rewrite Est in Hp. cbn [fst] in Hp.
      destruct Hp as (HI' & Hmono & Hhigh).
      pose proof (publish_head s lo hi out' HI Ht) as Hh. cbv zeta in Hh. rewrite Est in Hh. cbn [fst] in Hh. destruct Hh as [Hc' Hl'].
      assert (Hx : x = RNone) by (cbn [mp_step] in Est; destruct (_ <? _) in Est; inversion Est; reflexivity). subst x.
      cbn [tiles] in Ht. destruct Ht as (Elo & Hle & Ht').
      cbn [check check_step]. rewrite Hout. cbn [take_claim]. rewrite !N.eqb_refl. cbn [andb].
      rewrite Hcur, Hc'. replace (hi <? mp_cursor s) with false by lia.
      assert (Hbound : bound out' (c_last c) = hi).
      { destruct out' as [|[lo2 hi2] r2]; cbn [bound tiles] in *.
        - rewrite Hlast. destruct (N.eqb_spec (mp_high s) 0); [lia | f_equal; lia].
        - destruct Ht' as (E2 & _). lia. }
      rewrite Hbound, N.ltb_irrefl.
      assert (E5 : match out' with [] => false | _ :: _ => false end = false) by (destruct out'; reflexivity).
      rewrite E5. cbn [N.eqb].
      apply (IH s' _ out'); [exact HI' | | | exact Hwf].
      + rewrite Hl', Hhigh. exact Ht'.
      + split; [reflexivity|]. split; [cbn [c_cur]; congruence|]. cbn [c_last]. rewrite Hhigh. exact Hlast.
    - (* gate *)
      apply andb_true_iff in Hwf. destruct Hwf as [Hv Hwf]. apply N.leb_le in Hv.
      pose proof (mI_gate k _ _ i v HI Hv) as HI'. rewrite Est in HI'. cbn [fst] in HI'.
      cbn [mp_step] in Est. inversion Est; subst s' x. clear Est.
      pose proof (mI_bound k _ _ HI') as Hbd. cbn [mp_cursor mp_high] in Hbd.
      cbn [check check_step mp_cursor]. rewrite Hcur, N.ltb_irrefl, Hout, Hlast.
      replace (bound out (if mp_high s =? 0 then None else Some (mp_high s)) <? mp_cursor s) with false by lia.
      cbn [N.eqb].
      apply (IH _ _ out); [exact HI' | exact Ht | | exact Hwf].
      split; [reflexivity|]. split; [reflexivity|]. reflexivity.
  Qed.

  (* FINDING D8 NEEDS OVERTAKING: with every publish made in claim order the whole property holds for the
     multi-producer sequencer too - including "once all claimants have published the cursor equals the highest claim" *)
  Theorem mp_inorder_property ng l :
    mp_wf_inorder (mp_init size ng) [] l = true -> check true c_init l (mp_run (mp_init size ng) l) = 0.
  Proof. intros Hwf. eapply mp_inorder_checks; [apply mI_init | reflexivity | | exact Hwf]. repeat split. Qed.
End InOrder.
