(* C14, sequential view, multi-producer sequencer: the bitmap-window invariant and the theorem that [check] can only
   fail with verdict 5 (finding D8) on any history with publishes in ANY order. *)
From Coq Require Import List NArith ZArith Bool Lia.
From Coq Require Import ZifyBool ZifyN.
From DC Require Import Common.ListAux BitMap.Model BitMap.Proofs Disruptor.SeqApi.
Import ListNotations.
Local Open Scope N_scope.
Ltac Zify.zify_post_hook ::= Z.div_mod_to_equations.

(* ================= MultiProducerSequencer ================= *)
Section MP.
  Variable k : N.
  Let size := 2 ^ k.

  Lemma size_pos : 0 < size.
  Proof. unfold size. pose proof (pow2_nz k). lia. Qed.

  (* two sequences less than a ring apart with the same residue are the same sequence *)
  Lemma mod_inj_window a b : a mod size = b mod size -> a <= b -> b < a + size -> a = b.
  Proof.
    pose proof size_pos as Hp. intros Hm H1 H2. assert (Hnz : size <> 0) by lia.
    pose proof (N.div_mod a size Hnz) as Ea. pose proof (N.div_mod b size Hnz) as Eb. rewrite Hm in Ea.
    pose proof (N.div_le_mono a b size Hnz H1) as Hd.
    destruct (N.eq_dec (a / size) (b / size)) as [E|E]; [rewrite E in Ea; lia|].
    assert (a / size + 1 <= b / size) by lia.
    assert (size * (a / size + 1) <= size * (b / size)) by (apply N.mul_le_mono_l; assumption). lia.
  Qed.

  (* residues touched by a range operation *)
  Fixpoint in_res (lo : N) (n : nat) (r : N) : bool :=
    match n with O => false | S m => (lo mod size =? r) || in_res (lo + 1) m r end.

  Lemma in_res_spec n : forall lo r, in_res lo n r = true <-> exists t, lo <= t < lo + N.of_nat n /\ t mod size = r.
  Proof.
    induction n as [|n IH]; intros lo r; cbn [in_res].
    - split; [discriminate | intros (t & Ht & _); lia].
    - rewrite orb_true_iff, IH, N.eqb_eq. split.
      + intros [E|(t & Ht & E)]; [exists lo; split; [lia | exact E] | exists t; split; [lia | exact E]].
      + intros (t & Ht & E). destruct (N.eq_dec t lo) as [->|Hne]; [left; exact E | right; exists t; split; [lia | exact E]].
  Qed.

  Lemma set_range_inv n : forall b lo, Inv size b -> Inv size (set_range b lo n).
  Proof. induction n as [|n IH]; intros b lo HI; cbn [set_range]; [exact HI | apply IH, set_inv, HI]. Qed.
  Lemma unset_range_inv n : forall b lo, Inv size b -> Inv size (unset_range b lo n).
  Proof. induction n as [|n IH]; intros b lo HI; cbn [unset_range]; [exact HI | apply IH, unset_inv, HI]. Qed.

  Lemma set_range_abs n : forall b lo r, Inv size b -> r < size ->
    bit_at (set_range b lo n) r = in_res lo n r || bit_at b r.
  Proof.
    induction n as [|n IH]; intros b lo r HI Hr; cbn [set_range in_res]; [reflexivity|].
    rewrite IH by (auto using set_inv). unfold size in *. rewrite (set_abs k) by assumption.
    destruct (lo mod 2 ^ k =? r); destruct (in_res (lo + 1) n r); reflexivity.
  Qed.

  Lemma unset_range_abs n : forall b lo r, Inv size b -> r < size ->
    bit_at (unset_range b lo n) r = negb (in_res lo n r) && bit_at b r.
  Proof.
    induction n as [|n IH]; intros b lo r HI Hr; cbn [unset_range in_res]; [reflexivity|].
    rewrite IH by (auto using unset_inv). unfold size in *. rewrite (unset_abs k) by assumption.
    destruct (lo mod 2 ^ k =? r); destruct (in_res (lo + 1) n r); reflexivity.
  Qed.

  Lemma scan_spec fuel : forall b good hi,
    let g := scan b good hi fuel in
    good <= g /\ (g <= hi \/ g = good) /\ forall q, good < q <= g -> is_set b q = true.
  Proof.
    induction fuel as [|fuel IH]; intros b good hi; cbn [scan].
    - split; [lia|]. split; [right; reflexivity | intros q Hq; lia].
    - destruct (N.ltb_spec good hi) as [Hlt|Hge]; [|split; [lia|]; split; [right; reflexivity | intros q Hq; lia]].
      destruct (is_set b (good + 1)) eqn:Es; [|split; [lia|]; split; [right; reflexivity | intros q Hq; lia]].
      specialize (IH b (good + 1) hi). cbv zeta in IH. destruct IH as (A & B & C).
      split; [lia|]. split; [left; lia|].
      intros q Hq. destruct (N.eq_dec q (good + 1)) as [->|Hne]; [exact Es | apply C; lia].
  Qed.

  (* ---- outstanding claims ---- *)
  Definition unpub (out : list (N * N)) (q : N) : bool := existsb (fun c => (fst c <=? q) && (q <=? snd c)) out.

  Fixpoint sorted_out (start : N) (out : list (N * N)) (high : N) : Prop :=
    match out with
    | [] => True
    | (lo, hi) :: r => start <= lo /\ lo <= hi /\ hi <= high /\ sorted_out (hi + 1) r high
    end.

  Lemma sorted_weaken out : forall st st' high high', sorted_out st out high -> st' <= st -> high <= high' -> sorted_out st' out high'.
  Proof.
    induction out as [|[lo hi] r IH]; cbn [sorted_out]; intros st st' high high' Hs H1 H2; [exact I|].
    destruct Hs as (A & B & C & D). repeat split; try lia. eapply IH; eauto. lia.
  Qed.

  Lemma sorted_below out : forall st high q, sorted_out st out high -> q < st -> unpub out q = false.
  Proof.
    induction out as [|[lo hi] r IH]; cbn [sorted_out unpub existsb fst snd]; intros st high q Hs Hq; [reflexivity|].
    destruct Hs as (A & B & C & D). apply orb_false_iff. split; [lia|]. eapply IH; eauto. lia.
  Qed.

  Lemma sorted_app out : forall st high a b, sorted_out st out high -> high < a -> a <= b -> st <= a -> sorted_out st (out ++ [(a, b)]) b.
  Proof.
    induction out as [|[lo hi] r IH]; cbn [sorted_out app]; intros st high a b Hs H1 H2 H3.
    - repeat split; lia.
    - destruct Hs as (A & B & C & D). repeat split; try lia. eapply IH; eauto. lia.
  Qed.

  Lemma unpub_app out a b q : unpub (out ++ [(a, b)]) q = unpub out q || ((a <=? q) && (q <=? b)).
  Proof. unfold unpub. rewrite existsb_app. cbn [existsb fst snd]. rewrite orb_false_r. reflexivity. Qed.

  Lemma remove_claim_spec out : forall st high lo hi out',
    sorted_out st out high -> remove_claim lo hi out = Some out' ->
    sorted_out st out' high /\ st <= lo /\ lo <= hi /\ hi <= high /\
    (forall q, unpub out q = ((lo <=? q) && (q <=? hi)) || unpub out' q) /\
    (forall q, lo <= q <= hi -> unpub out' q = false).
  Proof.
    induction out as [|[a b] r IH]; cbn [remove_claim sorted_out]; intros st high lo hi out' Hs Hr; [discriminate|].
    destruct Hs as (A & B & C & D).
    destruct ((a =? lo) && (b =? hi)) eqn:E.
    - inversion Hr; subst out'. apply andb_true_iff in E. destruct E as [E1 E2]. apply N.eqb_eq in E1, E2. subst a b.
      split; [eapply sorted_weaken; eauto; lia|]. split; [lia|]. split; [lia|]. split; [lia|]. split.
      + intros q. reflexivity.
      + intros q Hq. eapply sorted_below; eauto. lia.
    - destruct (remove_claim lo hi r) as [r'|] eqn:Er; [|discriminate]. inversion Hr; subst out'.
      destruct (IH _ _ _ _ _ D Er) as (S1 & S2 & S3 & S4 & S5 & S6).
      split; [cbn [sorted_out]; repeat split; auto|]. split; [lia|]. split; [lia|]. split; [lia|]. split.
      + intros q. cbn [unpub existsb fst snd]. fold (unpub r q). fold (unpub r' q). rewrite S5.
        destruct ((a <=? q) && (q <=? b)); destruct ((lo <=? q) && (q <=? hi)); reflexivity.
      + intros q Hq. cbn [unpub existsb fst snd]. fold (unpub r' q). rewrite S6 by exact Hq. rewrite orb_false_r. lia.
  Qed.

  (* ---- the invariant ---- *)
  Definition mI (s : mp) (out : list (N * N)) : Prop :=
    mp_size s = size /\ Inv size (mp_ready s) /\ mp_cursor s = mp_low s /\
    mp_low s <= mp_high s /\ mp_high s < mp_low s + size /\
    (forall g, In g (mp_gating s) -> g <= mp_cursor s) /\
    sorted_out 1 out (mp_high s) /\
    (forall q, 1 <= q <= mp_low s -> unpub out q = false) /\
    (forall q, mp_low s < q < mp_low s + size ->
               bit_at (mp_ready s) (q mod size) = (q <=? mp_high s) && negb (unpub out q)) /\
    bit_at (mp_ready s) (mp_low s mod size) = false.

  Lemma fold_min_le r : forall x, fold_left N.min r x <= x.
  Proof. induction r as [|y r IH]; intros x; cbn [fold_left]; [lia|]. specialize (IH (N.min x y)). lia. Qed.

  Lemma min_gating_le g c : (forall x, In x g -> x <= c) -> min_gating g <= c.
  Proof.
    destruct g as [|x r]; cbn [min_gating]; intros Hc; [lia|].
    pose proof (fold_min_le r x). specialize (Hc x (or_introl eq_refl)). lia.
  Qed.

  Lemma In_upd {A} i (v : A) l x : In x (upd i v l) -> x = v \/ In x l.
  Proof.
    revert i; induction l as [|h t IH]; intros [|i]; cbn; auto.
    - intros [E|E]; auto.
    - intros [E|E]; auto. destruct (IH _ E); auto.
  Qed.

  Lemma mI_init ng : mI (mp_init size ng) [].
  Proof.
    unfold mI, mp_init; cbn. pose proof size_pos.
    split; [reflexivity|]. split; [apply build_inv|]. split; [reflexivity|]. split; [lia|]. split; [lia|].
    split; [intros g Hg; apply repeat_spec in Hg; lia|]. split; [exact I|]. split; [reflexivity|].
    assert (Hb : forall r, bit_at (build size) r = false).
    { intros r. unfold bit_at, word, build; cbn [slots]. 
      assert (E : nth (N.to_nat (r / 64)) (repeat 0 (N.to_nat (div_ceil size WORD_BITS))) 0 = 0).
      { destruct (nth_in_or_default (N.to_nat (r / 64)) (repeat 0 (N.to_nat (div_ceil size WORD_BITS))) 0) as [Hin|E]; [apply repeat_spec in Hin; exact Hin | exact E]. }
      rewrite E. apply N.bits_0. }
    split; [|apply Hb]. intros q Hq. rewrite Hb. replace (q <=? 0) with false by lia. reflexivity.
  Qed.
  Lemma in_res_range lo hi q :
    lo <= hi + 1 -> in_res lo (N.to_nat (hi + 1 - lo)) (q mod size) = true <-> exists t, lo <= t <= hi /\ t mod size = q mod size.
  Proof.
    intros Hle. rewrite in_res_spec. rewrite N2Nat.id. split; intros (t & Ht & E); exists t; (split; [lia | exact E]).
  Qed.

  (* inside a window of one ring the residues touched by [lo, hi] are exactly those of [lo, hi] *)
  Lemma in_res_window w lo hi q :
    w <= lo -> lo <= hi + 1 -> hi < w + size -> w <= q < w + size ->
    in_res lo (N.to_nat (hi + 1 - lo)) (q mod size) = (lo <=? q) && (q <=? hi).
  Proof.
    intros H1 H2 H3 Hq. apply eq_true_iff_eq. rewrite (in_res_range lo hi q H2), andb_true_iff, !N.leb_le. split.
    - intros (t & Ht & E). assert (t = q); [|lia].
      destruct (N.le_ge_cases t q); [apply mod_inj_window; auto; lia | symmetry; apply mod_inj_window; auto; lia].
    - intros Hr. exists q. split; [lia | reflexivity].
  Qed.

  (* ---- next ---- *)
  Lemma mI_next s out c s' a b :
    mI s out -> 1 <= c -> mp_step s (SNext c) = (s', RClaim a b) ->
    a = mp_high s + 1 /\ b = mp_high s + c /\ mp_cursor s' = mp_cursor s /\ mp_high s' = b /\ mI s' (out ++ [(a, b)]).
  Proof.
    intros (I0 & I1 & I2 & I3 & I4 & I5 & I6 & I7 & I8 & I9) Hc. cbn [mp_step].
    destruct (_ <? _) eqn:Ecap; intros E; inversion E; subst s' a b; clear E. apply N.ltb_lt in Ecap.
    pose proof (min_gating_le _ _ I5) as Hmg. rewrite I0 in Ecap.
    split; [reflexivity|]. split; [reflexivity|]. split; [reflexivity|]. split; [reflexivity|].
    unfold mI; cbn [mp_size mp_ready mp_cursor mp_low mp_high mp_gating].
    split; [exact I0|]. split; [exact I1|]. split; [exact I2|]. split; [lia|]. split; [lia|]. split; [exact I5|].
    split; [eapply sorted_app; eauto; lia|].
    split; [intros q Hq; rewrite unpub_app, I7 by exact Hq; lia|].
    split; [|exact I9].
    intros q Hq. rewrite I8 by exact Hq. rewrite unpub_app.
    destruct (N.leb_spec q (mp_high s)); destruct (unpub out q); cbn [andb negb orb]; lia.
  Qed.

  (* ---- consumer progress ---- *)
  Lemma mI_gate s out i v : mI s out -> v <= mp_cursor s -> mI (fst (mp_step s (SGate i v))) out.
  Proof.
    intros (I0 & I1 & I2 & I3 & I4 & I5 & I6 & I7 & I8 & I9) Hv. cbn [mp_step fst].
    unfold mI; cbn [mp_size mp_ready mp_cursor mp_low mp_high mp_gating]. repeat (split; [assumption|]).
    split; [|repeat split; assumption]. intros g Hg. destruct (In_upd _ _ _ _ Hg) as [->|Hin]; auto.
  Qed.

  (* ---- publish, in any order ---- *)
  Lemma mI_publish s out lo hi out' :
    mI s out -> remove_claim lo hi out = Some out' ->
    let s' := fst (mp_step s (SPublish lo hi)) in
    mI s' out' /\ mp_cursor s <= mp_cursor s' /\ mp_high s' = mp_high s.
  Proof.
    intros (I0 & I1 & I2 & I3 & I4 & I5 & I6 & I7 & I8 & I9) Hrm. pose proof size_pos as Hsz.
    destruct (remove_claim_spec _ _ _ _ _ _ I6 Hrm) as (S1 & S2 & S3 & S4 & S5 & S6).
    assert (Hlo : mp_low s < lo).
    { destruct (N.lt_ge_cases (mp_low s) lo) as [|Hge]; [assumption|]. specialize (I7 lo ltac:(lia)). rewrite S5 in I7.
      replace ((lo <=? lo) && (lo <=? hi)) with true in I7 by lia. discriminate. }
    cbn [mp_step]. set (lw := mp_low s) in *. set (b1 := set_range (mp_ready s) lo (N.to_nat (hi + 1 - lo))).
    assert (HI1 : Inv size b1) by (apply set_range_inv, I1).
    (* bits of b1 inside the window *)
    assert (B1 : forall q, lw < q < lw + size -> bit_at b1 (q mod size) = (q <=? mp_high s) && negb (unpub out' q)).
    { intros q Hq. unfold b1. rewrite set_range_abs by (auto; apply N.mod_lt; lia).
      rewrite (in_res_window lw) by lia. rewrite I8 by exact Hq. rewrite S5.
      destruct ((lo <=? q) && (q <=? hi)) eqn:Er; cbn [orb].
      - rewrite S6 by lia. replace (q <=? mp_high s) with true by lia. reflexivity.
      - reflexivity. }
    assert (B1lw : bit_at b1 (lw mod size) = false).
    { unfold b1. rewrite set_range_abs by (auto; apply N.mod_lt; lia). rewrite I9, orb_false_r.
      rewrite (in_res_window lw) by lia. lia. }
    pose proof (scan_spec (N.to_nat (hi - lw)) b1 lw hi) as Hscan. cbv zeta in Hscan.
    set (good := scan b1 lw hi (N.to_nat (hi - lw))) in *. destruct Hscan as (G1 & G2 & G3).
    assert (Ggood : good <= hi) by lia.
    assert (Gpub : forall q, lw < q <= good -> unpub out' q = false).
    { intros q Hq. specialize (G3 q Hq). unfold size in HI1. rewrite (is_set_abs k _ _ HI1) in G3. fold size in G3.
      rewrite B1 in G3 by lia. apply andb_true_iff in G3. destruct G3 as [_ G3]. apply negb_true_iff in G3. exact G3. }
    assert (P7 : forall q, 1 <= q <= lw -> unpub out' q = false).
    { intros q Hq. specialize (I7 q Hq). rewrite S5 in I7. apply orb_false_iff in I7. tauto. }
    destruct (N.ltb_spec lw good) as [Hlt|Hge]; cbn [fst].
    - (* release up to good *)
      set (b2 := unset_range b1 lw (N.to_nat (good + 1 - lw))).
      split; [|cbn [mp_cursor mp_high]; split; [lia | reflexivity]].
      unfold mI; cbn [mp_size mp_ready mp_cursor mp_low mp_high mp_gating].
      split; [exact I0|]. split; [apply unset_range_inv, HI1|]. split; [lia|]. split; [lia|]. split; [lia|].
      split; [intros g Hg; specialize (I5 g Hg); lia|]. split; [exact S1|].
      split; [intros q Hq; destruct (N.le_gt_cases q lw); [apply P7; lia | apply Gpub; lia]|].
      split.
      + intros q Hq. unfold b2. rewrite unset_range_abs by (auto; apply N.mod_lt; lia).
        destruct (N.lt_ge_cases q (lw + size)) as [Hin|Hout].
        * (* still inside the old window: untouched *)
          assert (E : in_res lw (N.to_nat (good + 1 - lw)) (q mod size) = false).
          { rewrite (in_res_window lw) by lia. lia. }
          rewrite E. cbn [negb andb]. apply B1. lia.
        * (* one ring above a released sequence: cleared, and not yet claimable *)
          assert (E : in_res lw (N.to_nat (good + 1 - lw)) (q mod size) = true).
          { apply in_res_range; [lia|]. exists (q - size). split; [lia|].
            replace q with (q - size + 1 * size) at 2 by lia. rewrite N.mod_add by lia. reflexivity. }
          rewrite E. cbn [negb andb]. lia.
      + unfold b2. rewrite unset_range_abs by (auto; apply N.mod_lt; lia).
        assert (E : in_res lw (N.to_nat (good + 1 - lw)) (good mod size) = true).
        { apply in_res_range; [lia|]. exists good. split; [lia | reflexivity]. }
        rewrite E. reflexivity.
    - (* nothing released *)
      split; [|cbn [mp_cursor mp_high]; split; [lia | reflexivity]].
      unfold mI; cbn [mp_size mp_ready mp_cursor mp_low mp_high mp_gating].
      split; [exact I0|]. split; [exact HI1|]. split; [exact I2|]. split; [exact I3|]. split; [exact I4|].
      split; [exact I5|]. split; [exact S1|]. split; [exact P7|]. split; [exact B1 | exact B1lw].
  Qed.
  Definition mp_rel (s : mp) (c : cst) (out : list (N * N)) : Prop :=
    c_out c = out /\ c_cur c = mp_cursor s /\ c_last c = (if mp_high s =? 0 then None else Some (mp_high s)).

  (* the cursor is never past the bound the property allows *)
  Lemma mI_bound s out : mI s out -> mp_cursor s <= bound out (if mp_high s =? 0 then None else Some (mp_high s)).
  Proof.
    intros (I0 & I1 & I2 & I3 & I4 & I5 & I6 & I7 & I8 & I9). destruct out as [|[lo hi] r]; cbn [bound].
    - destruct (N.eqb_spec (mp_high s) 0); lia.
    - cbn [sorted_out] in I6. destruct I6 as (A & B & _).
      destruct (N.lt_ge_cases (mp_low s) lo) as [|Hge]; [lia|]. specialize (I7 lo ltac:(lia)).
      cbn [unpub existsb fst snd] in I7. apply orb_false_iff in I7. lia.
  Qed.

  Theorem mp_run_checks : forall l s c out,
    mI s out -> mp_rel s c out -> mp_wf s out l = true ->
    check false c l (mp_run s l) = 0 \/ check false c l (mp_run s l) = 5.
  Proof.
    induction l as [|o r IH]; intros s c out HI (Hout & Hcur & Hlast) Hwf; [left; reflexivity|].
    cbn [mp_wf] in Hwf. cbn [mp_run].
    destruct (mp_step s o) as [s' x] eqn:Est.
    destruct o as [n|lo hi|i v].
    - (* next *)
      destruct x as [a b| |]; try discriminate.
      apply andb_true_iff in Hwf. destruct Hwf as [Hn Hwf]. apply N.leb_le in Hn.
      destruct (mI_next _ _ _ _ _ _ HI Hn Est) as (Ka & Kb & Kc & Kh & HI').
      pose proof (mI_bound _ _ HI') as Hbd. rewrite Kh in Hbd.
      replace (b =? 0) with false in Hbd by lia.
      cbn [check check_step]. rewrite Hlast, Hout.
      assert (E1 : (match (if mp_high s =? 0 then None else Some (mp_high s)) with Some l => negb (a =? l + 1) | None => false end) = false).
      { destruct (N.eqb_spec (mp_high s) 0); [reflexivity|]. lia. }
      rewrite E1.
      assert (E2 : negb (b + 1 - a =? n) || (b <? a) = false) by lia.
      rewrite E2. rewrite Kc, Hcur, N.ltb_irrefl.
      replace (bound (out ++ [(a, b)]) (Some b) <? mp_cursor s) with false by lia.
      cbn [N.eqb].
      apply (IH s' _ (out ++ [(a, b)])); [exact HI' | | exact Hwf].
      split; [reflexivity|]. split; [cbn [c_cur]; congruence|]. cbn [c_last]. rewrite Kh. replace (b =? 0) with false by lia. reflexivity.
    - (* publish *)
      destruct (remove_claim lo hi out) as [out'|] eqn:Erm; [|discriminate].
      pose proof (mI_publish _ _ _ _ _ HI Erm) as Hp. cbv zeta in Hp. rewrite Est in Hp. cbn [fst] in Hp.
      destruct Hp as (HI' & Hmono & Hhigh).
      assert (Hx : x = RNone) by (cbn [mp_step] in Est; destruct (_ <? _) in Est; inversion Est; reflexivity). subst x.
      pose proof (mI_bound _ _ HI') as Hbd. rewrite Hhigh, <- Hlast in Hbd.
      cbn [check check_step]. rewrite Hout. cbn [take_claim]. rewrite Erm.
      rewrite Hcur. replace (mp_cursor s' <? mp_cursor s) with false by lia.
      replace (bound out' (c_last c) <? mp_cursor s') with false by lia.
      assert (HIH : check false (mkC out' (c_last c) (mp_cursor s')) r (mp_run s' r) = 0 \/
                    check false (mkC out' (c_last c) (mp_cursor s')) r (mp_run s' r) = 5).
      { apply (IH s' _ out'); [exact HI' | | exact Hwf].
        split; [reflexivity|]. split; [reflexivity|]. cbn [c_last]. rewrite Hhigh. exact Hlast. }
      destruct (match out' with [] => mp_cursor s' <? bound out' (c_last c) | _ :: _ => false end).
      + (* verdict 5 here: the examination goes on, the whole history ends with 5 *)
        cbn [N.eqb Pos.eqb]. cbv zeta. destruct HIH as [E|E]; rewrite E; right; reflexivity.
      + cbn [N.eqb]. exact HIH.
    - (* gate *)
      apply andb_true_iff in Hwf. destruct Hwf as [Hv Hwf]. apply N.leb_le in Hv.
      pose proof (mI_gate _ _ i v HI Hv) as HI'. rewrite Est in HI'. cbn [fst] in HI'.
      cbn [mp_step] in Est. inversion Est; subst s' x. clear Est.
      pose proof (mI_bound _ _ HI') as Hbd. cbn [mp_cursor mp_high] in Hbd.
      cbn [check check_step mp_cursor]. rewrite Hcur, N.ltb_irrefl, Hout, Hlast.
      replace (bound out (if mp_high s =? 0 then None else Some (mp_high s)) <? mp_cursor s) with false by lia.
      cbn [N.eqb].
      apply (IH _ _ out); [exact HI' | | exact Hwf].
      split; [reflexivity|]. split; [reflexivity|]. reflexivity.
  Qed.

  (* The property for the multi-producer sequencer driven from one thread, every history in which publishes may
     complete in ANY order: claims contiguous and of the requested length, cursor monotone and NEVER past an
     unpublished sequence (verdicts 1-4 are impossible).  The one verdict that remains possible is 5 - everything
     published, cursor below the highest claim - which is finding D8, see [mp_stranding] below. *)
  Theorem mp_property ng l :
    mp_wf (mp_init size ng) [] l = true ->
    check false c_init l (mp_run (mp_init size ng) l) = 0 \/ check false c_init l (mp_run (mp_init size ng) l) = 5.
  Proof. intros Hwf. eapply mp_run_checks; [apply mI_init | | exact Hwf]. repeat split. Qed.
End MP.

(* D8 on the model: two claims, published in the opposite order, strand the second range - all published, cursor 2,
   highest claim 4 (ring of 8 slots, one consumer that has not moved) *)
Example mp_stranding :
  let l := [SNext 2; SNext 2; SPublish 3 4; SPublish 1 2] in
  mp_wf (mp_init 8 1) [] l = true /\ check false c_init l (mp_run (mp_init 8 1) l) = 5.
Proof. vm_compute. split; reflexivity. Qed.

(* and with publishes in claim order the same history is accepted *)
Example mp_in_order_ok :
  let l := [SNext 2; SNext 2; SPublish 1 2; SPublish 3 4] in
  mp_wf (mp_init 8 1) [] l = true /\ check false c_init l (mp_run (mp_init 8 1) l) = 0.
Proof. vm_compute. split; reflexivity. Qed.
