(* Producer::write with an EMPTY batch on the multi-producer sequencer: next(0) hands out the inverted range (hw+1, hw) and
   publish(hw+1, hw) marks nothing.  When nothing is outstanding (low watermark = high watermark) the whole call leaves the
   sequencer exactly as it was - in particular the cursor does not move past anything unclaimed (seed C14-10 made it move). *)
From Coq Require Import List NArith Bool Lia.
From DC Require Import BitMap.Model Disruptor.SeqApi.
Import ListNotations.
Open Scope N_scope.

Theorem empty_write_is_a_no_op : forall s,
  mp_low s = mp_high s ->
  (mp_high s - min_gating (mp_gating s)) + 0 <? mp_size s = true ->
  let '(s1, r1) := mp_step s (SNext 0) in
  let '(s2, r2) := mp_step s1 (SPublish (mp_high s + 1) (mp_high s)) in
  r1 = RClaim (mp_high s + 1) (mp_high s) /\ r2 = RNone /\ s2 = s.
Proof.
  intros [cur hw lw rd g sz] Hl Hc; cbn [mp_low mp_high mp_gating mp_size] in *. subst lw.
  unfold mp_step at 1; cbn [mp_low mp_high mp_gating mp_size mp_cursor mp_ready]. rewrite Hc.
  rewrite N.add_0_r.
  unfold mp_step; cbn [mp_low mp_high mp_gating mp_size mp_cursor mp_ready].
  replace (hw + 1 - (hw + 1)) with 0 by lia. replace (hw - hw) with 0 by lia.
  cbn [N.to_nat set_range scan]. rewrite N.ltb_irrefl.
  repeat split; reflexivity.
Qed.
