(* C06 — TERMINATION of the whole single-producer protocol on the pipeline model (Disruptor/Pipeline.v).
   The main thread runs a PROGRAM: a list of write calls (batch sizes, each 1..N), then drain (wait until the last stage has
   caught up with the cursor, then raise the alert flag), then join; handlers exit only after the alert.  The steps are exactly
   the steps of Pipeline.v (every [tstep] projects to a [Pipeline.step] or leaves the pipeline state alone), so everything
   proved about reachable pipeline states holds here.
   - [step_decreases] / [runs_bounded]: every step strictly decreases a natural-number potential: EVERY run is finite, with an
     explicit bound, whatever the scheduler does (a spinning or parked thread is a thread whose step is not enabled: the model
     has no stutter steps; that a parked waiter whose condition has become true IS woken is Disruptor/WaitSignal.v and
     WaitProgress.v);
   - [progress]: a reachable state in which no step is enabled is the COMPLETE state: every write call has returned, every
     handler has returned from every published sequence, the alert is raised and every handler has exited.
   Together: under any scheduler that runs some enabled thread whenever there is one, every write returns, drain returns after
   the last stage has caught up, and join returns - for every ring size, stage topology, program and interleaving. *)
From Coq Require Import Arith Lia Bool List.
From DC Require Import Disruptor.Pipeline Disruptor.Progress.
Import ListNotations.

Section Liveness.
  Variable N : nat.
  Variable H : nat.
  Variable stage : nat -> nat.
  Variable last : nat.
  Hypothesis stage_le : forall h, h < H -> stage h <= last.
  Hypothesis stage_nonempty : forall k, k <= last -> exists h, h < H /\ stage h = k.

  Notation pstep := (Pipeline.step N H stage last).
  Notation Inv := (Pipeline.Inv N H stage last).
  Notation dep_ok := (Pipeline.dep_ok H stage).
  Notation gate := (Pipeline.gate H stage last).

  Record tst := mkT { ts : st; todo : list nat; al : bool }.

  (* successor states, literally those of Pipeline.step *)
  Definition s_claim (s : st) (c m : nat) : st :=
    mkSt (cursor s) (hcur s) (pnext s) (pcached s) (PFill (pnext s) (pnext s + c - 1) m) (hp s) (fill_ptr s) (done s).
  Definition s_fill (s : st) (q e m : nat) : st :=
    mkSt (cursor s) (hcur s) (pnext s) (pcached s) (if q =? e then PPub e m else PFill (S q) e m) (hp s) (S q) (done s).
  Definition s_pub (s : st) (e m : nat) : st := mkSt e (hcur s) (S e) m PIdle (hp s) (fill_ptr s) (done s).
  Definition s_wait (s : st) (h a : nat) : st :=
    mkSt (cursor s) (hcur s) (pnext s) (pcached s) (pp s) (upd (hp s) h (HBatch (hcur s h + 1) a)) (fill_ptr s) (done s).
  Definition s_handle (s : st) (h i a : nat) : st :=
    mkSt (cursor s) (hcur s) (pnext s) (pcached s) (pp s)
         (upd (hp s) h (if i =? a then HStore a else HBatch (S i) a)) (fill_ptr s) (upd (done s) h i).
  Definition s_store (s : st) (h a : nat) : st :=
    mkSt (cursor s) (upd (hcur s) h a) (pnext s) (pcached s) (pp s) (upd (hp s) h HIdle) (fill_ptr s) (done s).
  Definition s_exit (s : st) (h : nat) : st :=
    mkSt (cursor s) (hcur s) (pnext s) (pcached s) (pp s) (upd (hp s) h HExit) (fill_ptr s) (done s).

  Inductive tstep : tst -> tst -> Prop :=
  | t_claim s c m rest :                       (* the next write call of the program: next(c) returns *)
      pp s = PIdle -> 1 <= c -> (m = pcached s \/ gate s m) -> pnext s + c - 1 <= m + N ->
      tstep (mkT s (c :: rest) false) (mkT (s_claim s c m) rest false)
  | t_fill s q e m td a : pp s = PFill q e m -> tstep (mkT s td a) (mkT (s_fill s q e m) td a)
  | t_pub s e m td a : pp s = PPub e m -> tstep (mkT s td a) (mkT (s_pub s e m) td a)
  | t_wait s h a' td a : h < H -> hp s h = HIdle -> hcur s h + 1 <= a' -> dep_ok s h a' ->
      tstep (mkT s td a) (mkT (s_wait s h a') td a)
  | t_handle s h i a' td a : h < H -> hp s h = HBatch i a' -> tstep (mkT s td a) (mkT (s_handle s h i a') td a)
  | t_store s h a' td a : h < H -> hp s h = HStore a' -> tstep (mkT s td a) (mkT (s_store s h a') td a)
  | t_alert s :                                (* drain: all writes done, the last stage has caught up; raise the alert *)
      pp s = PIdle -> gate s (cursor s) -> tstep (mkT s [] false) (mkT s [] true)
  | t_exit s h td :                            (* wait_for returns None only when alerted *)
      h < H -> hp s h = HIdle -> tstep (mkT s td true) (mkT (s_exit s h) td true).

  Definition tinit (prog : list nat) : tst := mkT init prog false.

  Inductive treachable (prog : list nat) : tst -> Prop :=
  | tr_init : treachable prog (tinit prog)
  | tr_step t t' : treachable prog t -> tstep t t' -> treachable prog t'.

  (* every step is a step of Pipeline.v (or the alert, which leaves the pipeline state alone) *)
  Lemma tstep_pstep t t' : tstep t t' -> pstep (ts t) (ts t') \/ ts t' = ts t.
  Proof.
    intros Ht; destruct Ht; cbn [ts]; try (right; reflexivity); left.
    - apply p_claim; assumption.
    - apply p_fill; assumption.
    - apply p_publish; assumption.
    - apply h_wait; assumption.
    - apply h_handle; assumption.
    - apply h_store; assumption.
    - apply h_exit; assumption.
  Qed.

  Theorem treachable_reachable prog t : treachable prog t -> Pipeline.reachable N H stage last (ts t).
  Proof.
    induction 1 as [|t t' _ IH Hs]; [apply reach_init|].
    destruct (tstep_pstep _ _ Hs) as [P|E]; [econstructor; eauto | rewrite E; exact IH].
  Qed.

  (* ---------- the invariant ------------------------------------------------------------------------------------- *)
  Definition ok_prog (l : list nat) : Prop := Forall (fun c => 1 <= c <= N) l.

  Definition all_done (s : st) : Prop :=
    forall h, h < H -> hcur s h = cursor s /\ done s h = cursor s /\ (hp s h = HIdle \/ hp s h = HExit).

  Definition TInv (t : tst) : Prop :=
    Inv (ts t) /\ ok_prog (todo t) /\
    (al t = true -> todo t = [] /\ pp (ts t) = PIdle /\ all_done (ts t)) /\
    (al t = false -> forall h, h < H -> hp (ts t) h <> HExit).

  Lemma le_cursor s : Inv s -> forall h a, h < H -> dep_ok s h a -> a <= cursor s.
  Proof. intros HI h a Hh Hd. eapply (dep_ok_le_cursor N H stage last stage_le stage_nonempty); eauto. Qed.

  Lemma hcur_le_cursor s h : Inv s -> h < H -> hcur s h <= cursor s.
  Proof. intros HI Hh. eapply le_cursor; eauto. destruct HI as [_ HH]. apply (HH h Hh). Qed.

  (* the drain condition on the last stage means every handler of every stage has caught up *)
  Lemma drained_all_done s : Inv s -> gate s (cursor s) -> (forall h, h < H -> hp s h <> HExit) -> all_done s.
  Proof.
    intros HI G HX h Hh.
    destruct (last_stage_is_slowest N H stage last stage_le stage_nonempty s HI _ h Hh eq_refl) as (l & Hl & El & Hlh).
    pose proof (G l Hl El) as G1. pose proof (hcur_le_cursor s h HI Hh) as Hle.
    assert (E : hcur s h = cursor s) by lia.
    pose proof HI as [_ HH]. destruct (HH h Hh) as [_ X].
    destruct (hp s h) as [|i a|a|] eqn:Ep.
    - auto with arith. repeat split; auto; lia.
    - destruct X as (A & B & C & D). pose proof (le_cursor s HI h a Hh D). lia.
    - destruct X as (A & B & D). pose proof (le_cursor s HI h a Hh D). lia.
    - exfalso. apply (HX h Hh). exact Ep.
  Qed.

  Lemma TInv_init prog : ok_prog prog -> TInv (tinit prog).
  Proof.
    intros Hp. split; [apply Inv_init|]. split; [exact Hp|]. split; [discriminate|].
    intros _ h Hh. cbn. discriminate.
  Qed.

  Lemma Inv_tstep t t' : Inv (ts t) -> tstep t t' -> Inv (ts t').
  Proof.
    intros HI Hs. destruct (tstep_pstep _ _ Hs) as [P|E]; [eapply Inv_step; eauto | rewrite E; exact HI].
  Qed.

  Lemma TInv_step t t' : TInv t -> tstep t t' -> TInv t'.
  Proof.
    intros (HI & HP & HA & HN) Hs. pose proof (Inv_tstep _ _ HI Hs) as HI'.
    split; [exact HI'|]. clear HI'.
    destruct Hs as [s c m rest Hpp Hc Hm Hcap | s q e m td a Hpp | s e m td a Hpp | s h a' td a Hh Hhp Ha Hd
                    | s h i a' td a Hh Hhp | s h a' td a Hh Hhp | s Hpp Hg | s h td Hh Hhp]; cbn [ts todo al] in *.
    - split; [inversion HP; assumption|]. split; [discriminate|]. intros _. exact (HN eq_refl).
    - split; [exact HP|]. split.
      + intros Ea. destruct (HA Ea) as (_ & X & _). congruence.
      + intros Ea. exact (HN Ea).
    - split; [exact HP|]. split.
      + intros Ea. destruct (HA Ea) as (_ & X & _). congruence.
      + intros Ea. exact (HN Ea).
    - split; [exact HP|]. split.
      + intros Ea. destruct (HA Ea) as (_ & _ & X). destruct (X h Hh) as (E1 & _). pose proof (le_cursor s HI h a' Hh Hd). lia.
      + intros Ea g Hg. cbn. unfold upd. destruct (g =? h); [discriminate | exact (HN Ea g Hg)].
    - split; [exact HP|]. split.
      + intros Ea. destruct (HA Ea) as (_ & _ & X). destruct (X h Hh) as (_ & _ & [Y|Y]); congruence.
      + intros Ea g Hg. cbn. unfold upd. destruct (g =? h); [destruct (i =? a'); discriminate | exact (HN Ea g Hg)].
    - split; [exact HP|]. split.
      + intros Ea. destruct (HA Ea) as (_ & _ & X). destruct (X h Hh) as (_ & _ & [Y|Y]); congruence.
      + intros Ea g Hg. cbn. unfold upd. destruct (g =? h); [discriminate | exact (HN Ea g Hg)].
    - split; [exact HP|]. split; [|discriminate].
      intros _. split; [reflexivity|]. split; [exact Hpp|]. apply drained_all_done; auto.
    - split; [exact HP|]. split; [|discriminate].
      intros _. destruct (HA eq_refl) as (E1 & E2 & X). split; [exact E1|]. split; [exact E2|].
      intros g Hg. destruct (X g Hg) as (A & B & C). cbn. split; [exact A|]. split; [exact B|].
      unfold upd. destruct (g =? h); [right; reflexivity | exact C].
  Qed.

  Theorem TInv_reachable prog t : ok_prog prog -> treachable prog t -> TInv t.
  Proof. intros Hp. induction 1; [apply TInv_init; exact Hp | eapply TInv_step; eauto]. Qed.

  (* ---------- the potential -------------------------------------------------------------------------------------- *)
  Fixpoint sumH (n : nat) (f : nat -> nat) : nat := match n with 0 => 0 | S k => sumH k f + f k end.

  Lemma sumH_le n f g : (forall h, h < n -> f h <= g h) -> sumH n f <= sumH n g.
  Proof. induction n as [|n IH]; intros Hfg; cbn; [lia|]. pose proof (Hfg n ltac:(lia)). specialize (IH ltac:(intros; apply Hfg; lia)). lia. Qed.

  Lemma sumH_lt n f g k : k < n -> f k < g k -> (forall h, h < n -> f h <= g h) -> sumH n f < sumH n g.
  Proof.
    induction n as [|n IH]; intros Hk Hlt Hfg; [lia|]. cbn.
    destruct (Nat.eq_dec k n) as [->|Hne].
    - pose proof (sumH_le n f g ltac:(intros; apply Hfg; lia)). lia.
    - specialize (IH ltac:(lia) Hlt ltac:(intros; apply Hfg; lia)). pose proof (Hfg n ltac:(lia)). lia.
  Qed.

  Lemma sumH_le_add n f g k : (forall h, h < n -> f h <= g h + k) -> sumH n f <= sumH n g + n * k.
  Proof. induction n as [|n IH]; intros Hfg; cbn; [lia|]. pose proof (Hfg n ltac:(lia)). specialize (IH ltac:(intros; apply Hfg; lia)). lia. Qed.

  (* the highest sequence the producer has committed itself to *)
  Definition bound (s : st) : nat := match pp s with PIdle => cursor s | PFill _ e _ => e | PPub e _ => e end.
  Definition prodPhi (s : st) : nat := match pp s with PIdle => 0 | PFill q e _ => (e - q) + 2 | PPub _ _ => 1 end.
  Definition hc (p : hpc) : nat := match p with HExit => 0 | HBatch _ _ => 1 | HIdle => 2 | HStore _ => 3 end.
  Definition handPhi (s : st) (h : nat) : nat := 3 * (bound s - done s h) + hc (hp s h).
  Fixpoint todoPhi (l : list nat) : nat := match l with [] => 0 | c :: r => 3 * H * c + c + 2 + todoPhi r end.
  Definition Phi (t : tst) : nat :=
    prodPhi (ts t) + sumH H (handPhi (ts t)) + todoPhi (todo t) + (if al t then 0 else 1).

  Lemma cursor_le_bound s : Inv s -> cursor s <= bound s.
  Proof.
    intros [(G & C1 & C2 & C3 & C5 & C4) _]. unfold bound. destruct (pp s) as [|q e m|e m]; [lia| |].
    - destruct C4 as (F & P1 & P2 & _). destruct (pnext s); lia.
    - destruct C4 as (F & P1 & _). destruct (pnext s); lia.
  Qed.

  (* EVERY STEP STRICTLY DECREASES THE POTENTIAL *)
  Theorem step_decreases t t' : TInv t -> tstep t t' -> Phi t' < Phi t.
  Proof.
    intros (HI & HP & HA & HN) Hs. pose proof (cursor_le_bound _ HI) as HB.
    destruct Hs as [s c m rest Hpp Hc Hm Hcap | s q e m td a Hpp | s e m td a Hpp | s h a' td a Hh Hhp Ha Hd
                    | s h i a' td a Hh Hhp | s h a' td a Hh Hhp | s Hpp Hg | s h td Hh Hhp];
      unfold Phi; cbn [ts todo al] in *.
    - (* claim *)
      assert (Hb : bound (s_claim s c m) <= bound s + c).
      { unfold bound at 2. rewrite Hpp. unfold bound, s_claim; cbn. destruct HI as [(_ & _ & C2 & C3 & _) _].
        destruct (pnext s) as [|k]; [lia|]. specialize (C3 ltac:(lia)). lia. }
      assert (Hsum : sumH H (handPhi (s_claim s c m)) <= sumH H (handPhi s) + H * (3 * c)).
      { apply sumH_le_add. intros h Hh. unfold handPhi. cbn [done hp s_claim]. lia. }
      unfold prodPhi at 2. rewrite Hpp. change (prodPhi (s_claim s c m)) with (pnext s + c - 1 - pnext s + 2). cbn [todoPhi].
      assert (H * (3 * c) = 3 * H * c) by ring. lia.
    - (* fill *)
      assert (Hsum : sumH H (handPhi (s_fill s q e m)) = sumH H (handPhi s)).
      { apply Nat.le_antisymm; apply sumH_le; intros h Hh; unfold handPhi, bound; cbn [done hp s_fill pp cursor]; rewrite Hpp;
          destruct (q =? e); lia. }
      rewrite Hsum. unfold prodPhi at 2. rewrite Hpp. unfold prodPhi, s_fill; cbn [pp].
      destruct HI as [(_ & _ & _ & _ & _ & C4) _]. rewrite Hpp in C4.
      destruct (Nat.eqb_spec q e); lia.
    - (* publish *)
      assert (Hsum : sumH H (handPhi (s_pub s e m)) = sumH H (handPhi s)).
      { apply Nat.le_antisymm; apply sumH_le; intros h Hh; unfold handPhi, bound; cbn [done hp s_pub pp cursor]; rewrite Hpp; lia. }
      rewrite Hsum. unfold prodPhi at 2. rewrite Hpp. unfold prodPhi, s_pub; cbn [pp]. lia.
    - (* wait *)
      assert (Hsum : sumH H (handPhi (s_wait s h a')) < sumH H (handPhi s)).
      { apply (sumH_lt H _ _ h Hh).
        - unfold handPhi, bound; cbn [done hp s_wait pp cursor]. rewrite upd_same, Hhp. cbn [hc]. lia.
        - intros g Hg. unfold handPhi, bound; cbn [done hp s_wait pp cursor]. unfold upd. destruct (g =? h) eqn:E; [|lia].
          apply Nat.eqb_eq in E; subst g. rewrite Hhp. cbn [hc]. lia. }
      change (prodPhi (s_wait s h a')) with (prodPhi s). lia.
    - (* handle *)
      pose proof HI as [_ HH]. destruct (HH h Hh) as [_ X]. rewrite Hhp in X. destruct X as (A & B & C & D).
      pose proof (le_cursor s HI h a' Hh D) as Hle.
      assert (Hsum : sumH H (handPhi (s_handle s h i a')) < sumH H (handPhi s)).
      { apply (sumH_lt H _ _ h Hh).
        - unfold handPhi, bound; cbn [done hp s_handle pp cursor]. rewrite !upd_same, Hhp. fold (bound s).
          destruct (i =? a'); cbn [hc]; lia.
        - intros g Hg. unfold handPhi, bound; cbn [done hp s_handle pp cursor]. fold (bound s). unfold upd.
          destruct (g =? h) eqn:E; [|lia]. apply Nat.eqb_eq in E; subst g. rewrite Hhp. destruct (i =? a'); cbn [hc]; lia. }
      change (prodPhi (s_handle s h i a')) with (prodPhi s). lia.
    - (* store *)
      assert (Hsum : sumH H (handPhi (s_store s h a')) < sumH H (handPhi s)).
      { apply (sumH_lt H _ _ h Hh).
        - unfold handPhi, bound; cbn [done hp s_store pp cursor]. rewrite upd_same, Hhp. cbn [hc]. lia.
        - intros g Hg. unfold handPhi, bound; cbn [done hp s_store pp cursor]. unfold upd. destruct (g =? h) eqn:E; [|lia].
          apply Nat.eqb_eq in E; subst g. rewrite Hhp. cbn [hc]. lia. }
      change (prodPhi (s_store s h a')) with (prodPhi s). lia.
    - (* alert *) lia.
    - (* exit *)
      assert (Hsum : sumH H (handPhi (s_exit s h)) < sumH H (handPhi s)).
      { apply (sumH_lt H _ _ h Hh).
        - unfold handPhi, bound; cbn [done hp s_exit pp cursor]. rewrite upd_same, Hhp. cbn [hc]. lia.
        - intros g Hg. unfold handPhi, bound; cbn [done hp s_exit pp cursor]. unfold upd. destruct (g =? h) eqn:E; [|lia].
          apply Nat.eqb_eq in E; subst g. rewrite Hhp. cbn [hc]. lia. }
      change (prodPhi (s_exit s h)) with (prodPhi s). lia.
  Qed.

  (* runs of a given length *)
  Inductive trun : nat -> tst -> tst -> Prop :=
  | trun_0 t : trun 0 t t
  | trun_S n t t' t'' : tstep t t' -> trun n t' t'' -> trun (S n) t t''.

  Theorem run_length_bounded n t t' : TInv t -> trun n t t' -> n + Phi t' <= Phi t.
  Proof.
    intros HI Hr. induction Hr as [t|n t t1 t2 Hs Hr IH]; [lia|].
    pose proof (step_decreases _ _ HI Hs). specialize (IH (TInv_step _ _ HI Hs)). lia.
  Qed.

  (* EVERY RUN OF A PROGRAM IS FINITE, with an explicit bound *)
  Theorem runs_bounded prog n t : ok_prog prog -> trun n (tinit prog) t -> n <= todoPhi prog + 2 * H + 1.
  Proof.
    intros Hp Hr. pose proof (run_length_bounded _ _ _ (TInv_init prog Hp) Hr) as Hb.
    assert (E : Phi (tinit prog) = todoPhi prog + 2 * H + 1).
    { unfold Phi, tinit; cbn [ts todo al]. unfold prodPhi; cbn [pp init].
      assert (sumH H (handPhi init) = 2 * H).
      { clear. induction H as [|k IH]; cbn [sumH]; [reflexivity|]. rewrite IH. unfold handPhi, bound; cbn. lia. }
      lia. }
    lia.
  Qed.

  (* ---------- progress: no step enabled only in the complete state --------------------------------------------- *)
  Definition complete (t : tst) : Prop :=
    al t = true /\ todo t = [] /\ pp (ts t) = PIdle /\
    forall h, h < H -> hp (ts t) h = HExit /\ done (ts t) h = cursor (ts t) /\ hcur (ts t) h = cursor (ts t).

  Lemma bounded_search (P : nat -> Prop) (dec : forall h, {P h} + {~ P h}) n :
    (forall h, h < n -> P h) \/ (exists h, h < n /\ ~ P h).
  Proof.
    induction n as [|n [IH|(h & Hh & Hn)]].
    - left; intros; lia.
    - destruct (dec n) as [Y|Nn].
      + left. intros h Hh. destruct (Nat.eq_dec h n) as [->|]; [exact Y | apply IH; lia].
      + right. exists n. split; [lia | exact Nn].
    - right. exists h. split; [lia | exact Hn].
  Qed.

  Lemma hpc_eq_dec (a b : hpc) : {a = b} + {a <> b}.
  Proof. decide equality; apply Nat.eq_dec. Qed.

  (* a handler behind the cursor, all handlers idle: some handler's wait can return *)
  Lemma lagging_can_wait s : Inv s -> (forall h, h < H -> hp s h = HIdle) ->
    forall k h, h < H -> stage h = k -> hcur s h < cursor s -> exists g a, g < H /\ hcur s g + 1 <= a /\ dep_ok s g a.
  Proof.
    intros HI Hidle. induction k as [|k IH]; intros h Hh Ek Hlag.
    - exists h, (cursor s). split; [exact Hh|]. split; [lia|]. split; [intros _; lia|]. intros g Hg Eg. lia.
    - destruct (bounded_search (fun g => S (stage g) = stage h -> hcur s h + 1 <= hcur s g)
                  (fun g => match Nat.eq_dec (S (stage g)) (stage h) with
                            | left E => match le_dec (hcur s h + 1) (hcur s g) with left L => left (fun _ => L) | right R => right (fun X => R (X E)) end
                            | right E => left (fun X => False_ind _ (E X)) end) H) as [All|(g & Hg & Ng)].
      + exists h, (hcur s h + 1). split; [exact Hh|]. split; [lia|]. split; [intros E0; lia|].
        intros g Hg Eg. apply All; assumption.
      + assert (Eg : S (stage g) = stage h).
        { destruct (Nat.eq_dec (S (stage g)) (stage h)) as [E|E]; [exact E|]. exfalso. apply Ng. intros X. contradiction. }
        assert (Hlt : hcur s g < hcur s h + 1).
        { destruct (le_dec (hcur s h + 1) (hcur s g)) as [L|L]; [exfalso; apply Ng; intros _; exact L | lia]. }
        apply (IH g Hg ltac:(lia)). lia.
  Qed.

  Theorem progress t : TInv t -> complete t \/ exists t', tstep t t'.
  Proof.
    intros (HI & HP & HA & HN). destruct t as [s td a]. cbn [ts todo al] in *.
    destruct a.
    - (* alerted: handlers exit one by one *)
      destruct (HA eq_refl) as (E1 & E2 & AD). subst td.
      destruct (bounded_search (fun h => hp s h = HExit) (fun h => hpc_eq_dec (hp s h) HExit) H) as [All|(h & Hh & Nh)].
      + left. split; [reflexivity|]. split; [reflexivity|]. split; [exact E2|].
        intros h Hh. destruct (AD h Hh) as (A & B & _). split; [apply All, Hh|]. split; assumption.
      + right. destruct (AD h Hh) as (_ & _ & [Y|Y]); [|contradiction].
        eexists. apply t_exit; eauto.
    - right. specialize (HN eq_refl).
      destruct (pp s) as [|q e m|e m] eqn:Epp.
      2: { eexists. apply t_fill. exact Epp. }
      2: { eexists. apply t_pub. exact Epp. }
      destruct (bounded_search (fun h => hp s h = HIdle) (fun h => hpc_eq_dec (hp s h) HIdle) H) as [Idle|(h & Hh & Nh)].
      2: { destruct (hp s h) as [|i a'|a'|] eqn:Ehp; [contradiction | | | exfalso; exact (HN h Hh Ehp)].
           - eexists. eapply t_handle; eauto.
           - eexists. eapply t_store; eauto. }
      destruct (bounded_search (fun h => cursor s <= hcur s h) (fun h => le_dec (cursor s) (hcur s h)) H) as [Caught|(h & Hh & Lag)].
      2: { destruct (lagging_can_wait s HI Idle (stage h) h Hh eq_refl ltac:(lia)) as (g & a' & Hg & Ha & Hd).
           eexists. eapply (t_wait s g a'); eauto. }
      assert (G : gate s (cursor s)) by (intros h Hh _; apply Caught, Hh).
      destruct td as [|c rest].
      + eexists. apply t_alert; assumption.
      + inversion HP as [|? ? Hc _]; subst. eexists. apply (t_claim s c (cursor s) rest); [exact Epp | lia | right; exact G|].
        destruct HI as [(_ & _ & C2 & C3 & _) _]. destruct (pnext s) as [|k]; [lia|]. specialize (C3 ltac:(lia)). lia.
  Qed.

  (* the two together, for the states a program can reach *)
  Corollary stuck_only_when_complete prog t : ok_prog prog -> treachable prog t -> (forall t', ~ tstep t t') -> complete t.
  Proof.
    intros Hp Hr Hstuck. destruct (progress t (TInv_reachable prog t Hp Hr)) as [C|(t' & Hs)]; [exact C|].
    exfalso. exact (Hstuck t' Hs).
  Qed.

  (* ---------- every program CAN run to completion, and every run ends there ------------------------------------- *)
  Theorem completion_exists prog : ok_prog prog -> forall t, treachable prog t -> exists t', treachable prog t' /\ complete t'.
  Proof.
    intros Hp t Hr. remember (Phi t) as n eqn:En. revert t Hr En.
    induction n as [n IH] using lt_wf_ind. intros t Hr En.
    destruct (progress t (TInv_reachable prog t Hp Hr)) as [C|(t1 & Hs)]; [exists t; auto|].
    pose proof (step_decreases _ _ (TInv_reachable prog t Hp Hr) Hs) as Hd.
    apply (IH (Phi t1) ltac:(lia) t1); [econstructor; eauto | reflexivity].
  Qed.

  (* ---------- what "complete" delivers: every write call was carried out in full --------------------------------- *)
  Fixpoint sumc (l : list nat) : nat := match l with [] => 0 | c :: r => c + sumc r end.
  Definition started (s : st) : nat := match pp s with PIdle => if pnext s =? 0 then 0 else 1 | _ => 1 end.
  Lemma total_reachable prog t : treachable prog t -> bound (ts t) + started (ts t) + sumc (todo t) = sumc prog.
  Proof.
    intros Hr. assert (HR := Hr). induction Hr as [|t t' Hr IH Hs].
    - cbn. lia.
    - specialize (IH Hr). pose proof (treachable_reachable prog t Hr) as HP. apply Inv_reachable in HP.
      destruct HP as [(_ & _ & C2 & C3 & _ & C4) _].
      destruct Hs as [s c m rest Hpp Hc Hm Hcap | s q e m td a Hpp | s e m td a Hpp | s h a' td a Hh Hhp Ha Hd
                      | s h i a' td a Hh Hhp | s h a' td a Hh Hhp | s Hpp Hg | s h td Hh Hhp]; cbn [ts todo al] in *;
        unfold bound, started in *; cbn [pp pnext cursor s_claim s_fill s_pub s_wait s_handle s_store s_exit sumc] in *;
        try exact IH.
      + rewrite Hpp in IH. destruct (pnext s) as [|k]; cbn [Nat.eqb] in IH; [specialize (C2 eq_refl); lia|]. specialize (C3 ltac:(lia)). lia.
      + rewrite Hpp in IH. destruct (q =? e); lia.
      + rewrite Hpp in IH. cbn [Nat.eqb]. lia.
  Qed.

  (* in the complete state the cursor is the total number of events written minus the one stored under sequence 0 (finding
     D7: the first write call starts at sequence 0, which no handler ever sees), and every handler has returned from all of them *)
  Theorem complete_all_delivered prog t : treachable prog t -> complete t ->
    cursor (ts t) = sumc prog - 1 /\ forall h, h < H -> done (ts t) h = cursor (ts t).
  Proof.
    intros Hr (A & B & C & D). pose proof (total_reachable prog t Hr) as E.
    pose proof (treachable_reachable prog t Hr) as HP. apply Inv_reachable in HP. destruct HP as [(_ & _ & C2 & _) _].
    unfold bound, started in E. rewrite C, B in E. cbn [sumc] in E. split; [|intros h Hh; apply (D h Hh)].
    destruct (pnext (ts t)) as [|k]; cbn [Nat.eqb] in E; [specialize (C2 eq_refl)|]; lia.
  Qed.
End Liveness.

(* the hypotheses are satisfiable and the theorems are not vacuous: a two-stage pipeline on a ring of 2 slots, two write calls *)
Example liveness_premises_hold :
  exists t, treachable 2 2 (fun h => h) 1 [2; 1] t /\ complete 2 t /\ cursor (ts t) = 2 /\ done (ts t) 0 = 2 /\ done (ts t) 1 = 2.
Proof.
  assert (Hle : forall h, h < 2 -> (fun h => h) h <= 1) by (intros; lia).
  assert (Hne : forall k, k <= 1 -> exists h, h < 2 /\ (fun h : nat => h) h = k) by (intros k Hk; exists k; split; lia).
  assert (Hp : ok_prog 2 [2; 1]) by (repeat constructor; lia).
  destruct (completion_exists 2 2 (fun h => h) 1 Hle Hne [2; 1] Hp _ (tr_init _ _ _ _ _)) as (t & Hr & Hc).
  exists t. split; [exact Hr|]. split; [exact Hc|].
  destruct (complete_all_delivered 2 2 (fun h => h) 1 [2; 1] t Hr Hc) as (E & D). cbn [sumc] in E.
  split; [lia|]. rewrite !D by lia. lia.
Qed.
