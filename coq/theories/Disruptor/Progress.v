(* C06, progress half on the single-producer pipeline model (Disruptor/Pipeline.v): NO DEADLOCK STATE.
   From every reachable state in which no handler has been told to exit there is a continuation in which
   - every handler has returned from every published sequence (drain can complete), and
   - a pending claim of up to N slots becomes enabled (write can complete).
   These are possibility statements (for every reachable state THERE IS a continuation): no reachable state is
   stuck.  Termination under a fair scheduler is the informal consequence; the blocking strategy additionally needs
   that a waiter whose condition has become true is woken: Disruptor/WaitSignal.v. *)
From Coq Require Import Arith Lia Bool.
From DC Require Import Disruptor.Pipeline.

Section Progress.
  Variable N : nat.
  Variable H : nat.
  Variable stage : nat -> nat.
  Variable last : nat.
  Hypothesis stage_le : forall h, h < H -> stage h <= last.
  Hypothesis stage_nonempty : forall k, k <= last -> exists h, h < H /\ stage h = k.

  Notation step := (step N H stage last).
  Notation reachable := (reachable N H stage last).
  Notation Inv := (Inv N H stage last).
  Notation dep_ok := (dep_ok H stage).

  Inductive steps : st -> st -> Prop :=
  | steps_refl s : steps s s
  | steps_step s s' s'' : step s s' -> steps s' s'' -> steps s s''.

  Lemma steps_trans s s' s'' : steps s s' -> steps s' s'' -> steps s s''.
  Proof. induction 1; intros; [assumption | econstructor; eauto]. Qed.

  Lemma steps_one s s' : step s s' -> steps s s'.
  Proof. intros. econstructor; [eassumption | constructor]. Qed.

  Lemma Inv_steps s s' : Inv s -> steps s s' -> Inv s'.
  Proof. intros HI Hs. induction Hs; [assumption|]. apply IHHs. eapply Inv_step; eauto. Qed.

  Lemma reachable_steps s s' : reachable s -> steps s s' -> reachable s'.
  Proof. intros HR Hs. induction Hs; [assumption|]. apply IHHs. econstructor; eauto. Qed.

  (* only handler h moved *)
  Definition hframe (h : nat) (s s' : st) : Prop :=
    cursor s' = cursor s /\ pnext s' = pnext s /\ pcached s' = pcached s /\ pp s' = pp s /\ fill_ptr s' = fill_ptr s /\
    forall g, g <> h -> hcur s' g = hcur s g /\ hp s' g = hp s g /\ done s' g = done s g.

  Lemma hframe_refl h s : hframe h s s.
  Proof. repeat split; reflexivity. Qed.

  Lemma hframe_trans h s s' s'' : hframe h s s' -> hframe h s' s'' -> hframe h s s''.
  Proof.
    intros (A1 & A2 & A3 & A4 & A5 & A6) (B1 & B2 & B3 & B4 & B5 & B6).
    repeat split; try congruence; destruct (A6 g H0) as (X & Y & Z); destruct (B6 g H0) as (X' & Y' & Z'); congruence.
  Qed.

  (* finish the batch a handler is in *)
  Lemma finish_batch d : forall s h i a, h < H -> hp s h = HBatch i a -> i <= a -> a - i = d ->
    exists s', steps s s' /\ hframe h s s' /\ hcur s' h = a /\ hp s' h = HIdle /\ done s' h = a.
  Proof.
    induction d as [|d IH]; intros s h i a Hh Hp Hia Hd.
    - assert (i = a) by lia. subst i.
      eexists. split; [eapply steps_step; [eapply h_handle; eauto | eapply steps_one; eapply h_store; [exact Hh|]]|].
      + cbn. rewrite upd_same, Nat.eqb_refl. reflexivity.
      + cbn. rewrite !upd_same. split; [|auto].
        repeat split; cbn; try reflexivity; rewrite !upd_other by assumption; reflexivity.
    - edestruct (IH (mkSt (cursor s) (hcur s) (pnext s) (pcached s) (pp s)
                          (upd (hp s) h (if i =? a then HStore a else HBatch (S i) a)) (fill_ptr s) (upd (done s) h i)) h (S i) a)
        as (s' & S1 & S2 & S3 & S4 & S5); try lia; auto.
      + cbn. rewrite upd_same. destruct (Nat.eqb_spec i a); [lia | reflexivity].
      + exists s'. split; [eapply steps_step; [eapply h_handle; eauto | exact S1]|].
        split; [|auto]. destruct S2 as (B1 & B2 & B3 & B4 & B5 & B6). cbn in *.
        repeat split; try assumption; destruct (B6 g H0) as (X & Y & Z); rewrite ?X, ?Y, ?Z, ?upd_other by assumption; reflexivity.
  Qed.

  (* bring a handler that has not exited to HIdle *)
  Lemma to_idle s h : Inv s -> h < H -> hp s h <> HExit ->
    exists s', steps s s' /\ hframe h s s' /\ hp s' h = HIdle /\ hcur s h <= hcur s' h.
  Proof.
    intros HI Hh Hne. destruct HI as [_ HH]. specialize (HH h Hh). destruct HH as [_ HH].
    destruct (hp s h) as [|i a|a|] eqn:Ep.
    - exists s. split; [constructor|]. split; [apply hframe_refl|]. split; [exact Ep | lia].
    - destruct HH as (A & B & C & D).
      destruct (finish_batch (a - i) s h i a Hh Ep C eq_refl) as (s' & S1 & S2 & S3 & S4 & S5).
      exists s'. split; [exact S1|]. split; [exact S2|]. split; [exact S4 | lia].
    - destruct HH as (A & B & D). eexists. split; [eapply steps_one; eapply h_store; eauto|].
      cbn. rewrite !upd_same. split; [|split; [reflexivity | lia]].
      repeat split; cbn; try reflexivity; rewrite !upd_other by assumption; reflexivity.
    - congruence.
  Qed.

  (* an idle handler can consume everything its dependencies allow *)
  Lemma advance_to s h t : Inv s -> h < H -> hp s h = HIdle -> hcur s h <= t -> dep_ok s h t ->
    exists s', steps s s' /\ hframe h s s' /\ hcur s' h = t /\ hp s' h = HIdle /\ done s' h = t.
  Proof.
    intros HI Hh Hp Hle Hd.
    destruct (Nat.eq_dec (hcur s h) t) as [E|E].
    - exists s. split; [constructor|]. split; [apply hframe_refl|]. split; [exact E|]. split; [exact Hp|].
      destruct HI as [_ HH]. specialize (HH h Hh). destruct HH as [_ HH]. rewrite Hp in HH. congruence.
    - pose (s1 := mkSt (cursor s) (hcur s) (pnext s) (pcached s) (pp s) (upd (hp s) h (HBatch (hcur s h + 1) t)) (fill_ptr s) (done s)).
      assert (St : step s s1) by (apply h_wait; auto; lia).
      destruct (finish_batch (t - (hcur s h + 1)) s1 h (hcur s h + 1) t Hh) as (s' & S1 & S2 & S3 & S4 & S5); try lia.
      { unfold s1; cbn. apply upd_same. }
      exists s'. split; [eapply steps_step; eauto|]. split; [|auto].
      destruct S2 as (B1 & B2 & B3 & B4 & B5 & B6). unfold s1 in *; cbn in *.
      repeat split; try assumption; destruct (B6 g H0) as (X & Y & Z); rewrite ?X, ?Y, ?Z, ?upd_other by assumption; reflexivity.
  Qed.

  (* whatever a handler may take as available is published *)
  Lemma dep_ok_le_cursor s : Inv s -> forall h a, h < H -> dep_ok s h a -> a <= cursor s.
  Proof.
    intros HI. assert (K : forall k h a, h < H -> stage h = k -> dep_ok s h a -> a <= cursor s).
    { induction k as [|k IH]; intros h a Hh Ek [D1 D2]; [auto|].
      destruct (stage_nonempty k) as (g & Hg & Eg); [pose proof (stage_le h Hh); lia|].
      specialize (D2 g Hg ltac:(lia)). destruct HI as [_ HH]. destruct (HH g Hg) as [Dg _].
      specialize (IH g (hcur s g) Hg Eg Dg). lia. }
    intros h a Hh Hd. eapply K; eauto.
  Qed.

  (* one handler catches up with everything published, provided the stage before it already has *)
  Lemma catch_up_one s h : Inv s -> h < H -> hp s h <> HExit -> dep_ok s h (cursor s) ->
    exists s', steps s s' /\ hframe h s s' /\ hcur s' h = cursor s /\ hp s' h = HIdle /\ done s' h = cursor s.
  Proof.
    intros HI Hh Hne Hd.
    destruct (to_idle s h HI Hh Hne) as (s1 & S1 & F1 & P1 & L1).
    pose proof (Inv_steps _ _ HI S1) as HI1.
    pose proof F1 as (C1 & _ & _ & _ & _ & G1).
    assert (Hd1 : dep_ok s1 h (cursor s1)).
    { rewrite C1. destruct Hd as [D1 D2]. split; [rewrite C1; exact D1|].
      intros g Hg Eg. destruct (G1 g) as (X & _); [intros ->; lia|]. rewrite X. apply D2; assumption. }
    assert (Hle : hcur s1 h <= cursor s1).
    { destruct HI1 as [_ HH]. destruct (HH h Hh) as [Dh _]. eapply dep_ok_le_cursor; eauto. split; [|exact HH]. apply (proj1 (Inv_steps _ _ HI S1)). }
    destruct (advance_to s1 h (cursor s1) HI1 Hh P1 Hle Hd1) as (s2 & S2 & F2 & A & B & C).
    exists s2. split; [eapply steps_trans; eauto|]. split; [eapply hframe_trans; eauto|]. rewrite <- C1. auto.
  Qed.

  Definition no_exit (s : st) : Prop := forall h, h < H -> hp s h <> HExit.
  Definition caught_up (s : st) (h : nat) : Prop := hcur s h = cursor s /\ hp s h = HIdle /\ done s h = cursor s.
  (* the producer did not move *)
  Definition pframe (s s' : st) : Prop :=
    cursor s' = cursor s /\ pnext s' = pnext s /\ pcached s' = pcached s /\ pp s' = pp s /\ fill_ptr s' = fill_ptr s.

  Lemma hframe_pframe h s s' : hframe h s s' -> pframe s s'.
  Proof. intros (A & B & C & D & E & _). repeat split; assumption. Qed.
  Lemma pframe_trans s s' s'' : pframe s s' -> pframe s' s'' -> pframe s s''.
  Proof. intros (A1 & A2 & A3 & A4 & A5) (B1 & B2 & B3 & B4 & B5). repeat split; congruence. Qed.

  (* all handlers of stage k with id < n catch up, given that the earlier stages have *)
  Lemma stage_sweep k n : forall s, Inv s -> no_exit s -> n <= H ->
    (forall g, g < H -> stage g < k -> caught_up s g) ->
    exists s', steps s s' /\ pframe s s' /\ no_exit s' /\
               (forall g, g < H -> stage g < k -> caught_up s' g) /\
               (forall g, g < n -> stage g = k -> caught_up s' g) /\
               (forall g, g < H -> (n <= g \/ k < stage g) -> stage g >= k -> hcur s' g = hcur s g /\ hp s' g = hp s g /\ done s' g = done s g).
  Proof.
    induction n as [|n IH]; intros s HI HX Hn Hprev.
    - exists s. split; [constructor|]. split; [repeat split; reflexivity|]. split; [exact HX|]. split; [exact Hprev|].
      split; [intros g Hg; lia | intros; auto].
    - destruct (IH s HI HX ltac:(lia) Hprev) as (s1 & S1 & F1 & X1 & P1 & Q1 & R1).
      pose proof (Inv_steps _ _ HI S1) as HI1.
      destruct (Nat.eq_dec (stage n) k) as [Ek|Ek].
      + assert (Hd : dep_ok s1 n (cursor s1)).
        { split; [lia|]. intros g Hg Eg. destruct (P1 g Hg ltac:(lia)) as (A & _). lia. }
        destruct (catch_up_one s1 n HI1 ltac:(lia) (X1 n ltac:(lia)) Hd) as (s2 & S2 & F2 & A & B & C).
        pose proof F2 as (C2 & _ & _ & _ & _ & G2).
        exists s2. split; [eapply steps_trans; eauto|]. split; [eapply pframe_trans; [exact F1 | eapply hframe_pframe; eauto]|].
        split; [|split; [|split]].
        * intros g Hg. destruct (Nat.eq_dec g n) as [->|Hne]; [congruence|]. destruct (G2 g Hne) as (_ & Y & _). rewrite Y. apply X1, Hg.
        * intros g Hg Hs. destruct (G2 g) as (X & Y & Z); [intros ->; lia|]. destruct (P1 g Hg Hs) as (U & V & W).
          unfold caught_up. rewrite X, Y, Z, C2. auto.
        * intros g Hg Hs. destruct (Nat.eq_dec g n) as [->|Hne]; [unfold caught_up; rewrite C2; auto|].
          destruct (G2 g Hne) as (X & Y & Z). destruct (Q1 g ltac:(lia) Hs) as (U & V & W). unfold caught_up. rewrite X, Y, Z, C2. auto.
        * intros g Hg Hor Hge. destruct (G2 g) as (X & Y & Z); [intros ->; lia|]. rewrite X, Y, Z. apply R1; auto. lia.
      + exists s1. split; [exact S1|]. split; [exact F1|]. split; [exact X1|]. split; [exact P1|]. split.
        * intros g Hg Hs. destruct (Nat.eq_dec g n) as [->|Hne]; [congruence | apply Q1; [lia | exact Hs]].
        * intros g Hg Hor Hge. apply R1; auto. destruct (Nat.eq_dec g n) as [->|Hne]; [right; lia | lia].
  Qed.

  (* all handlers of all stages < k catch up *)
  Lemma stages_sweep k : forall s, Inv s -> no_exit s ->
    exists s', steps s s' /\ pframe s s' /\ no_exit s' /\ forall g, g < H -> stage g < k -> caught_up s' g.
  Proof.
    induction k as [|k IH]; intros s HI HX.
    - exists s. split; [constructor|]. split; [repeat split; reflexivity|]. split; [exact HX|]. intros; lia.
    - destruct (IH s HI HX) as (s1 & S1 & F1 & X1 & P1).
      pose proof (Inv_steps _ _ HI S1) as HI1.
      destruct (stage_sweep k H s1 HI1 X1 (le_n H) P1) as (s2 & S2 & F2 & X2 & P2 & Q2 & _).
      exists s2. split; [eapply steps_trans; eauto|]. split; [eapply pframe_trans; eauto|]. split; [exact X2|].
      intros g Hg Hs. destruct (Nat.eq_dec (stage g) k) as [E|E]; [apply Q2; assumption | apply P2; [assumption | lia]].
  Qed.

  Lemma HInv s : reachable s -> Inv s.
  Proof. intros HR. eapply Inv_reachable; eauto. Qed.

  (* ---- NO DEADLOCK among the handlers: everything published can be consumed ---- *)
  Theorem drain_possible s : reachable s -> no_exit s ->
    exists s', steps s s' /\ pframe s s' /\ forall h, h < H -> caught_up s' h.
  Proof.
    intros HR HX. destruct (stages_sweep (S last) s (HInv s HR) HX) as (s' & S1 & F1 & _ & P1).
    exists s'. split; [exact S1|]. split; [exact F1|]. intros h Hh. apply P1; [exact Hh|]. pose proof (stage_le h Hh). lia.
  Qed.

  (* the producer's own steps are never blocked once it has claimed *)
  Lemma finish_write d : forall s q e m, pp s = PFill q e m -> q <= e -> e - q = d ->
    exists s', steps s s' /\ pp s' = PIdle /\ cursor s' = e /\ (forall h, hp s' h = hp s h).
  Proof.
    induction d as [|d IH]; intros s q e m Hp Hle Hd.
    - assert (q = e) by lia. subst q.
      eexists. split; [eapply steps_step; [eapply p_fill; eauto | eapply steps_one; eapply p_publish]|].
      + cbn. rewrite Nat.eqb_refl. reflexivity.
      + cbn. auto.
    - edestruct (IH (mkSt (cursor s) (hcur s) (pnext s) (pcached s) (if q =? e then PPub e m else PFill (S q) e m) (hp s) (S q) (done s)) (S q) e m)
        as (s' & S1 & A & B & C); try lia.
      + cbn. destruct (Nat.eqb_spec q e); [lia | reflexivity].
      + exists s'. split; [eapply steps_step; [eapply p_fill; eauto | exact S1]|]. auto.
  Qed.

  (* ---- NO DEADLOCK between producer and handlers: a write of up to N events can always complete ---- *)
  Theorem write_possible s c : reachable s -> no_exit s -> pp s = PIdle -> 1 <= c <= N ->
    exists s', steps s s' /\ pp s' = PIdle /\ cursor s' = pnext s + c - 1.
  Proof.
    intros HR HX Hp Hc. destruct (drain_possible s HR HX) as (s1 & S1 & (C1 & C2 & C3 & C4 & C5) & P1).
    pose proof (HInv s HR) as HI.
    pose (s2 := mkSt (cursor s1) (hcur s1) (pnext s1) (pcached s1) (PFill (pnext s1) (pnext s1 + c - 1) (cursor s1)) (hp s1) (fill_ptr s1) (done s1)).
    assert (St : step s1 s2).
    { apply p_claim; [congruence | lia | right; intros h Hh _; destruct (P1 h Hh) as (A & _); lia|].
      destruct HI as [(_ & _ & Z0 & Z1 & _) _]. rewrite C1, C2. destruct (Nat.eq_dec (pnext s) 0) as [E|E]; [rewrite E, (Z0 E); lia|].
      specialize (Z1 ltac:(lia)). lia. }
    destruct (finish_write (pnext s1 + c - 1 - pnext s1) s2 (pnext s1) (pnext s1 + c - 1) (cursor s1) eq_refl ltac:(lia) eq_refl) as (s3 & S3 & A & B & _).
    exists s3. split; [eapply steps_trans; [exact S1 | eapply steps_step; eauto]|]. split; [exact A|]. rewrite B, C2. reflexivity.
  Qed.

  (* ---- join: every handler can reach its exit ---- *)
  Lemma exit_sweep n : forall s, Inv s -> n <= H ->
    exists s', steps s s' /\ pframe s s' /\ (forall h, h < n -> hp s' h = HExit) /\ (forall h, n <= h -> hp s' h = hp s h).
  Proof.
    induction n as [|n IH]; intros s HI Hn.
    - exists s. split; [constructor|]. split; [repeat split; reflexivity|]. split; [intros; lia | auto].
    - destruct (IH s HI ltac:(lia)) as (s1 & S1 & F1 & P1 & Q1).
      pose proof (Inv_steps _ _ HI S1) as HI1.
      destruct (hp s1 n) as [|i a|a|] eqn:Ep.
      4: { exists s1. split; [exact S1|]. split; [exact F1|]. split; [|intros h Hh; apply Q1; lia].
           intros h Hh. destruct (Nat.eq_dec h n) as [->|]; [exact Ep | apply P1; lia]. }
      all: destruct (to_idle s1 n HI1 ltac:(lia) ltac:(congruence)) as (s2 & S2 & F2 & A & _);
        pose proof F2 as (_ & _ & _ & _ & _ & G2);
        (eexists; split; [eapply steps_trans; [exact S1 | eapply steps_trans; [exact S2 | eapply steps_one; eapply (h_exit N H stage last s2 n); [lia | exact A]]]|]);
        cbn; (split; [destruct F1 as (A1 & A2 & A3 & A4 & A5); destruct F2 as (B1 & B2 & B3 & B4 & B5 & _); repeat split; cbn; congruence|]);
        (split; [intros h Hh; destruct (Nat.eq_dec h n) as [->|Hne]; [apply upd_same | rewrite upd_other by exact Hne; destruct (G2 h Hne) as (_ & Y & _); rewrite Y; apply P1; lia]
               | intros h Hh; rewrite upd_other by lia; destruct (G2 h ltac:(lia)) as (_ & Y & _); rewrite Y; apply Q1; lia]).
  Qed.

  Theorem join_possible s : reachable s -> exists s', steps s s' /\ forall h, h < H -> hp s' h = HExit.
  Proof.
    intros HR. destruct (exit_sweep H s (HInv s HR) (le_n H)) as (s' & S1 & _ & P & _).
    exists s'. split; [exact S1 | exact P].
  Qed.
End Progress.
