(* Replay of the logged executions of MULTI-PRODUCER pipelines on the product model Disruptor/MultiPipe.v: the writer threads'
   events drive the sequencer component exactly as in Disruptor/MultiReplay.v (same function), the HANDLER threads' events
   (dependency loads with the values they returned, handler calls / returns, cursor stores) drive the handler component as in
   Disruptor/PipeReplay.v, and the gating value a claim relies on must be a snapshot of the last stage's cursors.
   [replay_sound]: an accepted trace ends in a state reachable in MultiPipe.v - so its theorems (only published sequences, in
   order, stage order, no overwrite before every stage is done) hold for the execution just observed. *)
From Coq Require Import List ZArith Arith Bool Lia.
From DC Require Import Disruptor.Pipeline Disruptor.MultiPub Disruptor.Threads Disruptor.Handlers Disruptor.MultiPipe
                       Disruptor.PipeReplay Disruptor.MultiReplay Disruptor.LiveReplay.
Import ListNotations.

Section MPR.
  Variable N : nat.
  Hypothesis N_pos : 1 <= N.
  Variable H : nat.
  Variable stage : nat -> nat.
  Variable last : nat.

  Notation gids := (PipeReplay.gating_ids H stage last).
  Notation xstep := (MultiPipe.mstep N H stage last).
  Notation pstep := (MultiPub.step N).

  Inductive xsteps : mst -> mst -> Prop :=
  | xs_refl x : xsteps x x
  | xs_step x x' x'' : xstep x x' -> xsteps x' x'' -> xsteps x x''.
  Lemma xsteps_trans a b c : xsteps a b -> xsteps b c -> xsteps a c.
  Proof. induction 1; intros; [assumption | econstructor; eauto]. Qed.
  Lemma xsteps_one a b : xstep a b -> xsteps a b.
  Proof. intros; econstructor; [eassumption | constructor]. Qed.

  (* sequencer steps, labelled: gate-preserving steps of the producers, and gate reads with one given value *)
  Inductive lsteps (v : nat) : MultiPub.st -> MultiPub.st -> Prop :=
  | l_refl m : lsteps v m m
  | l_keep m m' m'' : pstep m m' -> gate m' = gate m -> lsteps v m' m'' -> lsteps v m m''
  | l_gate m m'' : gate m <= v -> lsteps v (with_gate m v) m'' -> lsteps v m m''.
  Lemma lsteps_trans v a b c : lsteps v a b -> lsteps v b c -> lsteps v a c.
  Proof. induction 1; intros; [assumption | eapply l_keep; eauto | eapply l_gate; eauto]. Qed.
  Lemma lsteps_one v a b : pstep a b -> gate b = gate a -> lsteps v a b.
  Proof. intros; eapply l_keep; [eassumption | assumption | constructor]. Qed.

  Definition vgate (q : MultiReplay.rs) : nat :=
    match min_over gids (rhc q) None with Some m => Nat.max (gate (rm q)) m | None => gate (rm q) end.

  Lemma settle_lsteps v b t : lsteps v b (settle b t).
  Proof.
    unfold settle. destruct (tp b t) as [|lo hi|lo hi n|lo hi|lo hi l g|lo hi l g n|lo hi l g c|lo hi l g|lo hi l g] eqn:E; try apply l_refl.
    - destruct (Nat.leb_spec hi g) as [X|X]; [|apply l_refl]. apply lsteps_one; [apply s_scan_end; [exact E | left; exact X] | reflexivity].
    - destruct (Nat.ltb_spec g n) as [X|X]; [|apply l_refl]. apply lsteps_one; [eapply s_unset_done; eauto | reflexivity].
  Qed.

  Ltac bools :=
    repeat match goal with
           | H : _ && _ = true |- _ => apply andb_true_iff in H; destruct H
           | H : (_ <=? _) = true |- _ => apply Nat.leb_le in H
           | H : (_ <? _) = true |- _ => apply Nat.ltb_lt in H
           | H : (_ =? _) = true |- _ => apply Nat.eqb_eq in H
           | H : (_ =? _) = false |- _ => apply Nat.eqb_neq in H
           end.

  (* the sequencer replay of Disruptor/MultiReplay.v, with its steps labelled *)
  Lemma seq_replay_labelled r e r' :
    MultiReplay.replay_step N gids r e = Some r' -> lsteps (vgate r) (rm r) (rm r').
  Proof.
    unfold MultiReplay.replay_step. set (b := rm r). set (t := MultiReplay.zn (e_tid e)). set (v0 := vgate r).
    assert (GO : forall b', lsteps v0 b b' -> lsteps v0 b (settle b' t)) by (intros b' Hb; eapply lsteps_trans; [exact Hb | apply settle_lsteps]).
    destruct ((e_kind e =? kSTORE)%Z && (e_cls e =? cHCUR)%Z); [intros E; inversion E; subst; cbn; apply l_refl|].
    destruct ((e_kind e =? kCAS)%Z && (e_cls e =? cINLINE)%Z).
    { destruct (e_ok e =? 1)%Z; [|intros E; inversion E; subst; apply l_refl].
      destruct (tp b t) eqn:Et; try discriminate.
      match goal with |- context [if ?c then _ else None] => destruct c eqn:Ec end; [|discriminate].
      intros E; inversion E; subst r'; cbn [rm]. apply GO. bools.
      fold b in v0. change (match min_over gids (rhc r) None with Some m => Nat.max (gate b) m | None => gate b end) with v0 in *.
      eapply l_gate; [unfold v0, vgate; fold b; destruct (min_over gids (rhc r) None); lia|].
      apply lsteps_one; [|reflexivity].
      apply (s_claim N (with_gate b v0) t (MultiReplay.zn (e_b e - e_a e))); cbn; [exact Et | assumption | assumption]. }
    destruct (e_kind e =? kFOR)%Z.
    { destruct (tp b t) as [|lo hi|lo hi n|lo hi|lo hi l g|lo hi l g n|lo hi l g c|lo hi l g|lo hi l g] eqn:Et; try discriminate.
      - match goal with |- context [if ?c then _ else None] => destruct c eqn:Ec end; [|discriminate].
        intros E; inversion E; subst r'; cbn [rm]. apply GO. bools.
        eapply l_keep; [apply (s_begin N b t lo hi); exact Et | reflexivity|]. apply lsteps_one; [|reflexivity].
        pose (b1 := mkSt (bits b) (lw b) (cursor b) (high b) (gate b) (setp b t (TSet lo hi lo)) (pub b) (bsrc b) (own b)).
        assert (X : pstep b1 (mkSt (MultiPub.upd (bits b1) (lo mod N) true) (lw b1) (cursor b1) (high b1) (gate b1)
                                  (setp b1 t (TSet lo hi (S lo))) (MultiPub.upd (pub b1) lo true) (MultiPub.upd (bsrc b1) (lo mod N) lo) (own b1))).
        { apply s_set; [unfold b1; cbn; apply MultiPub.upd_same | assumption]. }
        unfold b1, setp in X; cbn in X. exact X.
      - match goal with |- context [if ?c then _ else None] => destruct c eqn:Ec end; [|discriminate].
        intros E; inversion E; subst r'; cbn [rm]. apply GO. bools. apply lsteps_one; [apply s_set; assumption | reflexivity]. }
    destruct ((e_kind e =? kLOAD)%Z && (e_cls e =? cINLINE)%Z).
    { destruct (tp b t) as [|lo hi|lo hi n|lo hi|lo hi l g|lo hi l g n|lo hi l g c|lo hi l g|lo hi l g] eqn:Et;
        try (intros E; inversion E; subst; apply l_refl).
      match goal with |- context [if ?c then _ else None] => destruct c eqn:Ec end; [|discriminate].
      intros E; inversion E; subst r'; cbn [rm]. apply GO. bools.
      eapply l_keep; [apply (s_set_done N b t lo hi n); assumption | reflexivity|]. apply lsteps_one; [|reflexivity].
      pose (b1 := mkSt (bits b) (lw b) (cursor b) (high b) (gate b) (setp b t (TReadLw lo hi)) (pub b) (bsrc b) (own b)).
      assert (X : pstep b1 (mkSt (bits b1) (lw b1) (cursor b1) (high b1) (gate b1) (setp b1 t (TScan lo hi (lw b1) (lw b1))) (pub b1) (bsrc b1) (own b1))).
      { apply s_read_lw. unfold b1; cbn. apply MultiPub.upd_same. }
      unfold b1, setp in X; cbn in X. exact X. }
    destruct ((e_kind e =? kLOAD)%Z && (e_cls e =? cHEAP)%Z).
    { destruct (tp b t) as [|lo hi|lo hi n|lo hi|lo hi l g|lo hi l g n|lo hi l g c|lo hi l g|lo hi l g] eqn:Et; try discriminate.
      destruct (g <? hi) eqn:Eg; [|discriminate].
      destruct (Z.testbit (e_obs e) (Z.of_nat ((S g mod N) mod 64))) eqn:Eb;
        destruct (bits b (S g mod N)) eqn:Ebit; cbn [Bool.eqb]; try discriminate;
        intros E; inversion E; subst r'; cbn [rm]; apply GO; bools; (apply lsteps_one; [|reflexivity]).
      - apply s_scan_more; [exact Et | assumption | exact Ebit].
      - apply s_scan_end; [exact Et | right; exact Ebit]. }
    destruct (e_kind e =? kFAND)%Z.
    { destruct (tp b t) as [|lo hi|lo hi n|lo hi|lo hi l g|lo hi l g n|lo hi l g c|lo hi l g|lo hi l g] eqn:Et; try discriminate.
      match goal with |- context [if ?x && ?y then _ else None] => destruct (x && y) eqn:En; [|discriminate] end.
      intros E; inversion E; subst r'; cbn [rm]. apply GO. bools. apply lsteps_one; [apply s_unset; assumption | reflexivity]. }
    destruct ((e_kind e =? kCAS)%Z && (e_cls e =? cPCUR)%Z).
    { destruct (tp b t) as [|lo hi|lo hi n|lo hi|lo hi l g|lo hi l g n|lo hi l g c|lo hi l g|lo hi l g] eqn:Et; try discriminate.
      match goal with |- context [if ?x && ?y then _ else None] => destruct (x && y) eqn:Ec; [|discriminate] end.
      destruct (e_ok e =? 1)%Z; destruct (cursor b =? c) eqn:Ecur; try discriminate;
        intros E; inversion E; subst r'; cbn [rm]; apply GO; bools; (apply lsteps_one; [|reflexivity]).
      + eapply s_cas_ok; eauto.
      + eapply s_cas_fail; eauto. }
    destruct ((e_kind e =? kLOAD)%Z && (e_cls e =? cPCUR)%Z).
    { destruct (tp b t) as [|lo hi|lo hi n|lo hi|lo hi l g|lo hi l g n|lo hi l g c|lo hi l g|lo hi l g] eqn:Et;
        try (intros E; inversion E; subst; apply l_refl).
      destruct (MultiReplay.zn (e_obs e) =? cursor b); [|discriminate].
      intros E; inversion E; subst r'; cbn [rm]. apply GO. apply lsteps_one; [apply s_cas_load; exact Et | reflexivity]. }
    destruct ((e_kind e =? kSTORE)%Z && (e_cls e =? cINLINE)%Z).
    { destruct (tp b t) as [|lo hi|lo hi n|lo hi|lo hi l g|lo hi l g n|lo hi l g c|lo hi l g|lo hi l g] eqn:Et; try discriminate.
      destruct (MultiReplay.zn (e_a e) =? g); [|discriminate].
      intros E; inversion E; subst r'; cbn [rm]. apply GO. apply lsteps_one; [eapply s_set_lw; exact Et | reflexivity]. }
    intros E; inversion E; subst; apply l_refl.
  Qed.

  (* ---------- lifting labelled sequencer steps into the product ------------------------------------------------- *)
  Lemma with_cur_eta h c : cur h = c -> with_cur h c = h.
  Proof. intros <-. destruct h; reflexivity. Qed.

  Lemma lift_lsteps v m m' : lsteps v m m' -> forall h, cur h = MultiPub.cursor m ->
    (forall l, l < H -> stage l = last -> v <= Handlers.hcur h l) ->
    xsteps (mkM m h) (mkM m' (with_cur h (MultiPub.cursor m'))).
  Proof.
    induction 1 as [m | m m1 m2 Hs Hg _ IH | m m2 Hv _ IH]; intros h Hc Hl.
    - rewrite with_cur_eta by exact Hc. constructor.
    - eapply xs_step; [apply m_prod; eassumption|].
      apply (IH (with_cur h (MultiPub.cursor m1))); [reflexivity | exact Hl].
    - eapply xs_step; [apply m_gate; [exact Hv | exact Hl]|]. apply IH; [exact Hc | exact Hl].
  Qed.

  (* ---------- the product replay --------------------------------------------------------------------------------- *)
  Record prs := mkP {
    pq : MultiReplay.rs;                 (* sequencer component + consumer cursors as last stored *)
    ph : Handlers.hst;                   (* handler component *)
    pobs : nat -> nat -> option nat      (* handler h: dependency key (0 = producer cursor, S g = handler g) -> last loaded value *)
  }.
  Definition pst (r : prs) : mst := mkM (rm (pq r)) (ph r).

  Definition ids : list nat := seq 0 H.
  Definition hdep_ok_b (s : hst) (h a : nat) : bool :=
    (if stage h =? 0 then a <=? cur s else true) &&
    forallb (fun g => a <=? Handlers.hcur s g) (filter (fun g => S (stage g) =? stage h) ids).

  Lemma hdep_ok_b_ok s h a : hdep_ok_b s h a = true -> Handlers.dep_ok H stage s h a.
  Proof.
    unfold hdep_ok_b, Handlers.dep_ok. rewrite andb_true_iff, forallb_forall. intros [H1 H2]. split.
    - intros E. rewrite E in H1. cbn in H1. apply Nat.leb_le, H1.
    - intros g Hg Eg. apply Nat.leb_le, H2. apply filter_In. split; [apply in_seq; lia | apply Nat.eqb_eq, Eg].
  Qed.

  Definition gate_ok_b (v : nat) (s : hst) : bool := forallb (fun l => v <=? Handlers.hcur s l) gids.
  Lemma gate_ok_b_ok v s : gate_ok_b v s = true -> forall l, l < H -> stage l = last -> v <= Handlers.hcur s l.
  Proof.
    unfold gate_ok_b. rewrite forallb_forall. intros Hf l Hl El. apply Nat.leb_le, Hf.
    unfold PipeReplay.gating_ids. apply filter_In. split; [apply in_seq; lia | apply Nat.eqb_eq, El].
  Qed.

  Definition with_h (r : prs) (h' : hst) : prs := mkP (pq r) h' (pobs r).

  Definition replay_step (r : prs) (e : ev) : option prs :=
    let s := ph r in
    let t := MultiReplay.zn (e_tid e) in
    if (1 <=? t) && (t <=? H) then
      (* handler h = t - 1 *)
      let h := t - 1 in
      if (e_kind e =? kLOAD)%Z && (e_cls e =? cPCUR)%Z then
        Some (mkP (pq r) s (upd2 (pobs r) h 0 (MultiReplay.zn (e_obs e))))
      else if (e_kind e =? kLOAD)%Z && (e_cls e =? cHCUR)%Z then
        Some (mkP (pq r) s (upd2 (pobs r) h (S (MultiReplay.zn (e_off e))) (MultiReplay.zn (e_obs e))))
      else if (e_kind e =? kCALL)%Z then
        let i := MultiReplay.zn (e_a e) in
        match Handlers.hp s h with
        | HIdle =>
            match min_obs (pobs r h) (PipeReplay.dep_keys H stage h) None with
            | Some (Some a) =>
                if (Handlers.hcur s h + 1 <=? a) && hdep_ok_b s h a && (i =? Handlers.hcur s h + 1) then
                  Some (with_h r (mkH (cur s) (Handlers.hcur s) (Pipeline.upd (Handlers.hp s) h (HBatch (Handlers.hcur s h + 1) a)) (Handlers.done s)))
                else None
            | _ => None
            end
        | HBatch i' _ => if i =? i' then Some r else None
        | _ => None
        end
      else if (e_kind e =? kRET)%Z then
        match Handlers.hp s h with
        | HBatch i a =>
            if MultiReplay.zn (e_a e) =? i then
              Some (with_h r (mkH (cur s) (Handlers.hcur s) (Pipeline.upd (Handlers.hp s) h (if i =? a then HStore a else HBatch (S i) a))
                                  (Pipeline.upd (Handlers.done s) h i)))
            else None
        | _ => None
        end
      else if (e_kind e =? kSTORE)%Z && (e_cls e =? cHCUR)%Z then
        match Handlers.hp s h with
        | HStore a =>
            if (MultiReplay.zn (e_a e) =? a) && (MultiReplay.zn (e_off e) =? h) then
              Some (mkP (mkR (rm (pq r)) (MultiPub.upd (rhc (pq r)) h a))
                        (mkH (cur s) (Pipeline.upd (Handlers.hcur s) h a) (Pipeline.upd (Handlers.hp s) h HIdle) (Handlers.done s))
                        (pobs r))
            else None
        | _ => None
        end
      else Some r
    else
      (* a writer thread or the main thread: the sequencer component *)
      if (e_kind e =? kSTORE)%Z && (e_cls e =? cHCUR)%Z then None      (* only handler threads store handler cursors *)
      else if gate_ok_b (vgate (pq r)) s then
        match MultiReplay.replay_step N gids (pq r) e with
        | Some q' => Some (mkP q' (with_cur s (MultiPub.cursor (rm q'))) (pobs r))
        | None => None
        end
      else None.

  Definition PI (r : prs) : Prop := cur (ph r) = MultiPub.cursor (rm (pq r)).

  Theorem replay_step_sound r e r' : PI r -> replay_step r e = Some r' -> xsteps (pst r) (pst r') /\ PI r'.
  Proof.
    intros HI. unfold replay_step. set (s := ph r). set (t := MultiReplay.zn (e_tid e)).
    assert (Est : pst r = mkM (rm (pq r)) s) by reflexivity.
    destruct ((1 <=? t) && (t <=? H)) eqn:Et.
    - bools. set (h := t - 1). assert (Hh : h < H) by (unfold h; lia).
      assert (KEEP : forall s', Handlers.hstep H stage s s' -> cur s' = cur s -> xsteps (pst r) (mkM (rm (pq r)) s') /\ cur s' = MultiPub.cursor (rm (pq r))).
      { intros s' Hs Hc. split; [rewrite Est; apply xsteps_one; apply m_hand; assumption | rewrite Hc; exact HI]. }
      destruct ((e_kind e =? kLOAD)%Z && (e_cls e =? cPCUR)%Z); [intros E; inversion E; subst; split; [constructor | exact HI]|].
      destruct ((e_kind e =? kLOAD)%Z && (e_cls e =? cHCUR)%Z); [intros E; inversion E; subst; split; [constructor | exact HI]|].
      destruct (e_kind e =? kCALL)%Z.
      { destruct (Handlers.hp s h) as [|i' a'|a'|] eqn:Ehp; try discriminate.
        - destruct (min_obs (pobs r h) (PipeReplay.dep_keys H stage h) None) as [[a|]|]; try discriminate.
          match goal with |- context [if ?c then _ else None] => destruct c eqn:Ec end; [|discriminate].
          intros E; inversion E; subst r'. bools. unfold pst, PI; cbn [pq ph with_h].
          apply KEEP; [apply a_wait; [exact Hh | exact Ehp | assumption | apply hdep_ok_b_ok; assumption] | reflexivity].
        - destruct (MultiReplay.zn (e_a e) =? i'); [|discriminate]. intros E; inversion E; subst; split; [constructor | exact HI]. }
      destruct (e_kind e =? kRET)%Z.
      { destruct (Handlers.hp s h) as [|i a|a|] eqn:Ehp; try discriminate.
        destruct (MultiReplay.zn (e_a e) =? i); [|discriminate].
        intros E; inversion E; subst r'. unfold pst, PI; cbn [pq ph with_h].
        apply KEEP; [apply a_handle; assumption | reflexivity]. }
      destruct ((e_kind e =? kSTORE)%Z && (e_cls e =? cHCUR)%Z); [|intros E; inversion E; subst; split; [constructor | exact HI]].
      destruct (Handlers.hp s h) as [|i a|a|] eqn:Ehp; try discriminate.
      match goal with |- context [if ?c then _ else None] => destruct c eqn:Ec end; [|discriminate].
      intros E; inversion E; subst r'. unfold pst, PI; cbn [pq ph rm].
      apply KEEP; [apply a_store; assumption | reflexivity].
    - destruct ((e_kind e =? kSTORE)%Z && (e_cls e =? cHCUR)%Z); [discriminate|].
      destruct (gate_ok_b (vgate (pq r)) s) eqn:Eg; [|discriminate].
      destruct (MultiReplay.replay_step N gids (pq r) e) as [q'|] eqn:Eq; [|discriminate].
      intros E; inversion E; subst r'. unfold pst, PI; cbn [pq ph]. split; [|reflexivity].
      apply (lift_lsteps (vgate (pq r))); [apply (seq_replay_labelled (pq r) e q' Eq) | exact HI | apply gate_ok_b_ok; exact Eg].
  Qed.

  Fixpoint replay (r : prs) (l : list ev) (i : Z) : Z * prs :=
    match l with
    | [] => ((-1)%Z, r)
    | e :: t => match replay_step r e with Some r' => replay r' t (i + 1)%Z | None => (i, r) end
    end.

  Definition pinit : prs := mkP MultiReplay.rinit Handlers.hinit (fun _ _ => None).

  Lemma replay_steps : forall l r i r', PI r -> replay r l i = ((-1)%Z, r') -> xsteps (pst r) (pst r').
  Proof.
    induction l as [|e t IH]; intros r i r' HI Hr; cbn [replay] in Hr.
    - inversion Hr; subst. constructor.
    - destruct (replay_step r e) as [r1|] eqn:E.
      + destruct (replay_step_sound r e r1 HI E) as [S1 I1]. eapply xsteps_trans; [exact S1 | eapply IH; eauto].
      + inversion Hr; subst. constructor.
  Qed.

  (* AN ACCEPTED TRACE IS AN EXECUTION OF THE PRODUCT MODEL *)
  Theorem replay_sound l r' : replay pinit l 0 = ((-1)%Z, r') -> MultiPipe.mreachable N H stage last (pst r').
  Proof.
    intros Hr. apply replay_steps in Hr; [|reflexivity].
    assert (K : forall a b, xsteps a b -> MultiPipe.mreachable N H stage last a -> MultiPipe.mreachable N H stage last b).
    { induction 1; intros; [assumption | apply IHxsteps; econstructor; eauto]. }
    eapply K; [exact Hr | apply mreach_init].
  Qed.
End MPR.

(* entry: same coding as ring_validate_entry; -2 for single-producer traces *)
Definition multipipe_replay_entry (l : list Z) : list Z :=
  match l with
  | n :: multi :: block :: drain :: ns :: rest =>
      let '(stages, rest1) := take_lists (Z.to_nat ns) rest in
      match rest1 with
      | nw :: rest2 =>
          let '(writers, evs) := take_lists (Z.to_nat nw) rest2 in
          if (multi =? 0)%Z then [(-2)%Z]
          else
            let sizes := map (@length Z) stages in
            let H := fold_right Nat.add 0 sizes in
            [fst (replay (Z.to_nat n) H (fun h => stage_of sizes h 0) (length sizes - 1) (pinit) (events_of (length evs) evs) 0)]
      | [] => [(-3)%Z]
      end
  | _ => [(-3)%Z]
  end.

(* what an accepted multi-producer execution is thereby known to satisfy (stage hypotheses discharged for the configuration's
   stage sizes): handlers only at published sequences and in order; stage order; no overwrite before every stage is done *)
Theorem replayed_multi_pipeline_properties N sizes l r' :
  1 <= N -> sizes <> [] -> Forall (fun n => 1 <= n) sizes ->
  let H := fold_right Nat.add 0 sizes in let stage := fun h => stage_of sizes h 0 in let last := length sizes - 1 in
  replay N H stage last pinit l 0 = ((-1)%Z, r') ->
  let x := pst r' in
  (forall h i a, h < H -> Handlers.hp (hs x) h = HBatch i a -> pub (ms x) i = true /\ i = S (Handlers.done (hs x) h)) /\
  (forall h i a g, h < H -> g < H -> Handlers.hp (hs x) h = HBatch i a -> S (stage g) = stage h -> i <= Handlers.done (hs x) g) /\
  (forall t lo hi, tp (ms x) t = TClaimed lo hi -> forall q h, lo <= q <= hi -> h < H -> q < Handlers.done (hs x) h + N).
Proof.
  intros HN Hne Hsz H stage last Hr x.
  assert (Hle : forall h, h < H -> stage h <= last) by (intros h Hh; apply (LiveReplay.stage_of_le sizes h 0 Hh)).
  assert (Hhit : forall k, k <= last -> exists h, h < H /\ stage h = k).
  { intros k Hk. destruct (LiveReplay.stage_of_hit sizes Hsz k 0) as (h & Hh & E); [destruct sizes; [congruence | cbn in *; lia]|].
    exists h. split; [exact Hh | exact E]. }
  pose proof (replay_sound N HN H stage last l r' Hr) as HR. fold x in HR.
  split; [|split].
  - intros h i a Hh Hb. apply (mp_handles_only_published N HN H stage last Hle Hhit x h i a HR Hh Hb).
  - intros h i a g Hh Hg Hb Es. apply (mp_stage_order N HN H stage last Hle Hhit x h i a g HR Hh Hg Hb Es).
  - intros t lo hi Ht q h Hq Hh. apply (mp_no_overwrite_any_stage N HN H stage last Hle Hhit x t lo hi HR Ht q h Hq Hh).
Qed.
