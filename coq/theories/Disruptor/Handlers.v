(* The HANDLER SIDE of a pipeline over an ABSTRACT producer: the producer cursor is only known to be monotone (any number of
   producers, any publish mechanism).  Handlers are exactly those of Disruptor/Pipeline.v (batch_event_processor.rs run loop,
   processing_sequence_barrier.rs): any number of barrier stages and handlers per stage, any batch sizes, any interleaving;
   reading several cursors is one step returning any value not above the current values.
   What a handler side guarantees on its own: in order / exactly once / no gaps, nothing above the producer cursor, stage
   order, the last stage is the slowest.  Combined with "everything at or below the cursor is published" of a sequencer
   (Disruptor/MultiPub.v for the multi producer) this is delivery for pipelines of any topology: Disruptor/MultiPipe.v. *)
From Coq Require Import Arith Lia Bool.
From DC Require Import Disruptor.Pipeline.

Section Handlers.
  Variable H : nat.
  Variable stage : nat -> nat.
  Variable last : nat.
  Hypothesis stage_le : forall h, h < H -> stage h <= last.
  Hypothesis stage_nonempty : forall k, k <= last -> exists h, h < H /\ stage h = k.

  Record hst := mkH {
    cur : nat;                      (* the producer cursor as the handlers see it *)
    hcur : nat -> nat;              (* handler cursors *)
    hp : nat -> hpc;
    done : nat -> nat               (* ghost: handler h has returned from sequences 1..done h *)
  }.

  Definition dep_ok (s : hst) (h a : nat) : Prop :=
    (stage h = 0 -> a <= cur s) /\
    (forall g, g < H -> S (stage g) = stage h -> a <= hcur s g).

  Definition hinit : hst := mkH 0 (fun _ => 0) (fun _ => HIdle) (fun _ => 0).

  Inductive hstep : hst -> hst -> Prop :=
  | e_publish s c :                                    (* the environment: the cursor moves up *)
      cur s <= c -> hstep s (mkH c (hcur s) (hp s) (done s))
  | a_wait s h a :
      h < H -> hp s h = HIdle -> hcur s h + 1 <= a -> dep_ok s h a ->
      hstep s (mkH (cur s) (hcur s) (upd (hp s) h (HBatch (hcur s h + 1) a)) (done s))
  | a_handle s h i a :
      h < H -> hp s h = HBatch i a ->
      hstep s (mkH (cur s) (hcur s) (upd (hp s) h (if i =? a then HStore a else HBatch (S i) a)) (upd (done s) h i))
  | a_store s h a :
      h < H -> hp s h = HStore a ->
      hstep s (mkH (cur s) (upd (hcur s) h a) (upd (hp s) h HIdle) (done s))
  | a_exit s h :
      h < H -> hp s h = HIdle ->
      hstep s (mkH (cur s) (hcur s) (upd (hp s) h HExit) (done s)).

  Inductive hreachable : hst -> Prop :=
  | hreach_init : hreachable hinit
  | hreach_step s s' : hreachable s -> hstep s s' -> hreachable s'.

  Definition hand_inv (s : hst) (h : nat) : Prop :=
    dep_ok s h (hcur s h) /\
    match hp s h with
    | HIdle | HExit => done s h = hcur s h
    | HBatch i a => S (done s h) = i /\ hcur s h + 1 <= i /\ i <= a /\ dep_ok s h a
    | HStore a => done s h = a /\ hcur s h < a /\ dep_ok s h a
    end.

  Definition HInv (s : hst) : Prop := forall h, h < H -> hand_inv s h.

  Lemma dep_ok_ext s s' h a :
    cur s <= cur s' -> (forall g, hcur s g <= hcur s' g) -> dep_ok s h a -> dep_ok s' h a.
  Proof.
    intros Hc Hh [D1 D2]. split.
    - intros E. specialize (D1 E). lia.
    - intros g Hg E. specialize (D2 g Hg E). specialize (Hh g). lia.
  Qed.

  Lemma hand_inv_mono s s' g :
    hand_inv s g -> cur s <= cur s' -> (forall x, hcur s x <= hcur s' x) ->
    hcur s' g = hcur s g -> hp s' g = hp s g -> done s' g = done s g -> hand_inv s' g.
  Proof.
    intros [D0 HI] Hc Hh E1 E2 E3. unfold hand_inv. rewrite E1, E2, E3. split.
    - eapply dep_ok_ext; eauto.
    - destruct (hp s g); auto.
      + destruct HI as (A & B & C & D). split; [exact A|]. split; [exact B|]. split; [exact C|]. eapply dep_ok_ext; eauto.
      + destruct HI as (A & B & D). split; [exact A|]. split; [exact B|]. eapply dep_ok_ext; eauto.
  Qed.

  Lemma HInv_init : HInv hinit.
  Proof. intros h Hh. unfold hand_inv, dep_ok, hinit; cbn. repeat split; auto; try lia. Qed.

  Theorem HInv_step s s' : HInv s -> hstep s s' -> HInv s'.
  Proof.
    intros HH Hs. destruct Hs as [s c Hc | s h a Hh Hhp Ha Hd | s h i a Hh Hhp | s h a Hh Hhp | s h Hh Hhp].
    - intros g Hg. apply (hand_inv_mono s _ g (HH g Hg)); cbn; auto.
    - intros g Hg. unfold hand_inv; cbn [hp hcur done cur].
      destruct (Nat.eq_dec g h) as [->|Hne].
      + rewrite upd_same. pose proof (HH h Hh) as [D0 HI]. rewrite Hhp in HI.
        split; [exact D0|]. repeat split; auto; try lia; apply Hd.
      + rewrite upd_other by exact Hne. exact (HH g Hg).
    - intros g Hg. unfold hand_inv; cbn [hp hcur done cur].
      destruct (Nat.eq_dec g h) as [->|Hne].
      + rewrite !upd_same. pose proof (HH h Hh) as [D0 HI]. rewrite Hhp in HI. destruct HI as (A & B & C & D).
        split; [exact D0|]. destruct (Nat.eqb_spec i a) as [->|Hia].
        * split; [lia|]. split; [lia|]. exact D.
        * split; [lia|]. split; [lia|]. split; [lia|]. exact D.
      + rewrite !upd_other by exact Hne. exact (HH g Hg).
    - pose proof (HH h Hh) as [D0 HI]. rewrite Hhp in HI. destruct HI as (A & B & D).
      assert (Hmono : forall g, hcur s g <= upd (hcur s) h a g).
      { intros g. unfold upd. destruct (Nat.eqb_spec g h) as [->|]; lia. }
      intros g Hg. destruct (Nat.eq_dec g h) as [->|Hne].
      + unfold hand_inv; cbn [hp hcur done cur]. rewrite !upd_same. split; [|exact A].
        eapply dep_ok_ext; [| |exact D]; cbn; auto.
      + apply (hand_inv_mono s _ g (HH g Hg)); cbn [cur hcur hp done]; auto; rewrite ?upd_other by exact Hne; reflexivity.
    - intros g Hg. unfold hand_inv; cbn [hp hcur done cur].
      destruct (Nat.eq_dec g h) as [->|Hne].
      + rewrite upd_same. pose proof (HH h Hh) as [D0 HI]. rewrite Hhp in HI. split; [exact D0 | exact HI].
      + rewrite upd_other by exact Hne. exact (HH g Hg).
  Qed.

  Theorem HInv_reachable s : hreachable s -> HInv s.
  Proof. induction 1; [apply HInv_init | eapply HInv_step; eauto]. Qed.

  (* ---------- consequences of the invariant (stated on HInv so that they can be used in a product system) ---------- *)
  Lemma dep_le_cur s : HInv s -> forall h a, h < H -> dep_ok s h a -> a <= cur s.
  Proof.
    intros HH. assert (K : forall k h a, h < H -> stage h = k -> dep_ok s h a -> a <= cur s).
    { induction k as [|k IH]; intros h a Hh Ek [D1 D2]; [auto|].
      destruct (stage_nonempty k) as (g & Hg & Eg); [pose proof (stage_le h Hh); lia|].
      specialize (D2 g Hg ltac:(lia)). destruct (HH g Hg) as [Dg _].
      specialize (IH g (hcur s g) Hg Eg Dg). lia. }
    intros h a Hh Hd. eapply K; eauto.
  Qed.

  Lemma hcur_le_cur s h : HInv s -> h < H -> hcur s h <= cur s.
  Proof. intros HH Hh. eapply dep_le_cur; eauto. apply (HH h Hh). Qed.

  Lemma hcur_le_done s h : HInv s -> h < H -> hcur s h <= done s h.
  Proof. intros HH Hh. destruct (HH h Hh) as [_ X]. destruct (hp s h); lia. Qed.

  Lemma last_stage_slowest s : HInv s -> forall d h, h < H -> last - stage h = d ->
    exists l, l < H /\ stage l = last /\ hcur s l <= hcur s h.
  Proof.
    intros HH. induction d as [|d IH]; intros h Hh Hd.
    - exists h. pose proof (stage_le h Hh). repeat split; auto; lia.
    - pose proof (stage_le h Hh) as Hle.
      destruct (stage_nonempty (S (stage h)) ltac:(lia)) as (g & Hg & Eg).
      destruct (IH g Hg ltac:(lia)) as (l & Hl & El & Hlg).
      exists l. repeat split; auto.
      destruct (HH g Hg) as [[_ D] _]. specialize (D h Hh). rewrite Eg in D. specialize (D eq_refl). lia.
  Qed.

  (* in order, exactly once, no gaps *)
  Theorem in_order s h i a : HInv s -> h < H -> hp s h = HBatch i a -> i = S (done s h).
  Proof. intros HH Hh Hhp. destruct (HH h Hh) as [_ X]. rewrite Hhp in X. lia. Qed.

  (* nothing above the producer cursor is ever handled *)
  Theorem only_below_cursor s h i a : HInv s -> h < H -> hp s h = HBatch i a -> 1 <= i /\ i <= cur s.
  Proof.
    intros HH Hh Hhp. destruct (HH h Hh) as [_ X]. rewrite Hhp in X. destruct X as (A & B & C & D).
    pose proof (dep_le_cur s HH h a Hh D). lia.
  Qed.

  (* stage order *)
  Theorem stage_order s h i a g :
    HInv s -> h < H -> g < H -> hp s h = HBatch i a -> S (stage g) = stage h -> i <= done s g.
  Proof.
    intros HH Hh Hg Hhp E. destruct (HH h Hh) as [_ X]. rewrite Hhp in X. destruct X as (_ & _ & C & [_ D2]).
    specialize (D2 g Hg E). destruct (HH g Hg) as [_ Y]. destruct (hp s g); lia.
  Qed.

  (* all earlier stages are done with i, no later stage has touched it *)
  Theorem earlier_done_later_untouched s h i a :
    HInv s -> h < H -> hp s h = HBatch i a ->
    (forall g, g < H -> stage g < stage h -> i <= done s g) /\
    (forall g, g < H -> stage h < stage g -> done s g < i).
  Proof.
    intros HH Hh Hhp. destruct (HH h Hh) as [D0 X]. rewrite Hhp in X. destruct X as (A & B & C & D).
    assert (Hchain : forall d g1 g2, g1 < H -> g2 < H -> stage g1 + S d = stage g2 -> forall x, dep_ok s g2 x -> x <= hcur s g1).
    { induction d as [|d IH]; intros g1 g2 H1 H2 E x [_ X2].
      - apply X2; auto. lia.
      - destruct (stage_nonempty (S (stage g1)) ltac:(pose proof (stage_le g2 H2); lia)) as (g' & Hg' & Eg').
        destruct (HH g' Hg') as [[_ D'] _]. specialize (D' g1 H1 ltac:(lia)).
        assert (x <= hcur s g') by (apply (IH g' g2 Hg' H2 ltac:(lia) x); split; [intros; lia | exact X2]).
        lia. }
    split.
    - intros g Hg Hlt. specialize (Hchain (stage h - stage g - 1) g h Hg Hh ltac:(lia) a D).
      pose proof (hcur_le_done s g HH Hg). lia.
    - intros g Hg Hlt. destruct (HH g Hg) as [E0 Y].
      assert (K : forall x, dep_ok s g x -> x <= hcur s h) by (intros x Dx; apply (Hchain (stage g - stage h - 1) h g Hh Hg ltac:(lia) x Dx)).
      destruct (hp s g) as [|i' a'|a'|]; try (specialize (K _ E0); lia).
      + destruct Y as (Y1 & Y2 & Y3 & Y4). specialize (K _ Y4). lia.
      + destruct Y as (Y1 & Y2 & Y4). specialize (K _ Y4). lia.
  Qed.
End Handlers.
