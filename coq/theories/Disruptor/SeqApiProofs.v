(* C14, sequential view: theorems about Disruptor/SeqApi.v *)
From Coq Require Import List NArith ZArith Bool Lia.
From DC Require Import Common.ListAux BitMap.Model BitMap.Proofs Disruptor.SeqApi.
Import ListNotations.
Local Open Scope N_scope.

(* ================= SingleProducerSequencer ================= *)
(* outstanding claims form a chain of consecutive non-empty ranges from [start] up to the next sequence to claim *)
Fixpoint chain (start : N) (out : list (N * N)) (nextw : N) : Prop :=
  match out with
  | [] => start = nextw
  | (lo, hi) :: r => lo = start /\ lo <= hi /\ chain (hi + 1) r nextw
  end.

Lemma chain_app start out nextw e : chain start out nextw -> nextw <= e -> chain start (out ++ [(nextw, e)]) (e + 1).
Proof.
  revert start. induction out as [|[lo hi] r IH]; cbn [chain app]; intros start Hc He.
  - subst. repeat split; lia.
  - destruct Hc as (A & B & C). repeat split; auto.
Qed.

Lemma chain_le start out nextw : chain start out nextw -> start <= nextw.
Proof.
  revert start. induction out as [|[lo hi] r IH]; cbn [chain]; intros start Hc; [lia|].
  destruct Hc as (A & B & C). specialize (IH _ C). lia.
Qed.

Definition sp_rel (s : sp) (c : cst) (out : list (N * N)) : Prop :=
  c_out c = out /\ c_cur c = sp_cursor s /\
  c_last c = (if sp_nextw s =? 0 then None else Some (sp_nextw s - 1)) /\
  exists start, chain start out (sp_nextw s) /\ sp_cursor s = start - 1.

Lemma bound_chain start out nextw :
  chain start out nextw -> bound out (if nextw =? 0 then None else Some (nextw - 1)) = start - 1.
Proof.
  destruct out as [|[lo hi] r]; cbn [chain bound].
  - intros ->. destruct (N.eqb_spec nextw 0) as [->|]; reflexivity.
  - intros (-> & _). reflexivity.
Qed.

Lemma sp_next_keeps_cursor s c s' a b : sp_step s (SNext c) = (s', RClaim a b) ->
  sp_cursor s' = sp_cursor s /\ a = sp_nextw s /\ b = sp_nextw s + (c - 1) /\ sp_nextw s' = b + 1.
Proof.
  cbn [sp_step]. destruct (_ <? _); [destruct (_ <? _)|]; intros E; inversion E; subst; cbn; auto.
Qed.

Theorem sp_run_checks : forall l s c out,
  sp_rel s c out -> sp_wf s out l = true -> check true c l (sp_run s l) = 0.
Proof.
  induction l as [|o r IH]; intros s c out HR Hwf; [reflexivity|].
  destruct HR as (Hout & Hcur & Hlast & start & Hch & Hcs).
  cbn [sp_wf] in Hwf. cbn [sp_run].
  destruct (sp_step s o) as [s' x] eqn:Est.
  destruct o as [n|lo hi|i v].
  - (* next *)
    destruct x as [a b| |]; try discriminate.
    apply andb_true_iff in Hwf. destruct Hwf as [Hn Hwf]. apply N.leb_le in Hn.
    destruct (sp_next_keeps_cursor _ _ _ _ _ Est) as (K1 & K2 & K3 & K4).
    cbn [check check_step]. rewrite Hlast, Hout.
    assert (Hb : a <= b) by lia.
    pose proof (chain_app _ _ _ b Hch ltac:(lia)) as Hch'. rewrite <- K2 in Hch'.
    assert (E1 : (match (if sp_nextw s =? 0 then None else Some (sp_nextw s - 1)) with Some l => negb (a =? l + 1) | None => false end) = false).
    { destruct (N.eqb_spec (sp_nextw s) 0); [reflexivity|]. apply negb_false_iff, N.eqb_eq. lia. }
    rewrite E1.
    assert (E2 : negb (b + 1 - a =? n) || (b <? a) = false).
    { apply orb_false_iff. split; [apply negb_false_iff, N.eqb_eq; lia | apply N.ltb_ge; lia]. }
    rewrite E2. rewrite K1, Hcur, N.ltb_irrefl.
    assert (E3 : bound (out ++ [(a, b)]) (Some b) = start - 1).
    { pose proof (bound_chain _ _ _ Hch') as Hb'. replace (b + 1 =? 0) with false in Hb' by (symmetry; apply N.eqb_neq; lia).
      replace (b + 1 - 1) with b in Hb' by lia. exact Hb'. }
    rewrite E3, <- Hcs, N.ltb_irrefl. cbn [N.eqb].
    apply (IH s' _ (out ++ [(a, b)])); [|exact Hwf].
    split; [reflexivity|]. split; [cbn; congruence|]. split.
    + cbn [c_last]. rewrite K4. replace (b + 1 =? 0) with false by (symmetry; apply N.eqb_neq; lia). f_equal. lia.
    + exists start. rewrite K4, K1. split; assumption.
  - (* publish *)
    destruct out as [|[a b] out']; [discriminate|].
    apply andb_true_iff in Hwf. destruct Hwf as [Hab Hwf]. apply andb_true_iff in Hab. destruct Hab as [Ha Hb].
    apply N.eqb_eq in Ha. apply N.eqb_eq in Hb. subst a b.
    cbn [sp_step] in Est. inversion Est; subst s' x. clear Est.
    cbn [check check_step sp_cursor]. rewrite Hout. cbn [take_claim]. rewrite !N.eqb_refl. cbn [andb].
    cbn [chain] in Hch. destruct Hch as (-> & Hle & Hch).
    rewrite Hcur, Hcs. replace (hi <? start - 1) with false by (symmetry; apply N.ltb_ge; lia).
    pose proof (bound_chain _ _ _ Hch) as Hbd. rewrite <- Hlast in Hbd. rewrite Hbd.
    replace (hi + 1 - 1) with hi by lia. rewrite N.ltb_irrefl.
    assert (E5 : match out' with [] => false | _ :: _ => false end = false) by (destruct out'; reflexivity).
    rewrite E5. cbn [N.eqb].
    apply (IH _ _ out'); [|exact Hwf].
    split; [reflexivity|]. split; [reflexivity|]. split; [exact Hlast|].
    exists (hi + 1). split; [exact Hch | cbn; lia].
  - (* gate *)
    apply andb_true_iff in Hwf. destruct Hwf as [_ Hwf].
    cbn [sp_step] in Est. inversion Est; subst s' x. clear Est.
    cbn [check check_step sp_cursor]. rewrite Hcur, N.ltb_irrefl, Hout, Hlast.
    rewrite (bound_chain _ _ _ Hch), <- Hcs, N.ltb_irrefl. cbn [N.eqb].
    apply (IH _ _ out); [|exact Hwf].
    split; [reflexivity|]. split; [reflexivity|]. split; [reflexivity|]. exists start. split; assumption.
Qed.

Lemma sp_rel_init size ng : sp_rel (sp_init size ng) c_init [].
Proof. repeat split. exists 0. split; reflexivity. Qed.

(* The property for the single-producer sequencer, every history of its producer thread: every next returns the
   range right after the previous one, of the requested length; the cursor never decreases, never passes an
   unpublished sequence, and equals the highest claim whenever everything claimed is published. *)
Theorem sp_property size ng l :
  sp_wf (sp_init size ng) [] l = true -> check true c_init l (sp_run (sp_init size ng) l) = 0.
Proof. apply sp_run_checks, sp_rel_init. Qed.
