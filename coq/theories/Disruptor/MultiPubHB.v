(* C05 (happens-before half) for the MULTI-PRODUCER sequencer under true concurrency: Disruptor/MultiPub.v extended with
   - the slot fills of a claim, one step each,
   - consumer threads of the first barrier stage (Acquire load of the producer cursor - possibly STALE: any earlier
     store -, one step per handled sequence, Release store of the own cursor),
   - the capacity check of next() reading every consumer cursor (Acquire, possibly stale),
   - happens-before as KNOWLEDGE (as in Disruptor/HB.v): [kf k q] = ordered after the fill of sequence q,
     [ka k c] = ordered after consumer c's accesses to all sequences <= ka k c.  Release stores copy the thread's
     knowledge onto the location, Acquire loads join it in, SeqCst read-modify-writes (ready-bit set / clear, the
     successful cursor CAS) do both; the ready-bit test is a SeqCst load (acquire).  Each residue's ready bit is its own
     location (the code packs 64 of them into one word: more synchronisation, never less).
   Theorems: a consumer about to touch sequence i is ordered after EVERY fill made so far to that slot; a producer about
   to fill sequence n is ordered after every consumer access and every fill made so far to that slot. *)
From Coq Require Import Arith Lia Bool List.
From DC Require Import Disruptor.MultiPub.
Import ListNotations.

Section MultiPubHB.
  Variable N : nat.
  Hypothesis N_pos : 1 <= N.
  Variable C : nat.                                  (* number of consumers, ids 0..C-1 *)

  Notation bstep := (MultiPub.step N).

  Record know := mkK { kf : nat -> bool; ka : nat -> nat }.
  Definition k0 : know := mkK (fun _ => false) (fun _ => 0).
  Definition kjoin (a b : know) : know := mkK (fun q => kf a q || kf b q) (fun c => Nat.max (ka a c) (ka b c)).
  Definition kle (a b : know) : Prop := (forall q, kf a q = true -> kf b q = true) /\ (forall c, ka a c <= ka b c).
  Definition with_fill (k : know) (q : nat) : know := mkK (fun x => if x =? q then true else kf k x) (ka k).
  Definition with_acc (k : know) (c i : nat) : know := mkK (kf k) (fun x => if x =? c then Nat.max (ka k c) i else ka k x).
  Fixpoint kjoin_n (n : nat) (f : nat -> know) (k : know) : know :=
    match n with O => k | S m => kjoin (kjoin_n m f k) (f m) end.

  Inductive cpc := CIdle | CBatch (i a : nat) | CStore (a : nat).

  Record hst := mkH {
    base : MultiPub.st;
    kp : nat -> know;                     (* producer threads *)
    kc : nat -> know;                     (* consumer threads *)
    kb : nat -> know;                     (* ready-bit locations, one per residue *)
    curh : list (nat * know);             (* every store made to the producer cursor, newest first *)
    chist : nat -> list (nat * know);     (* every store made to each consumer cursor *)
    hc : nat -> nat;                      (* consumer cursors *)
    cp : nat -> cpc;
    pf : nat -> nat;                      (* next sequence a claiming producer fills *)
    fl : nat -> bool;                     (* ghost: this sequence has been filled *)
    cdone : nat -> nat                    (* ghost: consumer c has accessed sequences 1..cdone c *)
  }.

  Definition upd {A} := @MultiPub.upd A.

  Definition hinit : hst :=
    mkH MultiPub.init (fun _ => k0) (fun _ => k0) (fun _ => k0) [(0, k0)] (fun _ => [(0, k0)]) (fun _ => 0)
        (fun _ => CIdle) (fun _ => 0) (fun _ => false) (fun _ => 0).

  Definition with_tp (b : st) (t : nat) (p : tpc) : st :=
    mkSt (bits b) (lw b) (cursor b) (high b) (gate b) (MultiPub.upd (tp b) t p) (pub b) (bsrc b) (own b).
  Definition with_gate (b : st) (v : nat) : st :=
    mkSt (bits b) (lw b) (cursor b) (high b) v (tp b) (pub b) (bsrc b) (own b).

  Inductive hstep : hst -> hst -> Prop :=
  (* next(c): every consumer cursor is read (any store of its history), the capacity check passes, the CAS succeeds *)
  | h_claim s t c rv rk m :
      tp (base s) t = TIdle -> 1 <= c ->
      (forall x, x < C -> In (rv x, rk x) (chist s x) /\ m <= rv x) -> (C = 0 -> m = 0) ->
      (high (base s) - m) + c < N ->
      let b1 := with_gate (base s) (Nat.max (gate (base s)) m) in
      hstep s (mkH (mkSt (bits b1) (lw b1) (cursor b1) (high b1 + c) (gate b1)
                         (MultiPub.upd (tp b1) t (TClaimed (high b1 + 1) (high b1 + c))) (pub b1) (bsrc b1)
                         (MultiPub.updr (own b1) (high b1 + 1) (high b1 + c) t))
                   (upd (kp s) t (kjoin_n C rk (kp s t))) (kc s) (kb s) (curh s) (chist s) (hc s) (cp s)
                   (upd (pf s) t (high (base s) + 1)) (fl s) (cdone s))
  (* one slot of the claim is written *)
  | h_fill s t lo hi :
      tp (base s) t = TClaimed lo hi -> pf s t <= hi ->
      hstep s (mkH (base s) (upd (kp s) t (with_fill (kp s t) (pf s t))) (kc s) (kb s) (curh s) (chist s) (hc s) (cp s)
                   (upd (pf s) t (S (pf s t))) (upd (fl s) (pf s t) true) (cdone s))
  | h_begin s t lo hi :
      tp (base s) t = TClaimed lo hi -> hi < pf s t ->
      hstep s (mkH (with_tp (base s) t (TSet lo hi lo)) (kp s) (kc s) (kb s) (curh s) (chist s) (hc s) (cp s) (pf s) (fl s) (cdone s))
  (* ready.set(n): SeqCst fetch_or *)
  | h_set s t lo hi n :
      tp (base s) t = TSet lo hi n -> n <= hi ->
      let k := kjoin (kp s t) (kb s (n mod N)) in
      hstep s (mkH (mkSt (MultiPub.upd (bits (base s)) (n mod N) true) (lw (base s)) (cursor (base s)) (high (base s)) (gate (base s))
                         (MultiPub.upd (tp (base s)) t (TSet lo hi (S n))) (MultiPub.upd (pub (base s)) n true)
                         (MultiPub.upd (bsrc (base s)) (n mod N) n) (own (base s)))
                   (upd (kp s) t k) (kc s) (upd (kb s) (n mod N) k) (curh s) (chist s) (hc s) (cp s) (pf s) (fl s) (cdone s))
  | h_set_done s t lo hi n :
      tp (base s) t = TSet lo hi n -> hi < n ->
      hstep s (mkH (with_tp (base s) t (TReadLw lo hi)) (kp s) (kc s) (kb s) (curh s) (chist s) (hc s) (cp s) (pf s) (fl s) (cdone s))
  | h_read_lw s t lo hi :
      tp (base s) t = TReadLw lo hi ->
      hstep s (mkH (with_tp (base s) t (TScan lo hi (lw (base s)) (lw (base s)))) (kp s) (kc s) (kb s) (curh s) (chist s) (hc s) (cp s) (pf s) (fl s) (cdone s))
  (* ready.is_set(g+1): SeqCst load *)
  | h_scan_more s t lo hi l g :
      tp (base s) t = TScan lo hi l g -> g < hi -> bits (base s) (S g mod N) = true ->
      hstep s (mkH (with_tp (base s) t (TScan lo hi l (S g))) (upd (kp s) t (kjoin (kp s t) (kb s (S g mod N)))) (kc s) (kb s)
                   (curh s) (chist s) (hc s) (cp s) (pf s) (fl s) (cdone s))
  | h_scan_end s t lo hi l g :
      tp (base s) t = TScan lo hi l g -> (hi <= g \/ bits (base s) (S g mod N) = false) ->
      hstep s (mkH (with_tp (base s) t (if l <? g then TUnset lo hi l g l else TIdle)) (kp s) (kc s) (kb s)
                   (curh s) (chist s) (hc s) (cp s) (pf s) (fl s) (cdone s))
  (* ready.unset(n): SeqCst fetch_and *)
  | h_unset s t lo hi l g n :
      tp (base s) t = TUnset lo hi l g n -> n <= g ->
      let k := kjoin (kp s t) (kb s (n mod N)) in
      hstep s (mkH (mkSt (MultiPub.upd (bits (base s)) (n mod N) false) (lw (base s)) (cursor (base s)) (high (base s)) (gate (base s))
                         (MultiPub.upd (tp (base s)) t (TUnset lo hi l g (S n))) (pub (base s)) (bsrc (base s)) (own (base s)))
                   (upd (kp s) t k) (kc s) (upd (kb s) (n mod N) k) (curh s) (chist s) (hc s) (cp s) (pf s) (fl s) (cdone s))
  | h_unset_done s t lo hi l g n :
      tp (base s) t = TUnset lo hi l g n -> g < n ->
      hstep s (mkH (with_tp (base s) t (TCas lo hi l g l)) (kp s) (kc s) (kb s) (curh s) (chist s) (hc s) (cp s) (pf s) (fl s) (cdone s))
  (* cursor.compare_exchange succeeds (SeqCst): reads the latest store of the cursor *)
  | h_cas_ok s t lo hi l g cur kcur rest :
      tp (base s) t = TCas lo hi l g cur -> cursor (base s) = cur -> curh s = (cur, kcur) :: rest ->
      let k := kjoin (kp s t) kcur in
      hstep s (mkH (mkSt (bits (base s)) (lw (base s)) g (high (base s)) (gate (base s))
                         (MultiPub.upd (tp (base s)) t (TSetLw lo hi l g)) (pub (base s)) (bsrc (base s)) (own (base s)))
                   (upd (kp s) t k) (kc s) (kb s) ((g, k) :: curh s) (chist s) (hc s) (cp s) (pf s) (fl s) (cdone s))
  | h_cas_fail s t lo hi l g cur :
      tp (base s) t = TCas lo hi l g cur -> cursor (base s) <> cur ->
      hstep s (mkH (with_tp (base s) t (TCasLoad lo hi l g)) (kp s) (kc s) (kb s) (curh s) (chist s) (hc s) (cp s) (pf s) (fl s) (cdone s))
  | h_cas_load s t lo hi l g :
      tp (base s) t = TCasLoad lo hi l g ->
      hstep s (mkH (with_tp (base s) t (if g <? cursor (base s) then TSetLw lo hi l g else TCas lo hi l g (cursor (base s))))
                   (kp s) (kc s) (kb s) (curh s) (chist s) (hc s) (cp s) (pf s) (fl s) (cdone s))
  | h_set_lw s t lo hi l g :
      tp (base s) t = TSetLw lo hi l g ->
      hstep s (mkH (mkSt (bits (base s)) g (cursor (base s)) (high (base s)) (gate (base s))
                         (MultiPub.upd (tp (base s)) t TIdle) (pub (base s)) (bsrc (base s)) (own (base s)))
                   (kp s) (kc s) (kb s) (curh s) (chist s) (hc s) (cp s) (pf s) (fl s) (cdone s))
  (* ---- consumers (first barrier stage) ---- *)
  | c_read s c v k :                                   (* Acquire load of the producer cursor: any store so far *)
      c < C -> cp s c = CIdle -> In (v, k) (curh s) ->
      hstep s (mkH (base s) (kp s) (upd (kc s) c (kjoin (kc s c) k)) (kb s) (curh s) (chist s) (hc s)
                   (upd (cp s) c (if hc s c + 1 <=? v then CBatch (hc s c + 1) v else CIdle)) (pf s) (fl s) (cdone s))
  | c_handle s c i a :                                 (* slot access + handler call *)
      c < C -> cp s c = CBatch i a ->
      hstep s (mkH (base s) (kp s) (upd (kc s) c (with_acc (kc s c) c i)) (kb s) (curh s) (chist s) (hc s)
                   (upd (cp s) c (if i =? a then CStore a else CBatch (S i) a)) (pf s) (fl s) (upd (cdone s) c i))
  | c_store s c a :                                    (* Release store of the own cursor *)
      c < C -> cp s c = CStore a ->
      hstep s (mkH (base s) (kp s) (kc s) (kb s) (curh s) (upd (chist s) c ((a, kc s c) :: chist s c)) (upd (hc s) c a)
                   (upd (cp s) c CIdle) (pf s) (fl s) (cdone s)).

  Inductive hreachable : hst -> Prop :=
  | hreach_init : hreachable hinit
  | hreach_step s s' : hreachable s -> hstep s s' -> hreachable s'.
  (* ---------------- knowledge order ---------------- *)
  Lemma kle_refl a : kle a a. Proof. split; auto. Qed.
  Lemma kle_trans a b c : kle a b -> kle b c -> kle a c.
  Proof. intros [A1 A2] [B1 B2]. split; [auto | intros x; specialize (A2 x); specialize (B2 x); lia]. Qed.
  Lemma kle_join_l a b : kle a (kjoin a b).
  Proof. split; cbn; [intros q H; rewrite H; reflexivity | intros; lia]. Qed.
  Lemma kle_join_r a b : kle b (kjoin a b).
  Proof. split; cbn; [intros q H; rewrite H; apply orb_true_r | intros; lia]. Qed.
  Lemma kle_fill k q : kle k (with_fill k q).
  Proof. split; cbn; [intros x H; destruct (x =? q); auto | intros; lia]. Qed.
  Lemma kle_acc k c i : kle k (with_acc k c i).
  Proof. split; cbn; [auto | intros x; destruct (Nat.eqb_spec x c); subst; lia]. Qed.
  Lemma kle_join_n n f k : kle k (kjoin_n n f k) /\ forall x, x < n -> kle (f x) (kjoin_n n f k).
  Proof.
    induction n as [|n [IH1 IH2]]; cbn [kjoin_n]; [split; [apply kle_refl | intros; lia]|].
    split; [eapply kle_trans; [exact IH1 | apply kle_join_l]|].
    intros x Hx. destruct (Nat.eq_dec x n) as [->|]; [apply kle_join_r | eapply kle_trans; [apply IH2; lia | apply kle_join_l]].
  Qed.

  Definition covers (k : know) (v : nat) : Prop := forall q, 1 <= q <= v -> kf k q = true.
  Lemma covers_mono k k' v v' : kle k k' -> v' <= v -> covers k v -> covers k' v'.
  Proof. intros [H _] Hv Hc q Hq. apply H, Hc. lia. Qed.

  (* ---------------- the invariant on top of MultiPub.Inv ---------------- *)
  Definition claimfacts (k : know) (hi : nat) : Prop :=
    exists m, hi < m + N /\ (forall c, c < C -> m <= ka k c) /\ (1 <= C -> covers k m) /\ (C = 0 -> m = 0).

  Definition pinv (s : hst) (t : nat) : Prop :=
    let b := base s in
    match tp b t with
    | TClaimed lo hi =>
        lo <= pf s t /\ pf s t <= S hi /\
        (forall q, lo <= q < pf s t -> fl s q = true /\ kf (kp s t) q = true) /\
        (forall q, pf s t <= q <= hi -> fl s q = false) /\ claimfacts (kp s t) hi
    | TSet lo hi _ => forall q, lo <= q <= hi -> fl s q = true /\ kf (kp s t) q = true
    | TScan _ _ l g | TUnset _ _ l g _ | TCas _ _ l g _ | TCasLoad _ _ l g =>
        forall q, l < q <= g -> kf (kp s t) q = true \/ q <= cursor b
    | _ => True
    end.

  Definition cinv (s : hst) (c : nat) : Prop :=
    let b := base s in
    hc s c <= cdone s c /\ cdone s c <= cursor b /\ gate b <= hc s c /\
    (forall v k, In (v, k) (chist s c) -> v <= hc s c /\ v <= ka k c /\ covers k v) /\
    match cp s c with
    | CIdle => cdone s c = hc s c
    | CBatch i a => i = S (cdone s c) /\ i <= a /\ a <= cursor b /\ covers (kc s c) a
    | CStore a => cdone s c = a /\ a <= cursor b /\ a <= ka (kc s c) c /\ covers (kc s c) a
    end.

  Definition HInv (s : hst) : Prop :=
    let b := base s in
    (exists k rest, curh s = (cursor b, k) :: rest) /\
    (forall v k, In (v, k) (curh s) -> v <= cursor b /\ covers k v) /\
    (forall r, bits b r = true -> kf (kb s r) (bsrc b r) = true) /\
    (forall q, pub b q = true -> fl s q = true) /\
    (forall q, fl s q = true -> 1 <= q <= high b) /\
    (forall t, pinv s t) /\
    (forall c, c < C -> cinv s c).

  Lemma HInv_init : HInv hinit.
  Proof.
    unfold HInv, hinit; cbn. split; [eauto|].
    split; [intros v k [E|[]]; inversion E; subst; split; [lia | intros q Hq; lia]|].
    split; [intros; discriminate|]. split; [intros; discriminate|]. split; [intros; discriminate|].
    split; [intros t; exact I|].
    intros c Hc. unfold cinv; cbn. split; [lia|]. split; [lia|]. split; [lia|]. split; [|reflexivity].
    intros v k [E|[]]. inversion E; subst. split; [lia|]. split; [cbn; lia | intros q Hq; lia].
  Qed.
  Lemma upd_same {A} (f : nat -> A) k v : upd f k v k = v.
  Proof. apply MultiPub.upd_same. Qed.
  Lemma upd_other {A} (f : nat -> A) k v x : x <> k -> upd f k v x = f x.
  Proof. apply MultiPub.upd_other. Qed.

  Lemma pinv_frame s s' t :
    tp (base s') t = tp (base s) t -> pf s' t = pf s t -> kle (kp s t) (kp s' t) ->
    (forall q, fl s' q = fl s q) -> cursor (base s) <= cursor (base s') -> pinv s t -> pinv s' t.
  Proof.
    intros E1 E2 [K1 K2] E4 Hc. unfold pinv. rewrite E1, E2.
    destruct (tp (base s) t) as [|lo hi|lo hi n|lo hi|lo hi l g|lo hi l g n|lo hi l g c|lo hi l g|lo hi l g]; auto.
    - intros (A & B & D & E & (m & F1 & F2 & F3 & F4)). split; [exact A|]. split; [exact B|].
      split; [intros q Hq; rewrite E4; destruct (D q Hq); auto|]. split; [intros q Hq; rewrite E4; auto|].
      exists m. split; [exact F1|]. split; [intros c Hc'; specialize (F2 c Hc'); specialize (K2 c); lia|].
      split; [intros H1 q Hq; apply K1, F3; assumption | exact F4].
    - intros H q Hq. rewrite E4. destruct (H q Hq); auto.
    - intros H q Hq. destruct (H q Hq); [left; auto | right; lia].
    - intros H q Hq. destruct (H q Hq); [left; auto | right; lia].
    - intros H q Hq. destruct (H q Hq); [left; auto | right; lia].
    - intros H q Hq. destruct (H q Hq); [left; auto | right; lia].
  Qed.

  Lemma cinv_frame s s' c :
    hc s' c = hc s c -> cdone s' c = cdone s c -> chist s' c = chist s c -> cp s' c = cp s c -> kc s' c = kc s c ->
    cursor (base s) <= cursor (base s') -> gate (base s') <= hc s c -> cinv s c -> cinv s' c.
  Proof.
    intros E1 E2 E3 E4 E5 Hc Hg (A & B & G & D & E). unfold cinv. rewrite E1, E2, E3, E4, E5.
    split; [exact A|]. split; [lia|]. split; [exact Hg|]. split; [exact D|].
    destruct (cp s c) as [|i a|a]; auto.
    - destruct E as (X & Y & Z & W). repeat split; try assumption; lia.
    - destruct E as (X & Y & Z & W). repeat split; try assumption; lia.
  Qed.
  Definition same_hb (s : hst) (b' : st) : hst :=
    mkH b' (kp s) (kc s) (kb s) (curh s) (chist s) (hc s) (cp s) (pf s) (fl s) (cdone s).

  (* a producer step that moves one program counter (and possibly the low watermark) and no knowledge *)
  Lemma HInv_tp s b' t :
    HInv s -> bits b' = bits (base s) -> cursor b' = cursor (base s) -> high b' = high (base s) -> gate b' = gate (base s) ->
    pub b' = pub (base s) -> bsrc b' = bsrc (base s) -> (forall t', t' <> t -> tp b' t' = tp (base s) t') ->
    pinv (same_hb s b') t -> HInv (same_hb s b').
  Proof.
    intros (A1 & A2 & A3 & A4 & A5 & A6 & A7) Eb Ec Eh Eg Ep Es Et Hp.
    unfold HInv, same_hb in *; cbn [base kp kc kb curh chist hc cp pf fl cdone] in *. rewrite Eb, Ec, Eh, Ep, Es.
    repeat (split; [assumption|]). split.
    - intros t'. destruct (Nat.eq_dec t' t) as [->|Hne]; [exact Hp|].
      apply (pinv_frame s); cbn [base kp pf fl]; [apply Et; exact Hne | reflexivity | apply kle_refl | reflexivity | lia | apply A6].
    - intros c Hc. apply (cinv_frame s); cbn [base hc cdone chist cp kc]; try reflexivity; [lia | rewrite Eg; destruct (A7 c Hc) as (_ & _ & G & _); exact G | apply A7, Hc].
  Qed.
  Lemma step_reach b b' : MultiPub.reachable N b -> bstep b b' -> MultiPub.reachable N b'.
  Proof. intros; econstructor; eauto. Qed.

  Theorem hstep_inv s s' :
    MultiPub.reachable N (base s) -> HInv s -> hstep s s' -> MultiPub.reachable N (base s') /\ HInv s'.
  Proof.
    intros HR HI Hs. pose proof (MultiPub.reachable_Inv N N_pos _ HR) as ((G1a & G1b & G1c & G1d) & G2 & G3 & G4 & G5).
    pose proof HI as (A1 & A2 & A3 & A4 & A5 & A6 & A7).
    destruct Hs as [s t c rv rk m Htp Hc Hrd Hc0 Hcap b1 | s t lo hi Htp Hpf | s t lo hi Htp Hpf | s t lo hi n Htp Hn k
                    | s t lo hi n Htp Hn | s t lo hi Htp | s t lo hi l g Htp Hg Hbit | s t lo hi l g Htp Hend
                    | s t lo hi l g n Htp Hn k | s t lo hi l g n Htp Hn | s t lo hi l g cur kcur rest Htp Hcur Hhd k
                    | s t lo hi l g cur Htp Hcur | s t lo hi l g Htp | s t lo hi l g Htp
                    | s c v k Hc Hcp Hin | s c i a Hc Hcp | s c a Hc Hcp];
      try (pose proof (G5 t) as Bt; rewrite Htp in Bt; cbn [MultiPub.tinv] in Bt);
      try (pose proof (A6 t) as Pt; unfold pinv in Pt; rewrite Htp in Pt).
    - (* claim *)
      assert (Hm : m <= cursor (base s) /\ forall x, x < C -> m <= hc s x).
      { destruct C as [|C'] eqn:EC; [rewrite Hc0 by reflexivity; split; [lia | intros; lia]|].
        split.
        - destruct (Hrd 0 ltac:(lia)) as [Hin Hle]. destruct (A7 0 ltac:(lia)) as (X1 & X2 & _ & X4 & _).
          destruct (X4 _ _ Hin) as (Y & _). lia.
        - intros x Hx. destruct (Hrd x Hx) as [Hin Hle]. destruct (A7 x Hx) as (_ & _ & _ & X4 & _). destruct (X4 _ _ Hin) as (Y & _). lia. }
      destruct Hm as [Hmc Hmh].
      assert (Hb1 : bstep (base s) b1) by (apply MultiPub.s_consume; lia).
      assert (HR1 : MultiPub.reachable N b1) by (eapply step_reach; eauto).
      split.
      + eapply step_reach; [exact HR1|]. apply (MultiPub.s_claim N b1 t c); unfold b1; cbn; [exact Htp | exact Hc | lia].
      + unfold HInv, b1, with_gate; cbn [base kp kc kb curh chist hc cp pf fl cdone bits cursor high gate pub bsrc tp].
        split; [exact A1|]. split; [exact A2|]. split; [exact A3|]. split; [exact A4|].
        split; [intros q Hq; specialize (A5 q Hq); lia|]. split.
        * intros t'. destruct (Nat.eq_dec t' t) as [->|Hne].
          -- unfold pinv; cbn [base kp pf fl tp]. rewrite !MultiPub.upd_same.
             split; [lia|]. split; [lia|]. split; [intros q Hq; lia|].
             split; [intros q Hq; destruct (fl s q) eqn:E; [specialize (A5 q E); lia | reflexivity]|].
             destruct (kle_join_n C rk (kp s t)) as [K0 K1].
             exists m. split; [lia|]. split.
             ++ intros x Hx. destruct (Hrd x Hx) as [Hin Hle]. destruct (A7 x Hx) as (_ & _ & _ & X4 & _).
                destruct (X4 _ _ Hin) as (_ & Y & _). destruct (K1 x Hx) as [_ K]. specialize (K x). lia.
             ++ split; [|exact Hc0]. intros HC. destruct (Hrd 0 ltac:(lia)) as [Hin Hle]. destruct (A7 0 ltac:(lia)) as (_ & _ & _ & X4 & _).
                destruct (X4 _ _ Hin) as (_ & _ & Y). eapply covers_mono; [apply (K1 0); lia | exact Hle | exact Y].
          -- apply (pinv_frame s); cbn [base kp pf fl tp cursor]; [apply MultiPub.upd_other; exact Hne | apply MultiPub.upd_other; exact Hne
                                                                  | rewrite MultiPub.upd_other by exact Hne; apply kle_refl | reflexivity | lia | apply A6].
        * intros x Hx. apply (cinv_frame s); cbn [base hc cdone chist cp kc cursor gate]; try reflexivity; [ | apply A7, Hx].
          destruct (A7 x Hx) as (_ & _ & G & _). specialize (Hmh x Hx). lia.
    - (* fill one slot *)
      destruct Bt as [(O1 & O2 & O3 & O4) Bun]. destruct Pt as (P1 & P2 & P3 & P4 & P5).
      split; [exact HR|].
      unfold HInv; cbn [base kp kc kb curh chist hc cp pf fl cdone].
      split; [exact A1|]. split; [exact A2|]. split; [exact A3|].
      split; [intros q Hq; unfold upd, MultiPub.upd; destruct (q =? pf s t); [reflexivity | apply A4, Hq]|].
      split; [intros q Hq; unfold upd, MultiPub.upd in Hq; destruct (Nat.eqb_spec q (pf s t)) as [E|E]; [subst; lia | apply A5, Hq]|].
      split.
      + intros t'. destruct (Nat.eq_dec t' t) as [->|Hne].
        * unfold pinv; cbn [base kp pf fl]. rewrite Htp, !upd_same.
          split; [lia|]. split; [lia|]. split.
          -- intros q Hq. destruct (Nat.eq_dec q (pf s t)) as [->|Hq'].
             ++ rewrite upd_same. cbn. rewrite Nat.eqb_refl. auto.
             ++ rewrite upd_other by exact Hq'. destruct (P3 q ltac:(lia)) as [X Y]. split; [exact X|]. cbn. destruct (q =? pf s t); auto.
          -- split; [intros q Hq; rewrite upd_other by lia; apply P4; lia|].
             destruct P5 as (m & F1 & F2 & F3 & F4). exists m. split; [exact F1|]. split; [exact F2|]. split; [|exact F4].
             intros HC. eapply covers_mono; [apply kle_fill | apply le_n | apply F3, HC].
        * (* another thread: the sequence just filled is not one of its own *)
          pose proof (A6 t') as Pt'. pose proof (G5 t') as Bt'. unfold pinv in *. cbn [base kp pf fl].
          rewrite !upd_other by exact Hne.
          destruct (tp (base s) t') as [|lo' hi'|lo' hi' n'|lo' hi'|lo' hi' l' g'|lo' hi' l' g' n'|lo' hi' l' g' c'|lo' hi' l' g'|lo' hi' l' g'] eqn:Et'; auto.
          -- cbn [MultiPub.tinv] in Bt'. destruct Bt' as [(Q1 & Q2 & Q3 & Q4) _]. destruct Pt' as (R1 & R2 & R3 & R4 & R5).
             assert (Hnot : forall q, lo' <= q <= hi' -> q <> pf s t).
             { intros q Hq E. subst q. pose proof (O4 (pf s t) ltac:(lia)) as X1. pose proof (Q4 (pf s t) Hq) as X2. congruence. }
             split; [exact R1|]. split; [exact R2|].
             split; [intros q Hq; rewrite upd_other by (apply Hnot; lia); apply R3, Hq|].
             split; [intros q Hq; rewrite upd_other by (apply Hnot; lia); apply R4, Hq | exact R5].
          -- intros q Hq. destruct (Pt' q Hq) as [X Y]. split; [|exact Y]. unfold upd, MultiPub.upd. destruct (q =? pf s t); auto.
      + intros x Hx. apply (cinv_frame s); cbn [base hc cdone chist cp kc]; try reflexivity; [destruct (A7 x Hx) as (_ & _ & G & _); exact G | apply A7, Hx].
    - (* all slots filled: publish begins *)
      destruct Pt as (P1 & P2 & P3 & P4 & P5).
      split; [eapply step_reach; [exact HR | apply MultiPub.s_begin; exact Htp]|].
      apply (HInv_tp s _ t); try reflexivity; [exact HI | intros t' Hne; apply MultiPub.upd_other; exact Hne|].
      unfold pinv, same_hb, with_tp; cbn [base kp pf fl tp cursor]. rewrite MultiPub.upd_same. intros q Hq. apply P3. lia.
    - (* ready.set(n) *)
      destruct Bt as [(O1 & O2 & O3 & O4) (S1 & S2 & S3)].
      split; [eapply step_reach; [exact HR | apply MultiPub.s_set; [exact Htp | exact Hn]]|].
      assert (Kt : kle (kp s t) k) by apply kle_join_l.
      unfold HInv; cbn [base kp kc kb curh chist hc cp pf fl cdone bits cursor high gate pub bsrc tp].
      split; [exact A1|]. split; [exact A2|].
      split.
      { intros r Hr. unfold upd, MultiPub.upd in *. destruct (Nat.eqb_spec r (n mod N)) as [Er|Er].
        - destruct Kt as [K1 _]. apply K1. apply Pt. lia.
        - apply A3, Hr. }
      split; [intros q Hq; unfold MultiPub.upd in Hq; destruct (Nat.eqb_spec q n) as [E|E]; [subst q; apply Pt; lia | apply A4, Hq]|].
      split; [exact A5|]. split.
      + intros t'. destruct (Nat.eq_dec t' t) as [->|Hne].
        * unfold pinv; cbn [base kp pf fl tp]. rewrite MultiPub.upd_same, upd_same. intros q Hq. destruct (Pt q Hq) as [X Y].
          split; [exact X | destruct Kt as [K1 _]; apply K1, Y].
        * apply (pinv_frame s); cbn [base kp pf fl tp cursor]; [apply MultiPub.upd_other; exact Hne | reflexivity
                                                                | rewrite upd_other by exact Hne; apply kle_refl | reflexivity | lia | apply A6].
      + intros x Hx. apply (cinv_frame s); cbn [base hc cdone chist cp kc cursor gate]; try reflexivity; [destruct (A7 x Hx) as (_ & _ & G & _); exact G | apply A7, Hx].
    - (* all ready bits set *)
      split; [eapply step_reach; [exact HR | apply MultiPub.s_set_done with (n := n); [exact Htp | exact Hn]]|].
      apply (HInv_tp s _ t); try reflexivity; [exact HI | intros t' Hne; apply MultiPub.upd_other; exact Hne|].
      unfold pinv, same_hb, with_tp; cbn [base kp pf fl tp cursor]. rewrite MultiPub.upd_same. exact I.
    - (* low watermark read *)
      split; [eapply step_reach; [exact HR | apply MultiPub.s_read_lw; exact Htp]|].
      apply (HInv_tp s _ t); try reflexivity; [exact HI | intros t' Hne; apply MultiPub.upd_other; exact Hne|].
      unfold pinv, same_hb, with_tp; cbn [base kp pf fl tp cursor]. rewrite MultiPub.upd_same. intros q Hq. lia.
    - (* ready.is_set(g+1) = true *)
      destruct Bt as (B1 & B2 & B3 & B4 & B5).
      split; [eapply step_reach; [exact HR | apply MultiPub.s_scan_more; [exact Htp | exact Hg | exact Hbit]]|].
      unfold HInv, with_tp; cbn [base kp kc kb curh chist hc cp pf fl cdone bits cursor high gate pub bsrc tp].
      repeat (split; [assumption|]). split.
      + intros t'. destruct (Nat.eq_dec t' t) as [->|Hne].
        * unfold pinv; cbn [base kp pf fl tp cursor]. rewrite MultiPub.upd_same, upd_same. intros q Hq.
          destruct (Nat.eq_dec q (S g)) as [->|Hq'].
          -- destruct (le_lt_dec (S g) (cursor (base s))) as [Hle|Hgt]; [right; exact Hle | left].
             destruct (G4 _ Hbit) as (M1 & M2 & M3). pose proof (G3 _ M2) as M4.
             assert (E2 : bsrc (base s) (S g mod N) = S g).
             { destruct (le_lt_dec (bsrc (base s) (S g mod N)) (S g)); [apply (MultiPub.mod_window N N_pos); [exact M1 | assumption | lia]
                                                                        | symmetry; apply (MultiPub.mod_window N N_pos); [symmetry; exact M1 | lia | lia]]. }
             pose proof (A3 _ Hbit) as X. rewrite E2 in X. cbn. rewrite X. apply orb_true_r.
          -- destruct (Pt q ltac:(lia)) as [X|X]; [left; cbn; rewrite X; reflexivity | right; exact X].
        * apply (pinv_frame s); cbn [base kp pf fl tp cursor]; [apply MultiPub.upd_other; exact Hne | reflexivity
                                                                | rewrite upd_other by exact Hne; apply kle_refl | reflexivity | lia | apply A6].
      + intros x Hx. apply (cinv_frame s); cbn [base hc cdone chist cp kc cursor gate]; try reflexivity; [destruct (A7 x Hx) as (_ & _ & G & _); exact G | apply A7, Hx].
    - (* scan ends *)
      split; [eapply step_reach; [exact HR | apply MultiPub.s_scan_end; [exact Htp | exact Hend]]|].
      apply (HInv_tp s _ t); try reflexivity; [exact HI | intros t' Hne; apply MultiPub.upd_other; exact Hne|].
      unfold pinv, same_hb, with_tp; cbn [base kp pf fl tp cursor]. rewrite MultiPub.upd_same.
      destruct (l <? g); [exact Pt | exact I].
    - (* ready.unset(n) *)
      split; [eapply step_reach; [exact HR | apply MultiPub.s_unset; [exact Htp | exact Hn]]|].
      assert (Kt : kle (kp s t) k) by apply kle_join_l.
      unfold HInv; cbn [base kp kc kb curh chist hc cp pf fl cdone bits cursor high gate pub bsrc tp].
      split; [exact A1|]. split; [exact A2|].
      split.
      { intros r Hr. unfold upd, MultiPub.upd in *. destruct (Nat.eqb_spec r (n mod N)) as [Er|Er]; [discriminate | apply A3, Hr]. }
      split; [exact A4|]. split; [exact A5|]. split.
      + intros t'. destruct (Nat.eq_dec t' t) as [->|Hne].
        * unfold pinv; cbn [base kp pf fl tp cursor]. rewrite MultiPub.upd_same, upd_same. intros q Hq.
          destruct (Pt q Hq) as [X|X]; [left; destruct Kt as [K1 _]; apply K1, X | right; exact X].
        * apply (pinv_frame s); cbn [base kp pf fl tp cursor]; [apply MultiPub.upd_other; exact Hne | reflexivity
                                                                | rewrite upd_other by exact Hne; apply kle_refl | reflexivity | lia | apply A6].
      + intros x Hx. apply (cinv_frame s); cbn [base hc cdone chist cp kc cursor gate]; try reflexivity; [destruct (A7 x Hx) as (_ & _ & G & _); exact G | apply A7, Hx].
    - (* all released bits cleared *)
      split; [eapply step_reach; [exact HR | apply MultiPub.s_unset_done with (n := n); [exact Htp | exact Hn]]|].
      apply (HInv_tp s _ t); try reflexivity; [exact HI | intros t' Hne; apply MultiPub.upd_other; exact Hne|].
      unfold pinv, same_hb, with_tp; cbn [base kp pf fl tp cursor]. rewrite MultiPub.upd_same. exact Pt.
    - (* the cursor CAS succeeds *)
      destruct Bt as (B1 & B2 & B3 & B4).
      split; [eapply step_reach; [exact HR | apply MultiPub.s_cas_ok with (cur := cur); [exact Htp | exact Hcur]]|].
      assert (Hkc : covers kcur cur).
      { destruct (A2 cur kcur) as [_ X]; [rewrite Hhd; left; reflexivity | exact X]. }
      assert (Hk : covers k g).
      { intros q Hq. unfold k; cbn. destruct (le_lt_dec q cur) as [Hle|Hgt]; [rewrite (Hkc q) by lia; apply orb_true_r|].
        destruct (Pt q ltac:(lia)) as [X|X]; [rewrite X; reflexivity | lia]. }
      unfold HInv; cbn [base kp kc kb curh chist hc cp pf fl cdone bits cursor high gate pub bsrc tp].
      split; [eauto|].
      split; [intros v' k' [E|Hin]; [inversion E; subst; split; [lia | exact Hk] | destruct (A2 _ _ Hin) as [X Y]; split; [lia | exact Y]]|].
      split; [exact A3|]. split; [exact A4|]. split; [exact A5|]. split.
      + intros t'. destruct (Nat.eq_dec t' t) as [->|Hne].
        * unfold pinv; cbn [base kp pf fl tp cursor]. rewrite MultiPub.upd_same. exact I.
        * apply (pinv_frame s); cbn [base kp pf fl tp cursor]; [apply MultiPub.upd_other; exact Hne | reflexivity
                                                                | rewrite upd_other by exact Hne; apply kle_refl | reflexivity | lia | apply A6].
      + intros x Hx. apply (cinv_frame s); cbn [base hc cdone chist cp kc cursor gate]; try reflexivity; [lia | destruct (A7 x Hx) as (_ & _ & G & _); exact G | apply A7, Hx].
    - (* the cursor CAS fails *)
      split; [eapply step_reach; [exact HR | apply MultiPub.s_cas_fail with (cur := cur); [exact Htp | exact Hcur]]|].
      apply (HInv_tp s _ t); try reflexivity; [exact HI | intros t' Hne; apply MultiPub.upd_other; exact Hne|].
      unfold pinv, same_hb, with_tp; cbn [base kp pf fl tp cursor]. rewrite MultiPub.upd_same. exact Pt.
    - (* the cursor is re-read *)
      split; [eapply step_reach; [exact HR | apply MultiPub.s_cas_load; exact Htp]|].
      apply (HInv_tp s _ t); try reflexivity; [exact HI | intros t' Hne; apply MultiPub.upd_other; exact Hne|].
      unfold pinv, same_hb, with_tp; cbn [base kp pf fl tp cursor]. rewrite MultiPub.upd_same.
      destruct (g <? cursor (base s)); [exact I | exact Pt].
    - (* the low watermark is stored *)
      split; [eapply step_reach; [exact HR | eapply MultiPub.s_set_lw; exact Htp]|].
      apply (HInv_tp s _ t); try reflexivity; [exact HI | intros t' Hne; apply MultiPub.upd_other; exact Hne|].
      unfold pinv, same_hb; cbn [base kp pf fl tp cursor]. rewrite MultiPub.upd_same. exact I.
    - (* a consumer reads the producer cursor *)
      split; [exact HR|]. destruct (A2 _ _ Hin) as [Hv Hkv].
      unfold HInv; cbn [base kp kc kb curh chist hc cp pf fl cdone].
      split; [exact A1|]. split; [exact A2|]. split; [exact A3|]. split; [exact A4|]. split; [exact A5|]. split.
      + exact A6.
      + intros x Hx. destruct (Nat.eq_dec x c) as [->|Hne].
        * destruct (A7 c Hc) as (X1 & X2 & X3 & X4 & X5). rewrite Hcp in X5.
          unfold cinv; cbn [base hc cdone chist cp kc]. rewrite !upd_same.
          split; [exact X1|]. split; [exact X2|]. split; [exact X3|]. split; [exact X4|].
          destruct (Nat.leb_spec (hc s c + 1) v) as [Hle|Hgt]; [|exact X5].
          split; [lia|]. split; [exact Hle|]. split; [exact Hv|]. eapply covers_mono; [apply kle_join_r | apply le_n | exact Hkv].
        * apply (cinv_frame s); cbn [base hc cdone chist cp kc]; try reflexivity; try (rewrite upd_other by exact Hne; reflexivity);
            [destruct (A7 x Hx) as (_ & _ & G & _); exact G | apply A7, Hx].
    - (* a consumer handles one sequence *)
      split; [exact HR|].
      unfold HInv; cbn [base kp kc kb curh chist hc cp pf fl cdone].
      split; [exact A1|]. split; [exact A2|]. split; [exact A3|]. split; [exact A4|]. split; [exact A5|]. split.
      + exact A6.
      + intros x Hx. destruct (Nat.eq_dec x c) as [->|Hne].
        * destruct (A7 c Hc) as (X1 & X2 & X3 & X4 & X5). rewrite Hcp in X5. destruct X5 as (Y1 & Y2 & Y3 & Y4).
          unfold cinv; cbn [base hc cdone chist cp kc]. rewrite !upd_same.
          split; [lia|]. split; [lia|]. split; [exact X3|]. split; [exact X4|].
          assert (Hcov : covers (with_acc (kc s c) c i) a) by (eapply covers_mono; [apply kle_acc | apply le_n | exact Y4]).
          destruct (Nat.eqb_spec i a) as [->|Hia].
          -- split; [reflexivity|]. split; [exact Y3|]. split; [cbn; rewrite Nat.eqb_refl; lia | exact Hcov].
          -- split; [reflexivity|]. split; [lia|]. split; [exact Y3 | exact Hcov].
        * apply (cinv_frame s); cbn [base hc cdone chist cp kc]; try reflexivity; try (rewrite upd_other by exact Hne; reflexivity);
            [destruct (A7 x Hx) as (_ & _ & G & _); exact G | apply A7, Hx].
    - (* a consumer stores its cursor *)
      split; [exact HR|].
      unfold HInv; cbn [base kp kc kb curh chist hc cp pf fl cdone].
      split; [exact A1|]. split; [exact A2|]. split; [exact A3|]. split; [exact A4|]. split; [exact A5|]. split.
      + exact A6.
      + intros x Hx. destruct (Nat.eq_dec x c) as [->|Hne].
        * destruct (A7 c Hc) as (X1 & X2 & X3 & X4 & X5). rewrite Hcp in X5. destruct X5 as (Y1 & Y2 & Y3 & Y4).
          unfold cinv; cbn [base hc cdone chist cp kc]. rewrite !upd_same.
          split; [lia|]. split; [exact X2|]. split; [lia|]. split; [|lia].
          intros v' k' [E|Hin]; [inversion E; subst; split; [lia|]; split; [exact Y3 | exact Y4]|].
          destruct (X4 _ _ Hin) as (Z1 & Z2 & Z3). split; [lia|]. split; assumption.
        * apply (cinv_frame s); cbn [base hc cdone chist cp kc]; try reflexivity; try (rewrite upd_other by exact Hne; reflexivity);
            [destruct (A7 x Hx) as (_ & _ & G & _); exact G | apply A7, Hx].
  Qed.
  Theorem hreach_inv s : hreachable s -> MultiPub.reachable N (base s) /\ HInv s.
  Proof.
    induction 1 as [|s s' _ [IH1 IH2] Hs]; [split; [apply MultiPub.reach_init | apply HInv_init]|].
    eapply hstep_inv; eauto.
  Qed.

  Lemma same_slot_le a b : a mod N = b mod N -> a < b + N -> a <= b.
  Proof.
    intros Hm Hlt. destruct (le_lt_dec a b) as [|Hgt]; [assumption|]. exfalso.
    assert (b = a); [|lia]. apply (MultiPub.mod_window N N_pos); [symmetry; exact Hm | lia | lia].
  Qed.

  Lemma same_slot_gap a b : a mod N = b mod N -> a < b -> a + N <= b.
  Proof.
    intros Hm Hlt. destruct (le_lt_dec (a + N) b) as [|Hgt]; [assumption|]. exfalso.
    assert (a = b); [|lia]. apply (MultiPub.mod_window N N_pos); [exact Hm | lia | lia].
  Qed.

  (* A consumer about to touch sequence i (slot i mod N): EVERY fill made so far to that slot - by whichever producer -
     is ordered before the access by happens-before. *)
  Theorem consumer_no_race s c i a :
    hreachable s -> c < C -> cp s c = CBatch i a ->
    forall q, fl s q = true -> q mod N = i mod N -> kf (kc s c) q = true.
  Proof.
    intros HR Hc Hcp q Hfl Hm. destruct (hreach_inv s HR) as [HB (A1 & A2 & A3 & A4 & A5 & A6 & A7)].
    pose proof (MultiPub.reachable_Inv N N_pos _ HB) as ((G1a & G1b & G1c & G1d) & _).
    destruct (A7 c Hc) as (X1 & X2 & X3 & X4 & X5). rewrite Hcp in X5. destruct X5 as (Y1 & Y2 & Y3 & Y4).
    pose proof (A5 q Hfl) as Hq. apply Y4. split; [lia|].
    assert (q <= i); [|lia]. apply same_slot_le; [exact Hm | lia].
  Qed.

  (* A producer about to fill sequence n of its claim: every access any consumer has made so far to that slot, and every
     fill made so far to that slot, is ordered before it by happens-before. *)
  Theorem producer_no_race s t lo hi :
    hreachable s -> tp (base s) t = TClaimed lo hi -> pf s t <= hi ->
    (forall c j, c < C -> 1 <= j <= cdone s c -> j mod N = pf s t mod N -> j <= ka (kp s t) c) /\
    (forall q, fl s q = true -> q mod N = pf s t mod N -> kf (kp s t) q = true).
  Proof.
    intros HR Htp Hn. destruct (hreach_inv s HR) as [HB (A1 & A2 & A3 & A4 & A5 & A6 & A7)].
    pose proof (MultiPub.reachable_Inv N N_pos _ HB) as ((G1a & G1b & G1c & G1d) & G2 & G3 & G4 & G5).
    pose proof (G5 t) as Bt. rewrite Htp in Bt. cbn [MultiPub.tinv] in Bt. destruct Bt as [(O1 & O2 & O3 & O4) Bun].
    pose proof (A6 t) as Pt. unfold pinv in Pt. rewrite Htp in Pt. destruct Pt as (P1 & P2 & P3 & P4 & (m & F1 & F2 & F3 & F4)).
    set (n := pf s t) in *.
    assert (Hncur : cursor (base s) < n).
    { destruct (le_lt_dec n (cursor (base s))) as [Hle|]; [|assumption]. pose proof (G2 n ltac:(lia)) as X. rewrite (Bun n ltac:(lia)) in X. discriminate. }
    split.
    - intros c j Hc Hj Hm. destruct (A7 c Hc) as (X1 & X2 & _). pose proof (same_slot_gap j n Hm ltac:(lia)). specialize (F2 c Hc). lia.
    - intros q Hfl Hm. pose proof (A5 q Hfl) as Hq.
      assert (Hne : q <> n) by (intros ->; rewrite P4 in Hfl by lia; discriminate).
      assert (Hlt : q < n) by (pose proof (same_slot_le q n Hm ltac:(lia)); lia).
      pose proof (same_slot_gap q n Hm Hlt) as Hgap.
      destruct C as [|C'] eqn:EC; [rewrite F4 in F1 by reflexivity; lia|].
      apply F3; lia.
  Qed.
End MultiPubHB.

(* Non-vacuity: ring of 8 slots, one consumer: one producer claims, fills and publishes sequence 1, the consumer reads the
   cursor and is about to handle sequence 1; and a producer in the middle of filling a claim exists on the way. *)
Example hb_states_reachable :
  exists s, hreachable 8 1 s /\ cp s 0 = CBatch 1 1 /\ fl s 1 = true.
Proof.
  eexists. split.
  - eapply hreach_step. eapply hreach_step. eapply hreach_step. eapply hreach_step. eapply hreach_step. eapply hreach_step.
    eapply hreach_step. eapply hreach_step. eapply hreach_step. eapply hreach_step. eapply hreach_step. eapply hreach_step.
    eapply hreach_step. eapply hreach_step. apply hreach_init.
    + apply h_claim with (t := 0) (c := 1) (rv := fun _ => 0) (rk := fun _ => k0) (m := 0); cbn; [reflexivity | lia | | lia | lia].
      intros x Hx. split; [left; reflexivity | lia].
    + cbn. eapply h_fill with (t := 0); cbn; [reflexivity | lia].
    + cbn. eapply h_begin with (t := 0); cbn; [reflexivity | lia].
    + cbn. eapply h_set with (t := 0); cbn; [reflexivity | lia].
    + cbn. eapply h_set_done with (t := 0); cbn; [reflexivity | lia].
    + cbn. eapply h_read_lw with (t := 0); cbn; reflexivity.
    + cbn. eapply h_scan_more with (t := 0); cbn; [reflexivity | lia | reflexivity].
    + cbn. eapply h_scan_end with (t := 0); cbn; [reflexivity | left; lia].
    + cbn. eapply h_unset with (t := 0); cbn; [reflexivity | lia].
    + cbn. eapply h_unset with (t := 0); cbn; [reflexivity | lia].
    + cbn. eapply h_unset_done with (t := 0); cbn; [reflexivity | lia].
    + cbn. eapply h_cas_ok with (t := 0); cbn; [reflexivity | reflexivity | reflexivity].
    + cbn. eapply h_set_lw with (t := 0); cbn; reflexivity.
    + cbn. eapply c_read with (c := 0) (v := 1); cbn; [lia | reflexivity | left; reflexivity].
  - cbn. split; reflexivity.
Qed.
