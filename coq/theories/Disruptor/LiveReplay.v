(* Replay of the logged executions of DRAINED single-producer pipelines on the termination model (Disruptor/Liveness.v):
   besides what Disruptor/PipeReplay.v checks (claim, fills, publish, wait results, handler calls / returns, cursor stores as
   enabled steps of Pipeline.v with the observed values), the write calls must be the program's, the ALERT store of drain must
   happen when the model says the last stage has caught up and every write is done, and a handler thread may END only after the
   alert, from its idle state.  [replay_sound]: an accepted trace is a run of the termination model; the entry also reports
   whether the state reached is the model's COMPLETE state and the remaining potential. *)
From Coq Require Import List ZArith Arith Bool Lia.
From DC Require Import Disruptor.Pipeline Disruptor.Threads Disruptor.PipeReplay Disruptor.Liveness.
Import ListNotations.

Section LReplay.
  Variable N : nat.
  Variable H : nat.
  Variable stage : nat -> nat.
  Variable last : nat.

  Notation tstep := (Liveness.tstep N H stage last).

  Inductive tsteps : tst -> tst -> Prop :=
  | tss_refl t : tsteps t t
  | tss_step t t' t'' : tstep t t' -> tsteps t' t'' -> tsteps t t''.
  Lemma tsteps_trans a b c : tsteps a b -> tsteps b c -> tsteps a c.
  Proof. induction 1; intros; [assumption | econstructor; eauto]. Qed.
  Lemma tsteps_one a b : tstep a b -> tsteps a b.
  Proof. intros; econstructor; [eassumption | constructor]. Qed.

  Record lrs := mkLR {
    lm : tst;
    lpend : nat;
    lpobs : nat -> option nat;
    lhobs : nat -> nat -> option nat
  }.

  Notation gating_ids := (PipeReplay.gating_ids H stage last).
  Notation dep_keys := (PipeReplay.dep_keys H stage).
  Notation gate_b := (PipeReplay.gate_b H stage last).
  Notation dep_ok_b := (PipeReplay.dep_ok_b H stage).

  Definition with_st (r : lrs) (s' : st) : lrs := mkLR (mkT s' (todo (lm r)) (al (lm r))) (lpend r) (lpobs r) (lhobs r).

  Definition replay_step (r : lrs) (e : ev) : option lrs :=
    let s := ts (lm r) in
    let td := todo (lm r) in
    let a := al (lm r) in
    let t := zn (e_tid e) in
    let keep := Some r in
    if t =? 0 then
      if (e_kind e =? kWCALL)%Z then Some (mkLR (lm r) (zn (e_a e)) (fun _ => None) (lhobs r))
      else if (e_kind e =? kLOAD)%Z && (e_cls e =? cHCUR)%Z then
        Some (mkLR (lm r) (lpend r) (Pipeline.upd (lpobs r) (zn (e_off e)) (Some (zn (e_obs e)))) (lhobs r))
      else if (e_kind e =? kFILL)%Z then
        let q := zn (e_a e) in
        match pp s with
        | PIdle =>
            let c := lpend r in
            let m := match min_obs (lpobs r) gating_ids None with Some (Some v) => v | _ => pcached s end in
            match td with
            | c0 :: rest =>
                if (c0 =? c) && negb a && (1 <=? c) && ((m =? pcached s) || gate_b s m) && (pnext s + c - 1 <=? m + N) && (q =? pnext s) then
                  Some (mkLR (mkT (s_fill (s_claim s c m) (pnext s) (pnext s + c - 1) m) rest false) c (lpobs r) (lhobs r))
                else None
            | [] => None
            end
        | PFill q' e' m' => if q =? q' then Some (with_st r (s_fill s q' e' m')) else None
        | PPub _ _ => None
        end
      else if (e_kind e =? kSTORE)%Z && (e_cls e =? cPCUR)%Z then
        match pp s with
        | PPub e' m' => if zn (e_a e) =? e' then Some (with_st r (s_pub s e' m')) else None
        | _ => None
        end
      else if (e_kind e =? kBSTORE)%Z && (e_a e =? 1)%Z then
        (* the alert flag is raised: by drain the first time (Drop repeats it) *)
        if a then keep
        else match td, pp s with
             | [], PIdle => if gate_b s (cursor s) then Some (mkLR (mkT s [] true) (lpend r) (lpobs r) (lhobs r)) else None
             | _, _ => None
             end
      else keep
    else
      let h := t - 1 in
      if h <? H then
        if (e_kind e =? kLOAD)%Z && (e_cls e =? cPCUR)%Z then
          Some (mkLR (lm r) (lpend r) (lpobs r) (upd2 (lhobs r) h 0 (zn (e_obs e))))
        else if (e_kind e =? kLOAD)%Z && (e_cls e =? cHCUR)%Z then
          Some (mkLR (lm r) (lpend r) (lpobs r) (upd2 (lhobs r) h (S (zn (e_off e))) (zn (e_obs e))))
        else if (e_kind e =? kCALL)%Z then
          let i := zn (e_a e) in
          match hp s h with
          | HIdle =>
              match min_obs (lhobs r h) (dep_keys h) None with
              | Some (Some a') =>
                  if (hcur s h + 1 <=? a') && dep_ok_b s h a' && (i =? hcur s h + 1) then Some (with_st r (s_wait s h a')) else None
              | _ => None
              end
          | HBatch i' _ => if i =? i' then keep else None
          | _ => None
          end
        else if (e_kind e =? kRET)%Z then
          match hp s h with
          | HBatch i a' => if zn (e_a e) =? i then Some (with_st r (s_handle s h i a')) else None
          | _ => None
          end
        else if (e_kind e =? kSTORE)%Z && (e_cls e =? cHCUR)%Z then
          match hp s h with
          | HStore a' => if (zn (e_a e) =? a') && (zn (e_off e) =? h) then Some (with_st r (s_store s h a')) else None
          | _ => None
          end
        else if (e_kind e =? kTEND)%Z then
          (* the handler thread ends: wait_for returned None, which needs the alert *)
          match hp s h with
          | HIdle => if a then Some (mkLR (mkT (s_exit s h) td true) (lpend r) (lpobs r) (lhobs r)) else None
          | _ => None
          end
        else keep
      else keep.

  Ltac bools :=
    repeat match goal with
           | H : _ && _ = true |- _ => apply andb_true_iff in H; destruct H
           | H : negb _ = true |- _ => apply negb_true_iff in H
           | H : (_ <=? _) = true |- _ => apply Nat.leb_le in H
           | H : (_ <? _) = true |- _ => apply Nat.ltb_lt in H
           | H : (_ =? _) = true |- _ => apply Nat.eqb_eq in H
           end.

  Lemma lm_eta r : lm r = mkT (ts (lm r)) (todo (lm r)) (al (lm r)).
  Proof. destruct r as [[s td a] ? ? ?]; reflexivity. Qed.

  Theorem replay_step_sound r e r' : replay_step r e = Some r' -> tsteps (lm r) (lm r').
  Proof.
    unfold replay_step. set (s := ts (lm r)). set (td := todo (lm r)). set (a := al (lm r)). set (t := zn (e_tid e)).
    assert (Eta : lm r = mkT s td a) by apply lm_eta.
    destruct (t =? 0).
    - destruct (e_kind e =? kWCALL)%Z; [intros E; inversion E; subst; constructor|].
      destruct ((e_kind e =? kLOAD)%Z && (e_cls e =? cHCUR)%Z); [intros E; inversion E; subst; constructor|].
      destruct (e_kind e =? kFILL)%Z.
      { destruct (pp s) as [|q' e' m'|e' m'] eqn:Ep; [| |discriminate].
        - set (m := match min_obs (lpobs r) gating_ids None with Some (Some v) => v | _ => pcached s end).
          destruct td as [|c0 rest] eqn:Etd; [discriminate|].
          match goal with |- context [if ?c then _ else None] => destruct c eqn:Ec end; [|discriminate].
          intros E; inversion E; subst r'; cbn [lm]. rewrite Eta. bools. subst c0.
          assert (Hm : m = pcached s \/ Pipeline.gate H stage last s m).
          { match goal with X : _ || _ = true |- _ => apply orb_true_iff in X; destruct X as [X1|X1]; [left; apply Nat.eqb_eq; exact X1 | right; apply gate_b_ok; exact X1] end. }
          match goal with X : a = false |- _ => rewrite X end.
          eapply tss_step; [apply (t_claim N H stage last s (lpend r) m rest); assumption|].
          apply tsteps_one. apply t_fill. reflexivity.
        - destruct (zn (e_a e) =? q') eqn:Eq; [|discriminate].
          intros E; inversion E; subst r'; cbn [lm with_st]; fold s td a; rewrite Eta. apply tsteps_one. apply t_fill. exact Ep. }
      destruct ((e_kind e =? kSTORE)%Z && (e_cls e =? cPCUR)%Z).
      { destruct (pp s) as [|q' e' m'|e' m'] eqn:Ep; try discriminate.
        destruct (zn (e_a e) =? e'); [|discriminate].
        intros E; inversion E; subst r'; cbn [lm with_st]; fold s td a; rewrite Eta. apply tsteps_one. apply t_pub. exact Ep. }
      destruct ((e_kind e =? kBSTORE)%Z && (e_a e =? 1)%Z); [|intros E; inversion E; subst; constructor].
      destruct a eqn:Ea; [intros E; inversion E; subst; constructor|].
      destruct td as [|c0 rest] eqn:Etd; [|discriminate].
      destruct (pp s) eqn:Ep; try discriminate.
      destruct (gate_b s (cursor s)) eqn:Eg; [|discriminate].
      intros E; inversion E; subst r'; cbn [lm]; rewrite Eta. apply tsteps_one. apply t_alert; [exact Ep | apply gate_b_ok; exact Eg].
    - set (h := t - 1). destruct (h <? H) eqn:Eh; [|intros E; inversion E; subst; constructor]. apply Nat.ltb_lt in Eh.
      destruct ((e_kind e =? kLOAD)%Z && (e_cls e =? cPCUR)%Z); [intros E; inversion E; subst; constructor|].
      destruct ((e_kind e =? kLOAD)%Z && (e_cls e =? cHCUR)%Z); [intros E; inversion E; subst; constructor|].
      destruct (e_kind e =? kCALL)%Z.
      { destruct (hp s h) as [|i' a'|a'|] eqn:Ehp; try discriminate.
        - destruct (min_obs (lhobs r h) (dep_keys h) None) as [[a'|]|]; try discriminate.
          match goal with |- context [if ?c then _ else None] => destruct c eqn:Ec end; [|discriminate].
          intros E; inversion E; subst r'; cbn [lm with_st]; fold s td a; rewrite Eta. bools. apply tsteps_one.
          apply t_wait; [exact Eh | exact Ehp | assumption | apply dep_ok_b_ok; assumption].
        - destruct (zn (e_a e) =? i'); [|discriminate]. intros E; inversion E; subst; constructor. }
      destruct (e_kind e =? kRET)%Z.
      { destruct (hp s h) as [|i a'|a'|] eqn:Ehp; try discriminate.
        destruct (zn (e_a e) =? i); [|discriminate].
        intros E; inversion E; subst r'; cbn [lm with_st]; fold s td a; rewrite Eta. apply tsteps_one. apply t_handle; assumption. }
      destruct ((e_kind e =? kSTORE)%Z && (e_cls e =? cHCUR)%Z).
      { destruct (hp s h) as [|i a'|a'|] eqn:Ehp; try discriminate.
        match goal with |- context [if ?c then _ else None] => destruct c eqn:Ec end; [|discriminate].
        intros E; inversion E; subst r'; cbn [lm with_st]; fold s td a; rewrite Eta. apply tsteps_one. apply t_store; assumption. }
      destruct (e_kind e =? kTEND)%Z; [|intros E; inversion E; subst; constructor].
      destruct (hp s h) as [|i a'|a'|] eqn:Ehp; try discriminate.
      destruct a eqn:Ea; [|discriminate].
      intros E; inversion E; subst r'; cbn [lm]; rewrite Eta. apply tsteps_one. apply t_exit; assumption.
  Qed.

  Fixpoint replay (r : lrs) (l : list ev) (i : Z) : Z * lrs :=
    match l with
    | [] => ((-1)%Z, r)
    | e :: t => match replay_step r e with Some r' => replay r' t (i + 1)%Z | None => (i, r) end
    end.

  Definition linit (prog : list nat) : lrs := mkLR (tinit prog) 0 (fun _ => None) (fun _ _ => None).

  Lemma replay_steps : forall l r i r', replay r l i = ((-1)%Z, r') -> tsteps (lm r) (lm r').
  Proof.
    induction l as [|e t IH]; intros r i r' Hr; cbn [replay] in Hr.
    - inversion Hr; subst. constructor.
    - destruct (replay_step r e) as [r1|] eqn:E.
      + eapply tsteps_trans; [eapply replay_step_sound; exact E | eapply IH; exact Hr].
      + inversion Hr; subst. constructor.
  Qed.

  (* AN ACCEPTED TRACE IS A RUN OF THE TERMINATION MODEL *)
  Theorem replay_sound prog l r' : replay (linit prog) l 0 = ((-1)%Z, r') -> treachable N H stage last prog (lm r').
  Proof.
    intros Hr. apply replay_steps in Hr. cbn [linit lm] in Hr.
    assert (K : forall a b, tsteps a b -> treachable N H stage last prog a -> treachable N H stage last prog b).
    { induction 1; intros; [assumption | apply IHtsteps; econstructor; eauto]. }
    eapply K; [exact Hr | apply tr_init].
  Qed.

  (* executable version of [complete] *)
  Definition complete_b (t : tst) : bool :=
    al t && (match todo t with [] => true | _ => false end) && (match pp (ts t) with PIdle => true | _ => false end) &&
    forallb (fun h => (match hp (ts t) h with HExit => true | _ => false end) && (done (ts t) h =? cursor (ts t)) && (hcur (ts t) h =? cursor (ts t))) (seq 0 H).

  Lemma complete_b_ok t : complete_b t = true -> complete H t.
  Proof.
    unfold complete_b, complete. rewrite !andb_true_iff, forallb_forall. intros [[[A B] C] D].
    split; [exact A|]. split; [destruct (todo t); [reflexivity | discriminate]|].
    split; [destruct (pp (ts t)); try discriminate; reflexivity|].
    intros h Hh. specialize (D h ltac:(apply in_seq; lia)). rewrite !andb_true_iff in D. destruct D as [[D1 D2] D3].
    split; [destruct (hp (ts t) h); try discriminate; reflexivity|]. split; apply Nat.eqb_eq; assumption.
  Qed.
End LReplay.

(* the stage function of a configuration (stage sizes, all >= 1) satisfies the hypotheses of Pipeline.v / Liveness.v *)
Definition sumsz (sizes : list nat) : nat := fold_right Nat.add 0 sizes.

Lemma stage_of_ge sizes : forall h k, k <= stage_of sizes h k.
Proof. induction sizes as [|n rest IH]; intros h k; cbn [stage_of]; [lia|]. destruct (h <? n); [lia|]. specialize (IH (h - n) (S k)). lia. Qed.

Lemma stage_of_le sizes : forall h k, h < sumsz sizes -> stage_of sizes h k <= k + (length sizes - 1).
Proof.
  unfold sumsz. induction sizes as [|n rest IH]; intros h k Hh; cbn [stage_of length fold_right] in *; [lia|].
  destruct (Nat.ltb_spec h n); [lia|].
  assert (Hlt : h - n < fold_right Nat.add 0 rest) by lia.
  specialize (IH (h - n) (S k) Hlt). destruct rest as [|x r]; cbn [length fold_right] in *; lia.
Qed.

Lemma stage_of_hit sizes : Forall (fun n => 1 <= n) sizes -> forall j k, j < length sizes ->
  exists h, h < sumsz sizes /\ stage_of sizes h k = k + j.
Proof.
  unfold sumsz. induction 1 as [|n rest Hn _ IH]; intros j k Hj; cbn [stage_of length fold_right] in *; [lia|].
  destruct j as [|j].
  - exists 0. split; [lia|]. destruct (Nat.ltb_spec 0 n); lia.
  - destruct (IH j (S k) ltac:(lia)) as (h & Hh & E). exists (n + h). split; [lia|].
    destruct (Nat.ltb_spec (n + h) n); [lia|]. replace (n + h - n) with h by lia. lia.
Qed.

(* END TO END for a logged execution: whatever the implementation did so far is a run of the termination model, hence every
   continuation is finite (bounded by the remaining potential) and can only get stuck in the complete state *)
Theorem replayed_run_terminates N sizes prog l r' :
  sizes <> [] -> Forall (fun n => 1 <= n) sizes -> ok_prog N prog ->
  let H := sumsz sizes in let stage := fun h => stage_of sizes h 0 in let last := length sizes - 1 in
  replay N H stage last (linit prog) l 0 = ((-1)%Z, r') ->
  (forall n t, trun N H stage last n (lm r') t -> n + Phi H t <= Phi H (lm r')) /\
  (forall n t, trun N H stage last n (lm r') t -> (forall t', ~ Liveness.tstep N H stage last t t') -> complete H t).
Proof.
  intros Hne Hsz Hp H stage last Hr.
  assert (Hle : forall h, h < H -> stage h <= last) by (intros h Hh; apply (stage_of_le sizes h 0 Hh)).
  assert (Hhit : forall k, k <= last -> exists h, h < H /\ stage h = k).
  { intros k Hk. destruct (stage_of_hit sizes Hsz k 0) as (h & Hh & E); [destruct sizes; [congruence | cbn in *; lia]|].
    exists h. split; [exact Hh | exact E]. }
  pose proof (replay_sound N H stage last prog l r' Hr) as HR.
  pose proof (TInv_reachable N H stage last Hle Hhit prog _ Hp HR) as HI.
  split.
  - intros n t Hrun. apply (run_length_bounded N H stage last Hle Hhit n _ _ HI Hrun).
  - intros n t Hrun Hstuck.
    assert (HR' : treachable N H stage last prog t).
    { clear Hstuck. induction Hrun; [assumption|]. apply IHHrun; [econstructor; eauto | eapply TInv_step; eauto]. }
    apply (stuck_only_when_complete N H stage last Hle Hhit prog t Hp HR' Hstuck).
Qed.

(* entry: the program is the main thread's list of write calls; outside the theorem's class (multi producer, no drain, a batch
   larger than the ring or empty) the answer is -2.  Answers: [first rejected event or -1; 1 if the state reached is complete; remaining potential] *)
Definition live_replay_entry (l : list Z) : list Z :=
  match l with
  | n :: multi :: block :: drain :: ns :: rest =>
      let '(stages, rest1) := take_lists (Z.to_nat ns) rest in
      match rest1 with
      | nw :: rest2 =>
          let '(writers, evs) := take_lists (Z.to_nat nw) rest2 in
          let prog := map Z.to_nat (hd [] writers) in
          let N := Z.to_nat n in
          if negb (multi =? 0)%Z || (drain =? 0)%Z || negb (forallb (fun c => (1 <=? c) && (c <=? N)) prog) then [(-2)%Z]
          else
            let sizes := map (@length Z) stages in
            let H := fold_right Nat.add 0 sizes in
            let '(v, r) := replay N H (fun h => stage_of sizes h 0) (length sizes - 1) (linit prog) (events_of (length evs) evs) 0 in
            [v; if complete_b H (lm r) then 1%Z else 0%Z; Z.of_nat (Phi H (lm r))]
      | [] => [(-3)%Z]
      end
  | _ => [(-3)%Z]
  end.
