(* Single-producer pipeline of the ring buffer: a small-step model of the producer
   (single_producer.rs next / write / publish) and of the handlers (batch_event_processor.rs run loop,
   processing_sequence_barrier.rs, the two wait strategies), for ANY ring size N, any number of barrier
   stages and handlers per stage, any batch sizes and any interleaving.
   Reading the gating / dependency cursors one at a time is abstracted into one step that may return any
   value not above the current value of each cursor read (sound: cursors never decrease, so the minimum
   of values read at different times is not above any of the current values).
   Sequences are natural numbers; the u64 wrap-around is out of reach. *)
From Coq Require Import Arith Lia Bool.

Section Pipeline.
  Variable N : nat.                 (* ring size *)
  Variable H : nat.                 (* number of handlers, ids 0..H-1 *)
  Variable stage : nat -> nat.      (* barrier stage of a handler *)
  Variable last : nat.              (* index of the last stage *)
  Hypothesis stage_le : forall h, h < H -> stage h <= last.
  Hypothesis stage_nonempty : forall k, k <= last -> exists h, h < H /\ stage h = k.

  Inductive ppc :=
  | PIdle
  | PFill (s e m : nat)             (* next sequence to fill, end of the claim, gate snapshot *)
  | PPub (e m : nat).               (* all filled, about to publish *)

  Inductive hpc :=
  | HIdle
  | HBatch (i avail : nat)          (* about to handle sequence i of the batch ..avail *)
  | HStore (avail : nat)            (* batch handled, about to publish the own cursor *)
  | HExit.

  Record st := mkSt {
    cursor : nat;                   (* producer cursor *)
    hcur : nat -> nat;              (* handler cursors *)
    pnext : nat;                    (* next_write_sequence *)
    pcached : nat;                  (* cached_available_sequence *)
    pp : ppc;
    hp : nat -> hpc;
    fill_ptr : nat;                 (* ghost: sequences < fill_ptr have been written *)
    done : nat -> nat               (* ghost: handler h has returned from sequences 1..done h *)
  }.

  Definition upd {A} (f : nat -> A) (k : nat) (v : A) : nat -> A := fun x => if x =? k then v else f x.

  (* the value a handler may take as `available`: not above any cursor it waits on *)
  Definition dep_ok (s : st) (h a : nat) : Prop :=
    (stage h = 0 -> a <= cursor s) /\
    (forall g, g < H -> S (stage g) = stage h -> a <= hcur s g).

  (* what the producer may take as minimum of its gating sequences (the last stage's cursors) *)
  Definition gate (s : st) (m : nat) : Prop := forall h, h < H -> stage h = last -> m <= hcur s h.

  Definition init : st := mkSt 0 (fun _ => 0) 0 0 PIdle (fun _ => HIdle) 0 (fun _ => 0).

  Inductive step : st -> st -> Prop :=
  | p_claim s c m :                                   (* next(c): c >= 1 *)
      pp s = PIdle -> 1 <= c ->
      (m = pcached s \/ gate s m) ->
      pnext s + c - 1 <= m + N ->                      (* the wait loop has ended *)
      step s (mkSt (cursor s) (hcur s) (pnext s) (pcached s) (PFill (pnext s) (pnext s + c - 1) m) (hp s) (fill_ptr s) (done s))
  | p_fill s q e m :                                   (* get_mut(q) + closure: slot q mod N written *)
      pp s = PFill q e m ->
      step s (mkSt (cursor s) (hcur s) (pnext s) (pcached s) (if q =? e then PPub e m else PFill (S q) e m) (hp s) (S q) (done s))
  | p_publish s e m :                                  (* cursor.set(hi) ; caches updated *)
      pp s = PPub e m ->
      step s (mkSt e (hcur s) (S e) m PIdle (hp s) (fill_ptr s) (done s))
  | h_wait s h a :                                     (* wait_for(cursor+1) returned Some(a) *)
      h < H -> hp s h = HIdle -> hcur s h + 1 <= a -> dep_ok s h a ->
      step s (mkSt (cursor s) (hcur s) (pnext s) (pcached s) (pp s) (upd (hp s) h (HBatch (hcur s h + 1) a)) (fill_ptr s) (done s))
  | h_handle s h i a :                                 (* get / get_mut (i) + handler call returned *)
      h < H -> hp s h = HBatch i a ->
      step s (mkSt (cursor s) (hcur s) (pnext s) (pcached s) (pp s)
                   (upd (hp s) h (if i =? a then HStore a else HBatch (S i) a)) (fill_ptr s) (upd (done s) h i))
  | h_store s h a :                                    (* cursor.set(available) *)
      h < H -> hp s h = HStore a ->
      step s (mkSt (cursor s) (upd (hcur s) h a) (pnext s) (pcached s) (pp s) (upd (hp s) h HIdle) (fill_ptr s) (done s))
  | h_exit s h :                                       (* wait_for returned None (alerted) *)
      h < H -> hp s h = HIdle ->
      step s (mkSt (cursor s) (hcur s) (pnext s) (pcached s) (pp s) (upd (hp s) h HExit) (fill_ptr s) (done s)).

  Inductive reachable : st -> Prop :=
  | reach_init : reachable init
  | reach_step s s' : reachable s -> step s s' -> reachable s'.

  (* ---------- the inductive invariant -------------------------------------------------------------- *)
  Definition prod_inv (s : st) : Prop :=
    gate s (pcached s) /\
    (cursor s = 0 \/ cursor s < fill_ptr s) /\
    (pnext s = 0 -> cursor s = 0) /\ (0 < pnext s -> S (cursor s) = pnext s) /\
    (0 < pnext s -> pnext s - 1 <= pcached s + N) /\
    match pp s with
    | PIdle => fill_ptr s = pnext s
    | PFill q e m => fill_ptr s = q /\ pnext s <= q /\ q <= e /\ e <= m + N /\ gate s m
    | PPub e m => fill_ptr s = S e /\ pnext s <= e /\ e <= m + N /\ gate s m
    end.

  Definition hand_inv (s : st) (h : nat) : Prop :=
    dep_ok s h (hcur s h) /\
    match hp s h with
    | HIdle | HExit => done s h = hcur s h
    | HBatch i a => S (done s h) = i /\ hcur s h + 1 <= i /\ i <= a /\ dep_ok s h a
    | HStore a => done s h = a /\ hcur s h < a /\ dep_ok s h a
    end.

  Definition Inv (s : st) : Prop := prod_inv s /\ forall h, h < H -> hand_inv s h.

  Lemma upd_same {A} (f : nat -> A) k v : upd f k v k = v.
  Proof. unfold upd. rewrite Nat.eqb_refl. reflexivity. Qed.
  Lemma upd_other {A} (f : nat -> A) k v x : x <> k -> upd f k v x = f x.
  Proof. unfold upd. intros Hne. destruct (Nat.eqb_spec x k); congruence. Qed.

  Lemma Inv_init : Inv init.
  Proof.
    split.
    - unfold prod_inv, gate, init; cbn. repeat split; auto; try lia.
    - intros h Hh. unfold hand_inv, dep_ok, init; cbn. repeat split; auto; try lia.
  Qed.

  (* dep_ok and gate only look at the cursors *)
  Lemma dep_ok_ext s s' h a :
    cursor s <= cursor s' -> (forall g, hcur s g <= hcur s' g) -> dep_ok s h a -> dep_ok s' h a.
  Proof.
    intros Hc Hh [D1 D2]. split.
    - intros E. specialize (D1 E). lia.
    - intros g Hg E. specialize (D2 g Hg E). specialize (Hh g). lia.
  Qed.

  Lemma gate_ext s s' m : (forall g, hcur s g <= hcur s' g) -> gate s m -> gate s' m.
  Proof. intros Hh G h Hl E. specialize (G h Hl E). specialize (Hh h). lia. Qed.

  (* a handler's invariant survives any step that leaves it alone and only advances cursors *)
  Lemma hand_inv_mono s s' g :
    hand_inv s g -> cursor s <= cursor s' -> (forall x, hcur s x <= hcur s' x) ->
    hcur s' g = hcur s g -> hp s' g = hp s g -> done s' g = done s g -> hand_inv s' g.
  Proof.
    intros [D0 HI] Hc Hh E1 E2 E3. unfold hand_inv. rewrite E1, E2, E3. split.
    - eapply dep_ok_ext; eauto.
    - destruct (hp s g); auto.
      + destruct HI as (A & B & C & D). split; [exact A|]. split; [exact B|]. split; [exact C|]. eapply dep_ok_ext; eauto.
      + destruct HI as (A & B & D). split; [exact A|]. split; [exact B|]. eapply dep_ok_ext; eauto.
  Qed.

  Theorem Inv_step s s' : Inv s -> step s s' -> Inv s'.
  Proof.
    intros [HP HH] Hs. destruct Hs as [s c m Hpp Hc Hm Hcap | s q e m Hpp | s e m Hpp | s h a Hh Hhp Ha Hd | s h i a Hh Hhp | s h a Hh Hhp | s h Hh Hhp].
    - (* p_claim *)
      split.
      + destruct HP as (G & C1 & C2 & C3 & C5 & C4). rewrite Hpp in C4. unfold prod_inv; cbn. repeat split; auto; try lia.
        destruct Hm as [->|Hg]; auto.
      + intros h Hh. specialize (HH h Hh). unfold hand_inv, dep_ok in *; cbn in *. exact HH.
    - (* p_fill *)
      split.
      + destruct HP as (G & C1 & C2 & C3 & C5 & C4). rewrite Hpp in C4. destruct C4 as (F & P1 & P2 & P3 & P4).
        unfold prod_inv; cbn. split; [exact G|]. split; [lia|]. split; [exact C2|]. split; [exact C3|]. split; [exact C5|].
        destruct (Nat.eqb_spec q e) as [->|Hne]; repeat split; auto; lia.
      + intros h Hh. specialize (HH h Hh). unfold hand_inv, dep_ok in *; cbn in *. exact HH.
    - (* p_publish *)
      destruct HP as (G & C1 & C2 & C3 & C5 & C4). rewrite Hpp in C4. destruct C4 as (F & P1 & P2 & P4).
      assert (Hmono : cursor s <= e) by (destruct (pnext s); lia).
      split.
      + unfold prod_inv; cbn. repeat split; auto; try lia.
      + intros h Hh. apply (hand_inv_mono s _ h (HH h Hh)); cbn; auto.
    - (* h_wait *)
      split.
      + unfold prod_inv, gate in *; cbn. exact HP.
      + intros g Hg. unfold hand_inv; cbn [hp hcur done cursor].
        destruct (Nat.eq_dec g h) as [->|Hne].
        * rewrite upd_same. pose proof (HH h Hh) as [D0 HI]. rewrite Hhp in HI.
          split; [exact D0|]. repeat split; auto; try lia; apply Hd.
        * rewrite upd_other by exact Hne. exact (HH g Hg).
    - (* h_handle *)
      split.
      + unfold prod_inv, gate in *; cbn. exact HP.
      + intros g Hg. unfold hand_inv; cbn [hp hcur done cursor].
        destruct (Nat.eq_dec g h) as [->|Hne].
        * rewrite !upd_same. pose proof (HH h Hh) as [D0 HI]. rewrite Hhp in HI. destruct HI as (A & B & C & D).
          split; [exact D0|]. destruct (Nat.eqb_spec i a) as [->|Hia].
          -- split; [lia|]. split; [lia|]. exact D.
          -- split; [lia|]. split; [lia|]. split; [lia|]. exact D.
        * rewrite !upd_other by exact Hne. exact (HH g Hg).
    - (* h_store *)
      pose proof (HH h Hh) as [D0 HI]. rewrite Hhp in HI. destruct HI as (A & B & D).
      assert (Hmono : forall g, hcur s g <= upd (hcur s) h a g).
      { intros g. unfold upd. destruct (Nat.eqb_spec g h) as [->|]; lia. }
      split.
      + destruct HP as (G & C1 & C2 & C3 & C5 & C4). unfold prod_inv; cbn [pcached cursor fill_ptr pnext pp hcur].
        split; [eapply gate_ext; [exact Hmono | exact G]|]. split; [exact C1|]. split; [exact C2|]. split; [exact C3|]. split; [exact C5|].
        destruct (pp s); auto.
        * destruct C4 as (F & P1 & P2 & P3 & P4). repeat split; auto. eapply gate_ext; [exact Hmono | exact P4].
        * destruct C4 as (F & P1 & P2 & P4). repeat split; auto. eapply gate_ext; [exact Hmono | exact P4].
      + intros g Hg. destruct (Nat.eq_dec g h) as [->|Hne].
        * unfold hand_inv; cbn [hp hcur done cursor]. rewrite !upd_same. split; [|exact A].
          eapply dep_ok_ext; [| |exact D]; cbn; auto.
        * apply (hand_inv_mono s _ g (HH g Hg)); cbn [cursor hcur hp done]; auto; rewrite ?upd_other by exact Hne; reflexivity.
    - (* h_exit *)
      split.
      + unfold prod_inv, gate in *; cbn. exact HP.
      + intros g Hg. unfold hand_inv; cbn [hp hcur done cursor].
        destruct (Nat.eq_dec g h) as [->|Hne].
        * rewrite upd_same. pose proof (HH h Hh) as [D0 HI]. rewrite Hhp in HI. split; [exact D0 | exact HI].
        * rewrite upd_other by exact Hne. exact (HH g Hg).
  Qed.

  Theorem Inv_reachable s : reachable s -> Inv s.
  Proof. induction 1; [apply Inv_init | eapply Inv_step; eauto]. Qed.

  (* ---------- consequences ------------------------------------------------------------------------ *)
  (* every handler is at least as far as some handler of the last stage: the last stage is the slowest *)
  Lemma last_stage_is_slowest s : Inv s -> forall d h, h < H -> last - stage h = d ->
    exists l, l < H /\ stage l = last /\ hcur s l <= hcur s h.
  Proof.
    intros [_ HH]. induction d as [|d IH]; intros h Hh Hd.
    - exists h. pose proof (stage_le h Hh). repeat split; auto; lia.
    - pose proof (stage_le h Hh) as Hle.
      destruct (stage_nonempty (S (stage h)) ltac:(lia)) as (g & Hg & Eg).
      destruct (IH g Hg ltac:(lia)) as (l & Hl & El & Hlg).
      exists l. repeat split; auto.
      destruct (HH g Hg) as [[_ D] _]. specialize (D h Hh). rewrite Eg in D. specialize (D eq_refl). lia.
  Qed.

  (* C05: the producer writes sequence q only when EVERY handler (of every stage) has returned from the
     sequence q - N previously stored in that slot *)
  Theorem no_overwrite_before_consumption s q e m :
    reachable s -> pp s = PFill q e m -> forall h, h < H -> q <= done s h + N.
  Proof.
    intros Hr Hpp h Hh. pose proof (Inv_reachable s Hr) as HI. pose proof HI as [HP HH].
    destruct HP as (_ & _ & _ & _ & _ & C4). rewrite Hpp in C4. destruct C4 as (_ & _ & Hqe & Hem & G).
    destruct (last_stage_is_slowest s HI _ h Hh eq_refl) as (l & Hl & El & Hlh).
    specialize (G l Hl El).
    assert (hcur s h <= done s h).
    { destruct (HH h Hh) as [_ X]. destruct (hp s h); lia. }
    lia.
  Qed.

  (* C04: a handler handles the sequences 1, 2, 3, ... consecutively: each exactly once, in order, no gaps *)
  Theorem handled_in_order s h i a :
    reachable s -> h < H -> hp s h = HBatch i a -> i = S (done s h).
  Proof.
    intros Hr Hh Hhp. destruct (Inv_reachable s Hr) as [_ HH]. destruct (HH h Hh) as [_ X]. rewrite Hhp in X. lia.
  Qed.

  (* C04: only completely written and published sequences are handled *)
  Theorem handled_only_published s h i a :
    reachable s -> h < H -> hp s h = HBatch i a -> 1 <= i /\ i < fill_ptr s /\ (stage h = 0 -> i <= cursor s).
  Proof.
    intros Hr Hh Hhp. pose proof (Inv_reachable s Hr) as HI. pose proof HI as [HP HH].
    destruct (HH h Hh) as [_ X]. rewrite Hhp in X. destruct X as (A & B & C & [D1 D2]).
    destruct HP as (_ & C1 & _).
    (* reduce to a stage-0 handler through the dependency chain *)
    assert (Hcur : forall d g, g < H -> stage g = d -> forall x, dep_ok s g x -> x <= cursor s).
    { induction d as [|d IH]; intros g Hg Eg x [X1 X2]; [apply X1, Eg|].
      destruct (stage_nonempty d ltac:(pose proof (stage_le g Hg); lia)) as (g' & Hg' & Eg').
      specialize (X2 g' Hg' ltac:(lia)). destruct (HH g' Hg') as [D0 _]. specialize (IH g' Hg' Eg' _ D0). lia. }
    assert (a <= cursor s) by (apply (Hcur (stage h) h Hh eq_refl); split; assumption).
    split; [lia|]. split; [lia|]. intros E. lia.
  Qed.

  (* C13: a handler of stage k+1 handles sequence i only after every handler of stage k returned from i *)
  Theorem stage_order s h i a g :
    reachable s -> h < H -> g < H -> hp s h = HBatch i a -> S (stage g) = stage h -> i <= done s g.
  Proof.
    intros Hr Hh Hg Hhp E. destruct (Inv_reachable s Hr) as [_ HH].
    destruct (HH h Hh) as [_ X]. rewrite Hhp in X. destruct X as (_ & _ & C & [_ D2]).
    specialize (D2 g Hg E).
    destruct (HH g Hg) as [_ Y]. destruct (hp s g); lia.
  Qed.

  (* C04 / C13 (payload intact): while handler h is about to handle sequence i, the slot i mod N still holds
     sequence i (the next lap i + N has not been written), every handler of an earlier stage has returned from i
     and no handler of a later stage has touched it: what h sees is the written payload transformed by exactly
     the mutable handlers of the earlier stages *)
  Theorem payload_intact s h i a :
    reachable s -> h < H -> hp s h = HBatch i a ->
    fill_ptr s <= i + N /\
    (forall g, g < H -> stage g < stage h -> i <= done s g) /\
    (forall g, g < H -> stage h < stage g -> done s g < i).
  Proof.
    intros Hr Hh Hhp. pose proof (Inv_reachable s Hr) as HI. pose proof HI as [HP HH].
    destruct (HH h Hh) as [D0 X]. rewrite Hhp in X. destruct X as (A & B & C & D).
    assert (Hdone : forall g, g < H -> hcur s g <= done s g).
    { intros g Hg. destruct (HH g Hg) as [_ Y]. destruct (hp s g); lia. }
    (* cursors decrease along the stages *)
    assert (Hchain : forall d g1 g2, g1 < H -> g2 < H -> stage g1 + S d = stage g2 -> forall x, dep_ok s g2 x -> x <= hcur s g1).
    { induction d as [|d IH]; intros g1 g2 H1 H2 E x [_ X2].
      - apply X2; auto. lia.
      - destruct (stage_nonempty (S (stage g1)) ltac:(pose proof (stage_le g2 H2); lia)) as (g' & Hg' & Eg').
        destruct (HH g' Hg') as [[_ D'] _]. specialize (D' g1 H1 ltac:(lia)).
        assert (x <= hcur s g') by (apply (IH g' g2 Hg' H2 ltac:(lia) x); split; [intros; lia | exact X2]).
        lia. }
    split; [|split].
    - (* the producer has not started the next lap of this slot *)
      destruct (last_stage_is_slowest s HI _ h Hh eq_refl) as (l & Hl & El & Hlh).
      destruct HP as (G & C1 & C2 & C3 & C5 & C4).
      destruct (pp s) as [|q e m|e m] eqn:Epp.
      + pose proof (G l Hl El). destruct (pnext s) eqn:En; [lia|]. specialize (C5 ltac:(lia)). lia.
      + destruct C4 as (F & P1 & P2 & P3 & P4). pose proof (P4 l Hl El). lia.
      + destruct C4 as (F & P1 & P3 & P4). pose proof (P4 l Hl El). lia.
    - intros g Hg Hlt. specialize (Hchain (stage h - stage g - 1) g h Hg Hh ltac:(lia) a D). specialize (Hdone g Hg). lia.
    - intros g Hg Hlt. destruct (HH g Hg) as [E0 Y].
      assert (forall x, dep_ok s g x -> x <= hcur s h) by (intros x Dx; apply (Hchain (stage g - stage h - 1) h g Hh Hg ltac:(lia) x Dx)).
      destruct (hp s g) as [|i' a'|a'|]; try (specialize (H0 _ E0); lia).
      + destruct Y as (Y1 & Y2 & Y3 & Y4). specialize (H0 _ Y4). lia.
      + destruct Y as (Y1 & Y2 & Y4). specialize (H0 _ Y4). lia.
  Qed.
End Pipeline.
