(* Executable model of the ring-buffer threads as acceptors of the logged synchronisation trace
   (the correspondence between the code and the models): for every thread the next logged operation
   must be exactly the next operation of its program — same kind, same location role, same memory
   ordering, same operand, and the control flow must follow the values it observed.
   Programs (DESIGN.md appendix B):
     handler   : batch_event_processor.rs run loop + processing_sequence_barrier.rs + the two wait strategies
     single    : single_producer.rs next / write / publish / drain / Drop   (the harness' main thread)
     writer    : multi_producer.rs next / publish (one thread per writer)
     multimain : the harness' main thread of a multi-producer pipeline (join writers, drain)
   Events are integer records (tid kind cls off ord ord2 a b obs ok), see harness/ring. *)
From Coq Require Import List ZArith Bool.
Import ListNotations.
Local Open Scope Z_scope.

Record ev := mkEv { e_tid : Z; e_kind : Z; e_cls : Z; e_off : Z; e_ord : Z; e_ord2 : Z; e_a : Z; e_b : Z; e_obs : Z; e_ok : Z }.

(* kinds *)
Definition kLOAD := 1. Definition kSTORE := 2. Definition kCAS := 3. Definition kFOR := 5. Definition kFAND := 6.
Definition kBLOAD := 7. Definition kBSTORE := 8. Definition kLOCK := 9. Definition kUNLOCK := 10. Definition kCVWAIT := 11.
Definition kCVWAKE := 12. Definition kNOTIFY := 13. Definition kGET := 14. Definition kGETMUT := 15.
Definition kTSTART := 20. Definition kTEND := 21. Definition kFILL := 22. Definition kCALL := 23. Definition kRET := 24.
Definition kWCALL := 25. Definition kWRET := 26. Definition kDCALL := 27. Definition kDRET := 28. Definition kJOINED := 29.
(* location classes *)
Definition cPCUR := 1. Definition cHCUR := 2. Definition cINLINE := 3. Definition cSLOT := 7. Definition cHEAP := 9.
(* orderings *)
Definition oRELAXED := 0. Definition oACQ := 1. Definition oREL := 2. Definition oSEQ := 4.

Record cfg := mkCfg {
  cN : Z; cmulti : bool; cblock : bool;
  cstages : list (list Z);          (* handler kinds per stage: 0 immutable, 1 mutable *)
  cwriters : list (list Z);         (* batch sizes per writer *)
  cdrain : bool
}.

Definition nhandlers (c : cfg) : Z := Z.of_nat (length (concat (cstages c))).

(* (stage, kind, first id of the stage, size of the stage) of handler h *)
Fixpoint locate (stages : list (list Z)) (h : nat) (first : Z) (k : Z) : option (Z * Z * Z * Z) :=
  match stages with
  | [] => None
  | s :: rest =>
      if (h <? length s)%nat then Some (k, nth h s 0, first, Z.of_nat (length s))
      else locate rest (h - length s)%nat (first + Z.of_nat (length s)) (k + 1)
  end.

Fixpoint stage_bounds (stages : list (list Z)) (k : nat) (first : Z) : Z * Z :=   (* first id, size of stage k *)
  match stages, k with
  | s :: _, O => (first, Z.of_nat (length s))
  | s :: rest, S k' => stage_bounds rest k' (first + Z.of_nat (length s))
  | [], _ => (first, 0)
  end.

Definition zseq (first n : Z) : list Z := map (fun i => first + Z.of_nat i) (seq 0 (Z.to_nat n)).

(* the cursors a handler waits on: the producer cursor for stage 0, else every cursor of the previous stage *)
Definition deps_of (c : cfg) (h : nat) : list (Z * Z) :=
  match locate (cstages c) h 0 0 with
  | Some (k, _, _, _) =>
      if k =? 0 then [(cPCUR, 0)]
      else let '(f, n) := stage_bounds (cstages c) (Z.to_nat (k - 1)) 0 in map (fun g => (cHCUR, g)) (zseq f n)
  | None => []
  end.

(* the producer's gating sequences: the cursors of the last stage *)
Definition gating (c : cfg) : list (Z * Z) :=
  let '(f, n) := stage_bounds (cstages c) (length (cstages c) - 1)%nat 0 in map (fun g => (cHCUR, g)) (zseq f n).

(* ---- thread-local state: a program counter and a few registers ---------------------------------- *)
Record ts := mkTs {
  pc : Z;
  r1 : Z; r2 : Z; r3 : Z; r4 : Z;
  rem : list (Z * Z);            (* cursors still to be read by the current get_min *)
  todo : list Z                  (* remaining batches *)
}.

Definition goto (t : ts) (p : Z) : ts := mkTs p (r1 t) (r2 t) (r3 t) (r4 t) (rem t) (todo t).
Definition set1 (t : ts) (v : Z) := mkTs (pc t) v (r2 t) (r3 t) (r4 t) (rem t) (todo t).
Definition set2 (t : ts) (v : Z) := mkTs (pc t) (r1 t) v (r3 t) (r4 t) (rem t) (todo t).
Definition set3 (t : ts) (v : Z) := mkTs (pc t) (r1 t) (r2 t) v (r4 t) (rem t) (todo t).
Definition set4 (t : ts) (v : Z) := mkTs (pc t) (r1 t) (r2 t) (r3 t) v (rem t) (todo t).
Definition setrem (t : ts) (l : list (Z * Z)) := mkTs (pc t) (r1 t) (r2 t) (r3 t) (r4 t) l (todo t).
Definition settodo (t : ts) (l : list Z) := mkTs (pc t) (r1 t) (r2 t) (r3 t) (r4 t) (rem t) l.

Definition guard (b : bool) (t : ts) : option ts := if b then Some t else None.
Definition is (e : ev) (kind cls off ord : Z) : bool :=
  (e_kind e =? kind) && (e_cls e =? cls) && (e_off e =? off) && (e_ord e =? ord).
Definition iskind (e : ev) (kind : Z) : bool := e_kind e =? kind.

(* one step of get_min over [rem]: the partial minimum is r4 (-1 = none yet; an empty set yields 0) *)
Definition minacc (acc v : Z) : Z := if acc <? 0 then v else Z.min acc v.

(* ---- signal(): nothing for the spinning strategy; lock, notify_all, unlock for the blocking one.
   [sig_pc] is the first of three consecutive program counters, [after] where to continue. *)
Definition sig_step (c : cfg) (t : ts) (e : ev) (sig_pc after : Z) : option ts :=
  if pc t =? sig_pc then guard (iskind e kLOCK) (goto t (sig_pc + 1))
  else if pc t =? sig_pc + 1 then guard (iskind e kNOTIFY) (goto t (sig_pc + 2))
  else guard (iskind e kUNLOCK) (goto t after).

(* ---- handler ---------------------------------------------------------------------------------------
   pcs: 0 start | 1 load own cursor | 10.. spin wait | 20.. blocking wait | 40 slot | 41 call | 42 ret
        | 43 store own | 44-46 signal | 50 thread end | 51 done
   r1 = next, r2 = avail, r3 = i (sequence being handled), r4 = partial min *)
Definition handler_step (c : cfg) (h : nat) (t : ts) (e : ev) : option ts :=
  let hz := Z.of_nat h in
  let mutk := match locate (cstages c) h 0 0 with Some (_, k, _, _) => k | None => 0 end in
  let deps := deps_of c h in
  let after_min (t : ts) (m : Z) (go exit_check : Z) : ts :=        (* available = m *)
      if r1 t <=? m then goto (set3 (set2 t m) (r1 t)) go else goto t exit_check in
  match pc t with
  | 0 => guard (iskind e kTSTART) (goto t 1)
  | 1 => guard (is e kLOAD cHCUR hz oACQ) (goto (set4 (setrem (set1 t (e_obs e + 1)) deps) (-1)) (if cblock c then 20 else 10))
  (* spinning wait_for: get_min ; if available >= sequence return ; if alerted return None *)
  | 10 =>
      match rem t with
      | (cl, off) :: rest =>
          if is e kLOAD cl off oACQ then
            let t' := setrem (set4 t (minacc (r4 t) (e_obs e))) rest in
            match rest with
            | [] => Some (after_min t' (r4 t') 40 11)
            | _ => Some t'
            end
          else None
      | [] => None
      end
  | 11 => if is e kBLOAD 4 0 oRELAXED then
                Some (if e_obs e =? 1 then goto t 50 else goto (set4 (setrem t deps) (-1)) 10)
              else None
  (* blocking wait_for: lock ; if alerted return None ; get_min ; if available >= sequence return ; cvar.wait *)
  | 20 => guard (iskind e kLOCK) (goto t 21)
  | 21 => if is e kBLOAD 4 0 oRELAXED then Some (if e_obs e =? 1 then goto t 22 else goto (set4 (setrem t deps) (-1)) 23) else None
  | 22 => guard (iskind e kUNLOCK) (goto t 50)
  | 23 =>
      match rem t with
      | (cl, off) :: rest =>
          if is e kLOAD cl off oACQ then
            let t' := setrem (set4 t (minacc (r4 t) (e_obs e))) rest in
            match rest with
            | [] => Some (after_min t' (r4 t') 24 25)
            | _ => Some t'
            end
          else None
      | [] => None
      end
  | 24 => guard (iskind e kUNLOCK) (goto t 40)
  | 25 => guard (iskind e kCVWAIT) (goto t 26)
  | 26 => guard (iskind e kCVWAKE) (goto t 27)
  | 27 => guard (iskind e kUNLOCK) (goto t 20)
  (* the batch next..=available *)
  | 40 => guard ((e_kind e =? (if mutk =? 1 then kGETMUT else kGET)) && (e_cls e =? cSLOT) && (e_off e =? (r3 t) mod (cN c))) (goto t 41)
  | 41 => guard ((iskind e kCALL) && (e_off e =? hz) && (e_a e =? r3 t) && (e_obs e =? (if r3 t =? r2 t then 1 else 0))) (goto t 42)
  | 42 => guard ((iskind e kRET) && (e_off e =? hz) && (e_a e =? r3 t))
                    (if r3 t =? r2 t then goto t 43 else goto (set3 t (r3 t + 1)) 40)
  | 43 => guard (is e kSTORE cHCUR hz oREL && (e_a e =? r2 t)) (goto t (if cblock c then 44 else 1))
  | 44 | 45 | 46 => sig_step c t e 44 1
  | 50 => guard (iskind e kTEND) (goto t 51)
  | _ => None
  end.

(* ---- single producer (main thread) ---------------------------------------------------------------
   pcs: 0 start | 1 next batch / drain | 2 write_call seen: gate loop | 3 reading gating | 5 slot | 6 fill
        | 7 publish store | 8-10 signal | 11 write_ret | 20 drain_call | 21 drain reading | 22-24 signal in loop
        | 25 flag store | 26-28 signal | 29 drop flag store | 30-32 signal | 33 drain_ret | 40 joined | 41 tend | 42 done
   r1 = next_write_sequence, r2 = cached min, r3 = current sequence being filled, r4 = partial / end *)
Record ps := mkPs { pt : ts; p_end : Z; p_min : Z }.

Definition single_step (c : cfg) (s : ps) (e : ev) : option ps :=
  let t := pt s in
  let N := cN c in
  let lift (o : option ts) : option ps := match o with Some t' => Some (mkPs t' (p_end s) (p_min s)) | None => None end in
  let after_gate (t : ts) (m : Z) : option ps :=            (* loop: while min + N < end *)
      if m + N <? p_end s then Some (mkPs (goto (set4 (setrem t (gating c)) (-1)) 3) (p_end s) m)
      else Some (mkPs (goto t 5) (p_end s) m) in
  match pc t with
  | 0 => lift (guard (iskind e kTSTART) (goto t 1))
  | 1 =>
      match todo t with
      | b :: rest =>
          if (iskind e kWCALL) && (e_a e =? b) then
            let start := r1 t in let en := start + b - 1 in
            let t' := set3 (settodo t rest) start in
            (* min_sequence = cached.take() ; while min + N < end { min = get_min(gating) } *)
            if r2 t + N <? en then Some (mkPs (goto (set4 (setrem t' (gating c)) (-1)) 3) en (r2 t))
            else Some (mkPs (goto t' 5) en (r2 t))
          else None
      | [] =>
          if cdrain c then lift (guard (iskind e kDCALL) (goto t 20))
          else lift (guard (is e kBSTORE 4 0 oSEQ && (e_a e =? 1)) (goto t (if cblock c then 30 else 40)))   (* Drop only *)
      end
  | 3 =>
      match rem t with
      | (cl, off) :: rest =>
          if is e kLOAD cl off oACQ then
            let t' := setrem (set4 t (minacc (r4 t) (e_obs e))) rest in
            match rest with
            | [] => after_gate t' (r4 t')
            | _ => Some (mkPs t' (p_end s) (p_min s))
            end
          else None
      | [] => None
      end
  | 5 => lift (guard ((e_kind e =? kGETMUT) && (e_cls e =? cSLOT) && (e_off e =? (r3 t) mod N)) (goto t 6))
  | 6 => lift (guard ((iskind e kFILL) && (e_a e =? r3 t))
                         (if r3 t =? p_end s then goto t 7 else goto (set3 t (r3 t + 1)) 5))
  | 7 => lift (guard (is e kSTORE cPCUR 0 oREL && (e_a e =? p_end s))
                         (goto (set2 (set1 t (p_end s + 1)) (p_min s)) (if cblock c then 8 else 11)))
  | 8 | 9 | 10 => lift (sig_step c t e 8 11)
  | 11 => lift (guard (iskind e kWRET) (goto t 1))
  (* drain: current = next_write - 1 (saturating) ; while get_min(gating) < current { signal } ; flag ; signal ; Drop: flag ; signal *)
  | 20 | 21 =>
      let t0 := if pc t =? 20 then set4 (setrem t (gating c)) (-1) else t in
      match rem t0 with
      | (cl, off) :: rest =>
          if is e kLOAD cl off oACQ then
            let t' := setrem (set4 t0 (minacc (r4 t0) (e_obs e))) rest in
            match rest with
            | [] => let cur := Z.max (r1 t - 1) 0 in
                    if r4 t' <? cur then Some (mkPs (goto t' (if cblock c then 22 else 20)) (p_end s) (p_min s))
                    else Some (mkPs (goto t' 25) (p_end s) (p_min s))
            | _ => Some (mkPs (goto t' 21) (p_end s) (p_min s))
            end
          else None
      | [] => None
      end
  | 22 | 23 | 24 => lift (sig_step c t e 22 20)
  | 25 => lift (guard (is e kBSTORE 4 0 oSEQ && (e_a e =? 1)) (goto t (if cblock c then 26 else 29)))
  | 26 | 27 | 28 => lift (sig_step c t e 26 29)
  | 29 => lift (guard (is e kBSTORE 4 0 oSEQ && (e_a e =? 1)) (goto t (if cblock c then 30 else 33)))
  | 30 | 31 | 32 => lift (sig_step c t e 30 (if cdrain c then 33 else 40))
  | 33 => lift (guard (iskind e kDRET) (goto t 40))
  | 40 => lift (guard (iskind e kJOINED) (goto t 41))
  | 41 => lift (guard (iskind e kTEND) (goto t 42))
  | _ => None
  end.

(* ---- multi producer: writer threads (next / write / publish) and the main thread (join, drain) ------
   The inline locations of the sequencer (high and low watermark) are identified by first use: the first
   inline location a writer loads in next() is the high watermark, the first one loaded in publish() the
   low watermark; bitmap words are bound word index -> address at first use and must stay consistent. *)
Record ws := mkWs {
  wpc : Z; w_todo : list Z; w_b : Z;           (* batch size *)
  w_hw : Z; w_lo : Z; w_hi : Z; w_i : Z;       (* observed high watermark, claimed range, running index *)
  w_low : Z; w_good : Z; w_cur : Z;            (* publish: low watermark read, good_to_release, current *)
  w_rem : list (Z * Z); w_min : Z
}.
Definition ws0 (batches : list Z) : ws := mkWs 0 batches 0 0 0 0 0 0 0 0 [] (-1).

Record binds := mkB { b_hw : Z; b_lw : Z; b_words : list (Z * Z) }.     (* -1 = not yet bound *)

Definition bit_of (N n : Z) : Z := Z.shiftl 1 (Z.land (Z.land n (N - 1)) 63).
Definition word_of (N n : Z) : Z := Z.shiftr (Z.land n (N - 1)) 6.
Definition ones64 : Z := 18446744073709551615.

Fixpoint lookupw (l : list (Z * Z)) (w : Z) : option Z :=
  match l with [] => None | (k, a) :: t => if k =? w then Some a else lookupw t w end.

(* the address of bitmap word w: bound at first use; later uses must hit the same address, distinct words
   distinct addresses 8 bytes apart per index *)
Definition bind_word (b : binds) (w addr : Z) : option binds :=
  match lookupw (b_words b) w with
  | Some a => if a =? addr then Some b else None
  | None =>
      if forallb (fun p : Z * Z => (snd p - addr) =? 8 * (fst p - w)) (b_words b)
      then Some (mkB (b_hw b) (b_lw b) ((w, addr) :: b_words b)) else None
  end.

Definition bind_inline (cur off : Z) : option Z := if cur <? 0 then Some off else if cur =? off then Some cur else None.

Definition wgoto (t : ws) (p : Z) : ws :=
  mkWs p (w_todo t) (w_b t) (w_hw t) (w_lo t) (w_hi t) (w_i t) (w_low t) (w_good t) (w_cur t) (w_rem t) (w_min t).

(* control points of publish that consume no event *)
Definition after_scan (t : ws) : ws :=                    (* the scan loop ended *)
  if w_low t <? w_good t
  then mkWs 11 (w_todo t) (w_b t) (w_hw t) (w_lo t) (w_hi t) (w_low t) (w_low t) (w_good t) (w_cur t) [] (-1)   (* unset low..=good *)
  else wgoto t 18.
Definition scan (t : ws) : ws := if w_good t <? w_hi t then wgoto t 9 else after_scan t.

Definition writer_step (c : cfg) (t : ws) (b : binds) (e : ev) : option (ws * binds) :=
  let N := cN c in
  let ret (t' : ws) := Some (t', b) in
  match wpc t with
  | 0 => if iskind e kTSTART then ret (wgoto t 1) else None
  | 1 =>
      match w_todo t with
      | bs :: rest => if (iskind e kWCALL) && (e_a e =? bs)
                      then ret (mkWs 2 rest bs 0 0 0 0 0 0 0 [] (-1)) else None
      | [] => if iskind e kTEND then ret (wgoto t 30) else None
      end
  (* next(count): loop { hw = high_watermark.get(); if has_capacity(hw, count) { if CAS(hw, hw+count) return } } *)
  | 2 => if (e_kind e =? kLOAD) && (e_cls e =? cINLINE) && (e_ord e =? oACQ) then
           match bind_inline (b_hw b) (e_off e) with
           | Some o => Some (mkWs 3 (w_todo t) (w_b t) (e_obs e) 0 0 0 0 0 0 (gating c) (-1), mkB o (b_lw b) (b_words b))
           | None => None
           end
         else None
  | 3 =>
      match w_rem t with
      | (cl, off) :: rest =>
          if is e kLOAD cl off oACQ then
            let m := minacc (w_min t) (e_obs e) in
            match rest with
            | [] => let used := Z.max (w_hw t - m) 0 in           (* saturating_sub *)
                    ret (mkWs (if used + w_b t <? N then 4 else 2) (w_todo t) (w_b t) (w_hw t) 0 0 0 0 0 0 [] (-1))
            | _ => ret (mkWs 3 (w_todo t) (w_b t) (w_hw t) 0 0 0 0 0 0 rest m)
            end
          else None
      | [] => None
      end
  | 4 => if (e_kind e =? kCAS) && (e_cls e =? cINLINE) && (e_off e =? b_hw b) && (e_ord e =? oSEQ) && (e_ord2 e =? oACQ)
            && (e_a e =? w_hw t) && (e_b e =? w_hw t + w_b t)
         then (if e_ok e =? 1 then ret (mkWs 5 (w_todo t) (w_b t) (w_hw t) (w_hw t + 1) (w_hw t + w_b t) (w_hw t + 1) 0 0 0 [] (-1))
               else ret (wgoto t 2))
         else None
  | 5 => if (e_kind e =? kGETMUT) && (e_cls e =? cSLOT) && (e_off e =? (w_i t) mod N) then ret (wgoto t 6) else None
  | 6 => if (iskind e kFILL) && (e_a e =? w_i t) then
           (if w_i t =? w_hi t then ret (mkWs 7 (w_todo t) (w_b t) (w_hw t) (w_lo t) (w_hi t) (w_lo t) 0 0 0 [] (-1))
            else ret (mkWs 5 (w_todo t) (w_b t) (w_hw t) (w_lo t) (w_hi t) (w_i t + 1) 0 0 0 [] (-1)))
         else None
  (* publish(lo, hi): set the bits *)
  | 7 => if (e_kind e =? kFOR) && (e_ord e =? oSEQ) && (e_a e =? bit_of N (w_i t)) then
           match bind_word b (word_of N (w_i t)) (e_off e) with
           | Some b' => Some ((if w_i t =? w_hi t then wgoto t 8
                               else mkWs 7 (w_todo t) (w_b t) (w_hw t) (w_lo t) (w_hi t) (w_i t + 1) 0 0 0 [] (-1)), b')
           | None => None
           end
         else None
  | 8 => if (e_kind e =? kLOAD) && (e_cls e =? cINLINE) && (e_ord e =? oACQ) && negb (e_off e =? b_hw b) then
           match bind_inline (b_lw b) (e_off e) with
           | Some o => Some (scan (mkWs 9 (w_todo t) (w_b t) (w_hw t) (w_lo t) (w_hi t) 0 (e_obs e) (e_obs e) 0 [] (-1)), mkB (b_hw b) o (b_words b))
           | None => None
           end
         else None
  (* while good < hi { if !is_set(good + 1) break; good += 1 } *)
  | 9 => if (e_kind e =? kLOAD) && (e_ord e =? oSEQ) then
           match bind_word b (word_of N (w_good t + 1)) (e_off e) with
           | Some b' =>
               if Z.land (e_obs e) (bit_of N (w_good t + 1)) =? 0
               then Some (after_scan t, b')
               else Some (scan (mkWs 9 (w_todo t) (w_b t) (w_hw t) (w_lo t) (w_hi t) (w_i t) (w_low t) (w_good t + 1) 0 [] (-1)), b')
           | None => None
           end
         else None
  (* for n in low..=good { unset(n) } *)
  | 11 => if (e_kind e =? kFAND) && (e_ord e =? oSEQ) && (e_a e =? ones64 - bit_of N (w_i t)) then
            match bind_word b (word_of N (w_i t)) (e_off e) with
            | Some b' => Some ((if w_i t =? w_good t
                                then mkWs 12 (w_todo t) (w_b t) (w_hw t) (w_lo t) (w_hi t) 0 (w_low t) (w_good t) (w_low t) [] (-1)
                                else mkWs 11 (w_todo t) (w_b t) (w_hw t) (w_lo t) (w_hi t) (w_i t + 1) (w_low t) (w_good t) 0 [] (-1)), b')
            | None => None
            end
          else None
  (* current = low; while !cursor.CAS(current, good) { current = cursor.get(); if current > good break } *)
  | 12 => if (e_kind e =? kCAS) && (e_cls e =? cPCUR) && (e_ord e =? oSEQ) && (e_ord2 e =? oACQ)
             && (e_a e =? w_cur t) && (e_b e =? w_good t)
          then ret (wgoto t (if e_ok e =? 1 then 14 else 13)) else None
  | 13 => if is e kLOAD cPCUR 0 oACQ then
            ret (mkWs (if w_good t <? e_obs e then 14 else 12) (w_todo t) (w_b t) (w_hw t) (w_lo t) (w_hi t) 0 (w_low t) (w_good t) (e_obs e) [] (-1))
          else None
  | 14 => if (e_kind e =? kSTORE) && (e_cls e =? cINLINE) && (e_off e =? b_lw b) && (e_ord e =? oREL) && (e_a e =? w_good t)
          then ret (wgoto t (if cblock c then 15 else 18)) else None
  | 15 => if iskind e kLOCK then ret (wgoto t 16) else None
  | 16 => if iskind e kNOTIFY then ret (wgoto t 17) else None
  | 17 => if iskind e kUNLOCK then ret (wgoto t 18) else None
  | 18 => if iskind e kWRET then ret (wgoto t 1) else None
  | _ => None
  end.

(* main thread of a multi-producer pipeline: join the writers, drain (no Drop impl), join the handlers *)
Definition multimain_step (c : cfg) (t : ts) (e : ev) : option ts :=
  match pc t with
  | 0 => guard (iskind e kTSTART) (goto t 1)
  | 1 => guard (iskind e kJOINED) (goto t 2)
  | 2 => guard (iskind e kDCALL) (goto t 3)
  | 3 => guard (is e kLOAD cPCUR 0 oACQ) (goto (set4 (setrem (set1 t (e_obs e)) (gating c)) (-1)) 4)
  | 4 =>
      match rem t with
      | (cl, off) :: rest =>
          if is e kLOAD cl off oACQ then
            let t' := setrem (set4 t (minacc (r4 t) (e_obs e))) rest in
            match rest with
            | [] => if r4 t' <? r1 t then Some (goto (set4 (setrem t' (gating c)) (-1)) (if cblock c then 5 else 4))
                    else Some (goto t' 8)
            | _ => Some t'
            end
          else None
      | [] => None
      end
  | 5 | 6 | 7 => sig_step c t e 5 4
  | 8 => guard (is e kBSTORE 4 0 oSEQ && (e_a e =? 1)) (goto t (if cblock c then 9 else 12))
  | 9 | 10 | 11 => sig_step c t e 9 12
  | 12 => guard (iskind e kDRET) (goto t 13)
  | 13 => guard (iskind e kJOINED) (goto t 14)
  | 14 => guard (iskind e kTEND) (goto t 15)
  | _ => None
  end.

(* ---- whole-trace validation (single-producer pipelines) ------------------------------------------ *)
Fixpoint update {A} (l : list A) (i : nat) (x : A) : list A :=
  match l, i with
  | [], _ => []
  | _ :: t, O => x :: t
  | a :: t, S j => a :: update t j x
  end.

Record vstate := mkV { v_main : ps; v_handlers : list ts; v_mem : list ((Z * Z) * Z); v_writers : list ws; v_binds : binds }.

Definition ts0 : ts := mkTs 0 0 0 0 0 [] [].

Fixpoint mem_get (m : list ((Z * Z) * Z)) (k : Z * Z) : Z :=
  match m with
  | [] => 0
  | ((c, o), v) :: t => if (c =? fst k) && (o =? snd k) then v else mem_get t k
  end.
Definition mem_set (m : list ((Z * Z) * Z)) (k : Z * Z) (v : Z) := (k, v) :: m.

(* sequential consistency of the logged values: a load returns the latest store to that location *)
Definition mem_check (m : list ((Z * Z) * Z)) (e : ev) : option (list ((Z * Z) * Z)) :=
  let k := (e_cls e, e_off e) in
  if e_kind e =? kLOAD then (if e_obs e =? mem_get m k then Some m else None)
  else if e_kind e =? kSTORE then Some (mem_set m k (e_a e))
  else if e_kind e =? kBLOAD then (if e_obs e =? mem_get m (4, 0) then Some m else None)
  else if e_kind e =? kBSTORE then Some (mem_set m (4, 0) (e_a e))
  else if e_kind e =? kCAS then
    (if e_obs e =? mem_get m k then
       (if e_ok e =? 1 then (if e_a e =? e_obs e then Some (mem_set m k (e_b e)) else None)
        else (if e_a e =? e_obs e then None else Some m))
     else None)
  else if e_kind e =? kFOR then (if e_obs e =? mem_get m k then Some (mem_set m k (Z.lor (e_obs e) (e_a e))) else None)
  else if e_kind e =? kFAND then (if e_obs e =? mem_get m k then Some (mem_set m k (Z.land (e_obs e) (e_a e))) else None)
  else Some m.

Definition vstep (c : cfg) (v : vstate) (e : ev) : option vstate :=
  match mem_check (v_mem v) e with
  | None => None
  | Some m =>
      if e_tid e =? 0 then
        (if cmulti c then
           match multimain_step c (pt (v_main v)) e with
           | Some t' => Some (mkV (mkPs t' 0 0) (v_handlers v) m (v_writers v) (v_binds v))
           | None => None
           end
         else
           match single_step c (v_main v) e with Some p => Some (mkV p (v_handlers v) m (v_writers v) (v_binds v)) | None => None end)
      else if e_tid e <=? nhandlers c then
        let h := Z.to_nat (e_tid e - 1) in
        match nth_error (v_handlers v) h with
        | Some t => match handler_step c h t e with
                    | Some t' => Some (mkV (v_main v) (update (v_handlers v) h t') m (v_writers v) (v_binds v))
                    | None => None
                    end
        | None => None
        end
      else
        let w := Z.to_nat (e_tid e - 1 - nhandlers c) in
        match nth_error (v_writers v) w with
        | Some t => match writer_step c t (v_binds v) e with
                    | Some (t', b') => Some (mkV (v_main v) (v_handlers v) m (update (v_writers v) w t') b')
                    | None => None
                    end
        | None => None
        end
  end.

(* returns -1 when the whole trace is accepted, else the index of the first event the model cannot take *)
Fixpoint vrun (c : cfg) (v : vstate) (l : list ev) (i : Z) : Z :=
  match l with
  | [] => -1
  | e :: t => match vstep c v e with Some v' => vrun c v' t (i + 1) | None => i end
  end.

Definition vinit (c : cfg) : vstate :=
  mkV (mkPs (settodo ts0 (match cwriters c with w :: _ => w | [] => [] end)) 0 0)
      (map (fun _ => ts0) (concat (cstages c))) []
      (if cmulti c then map ws0 (cwriters c) else []) (mkB (-1) (-1) []).

(* ---- integer coding: N multi block drain nstages (nh kind^nh)^nstages nwriters (nb size^nb)^nwriters then 10 ints per event *)
Fixpoint take_lists (n : nat) (l : list Z) : list (list Z) * list Z :=
  match n with
  | O => ([], l)
  | S k => match l with
           | m :: rest => let '(ls, r) := take_lists k (skipn (Z.to_nat m) rest) in (firstn (Z.to_nat m) rest :: ls, r)
           | [] => ([], [])
           end
  end.

Fixpoint events_of (fuel : nat) (l : list Z) : list ev :=
  match fuel with
  | O => []
  | S f => match l with
           | a :: b :: c :: d :: e :: f0 :: g :: h :: i :: j :: rest => mkEv a b c d e f0 g h i j :: events_of f rest
           | _ => []
           end
  end.

Definition ring_validate_entry (l : list Z) : list Z :=
  match l with
  | n :: multi :: block :: drain :: ns :: rest =>
      let '(stages, rest1) := take_lists (Z.to_nat ns) rest in
      match rest1 with
      | nw :: rest2 =>
          let '(writers, evs) := take_lists (Z.to_nat nw) rest2 in
          let c := mkCfg n (negb (multi =? 0)) (negb (block =? 0)) stages writers (negb (drain =? 0)) in
          [vrun c (vinit c) (events_of (length evs) evs) 0]
      | [] => [(-3)%Z]
      end
  | _ => [(-3)%Z]
  end.
