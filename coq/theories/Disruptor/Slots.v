(* The ring buffer's storage (ring_buffer/ringbuffer/const_array_ring_buffer.rs): RingBuffer<T, N> { data: [UnsafeCell<T>; N], mask }.
   new() asserts that N is a power of two and sets mask = N - 1; get / get_mut address data[sequence & mask] with get_unchecked.
   C04 / C05 / C13 rely on: the slot of sequence s is s mod N - two sequences share a slot exactly when they are congruent modulo N -
   and the unchecked access is always in bounds. *)
From Coq Require Import List NArith Bool Lia ZArith.
From Coq Require Import ZifyBool ZifyN.
Import ListNotations.
Open Scope N_scope.

Ltac Zify.zify_post_hook ::= Z.div_mod_to_equations.

Record ring := { data : list N; mask : N }.

(* the assertion of new(): (N != 0) && ((N & (N - 1)) == 0) *)
Definition pow2_assert (n : N) : bool := negb (n =? 0) && (N.land n (n - 1) =? 0).

(* new(): None = the assertion panics; T::default() = 0 *)
Definition new (n : N) : option ring :=
  if pow2_assert n then Some {| data := repeat 0 (N.to_nat n); mask := n - 1 |} else None.

Definition index (r : ring) (s : N) : N := N.land s (mask r).

(* get_unchecked: None stands for an out-of-bounds access (undefined behaviour in the code) *)
Definition get (r : ring) (s : N) : option N := nth_error (data r) (N.to_nat (index r s)).

Fixpoint upd (l : list N) (i : nat) (v : N) : option (list N) :=
  match l, i with
  | [], _ => None
  | _ :: t, O => Some (v :: t)
  | x :: t, S j => match upd t j v with Some t' => Some (x :: t') | None => None end
  end.

(* *get_mut(s) = v *)
Definition set (r : ring) (s : N) (v : N) : option ring :=
  match upd (data r) (N.to_nat (index r s)) v with
  | Some d => Some {| data := d; mask := mask r |}
  | None => None
  end.

(* ---- histories: op 0 = write through get_mut, op 1 = read through get, op 2 = read through get_mut (same address computation) *)
Inductive op := Write (s v : N) | Read (s : N).

Fixpoint run (r : ring) (ops : list op) : option (list N) :=
  match ops with
  | [] => Some []
  | Write s v :: t => match set r s v with Some r' => run r' t | None => None end
  | Read s :: t => match get r s, run r t with Some x, Some out => Some (x :: out) | _, _ => None end
  end.

(* specification: a read of s returns the value of the most recent earlier write to a sequence congruent to s modulo n, 0 if none *)
Fixpoint last_write (n : N) (past : list (N * N)) (s : N) : N :=       (* past: most recent first *)
  match past with
  | [] => 0
  | (s', v) :: t => if (s' mod n =? s mod n) then v else last_write n t s
  end.

Fixpoint spec (n : N) (past : list (N * N)) (ops : list op) : list N :=
  match ops with
  | [] => []
  | Write s v :: t => spec n ((s, v) :: past) t
  | Read s :: t => last_write n past s :: spec n past t
  end.

(* ---- entry point for the correspondence check: [n; (code seq val)*] -> [n; reads...]; [-1] when new() panics, [-2] on an
   out-of-bounds access *)
Fixpoint decode (l : list Z) : list op :=
  match l with
  | c :: s :: v :: t => (if (c =? 0)%Z then Write (Z.to_N s) (Z.to_N v) else Read (Z.to_N s)) :: decode t
  | _ => []
  end.

Definition ringslots_entry (args : list Z) : list Z :=
  match args with
  | n :: rest =>
      match new (Z.to_N n) with
      | None => [(-1)%Z]
      | Some r => match run r (decode rest) with
                  | Some out => n :: map Z.of_N out
                  | None => [(-2)%Z]
                  end
      end
  | [] => []
  end.

Definition ringslots_spec_entry (args : list Z) : list Z :=
  match args with
  | n :: rest => n :: map Z.of_N (spec (Z.to_N n) [] (decode rest))
  | [] => []
  end.
