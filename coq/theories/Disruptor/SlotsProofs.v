From Coq Require Import List NArith Bool Lia ZArith.
From Coq Require Import ZifyBool ZifyN.
From DC Require Import Disruptor.Slots.
Import ListNotations.
Open Scope N_scope.
Ltac Zify.zify_post_hook ::= Z.div_mod_to_equations.

(* ---- the assertion of new() accepts exactly the powers of two *)
Lemma pow2_pred_ones k : 2 ^ k - 1 = N.ones k.
Proof. rewrite N.ones_equiv, N.sub_1_r. reflexivity. Qed.

Lemma pow2_assert_pow2 k : pow2_assert (2 ^ k) = true.
Proof.
  unfold pow2_assert. apply andb_true_intro. split.
  - apply negb_true_iff, N.eqb_neq, N.pow_nonzero. discriminate.
  - apply N.eqb_eq. rewrite pow2_pred_ones, N.land_ones, N.mod_same by (apply N.pow_nonzero; discriminate). reflexivity.
Qed.

Lemma pow2_assert_only_pow2 n : pow2_assert n = true -> exists k, n = 2 ^ k.
Proof.
  unfold pow2_assert. intros H. apply andb_true_iff in H. destruct H as [Hn Hl].
  apply negb_true_iff, N.eqb_neq in Hn. apply N.eqb_eq in Hl.
  exists (N.log2 n).
  assert (Hpos : 0 < n) by lia.
  destruct (N.log2_spec n Hpos) as [Hlo Hhi].
  destruct (N.eq_dec n (2 ^ N.log2 n)) as [E|E]; [exact E|exfalso].
  assert (Hlo' : 2 ^ N.log2 n <= n - 1) by lia.
  assert (Hhi' : n - 1 < 2 ^ N.succ (N.log2 n)) by lia.
  assert (Hp : 0 < n - 1). { assert (0 < 2 ^ N.log2 n) by (apply N.neq_0_lt_0, N.pow_nonzero; discriminate). lia. }
  assert (Hl2 : N.log2 (n - 1) = N.log2 n) by (apply N.log2_unique; [lia|split; lia]).
  assert (B1 : N.testbit n (N.log2 n) = true) by (apply N.bit_log2; lia).
  assert (B2 : N.testbit (n - 1) (N.log2 n) = true) by (rewrite <- Hl2; apply N.bit_log2; lia).
  assert (B : N.testbit (N.land n (n - 1)) (N.log2 n) = true) by (rewrite N.land_spec, B1, B2; reflexivity).
  rewrite Hl in B. rewrite N.bits_0 in B. discriminate.
Qed.

(* ---- representation invariant of a ring of 2^k slots *)
Definition Inv (k : N) (r : ring) : Prop := mask r = 2 ^ k - 1 /\ length (data r) = N.to_nat (2 ^ k).

Lemma new_inv k : exists r, new (2 ^ k) = Some r /\ Inv k r.
Proof.
  unfold new. rewrite pow2_assert_pow2. eexists. split; [reflexivity|].
  split; cbn [mask data]; [reflexivity|apply repeat_length].
Qed.

Lemma new_only_pow2 n r : new n = Some r -> exists k, n = 2 ^ k /\ Inv k r.
Proof.
  unfold new. destruct (pow2_assert n) eqn:E; [|discriminate]. intros H. inversion H; subst r; clear H.
  destruct (pow2_assert_only_pow2 n E) as [k ->]. exists k. split; [reflexivity|].
  split; cbn [mask data]; [reflexivity|apply repeat_length].
Qed.

(* the slot of sequence s is s mod N *)
Lemma index_is_mod k r s : Inv k r -> index r s = s mod 2 ^ k.
Proof. intros [Hm _]. unfold index. rewrite Hm, pow2_pred_ones, N.land_ones. reflexivity. Qed.

(* the unchecked access is in bounds, for every sequence number *)
Lemma index_in_bounds k r s : Inv k r -> (N.to_nat (index r s) < length (data r))%nat.
Proof.
  intros HI. rewrite (index_is_mod k r s HI). destruct HI as [_ Hl]. rewrite Hl.
  assert (2 ^ k <> 0) by (apply N.pow_nonzero; discriminate).
  assert (s mod 2 ^ k < 2 ^ k) by (apply N.mod_lt; assumption). lia.
Qed.

Lemma same_slot_iff k r s s' : Inv k r -> (index r s = index r s' <-> s mod 2 ^ k = s' mod 2 ^ k).
Proof. intros HI. rewrite !(index_is_mod k r _ HI). tauto. Qed.

(* ---- list update *)
Lemma upd_some l i v : (i < length l)%nat -> exists l', upd l i v = Some l' /\ length l' = length l /\
  nth_error l' i = Some v /\ forall j, j <> i -> nth_error l' j = nth_error l j.
Proof.
  revert i. induction l as [|x t IH]; intros i Hi; cbn [length] in Hi; [lia|].
  destruct i as [|i]; cbn [upd].
  - eexists. split; [reflexivity|]. split; [reflexivity|]. split; [reflexivity|].
    intros [|j] Hj; [congruence|reflexivity].
  - destruct (IH i ltac:(lia)) as (t' & -> & Hlen & Hhit & Hoth).
    eexists. split; [reflexivity|]. cbn [length]. split; [lia|]. split; [exact Hhit|].
    intros [|j] Hj; [reflexivity|]. cbn [nth_error]. apply Hoth. congruence.
Qed.

Lemma get_total k r s : Inv k r -> exists x, get r s = Some x.
Proof.
  intros HI. unfold get. destruct (nth_error (data r) (N.to_nat (index r s))) eqn:E; [eauto|].
  apply nth_error_None in E. pose proof (index_in_bounds k r s HI). lia.
Qed.

(* a write through get_mut: succeeds (in bounds), keeps the invariant, is seen by exactly the congruent sequences *)
Lemma set_spec k r s v : Inv k r ->
  exists r', set r s v = Some r' /\ Inv k r' /\
    forall s', get r' s' = if (s mod 2 ^ k =? s' mod 2 ^ k) then Some v else get r s'.
Proof.
  intros HI. unfold set.
  destruct (upd_some (data r) (N.to_nat (index r s)) v (index_in_bounds k r s HI)) as (d & -> & Hlen & Hhit & Hoth).
  eexists. split; [reflexivity|]. split.
  - destruct HI as [Hm Hl]. split; cbn [mask data]; [exact Hm|lia].
  - intros s'. unfold get; cbn [data]. unfold index; cbn [mask]. fold (index r s'). fold (index r s) in Hhit, Hoth.
    rewrite !(index_is_mod k r _ HI) in *.
    destruct (N.eqb_spec (s mod 2 ^ k) (s' mod 2 ^ k)) as [E|E].
    + rewrite <- E. exact Hhit.
    + apply Hoth. lia.
Qed.

(* ---- every history: the ring answers reads like the specification (last write to a congruent sequence, else the default) *)
Definition Agrees (k : N) (r : ring) (past : list (N * N)) : Prop :=
  forall s, get r s = Some (last_write (2 ^ k) past s).

Lemma new_agrees k r : new (2 ^ k) = Some r -> Agrees k r [].
Proof.
  unfold new. rewrite pow2_assert_pow2. intros H. inversion H; subst r; clear H.
  intros s. unfold get; cbn [data last_write].
  assert (HI : Inv k {| data := repeat 0 (N.to_nat (2 ^ k)); mask := 2 ^ k - 1 |})
    by (split; cbn [mask data]; [reflexivity|apply repeat_length]).
  pose proof (index_in_bounds k _ s HI) as Hb. cbn [data] in Hb. rewrite repeat_length in Hb.
  set (i := N.to_nat (index _ s)) in *.
  destruct (nth_error (repeat 0 (N.to_nat (2 ^ k))) i) eqn:E.
  - apply nth_error_In, repeat_spec in E. subst. reflexivity.
  - apply nth_error_None in E. rewrite repeat_length in E. lia.
Qed.

Theorem run_refines_spec k : forall ops r past, Inv k r -> Agrees k r past ->
  run r ops = Some (spec (2 ^ k) past ops).
Proof.
  induction ops as [|o t IH]; intros r past HI HA; cbn [run spec]; [reflexivity|].
  destruct o as [s v|s].
  - destruct (set_spec k r s v HI) as (r' & -> & HI' & Hget).
    apply IH; [exact HI'|]. intros s'. rewrite Hget. cbn [last_write].
    destruct (s mod 2 ^ k =? s' mod 2 ^ k); [reflexivity|apply HA].
  - rewrite (HA s), (IH r past HI HA). reflexivity.
Qed.

(* the whole statement from a fresh ring: for every power of two, every history of writes and reads through any sequence numbers *)
Theorem fresh_ring_is_a_map_on_residues k ops : exists r, new (2 ^ k) = Some r /\ run r ops = Some (spec (2 ^ k) [] ops).
Proof.
  destruct (new_inv k) as (r & Hn & HI). exists r. split; [exact Hn|].
  apply run_refines_spec; [exact HI|apply (new_agrees k r Hn)].
Qed.

(* the two entry points agree on every ring the constructor accepts *)
Theorem entries_agree n rest : (0 <= n)%Z -> pow2_assert (Z.to_N n) = true ->
  ringslots_entry (n :: rest) = ringslots_spec_entry (n :: rest).
Proof.
  intros Hn Hp. destruct (pow2_assert_only_pow2 _ Hp) as [k Hk].
  unfold ringslots_entry, ringslots_spec_entry. rewrite Hk.
  destruct (fresh_ring_is_a_map_on_residues k (decode rest)) as (r & -> & ->). reflexivity.
Qed.

(* non-vacuity: a concrete ring of 8 slots, sequences 3, 11 and 19 share a slot, 4 does not *)
Example slots_example :
  ringslots_entry [8; 0; 3; 7; 0; 4; 9; 1; 11; 0; 1; 19; 0; 2; 12; 0; 1; 5; 0]%Z = [8; 7; 7; 9; 0]%Z.
Proof. vm_compute. reflexivity. Qed.

Example not_a_power_of_two_panics : ringslots_entry [12; 1; 0; 0]%Z = [(-1)%Z].
Proof. vm_compute. reflexivity. Qed.
