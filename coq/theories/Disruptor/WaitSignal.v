(* C06: the blocking wait strategy has no lost wake-up.
   blocking_wait_strategy.rs: the waiter checks its condition (alert flag, minimum of the dependency
   cursors) while holding the mutex and parks with Condvar::wait, which releases the mutex atomically;
   every thread that changes what a waiter may be waiting for (cursor.set, is_done.store) afterwards
   calls signal = lock ; notify_all ; unlock.
   Abstraction: the shared state is one monotone counter x; waiter w waits for x >= need w. *)
From Coq Require Import Arith Lia Bool List.
Import ListNotations.

Inductive wpc := WIdle | WLocked | WMustPark | WParked | WWoken | WHolding | WGo | WDone.
Inductive spc := SBump | SLock | SNotify | SUnlock | SDone.

Record st := mkSt {
  x : nat;                       (* the monotone shared state *)
  holder : option (bool * nat);  (* mutex holder: (is_waiter, id) *)
  wp : nat -> wpc;
  sp : nat -> spc;
  todo : nat -> list nat         (* remaining increments of each signaller *)
}.

Definition upd {A} (f : nat -> A) (k : nat) (v : A) : nat -> A := fun i => if i =? k then v else f i.

Section Protocol.
  Variable need : nat -> nat.

  Inductive step : st -> st -> Prop :=
  (* waiter *)
  | w_lock s w : wp s w = WIdle -> holder s = None ->
      step s (mkSt (x s) (Some (true, w)) (upd (wp s) w WLocked) (sp s) (todo s))
  | w_check_ok s w : wp s w = WLocked -> need w <= x s ->
      step s (mkSt (x s) (holder s) (upd (wp s) w WGo) (sp s) (todo s))
  | w_check_no s w : wp s w = WLocked -> x s < need w ->
      step s (mkSt (x s) (holder s) (upd (wp s) w WMustPark) (sp s) (todo s))
  | w_go s w : wp s w = WGo ->                               (* unlock and return *)
      step s (mkSt (x s) None (upd (wp s) w WDone) (sp s) (todo s))
  | w_park s w : wp s w = WMustPark ->                       (* Condvar::wait: release the mutex and park, atomically *)
      step s (mkSt (x s) None (upd (wp s) w WParked) (sp s) (todo s))
  | w_spurious s w : wp s w = WParked ->                     (* spurious wake-up *)
      step s (mkSt (x s) (holder s) (upd (wp s) w WWoken) (sp s) (todo s))
  | w_reacquire s w : wp s w = WWoken -> holder s = None ->
      step s (mkSt (x s) (Some (true, w)) (upd (wp s) w WHolding) (sp s) (todo s))
  | w_loop s w : wp s w = WHolding ->                        (* guard dropped, loop again *)
      step s (mkSt (x s) None (upd (wp s) w WIdle) (sp s) (todo s))
  (* signaller: change the shared state, then signal *)
  | s_bump s k d rest : sp s k = SBump -> todo s k = d :: rest ->
      step s (mkSt (x s + d) (holder s) (wp s) (upd (sp s) k SLock) (upd (todo s) k rest))
  | s_finish s k : sp s k = SBump -> todo s k = [] ->
      step s (mkSt (x s) (holder s) (wp s) (upd (sp s) k SDone) (todo s))
  | s_lock s k : sp s k = SLock -> holder s = None ->
      step s (mkSt (x s) (Some (false, k)) (wp s) (upd (sp s) k SNotify) (todo s))
  | s_notify s k : sp s k = SNotify ->                       (* notify_all: every parked waiter becomes runnable *)
      step s (mkSt (x s) (holder s) (fun w => match wp s w with WParked => WWoken | p => p end) (upd (sp s) k SUnlock) (todo s))
  | s_unlock s k : sp s k = SUnlock ->
      step s (mkSt (x s) None (wp s) (upd (sp s) k SBump) (todo s)).

  Definition holds_w (p : wpc) : bool := match p with WLocked | WMustPark | WHolding | WGo => true | _ => false end.
  Definition holds_s (p : spc) : bool := match p with SNotify | SUnlock => true | _ => false end.
  Definition pending (p : spc) : bool := match p with SLock | SNotify => true | _ => false end.

  (* mutual exclusion *)
  Definition MutexInv (s : st) : Prop :=
    (forall w, holds_w (wp s w) = true -> holder s = Some (true, w)) /\
    (forall k, holds_s (sp s k) = true -> holder s = Some (false, k)).

  (* no lost wake-up: a waiter that has decided to park, or is parked, while its condition holds, has a
     notification still coming *)
  Definition WakeInv (s : st) : Prop :=
    forall w, (wp s w = WMustPark \/ wp s w = WParked) -> need w <= x s -> exists k, pending (sp s k) = true.

  Definition Inv (s : st) : Prop := MutexInv s /\ WakeInv s.

  Lemma upd_same {A} (f : nat -> A) k v : upd f k v k = v.
  Proof. unfold upd. rewrite Nat.eqb_refl. reflexivity. Qed.
  Lemma upd_other {A} (f : nat -> A) k v i : i <> k -> upd f k v i = f i.
  Proof. unfold upd. intros H. destruct (Nat.eqb_spec i k); congruence. Qed.

  Ltac updcase f k i := destruct (Nat.eq_dec i k) as [->|?]; [rewrite ?upd_same in * | rewrite ?upd_other in * by assumption].

  Theorem Inv_step s s' : Inv s -> step s s' -> Inv s'.
  Proof.
    intros [[MW MS] WK] Hs. unfold WakeInv in WK. destruct Hs; (split; [split|]); unfold WakeInv; cbn [x holder wp sp todo] in *.
    (* w_lock *)
    - intros w0 Hw0. updcase (wp s) w w0; [reflexivity|]. specialize (MW w0 Hw0). congruence.
    - intros k Hk. specialize (MS k Hk). congruence.
    - intros w0 Hw0 Hx. updcase (wp s) w w0; [destruct Hw0; discriminate|]. apply (WK w0 Hw0 Hx).
    (* w_check_ok *)
    - intros w0 Hw0. updcase (wp s) w w0; [apply MW; rewrite H; reflexivity | apply MW, Hw0].
    - exact MS.
    - intros w0 Hw0 Hx. updcase (wp s) w w0; [destruct Hw0; discriminate|]. apply (WK w0 Hw0 Hx).
    (* w_check_no *)
    - intros w0 Hw0. updcase (wp s) w w0; [apply MW; rewrite H; reflexivity | apply MW, Hw0].
    - exact MS.
    - intros w0 Hw0 Hx. updcase (wp s) w w0; [lia|]. apply (WK w0 Hw0 Hx).
    (* w_go *)
    - intros w0 Hw0. updcase (wp s) w w0; [discriminate|].
      pose proof (MW w0 Hw0) as E1. pose proof (MW w ltac:(rewrite H; reflexivity)) as E2. congruence.
    - intros k Hk. pose proof (MS k Hk) as E1. pose proof (MW w ltac:(rewrite H; reflexivity)) as E2. congruence.
    - intros w0 Hw0 Hx. updcase (wp s) w w0; [destruct Hw0; discriminate|]. apply (WK w0 Hw0 Hx).
    (* w_park *)
    - intros w0 Hw0. updcase (wp s) w w0; [discriminate|].
      pose proof (MW w0 Hw0) as E1. pose proof (MW w ltac:(rewrite H; reflexivity)) as E2. congruence.
    - intros k Hk. pose proof (MS k Hk) as E1. pose proof (MW w ltac:(rewrite H; reflexivity)) as E2. congruence.
    - intros w0 Hw0 Hx. updcase (wp s) w w0; [apply (WK w (or_introl H) Hx) | apply (WK w0 Hw0 Hx)].
    (* w_spurious *)
    - intros w0 Hw0. updcase (wp s) w w0; [discriminate | apply MW, Hw0].
    - exact MS.
    - intros w0 Hw0 Hx. updcase (wp s) w w0; [destruct Hw0; discriminate|]. apply (WK w0 Hw0 Hx).
    (* w_reacquire *)
    - intros w0 Hw0. updcase (wp s) w w0; [reflexivity|]. specialize (MW w0 Hw0). congruence.
    - intros k Hk. specialize (MS k Hk). congruence.
    - intros w0 Hw0 Hx. updcase (wp s) w w0; [destruct Hw0; discriminate|]. apply (WK w0 Hw0 Hx).
    (* w_loop *)
    - intros w0 Hw0. updcase (wp s) w w0; [discriminate|].
      pose proof (MW w0 Hw0) as E1. pose proof (MW w ltac:(rewrite H; reflexivity)) as E2. congruence.
    - intros k Hk. pose proof (MS k Hk) as E1. pose proof (MW w ltac:(rewrite H; reflexivity)) as E2. congruence.
    - intros w0 Hw0 Hx. updcase (wp s) w w0; [destruct Hw0; discriminate|]. apply (WK w0 Hw0 Hx).
    (* s_bump *)
    - exact MW.
    - intros k0 Hk0. updcase (sp s) k k0; [discriminate | apply MS, Hk0].
    - intros w0 Hw0 Hx. exists k. rewrite upd_same. reflexivity.
    (* s_finish *)
    - exact MW.
    - intros k0 Hk0. updcase (sp s) k k0; [discriminate | apply MS, Hk0].
    - intros w0 Hw0 Hx. destruct (WK w0 Hw0 Hx) as (k1 & Hk1). exists k1.
      updcase (sp s) k k1; [rewrite H in Hk1; discriminate | exact Hk1].
    (* s_lock *)
    - intros w0 Hw0. specialize (MW w0 Hw0). congruence.
    - intros k0 Hk0. updcase (sp s) k k0; [reflexivity|]. specialize (MS k0 Hk0). congruence.
    - intros w0 Hw0 Hx. exists k. rewrite upd_same. reflexivity.
    (* s_notify *)
    - intros w0 Hw0. apply MW. destruct (wp s w0); try discriminate; reflexivity.
    - intros k0 Hk0. updcase (sp s) k k0; [apply MS; rewrite H; reflexivity | apply MS, Hk0].
    - intros w0 Hw0 Hx. exfalso.
      (* nobody is parked any more, and nobody can be about to park: the notifier holds the mutex *)
      destruct Hw0 as [Hw0|Hw0].
      + destruct (wp s w0) eqn:E; try discriminate.
        pose proof (MW w0 ltac:(rewrite E; reflexivity)) as E1. pose proof (MS k ltac:(rewrite H; reflexivity)) as E2. congruence.
      + destruct (wp s w0); discriminate.
    (* s_unlock *)
    - intros w0 Hw0. pose proof (MW w0 Hw0) as E1. pose proof (MS k ltac:(rewrite H; reflexivity)) as E2. congruence.
    - intros k0 Hk0. updcase (sp s) k k0; [discriminate|].
      pose proof (MS k0 Hk0) as E1. pose proof (MS k ltac:(rewrite H; reflexivity)) as E2. congruence.
    - intros w0 Hw0 Hx. destruct (WK w0 Hw0 Hx) as (k1 & Hk1). exists k1.
      updcase (sp s) k k1; [rewrite H in Hk1; discriminate | exact Hk1].
  Qed.

  Inductive reachable (s0 : st) : st -> Prop :=
  | r_init : reachable s0 s0
  | r_step s s' : reachable s0 s -> step s s' -> reachable s0 s'.

  Definition initial (s : st) : Prop :=
    holder s = None /\ (forall w, wp s w = WIdle) /\ (forall k, sp s k = SBump).

  Lemma Inv_initial s : initial s -> Inv s.
  Proof.
    intros (Hh & Hw & Hk). split; [split|].
    - intros w E. rewrite Hw in E. discriminate.
    - intros k E. rewrite Hk in E. discriminate.
    - intros w [E|E]; rewrite Hw in E; discriminate.
  Qed.

  Theorem Inv_reachable s0 s : initial s0 -> reachable s0 s -> Inv s.
  Proof. intros Hi Hr. induction Hr; [apply Inv_initial, Hi | eapply Inv_step; eauto]. Qed.

  (* No lost wake-up: once every signaller has finished (all changes made, all signals sent), no waiter
     whose condition holds is parked or about to park: it is runnable and will see its condition. *)
  Theorem no_lost_wakeup s0 s w :
    initial s0 -> reachable s0 s -> (forall k, sp s k = SDone) ->
    need w <= x s -> wp s w <> WParked /\ wp s w <> WMustPark.
  Proof.
    intros Hi Hr Hd Hx. destruct (Inv_reachable s0 s Hi Hr) as [_ WK].
    split; intros E; destruct (WK w (ltac:(auto)) Hx) as (k & Hk); rewrite Hd in Hk; discriminate.
  Qed.

  (* mutual exclusion of the guard *)
  Theorem mutex_exclusive s0 s a b :
    initial s0 -> reachable s0 s -> holds_w (wp s a) = true -> holds_w (wp s b) = true -> a = b.
  Proof.
    intros Hi Hr Ha Hb. destruct (Inv_reachable s0 s Hi Hr) as [[MW _] _].
    pose proof (MW a Ha). pose proof (MW b Hb). congruence.
  Qed.
End Protocol.
