(* impl Clone for MultiProducerSequencer (producer/multi_producer.rs:99-112): the clone shares the cursor, the wait strategy, the
   gating sequences and the shut-down flag, but gets a FRESH high watermark, ready bitmap and low watermark.  The module documentation
   builds one producer per clone.  Finding D13: claims made through two clones overlap - refuted here on the model, witnessed on
   the implementation by harness/ds family seqclone. *)
From Coq Require Import List NArith Bool Lia.
From DC Require Import BitMap.Model Disruptor.SeqApi.
Import ListNotations.
Open Scope N_scope.

Definition mp_clone (s : mp) : mp := mkMp (mp_cursor s) 0 0 (build (mp_size s)) (mp_gating s) (mp_size s).

(* the cursor is one shared atomic: what one clone stored is what the other reads *)
Definition share_cursor (from to : mp) : mp :=
  mkMp (mp_cursor from) (mp_high to) (mp_low to) (mp_ready to) (mp_gating to) (mp_size to).

(* whatever the state of the sequencer the clones are taken from: the first claim of c sequences through EACH clone is (1, c),
   also when the other clone has claimed (and published) that range before *)
Theorem clones_hand_out_the_same_range : forall s c, c <? mp_size s = true ->
  let a := mp_clone s in let b := mp_clone s in
  snd (mp_step a (SNext c)) = RClaim 1 c /\
  (let a1 := fst (mp_step a (SNext c)) in
   let a2 := fst (mp_step a1 (SPublish 1 c)) in
   snd (mp_step (share_cursor a2 b) (SNext c)) = RClaim 1 c).
Proof.
  intros s c Hc. cbn zeta.
  assert (H0 : forall g, (0 - min_gating g) + c = c) by (intros g; rewrite N.sub_0_l; reflexivity).
  split.
  - unfold mp_step, mp_clone; cbn [mp_high mp_gating mp_size]. rewrite H0, Hc. cbn [snd]. rewrite N.add_0_l. reflexivity.
  - unfold share_cursor. 
    assert (Hb : forall cur, snd (mp_step (mkMp cur 0 0 (build (mp_size s)) (mp_gating s) (mp_size s)) (SNext c)) = RClaim 1 c).
    { intros cur. unfold mp_step; cbn [mp_high mp_gating mp_size]. rewrite H0, Hc. cbn [snd]. rewrite N.add_0_l. reflexivity. }
    unfold mp_clone; cbn [mp_high mp_low mp_ready mp_gating mp_size]. apply Hb.
Qed.

(* non-vacuity and the property: a fresh sequencer of 8 slots, two clones, one claim each - the checker of C14 rejects the merged
   history (verdict 1: claim not contiguous) *)
Example clones_overlap_witness :
  let s := mp_init 8 0 in
  snd (mp_step (mp_clone s) (SNext 1)) = RClaim 1 1 /\
  snd (mp_step (share_cursor (fst (mp_step (fst (mp_step (mp_clone s) (SNext 1))) (SPublish 1 1))) (mp_clone s)) (SNext 1)) = RClaim 1 1 /\
  check false c_init [SNext 1; SPublish 1 1; SNext 1; SPublish 1 1] [(RClaim 1 1, 0); (RNone, 1); (RClaim 1 1, 1); (RNone, 1)] = 1.
Proof. vm_compute. repeat split; reflexivity. Qed.
