(* Trace validation AGAINST THE PROOF MODEL for single-producer pipelines: the logged execution of the hooked implementation
   is replayed on Disruptor/Pipeline.v itself.  The producer's claim (at its first slot write: batch size from the write call,
   gating value = minimum of the gating cursors it loaded, or the cached value when it loaded none), every slot fill, the
   publishing store, every handler's wait result (minimum of the dependency cursors it loaded), every handler call / return
   and every handler cursor store must be ENABLED steps of the model with exactly the observed values.
   [replay_sound]: an accepted trace is an execution of Pipeline.v, so its theorems hold for that very execution. *)
From Coq Require Import List ZArith Arith Bool Lia.
From DC Require Import Disruptor.Pipeline Disruptor.Threads.
Import ListNotations.

Section PReplay.
  Variable N : nat.
  Variable H : nat.
  Variable stage : nat -> nat.
  Variable last : nat.

  Notation pstep := (Pipeline.step N H stage last).

  Inductive psteps : Pipeline.st -> Pipeline.st -> Prop :=
  | ps_refl s : psteps s s
  | ps_step s s' s'' : pstep s s' -> psteps s' s'' -> psteps s s''.
  Lemma psteps_trans a b c : psteps a b -> psteps b c -> psteps a c.
  Proof. induction 1; intros; [assumption | econstructor; eauto]. Qed.
  Lemma psteps_one a b : pstep a b -> psteps a b.
  Proof. intros; econstructor; [eassumption | constructor]. Qed.

  Definition zn (z : Z) : nat := Z.to_nat z.

  Record prs := mkPR {
    pm : Pipeline.st;
    pend : nat;                          (* batch size of the write call in progress *)
    pobs : nat -> option nat;            (* gating cursors as the producer last loaded them during this write *)
    hobs : nat -> nat -> option nat      (* handler h: dependency key (0 = producer cursor, S g = handler g) -> last loaded value *)
  }.

  Definition ids : list nat := seq 0 H.
  Definition gating_ids : list nat := filter (fun h => stage h =? last) ids.
  Definition dep_keys (h : nat) : list nat :=
    if stage h =? 0 then [0] else map S (filter (fun g => S (stage g) =? stage h) ids).

  (* minimum of the observed values over a list of keys; None when one of them was not loaded *)
  Fixpoint min_obs (f : nat -> option nat) (l : list nat) (acc : option nat) : option (option nat) :=
    match l with
    | [] => Some acc
    | k :: r => match f k with
                | Some v => min_obs f r (Some (match acc with Some a => Nat.min a v | None => v end))
                | None => None
                end
    end.

  Definition gate_b (s : Pipeline.st) (m : nat) : bool := forallb (fun h => m <=? hcur s h) gating_ids.
  Definition dep_ok_b (s : Pipeline.st) (h a : nat) : bool :=
    (if stage h =? 0 then a <=? cursor s else true) &&
    forallb (fun g => a <=? hcur s g) (filter (fun g => S (stage g) =? stage h) ids).

  Lemma gate_b_ok s m : gate_b s m = true -> gate H stage last s m.
  Proof.
    unfold gate_b, gate. rewrite forallb_forall. intros Hf h Hh Es. apply Nat.leb_le, Hf.
    unfold gating_ids. apply filter_In. split; [apply in_seq; lia | apply Nat.eqb_eq, Es].
  Qed.

  Lemma dep_ok_b_ok s h a : dep_ok_b s h a = true -> dep_ok H stage s h a.
  Proof.
    unfold dep_ok_b, dep_ok. rewrite andb_true_iff, forallb_forall. intros [H1 H2]. split.
    - intros E. rewrite E in H1. cbn in H1. apply Nat.leb_le, H1.
    - intros g Hg Eg. apply Nat.leb_le, H2. apply filter_In. split; [apply in_seq; lia | apply Nat.eqb_eq, Eg].
  Qed.

  Definition upd2 (f : nat -> nat -> option nat) (h k : nat) (v : nat) : nat -> nat -> option nat :=
    fun h' k' => if (h' =? h) && (k' =? k) then Some v else f h' k'.

  Definition replay_step (r : prs) (e : ev) : option prs :=
    let s := pm r in
    let t := zn (e_tid e) in
    let keep := Some r in
    if t =? 0 then
      (* the producer (main thread) *)
      if (e_kind e =? kWCALL)%Z then Some (mkPR s (zn (e_a e)) (fun _ => None) (hobs r))
      else if (e_kind e =? kLOAD)%Z && (e_cls e =? cHCUR)%Z then
        Some (mkPR s (pend r) (Pipeline.upd (pobs r) (zn (e_off e)) (Some (zn (e_obs e)))) (hobs r))
      else if (e_kind e =? kFILL)%Z then
        let q := zn (e_a e) in
        match pp s with
        | PIdle =>
            let c := pend r in
            let m := match min_obs (pobs r) gating_ids None with Some (Some v) => v | _ => pcached s end in
            if (1 <=? c) && ((m =? pcached s) || gate_b s m) && (pnext s + c - 1 <=? m + N) && (q =? pnext s) then
              (* next() returned; the first slot is written *)
              Some (mkPR (mkSt (cursor s) (hcur s) (pnext s) (pcached s)
                               (if pnext s =? pnext s + c - 1 then PPub (pnext s + c - 1) m else PFill (S (pnext s)) (pnext s + c - 1) m)
                               (hp s) (S (pnext s)) (done s))
                         c (pobs r) (hobs r))
            else None
        | PFill q' e' m' =>
            if q =? q' then
              Some (mkPR (mkSt (cursor s) (hcur s) (pnext s) (pcached s) (if q' =? e' then PPub e' m' else PFill (S q') e' m')
                               (hp s) (S q') (done s)) (pend r) (pobs r) (hobs r))
            else None
        | PPub _ _ => None
        end
      else if (e_kind e =? kSTORE)%Z && (e_cls e =? cPCUR)%Z then
        match pp s with
        | PPub e' m' =>
            if zn (e_a e) =? e' then
              Some (mkPR (mkSt e' (hcur s) (S e') m' PIdle (hp s) (fill_ptr s) (done s)) 0 (pobs r) (hobs r))
            else None
        | _ => None
        end
      else keep
    else
      (* handler h = t - 1 *)
      let h := t - 1 in
      if h <? H then
        if (e_kind e =? kLOAD)%Z && (e_cls e =? cPCUR)%Z then
          Some (mkPR s (pend r) (pobs r) (upd2 (hobs r) h 0 (zn (e_obs e))))
        else if (e_kind e =? kLOAD)%Z && (e_cls e =? cHCUR)%Z then
          Some (mkPR s (pend r) (pobs r) (upd2 (hobs r) h (S (zn (e_off e))) (zn (e_obs e))))
        else if (e_kind e =? kCALL)%Z then
          let i := zn (e_a e) in
          match hp s h with
          | HIdle =>
              match min_obs (hobs r h) (dep_keys h) None with
              | Some (Some a) =>
                  if (hcur s h + 1 <=? a) && dep_ok_b s h a && (i =? hcur s h + 1) then
                    Some (mkPR (mkSt (cursor s) (hcur s) (pnext s) (pcached s) (pp s)
                                     (Pipeline.upd (hp s) h (HBatch (hcur s h + 1) a)) (fill_ptr s) (done s))
                               (pend r) (pobs r) (hobs r))
                  else None
              | _ => None
              end
          | HBatch i' _ => if i =? i' then keep else None
          | _ => None
          end
        else if (e_kind e =? kRET)%Z then
          match hp s h with
          | HBatch i a =>
              if zn (e_a e) =? i then
                Some (mkPR (mkSt (cursor s) (hcur s) (pnext s) (pcached s) (pp s)
                                 (Pipeline.upd (hp s) h (if i =? a then HStore a else HBatch (S i) a)) (fill_ptr s)
                                 (Pipeline.upd (done s) h i))
                           (pend r) (pobs r) (hobs r))
              else None
          | _ => None
          end
        else if (e_kind e =? kSTORE)%Z && (e_cls e =? cHCUR)%Z then
          match hp s h with
          | HStore a =>
              if (zn (e_a e) =? a) && (zn (e_off e) =? h) then
                Some (mkPR (mkSt (cursor s) (Pipeline.upd (hcur s) h a) (pnext s) (pcached s) (pp s)
                                 (Pipeline.upd (hp s) h HIdle) (fill_ptr s) (done s))
                           (pend r) (pobs r) (hobs r))
              else None
          | _ => None
          end
        else keep
      else keep.
  Ltac bools :=
    repeat match goal with
           | H : _ && _ = true |- _ => apply andb_true_iff in H; destruct H
           | H : (_ <=? _) = true |- _ => apply Nat.leb_le in H
           | H : (_ <? _) = true |- _ => apply Nat.ltb_lt in H
           | H : (_ =? _) = true |- _ => apply Nat.eqb_eq in H
           end.

  Theorem replay_step_sound r e r' : replay_step r e = Some r' -> psteps (pm r) (pm r').
  Proof.
    unfold replay_step. set (s := pm r). set (t := zn (e_tid e)).
    destruct (t =? 0).
    - destruct (e_kind e =? kWCALL)%Z; [intros E; inversion E; subst; constructor|].
      destruct ((e_kind e =? kLOAD)%Z && (e_cls e =? cHCUR)%Z); [intros E; inversion E; subst; constructor|].
      destruct (e_kind e =? kFILL)%Z.
      { destruct (pp s) as [|q' e' m'|e' m'] eqn:Ep; [| |discriminate].
        - set (m := match min_obs (pobs r) gating_ids None with Some (Some v) => v | _ => pcached s end).
          match goal with |- context [if ?c then _ else None] => destruct c eqn:Ec end; [|discriminate].
          intros E; inversion E; subst; cbn [pm]. bools.
          assert (Hm : m = pcached s \/ gate H stage last s m).
          { match goal with X : _ || _ = true |- _ => apply orb_true_iff in X; destruct X as [X1|X1]; [left; apply Nat.eqb_eq; exact X1 | right; apply gate_b_ok; exact X1] end. }
          eapply ps_step; [apply (p_claim N H stage last s (pend r) m); assumption|].
          apply psteps_one.
          pose (s1 := mkSt (cursor s) (hcur s) (pnext s) (pcached s) (PFill (pnext s) (pnext s + pend r - 1) m) (hp s) (fill_ptr s) (done s)).
          apply (p_fill N H stage last s1 (pnext s) (pnext s + pend r - 1) m). reflexivity.
        - destruct (zn (e_a e) =? q') eqn:Eq; [|discriminate].
          intros E; inversion E; subst; cbn [pm]. apply psteps_one. apply p_fill. exact Ep. }
      destruct ((e_kind e =? kSTORE)%Z && (e_cls e =? cPCUR)%Z); [|intros E; inversion E; subst; constructor].
      destruct (pp s) as [|q' e' m'|e' m'] eqn:Ep; try discriminate.
      destruct (zn (e_a e) =? e'); [|discriminate].
      intros E; inversion E; subst; cbn [pm]. apply psteps_one. apply p_publish. exact Ep.
    - set (h := t - 1). destruct (h <? H) eqn:Eh; [|intros E; inversion E; subst; constructor]. apply Nat.ltb_lt in Eh.
      destruct ((e_kind e =? kLOAD)%Z && (e_cls e =? cPCUR)%Z); [intros E; inversion E; subst; constructor|].
      destruct ((e_kind e =? kLOAD)%Z && (e_cls e =? cHCUR)%Z); [intros E; inversion E; subst; constructor|].
      destruct (e_kind e =? kCALL)%Z.
      { destruct (hp s h) as [|i' a'|a'|] eqn:Ehp; try discriminate.
        - destruct (min_obs (hobs r h) (dep_keys h) None) as [[a|]|]; try discriminate.
          match goal with |- context [if ?c then _ else None] => destruct c eqn:Ec end; [|discriminate].
          intros E; inversion E; subst; cbn [pm]. bools. apply psteps_one.
          apply h_wait; [exact Eh | exact Ehp | assumption | apply dep_ok_b_ok; assumption].
        - destruct (zn (e_a e) =? i'); [|discriminate]. intros E; inversion E; subst; constructor. }
      destruct (e_kind e =? kRET)%Z.
      { destruct (hp s h) as [|i a|a|] eqn:Ehp; try discriminate.
        destruct (zn (e_a e) =? i); [|discriminate].
        intros E; inversion E; subst; cbn [pm]. apply psteps_one. apply h_handle; assumption. }
      destruct ((e_kind e =? kSTORE)%Z && (e_cls e =? cHCUR)%Z); [|intros E; inversion E; subst; constructor].
      destruct (hp s h) as [|i a|a|] eqn:Ehp; try discriminate.
      match goal with |- context [if ?c then _ else None] => destruct c eqn:Ec end; [|discriminate].
      intros E; inversion E; subst; cbn [pm]. apply psteps_one. apply h_store; assumption.
  Qed.

  Fixpoint replay (r : prs) (l : list ev) (i : Z) : Z * prs :=
    match l with
    | [] => ((-1)%Z, r)
    | e :: t => match replay_step r e with Some r' => replay r' t (i + 1)%Z | None => (i, r) end
    end.

  Definition rinit : prs := mkPR Pipeline.init 0 (fun _ => None) (fun _ _ => None).

  Lemma replay_steps : forall l r i r', replay r l i = ((-1)%Z, r') -> psteps (pm r) (pm r').
  Proof.
    induction l as [|e t IH]; intros r i r' Hr; cbn [replay] in Hr.
    - inversion Hr; subst. constructor.
    - destruct (replay_step r e) as [r1|] eqn:E.
      + eapply psteps_trans; [eapply replay_step_sound; exact E | eapply IH; exact Hr].
      + inversion Hr; subst. constructor.
  Qed.

  (* AN ACCEPTED TRACE IS AN EXECUTION OF THE MODEL *)
  Theorem replay_sound l r' : replay rinit l 0 = ((-1)%Z, r') -> Pipeline.reachable N H stage last (pm r').
  Proof.
    intros Hr. apply replay_steps in Hr. cbn [rinit pm] in Hr.
    assert (K : forall a b, psteps a b -> Pipeline.reachable N H stage last a -> Pipeline.reachable N H stage last b).
    { induction 1; intros; [assumption | apply IHpsteps; econstructor; eauto]. }
    eapply K; [exact Hr | apply Pipeline.reach_init].
  Qed.

  (* ... so every theorem about reachable states holds of the execution just observed; spelled out for stage order (C13) *)
  Corollary replay_stage_order l r' : replay rinit l 0 = ((-1)%Z, r') ->
    forall h i a g, h < H -> g < H -> Pipeline.hp (pm r') h = Pipeline.HBatch i a -> S (stage g) = stage h ->
    i <= Pipeline.done (pm r') g.
  Proof. intros Hr h i a g Hh Hg Hb Hs. exact (Pipeline.stage_order N H stage last (pm r') h i a g (replay_sound l r' Hr) Hh Hg Hb Hs). Qed.
End PReplay.

(* stage of a handler id, from the stage sizes *)
Fixpoint stage_of (sizes : list nat) (h : nat) (k : nat) : nat :=
  match sizes with
  | [] => k
  | n :: rest => if h <? n then k else stage_of rest (h - n) (S k)
  end.

Definition pipe_replay_entry (l : list Z) : list Z :=
  match l with
  | n :: multi :: block :: drain :: ns :: rest =>
      let '(stages, rest1) := take_lists (Z.to_nat ns) rest in
      match rest1 with
      | nw :: rest2 =>
          let '(writers, evs) := take_lists (Z.to_nat nw) rest2 in
          if negb (multi =? 0)%Z then [(-2)%Z]
          else
            let sizes := map (@length Z) stages in
            let H := fold_right Nat.add 0 sizes in
            [fst (replay (Z.to_nat n) H (fun h => stage_of sizes h 0) (length sizes - 1) (rinit) (events_of (length evs) evs) 0)]
      | [] => [(-3)%Z]
      end
  | _ => [(-3)%Z]
  end.
