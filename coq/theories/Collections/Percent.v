(* C18: "all members satisfy => the percentage is EXACTLY 100" and "none satisfies => exactly 0", for EVERY collection size that a
   usize can hold - not a bounded evaluation.  binary64 division x / x = 1 needs the specification of IEEE division, which is
   Flocq's (Bdiv_correct); Flocq's operations are those of Coq.Floats.SpecFloat, on which the model is written (lemmas of
   Flocq.IEEE754.PrimFloat).  Flocq depends on the classical axioms of the real numbers of the standard library. *)
From Coq Require Import ZArith Reals List Floats SpecFloat Lia Lra Bool.
From Flocq Require Import Core.Core IEEE754.BinarySingleNaN IEEE754.PrimFloat.
From DC Require Import Common.SpecF64 Collections.Model.
Import ListNotations.

Local Open Scope R_scope.
#[local] Existing Instance Hprec.
#[local] Existing Instance Hmax.

Notation bf := (binary_float FloatOps.prec FloatOps.emax).
Definition nf (z : Z) : bf := binary_normalize FloatOps.prec FloatOps.emax Hprec Hmax mode_NE z 0 false.

Lemma of_Z_nf z : of_Z z = B2SF (nf z).
Proof. unfold of_Z, nf. apply (binary_normalize_equiv z 0 false). Qed.

Lemma SFdiv_Bdiv (x y : bf) : SFdiv FloatOps.prec FloatOps.emax (B2SF x) (B2SF y) = B2SF (Bdiv mode_NE x y).
Proof.
  destruct x as [sx|sx| |sx mx ex Bx]; destruct y as [sy|sy| |sy my ey By]; try reflexivity.
  simpl. rewrite B2SF_SF2B.
  set (melz := SFdiv_core_binary _ _ _ _ _ _). destruct melz as [[mz ez] lz].
  apply binary_round_aux_equiv.
Qed.

Notation fexp := (SpecFloat.fexp FloatOps.prec FloatOps.emax).
Notation rnd := (round radix2 (FLT_exp (3 - FloatOps.emax - FloatOps.prec) FloatOps.prec) (round_mode mode_NE)).

Lemma nf_pos z : (1 <= z <= 2 ^ 64)%Z ->
  is_finite (nf z) = true /\ (1 <= B2R (nf z)) /\ Bsign (nf z) = false.
Proof.
  intros Hz. unfold nf.
  pose proof (binary_normalize_correct FloatOps.prec FloatOps.emax Hprec Hmax mode_NE z 0 false) as C.
  cbv zeta in C. replace (F2R (Float radix2 z 0)) with (IZR z) in C by (unfold F2R; simpl; lra).
  match type of C with context [Rlt_bool (Rabs ?r) _] => set (r0 := r) in * end.
  assert (L1 : 1 <= r0).
  { unfold r0. apply round_ge_generic; [apply FLT_exp_valid; apply Hprec | apply valid_rnd_N | | apply IZR_le; lia].
    replace 1 with (bpow radix2 0) by reflexivity. apply generic_format_FLT_bpow; [apply Hprec | vm_compute; discriminate]. }
  assert (L2 : r0 <= bpow radix2 64).
  { unfold r0. apply round_le_generic; [apply FLT_exp_valid; apply Hprec | apply valid_rnd_N | |].
    - apply generic_format_FLT_bpow; [apply Hprec | vm_compute; discriminate].
    - change (bpow radix2 64) with (IZR (2 ^ 64)). apply IZR_le; lia. }
  rewrite Rlt_bool_true in C.
  - destruct C as (C1 & C2 & C3). split; [exact C2|]. split; [rewrite C1; exact L1|].
    rewrite C3. rewrite Rcompare_Gt; [reflexivity | apply IZR_lt; lia].
  - rewrite Rabs_pos_eq by lra. eapply Rle_lt_trans; [exact L2|]. apply bpow_lt. vm_compute. reflexivity.
Qed.

Lemma Bdiv_self (x : bf) : is_finite x = true -> B2R x <> 0 -> Bdiv mode_NE x x = Bone.
Proof.
  intros Hf Hx.
  pose proof (Bdiv_correct FloatOps.prec FloatOps.emax Hprec Hmax mode_NE x x Hx) as C.
  replace (B2R x / B2R x) with 1 in C by (field; exact Hx).
  assert (F1 : generic_format radix2 (FLT_exp (3 - FloatOps.emax - FloatOps.prec) FloatOps.prec) 1).
  { replace 1 with (bpow radix2 0) by reflexivity. apply generic_format_FLT_bpow; [apply Hprec | vm_compute; discriminate]. }
  rewrite round_generic in C; [|apply valid_rnd_N | exact F1].
  rewrite Rlt_bool_true in C.
  - destruct C as (C1 & C2 & C3).
    apply B2R_Bsign_inj.
    + rewrite C2. exact Hf.
    + apply is_finite_Bone.
    + rewrite C1. symmetry. apply Bone_correct.
    + rewrite Bsign_Bone. rewrite C3.
      * destruct (Bsign x); reflexivity.
      * destruct (Bdiv mode_NE x x); try reflexivity. rewrite Hf in C2. discriminate.
  - rewrite Rabs_R1. replace 1 with (bpow radix2 0) by reflexivity. apply bpow_lt. vm_compute. reflexivity.
Qed.

Local Close Scope R_scope.

Lemma count_repeat_true n : count (repeat true n) = n.
Proof. unfold count. induction n as [|n IH]; cbn; [reflexivity | f_equal; exact IH]. Qed.
Lemma count_repeat_false n : count (repeat false n) = 0.
Proof. unfold count. induction n as [|n IH]; cbn; [reflexivity | exact IH]. Qed.

(* ALL members satisfy the predicate: the percentage is exactly 100.0, for every collection of 1 .. 2^64 members *)
Theorem percent_all_true_is_100 n : (1 <= n)%nat -> (Z.of_nat n <= 2 ^ 64)%Z -> percent100 (repeat true n) = f_hundred.
Proof.
  intros Hn Hb. unfold percent100, fcount. rewrite count_repeat_true, repeat_length.
  unfold of_nat. rewrite of_Z_nf. unfold fdiv.
  change (SFdiv SpecF64.prec SpecF64.emax) with (SFdiv FloatOps.prec FloatOps.emax).
  rewrite SFdiv_Bdiv.
  destruct (nf_pos (Z.of_nat n) ltac:(lia)) as (F & P & S).
  rewrite Bdiv_self; [| exact F | lra].
  vm_compute. reflexivity.
Qed.

(* NO member satisfies it: exactly +0.0 *)
Theorem percent_none_true_is_0 n : (1 <= n)%nat -> (Z.of_nat n <= 2 ^ 64)%Z -> percent100 (repeat false n) = S754_zero false.
Proof.
  intros Hn Hb. unfold percent100, fcount. rewrite count_repeat_false, repeat_length.
  unfold of_nat at 2. rewrite of_Z_nf.
  destruct (nf_pos (Z.of_nat n) ltac:(lia)) as (F & P & S).
  destruct (nf (Z.of_nat n)) as [sx|sx| |sx mx ex Bx]; try discriminate.
  - simpl in P. lra.
  - simpl in S. subst sx. reflexivity.
Qed.
