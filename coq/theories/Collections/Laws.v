(* The counting laws of the collection protocols: C18 (and the list-level half of C12). *)
From Coq Require Import List Arith ZArith Bool Lia Permutation.
From DC Require Import Common.SpecF64 Collections.Model.
Import ListNotations.

(* ---------- generic laws ------------------------------------------------------------------------ *)
Lemma all_loop_forallb ps : all_loop ps = forallb (fun b : bool => b) ps.
Proof. induction ps as [|[] t IH]; cbn; auto. Qed.

Lemma any_loop_existsb ps : any_loop ps = existsb (fun b : bool => b) ps.
Proof. induction ps as [|[] t IH]; cbn; auto. Qed.

(* a filter returns exactly as many members as the count reports *)
Theorem select_length {A} (xs : list A) ps : length xs = length ps -> length (select xs ps) = count ps.
Proof.
  revert ps. induction xs as [|x xt IH]; intros [|p pt] H; cbn in *; try lia; auto.
  unfold count in *. destruct p; cbn; rewrite IH by lia; reflexivity.
Qed.

(* complementary filters partition the collection *)
Theorem select_partition {A} (xs : list A) ps :
  length xs = length ps -> Permutation (select xs ps ++ select xs (map negb ps)) xs.
Proof.
  revert ps. induction xs as [|x xt IH]; intros [|p pt] H; cbn in *; try lia; auto.
  destruct p; cbn.
  - constructor. apply IH. lia.
  - apply Permutation_sym, Permutation_cons_app, Permutation_sym, IH. lia.
Qed.

Theorem count_complement ps : count ps + count (map negb ps) = length ps.
Proof. unfold count. induction ps as [|[] t IH]; cbn; lia. Qed.

(* a member is in the filter result iff its predicate holds (members identified by position) *)
Theorem select_In {A} (xs : list A) ps x :
  length xs = length ps -> NoDup xs ->
  (In x (select xs ps) <-> exists i, nth_error xs i = Some x /\ nth_error ps i = Some true).
Proof.
  revert ps. induction xs as [|y xt IH]; intros [|p pt] H Hnd; cbn in *; try lia.
  - split; [tauto | intros (i & Hi & _); destruct i; discriminate].
  - inversion Hnd as [|? ? Hny Hnd']; subst.
    assert (Hl : length xt = length pt) by lia. specialize (IH pt Hl Hnd').
    destruct p; cbn.
    + split.
      * intros [->|Hin]; [exists 0; auto|]. apply IH in Hin as (i & H1 & H2). exists (S i); auto.
      * intros ([|i] & H1 & H2); cbn in *; [inversion H1; auto|]. right. apply IH. eauto.
    + split.
      * intros Hin. apply IH in Hin as (i & H1 & H2). exists (S i); auto.
      * intros ([|i] & H1 & H2); cbn in *; [discriminate|]. apply IH. eauto.
Qed.

(* counts and percentages: by definition the count of members satisfying the predicate, and
   count / size on the documented scale (x100 for assumptions and inferences, 0..1 for observations) *)
Theorem number_is_count ps : fcount ps = of_nat (length (filter (fun b : bool => b) ps)).
Proof. reflexivity. Qed.
Theorem percent_is_count_over_size ps :
  percent100 ps = fmul (fdiv (of_nat (count ps)) (of_nat (length ps))) f_hundred.
Proof. reflexivity. Qed.
Theorem ratio_is_count_over_size ps : ratio ps = fdiv (of_nat (count ps)) (of_nat (length ps)).
Proof. reflexivity. Qed.

(* ---------- inferences -------------------------------------------------------------------------- *)
Theorem never_both_inferable x : is_inferable x && is_inverse_inferable x = false.
Proof.
  unfold is_inferable, is_inverse_inferable.
  destruct (total_cmp (iobs x) (ithr x)); cbn; auto. rewrite andb_false_r. reflexivity.
Qed.

Theorem no_non_inferable l :
  let infs := map is_inferable l in let invs := map is_inverse_inferable l in
  let both := map (fun p : bool * bool => fst p && snd p) (combine infs invs) in
  count both = 0 /\ select (map iid l) both = [] /\
  any_loop (map (fun p : bool * bool => snd p && fst p) (combine infs invs)) = false.
Proof.
  cbv zeta. induction l as [|x t (IH1 & IH2 & IH3)]; cbn [map combine count filter select any_loop length]; auto.
  cbn [fst snd]. rewrite (andb_comm (is_inverse_inferable x)), never_both_inferable.
  unfold count in *. cbn [filter]. auto.
Qed.

(* the model's inference observation satisfies the checker (the laws) *)
Lemma take_members_flat {A} (k n : nat) (f : A -> list Z) (l : list A) rest :
  (forall a, length (f a) = k) -> length l = n ->
  take_members k n (flat_map f l ++ rest) = (map f l, rest).
Proof.
  intros Hk. revert n. induction l as [|a t IH]; intros [|n] Hn; cbn in Hn; try lia; [reflexivity|].
  cbn [flat_map take_members]. rewrite <- app_assoc.
  assert (E1 : firstn k (f a ++ flat_map f t ++ rest) = f a).
  { rewrite firstn_app, Hk, Nat.sub_diag, firstn_O, app_nil_r. rewrite <- (Hk a). apply firstn_all. }
  assert (E2 : skipn k (f a ++ flat_map f t ++ rest) = flat_map f t ++ rest).
  { rewrite skipn_app, Hk, Nat.sub_diag. rewrite <- (Hk a), skipn_all. reflexivity. }
  rewrite E1, E2, (IH n) by lia. reflexivity.
Qed.

Lemma zlist_eqb_refl l : zlist_eqb l l = true.
Proof. induction l; cbn; auto. rewrite Z.eqb_refl. auto. Qed.

(* ---------- assumptions: the verification history ------------------------------------------------ *)
Definition run_member (a : assumption) (ds : list (list bool)) : assumption :=
  fold_left (fun a d => fst (verify a d)) ds a.

Theorem verify_returns_verdict a d : snd (verify a d) = afn_eval (afn a) d.
Proof. reflexivity. Qed.

Theorem member_history a ds :
  let a' := run_member a ds in
  aid a' = aid a /\ afn a' = afn a /\
  tested a' = (tested a || negb (match ds with [] => true | _ => false end)) /\
  valid a' = (valid a || existsb (afn_eval (afn a)) ds).
Proof.
  cbv zeta. revert a. induction ds as [|d t IH]; intros a; cbn [run_member fold_left existsb].
  - rewrite !orb_false_r. auto.
  - destruct (IH (fst (verify a d))) as (H1 & H2 & H3 & H4). fold (run_member (fst (verify a d)) t).
    rewrite H1, H2, H3, H4. cbn [verify fst aid afn tested valid].
    repeat split; auto.
    + destruct t; cbn; rewrite ?orb_true_r; reflexivity.
    + destruct (afn_eval (afn a) d); cbn; rewrite ?orb_true_r; reflexivity.
Qed.

(* never valid before a verification returned true; tested from the first verification on *)
Corollary fresh_member_history id fn ds :
  let a' := run_member (mkA id fn false false) ds in
  (tested a' = true <-> ds <> []) /\ (valid a' = true <-> exists d, In d ds /\ afn_eval fn d = true).
Proof.
  cbv zeta. destruct (member_history (mkA id fn false false) ds) as (_ & _ & H3 & H4).
  rewrite H3, H4. cbn [tested valid afn orb]. split.
  - destruct ds; cbn; split; congruence.
  - rewrite existsb_exists. reflexivity.
Qed.

(* verify_all touches every member once; verify_one only the addressed member *)
Theorem verify_all_members l d i a :
  nth_error l i = Some a -> nth_error (fst (astep l (AVerifyAll d))) i = Some (fst (verify a d)).
Proof. intros H. cbn [astep fst]. rewrite nth_error_map, H. reflexivity. Qed.

Theorem verify_one_members l i d j :
  nth_error (fst (astep l (AVerifyOne i d))) j =
  if j =? i then option_map (fun a => fst (verify a d)) (nth_error l j) else nth_error l j.
Proof.
  cbn [astep]. revert i j. induction l as [|a t IH]; intros i j; cbn [verify_at].
  - cbn. destruct (j =? i); destruct j; reflexivity.
  - destruct i as [|i].
    + destruct j; cbn; reflexivity.
    + destruct (verify_at t i d) as [t' r] eqn:E. cbn [fst]. destruct j as [|j]; [reflexivity|].
      cbn [nth_error]. specialize (IH i j). rewrite E in IH. cbn [fst] in IH. exact IH.
Qed.

Theorem verify_one_returns l i d a :
  nth_error l i = Some a -> snd (astep l (AVerifyOne i d)) = zb (afn_eval (afn a) d).
Proof.
  cbn [astep]. revert i. induction l as [|b t IH]; intros [|i] H; cbn in H; try discriminate.
  - inversion H; subst. reflexivity.
  - cbn [verify_at]. specialize (IH i H). destruct (verify_at t i d). exact IH.
Qed.

(* non-vacuity / bounded sanity (a TEST, not the unbounded claim): all members satisfy => exactly 100 *)
Example percent_all_is_100 :
  forallb (fun n => Z.eqb (to_bits (percent100 (repeat true (S n)))) (to_bits f_hundred)) (seq 0 200) = true
  /\ forallb (fun n => Z.eqb (to_bits (percent100 (repeat false (S n)))) 0) (seq 0 200) = true.
Proof. vm_compute. auto. Qed.

(* ---------- container independence (C12): order-insensitive answers are permutation invariant ---- *)
Theorem count_perm {A} (p : A -> bool) l l' : Permutation l l' -> count (map p l) = count (map p l').
Proof.
  unfold count. induction 1 as [|x l l' H IH|x y l|l l' l'' H1 IH1 H2 IH2]; cbn; auto.
  - destruct (p x); cbn; rewrite IH; reflexivity.
  - destruct (p x), (p y); reflexivity.
  - congruence.
Qed.

Theorem all_perm {A} (p : A -> bool) l l' : Permutation l l' -> all_loop (map p l) = all_loop (map p l').
Proof.
  rewrite !all_loop_forallb. induction 1 as [|x l l' H IH|x y l|l l' l'' H1 IH1 H2 IH2]; cbn; auto.
  - rewrite IH. reflexivity.
  - destruct (p x), (p y); reflexivity.
  - congruence.
Qed.

Theorem select_perm {A} (p : A -> bool) l l' :
  Permutation l l' -> Permutation (select l (map p l)) (select l' (map p l')).
Proof.
  induction 1 as [|x l l' H IH|x y l|l l' l'' H1 IH1 H2 IH2]; cbn; auto.
  - destruct (p x); auto.
  - destruct (p x), (p y); auto. apply perm_swap.
  - eapply Permutation_trans; eauto.
Qed.

Theorem percent_perm {A} (p : A -> bool) l l' : Permutation l l' -> percent100 (map p l) = percent100 (map p l').
Proof.
  intros H. unfold percent100, fcount. rewrite (count_perm p l l' H), !map_length, (Permutation_length H). reflexivity.
Qed.
