(* Model of the collection reasoning protocols
   deep_causality/src/protocols/{assumable,inferable,observable}/mod.rs (trait default methods over
   get_all_items) and the member predicates of Inference / Observation / Assumption.
   Floats are binary64 bit patterns (Common/SpecF64.v). *)
From Coq Require Import List Arith ZArith Bool.
From DC Require Import Common.SpecF64.
Import ListNotations.

(* ---------- generic pieces: everything is a filter / count over the item list ------------------ *)
Fixpoint select {A} (xs : list A) (ps : list bool) : list A :=       (* .filter(pred) *)
  match xs, ps with
  | x :: xt, p :: pt => if p then x :: select xt pt else select xt pt
  | _, _ => []
  end.
Definition count (ps : list bool) : nat := length (filter (fun b : bool => b) ps).   (* .filter(pred).count() *)
Fixpoint all_loop (ps : list bool) : bool :=        (* for e in items { if !p(e) { return false } } true *)
  match ps with [] => true | p :: t => if negb p then false else all_loop t end.
Fixpoint any_loop (ps : list bool) : bool :=        (* for e in items { if p(e) { return true } } false *)
  match ps with [] => false | p :: t => if p then true else any_loop t end.

Definition fcount (ps : list bool) : f64 := of_nat (count ps).                 (* count as f64 *)
Definition percent100 (ps : list bool) : f64 :=                                (* (number / len as f64) * 100.0 *)
  fmul (fdiv (fcount ps) (of_nat (length ps))) f_hundred.
Definition ratio (ps : list bool) : f64 := fdiv (fcount ps) (of_nat (length ps)).

Definition zb (b : bool) : Z := if b then 1%Z else 0%Z.
Definition enc_ids (l : list Z) : list Z := Z.of_nat (length l) :: l.

(* abs_num *)
Definition abs_num (v : f64) : f64 := if fltb f_zero v then v else fmul f_minus_one v.

(* ---------- Assumable -------------------------------------------------------------------------- *)
Record assumption := mkA { aid : Z; afn : nat; tested : bool; valid : bool }.

(* the fixed family of EvalFn items of the harness: fn k (k < 8) = (data[k] == 1.0); 100 = always true; else false *)
Definition afn_eval (k : nat) (data : list bool) : bool :=
  if k =? 100 then true else if k <? 8 then nth k data false else false.

(* Assumption::verify_assumption *)
Definition verify (a : assumption) (data : list bool) : assumption * bool :=
  let res := afn_eval (afn a) data in
  (mkA (aid a) (afn a) true (if res then true else valid a), res).

(* aggregates of AssumableReasoning from the members' flags, in item order *)
Definition assum_aggs (ids : list Z) (ts vs : list bool) : list Z :=
  [zb (all_loop ts); zb (all_loop vs); to_bits (fcount vs); to_bits (percent100 vs)]
  ++ enc_ids (select ids vs) ++ enc_ids (select ids (map negb vs))
  ++ enc_ids (select ids ts) ++ enc_ids (select ids (map negb ts)).

Definition assum_members (l : list assumption) : list Z :=
  flat_map (fun a => [aid a; zb (tested a); zb (valid a)]) l.

Definition assum_obs (l : list assumption) : list Z :=
  assum_members l ++ assum_aggs (map aid l) (map tested l) (map valid l).

Inductive aop := AVerifyAll (data : list bool) | AVerifyOne (i : nat) (data : list bool).

Fixpoint verify_at (l : list assumption) (i : nat) (data : list bool) : list assumption * Z :=
  match l, i with
  | [], _ => ([], (-1)%Z)
  | a :: t, O => let '(a', r) := verify a data in (a' :: t, zb r)
  | a :: t, S j => let '(t', r) := verify_at t j data in (a :: t', r)
  end.

Definition astep (l : list assumption) (o : aop) : list assumption * Z :=
  match o with
  | AVerifyAll data => (map (fun a => fst (verify a data)) l, 0%Z)
  | AVerifyOne i data => verify_at l i data
  end.

(* ---------- Inferable -------------------------------------------------------------------------- *)
Record inference := mkI { iid : Z; iobs : Z; ithr : Z; ieff : Z; itgt : Z }.      (* bit patterns *)

(* approx_equal(a, b, 4): (a * 10^4).trunc() == (b * 10^4).trunc() *)
Definition approx_equal4 (a b : Z) : bool :=
  tclass_eqb (trunc_class (fmul (of_bits a) f_10000)) (trunc_class (fmul (of_bits b) f_10000)).

Definition is_inferable (x : inference) : bool :=
  (match total_cmp (iobs x) (ithr x) with Gt => true | _ => false end) && approx_equal4 (ieff x) (itgt x).
Definition is_inverse_inferable (x : inference) : bool :=
  (match total_cmp (iobs x) (ithr x) with Lt => true | _ => false end) && approx_equal4 (ieff x) (itgt x).

Definition infer_aggs (ids : list Z) (infs invs : list bool) : list Z :=
  let both := map (fun p : bool * bool => fst p && snd p) (combine infs invs) in
  let total := of_nat (length infs) in
  [zb (all_loop infs); zb (all_loop invs); zb (any_loop (map (fun p : bool * bool => snd p && fst p) (combine infs invs)));
   to_bits (fcount infs); to_bits (fcount invs); to_bits (fcount both);
   to_bits (percent100 infs); to_bits (percent100 invs);
   to_bits (fmul (fdiv (fcount both) total) f_hundred);
   to_bits (abs_num (fsub f_one (fdiv (fsub total (fcount both)) total)))]
  ++ enc_ids (select ids infs) ++ enc_ids (select ids invs) ++ enc_ids (select ids both).

Definition infer_members (l : list inference) (infs invs : list bool) : list Z :=
  flat_map (fun t : Z * (bool * bool) => [fst t; zb (fst (snd t)); zb (snd (snd t))]) (combine (map iid l) (combine infs invs)).

Definition infer_obs (l : list inference) : list Z :=
  let infs := map is_inferable l in let invs := map is_inverse_inferable l in
  infer_members l infs invs ++ infer_aggs (map iid l) infs invs.

(* ---------- Observable ------------------------------------------------------------------------- *)
Record observation := mkO { oid : Z; oobs : Z; oeff : Z }.

(* effect_observed: observation >= target_threshold && observed_effect == target_effect *)
Definition effect_observed (x : observation) (thr tgt : Z) : bool :=
  fleb (of_bits thr) (of_bits (oobs x)) && feqb (of_bits (oeff x)) (of_bits tgt).

Definition obs_aggs (ps : list bool) : list Z :=
  let number := fcount ps in
  let len := of_nat (length ps) in
  [to_bits number; to_bits (fsub len number); to_bits (fdiv number len); to_bits (fsub f_one (fdiv number len))].

Definition obs_obs (l : list observation) (thr tgt : Z) : list Z :=
  let ps := map (fun x => effect_observed x thr tgt) l in
  flat_map (fun t : Z * bool => [fst t; zb (snd t)]) (combine (map oid l) ps) ++ obs_aggs ps.

(* ---------- sorting by id (hash-map containers are compared in id order) ----------------------- *)
Section SortBy.
  Context {A : Type} (key : A -> Z).
  Fixpoint ins_by (x : A) (l : list A) : list A :=
    match l with [] => [x] | y :: t => if (key x <=? key y)%Z then x :: l else y :: ins_by x t end.
  Definition sort_by (l : list A) : list A := fold_right ins_by [] l.
End SortBy.

(* ---------- integer coding ---------------------------------------------------------------------
   kind container n members... then:
   kind 0 (assumptions): member = id fn ; ops = (code idx d0..d7) : code 0 verify_all, 1 verify_one, 2 continue on a clone
                         output: per op: return value, then assum_obs
   kind 1 (inferences):  member = id obs thr eff tgt ; output infer_obs
   kind 2 (observations): member = id obs eff ; then queries (thr tgt)* ; output per query obs_obs
   container 4 (HashMap) is observed in id order; verify_one indices always refer to the input position *)
Fixpoint take_members (k n : nat) (l : list Z) : list (list Z) * list Z :=
  match n with
  | O => ([], l)
  | S m => let '(ms, rest) := take_members k m (skipn k l) in (firstn k l :: ms, rest)
  end.

Definition nthz (l : list Z) (i : nat) : Z := nth i l 0%Z.

Fixpoint arun (sorted : bool) (l : list assumption) (ops : list Z) (fuel : nat) : list Z :=
  match fuel with
  | O => []
  | S f =>
    match ops with
    | c :: i :: rest =>
        let data := map (fun z => Z.eqb z 1) (firstn 8 rest) in
        (* code 2: the harness continues on a CLONE of the collection - an assumption's verification state travels with it *)
        let '(l', r) := if Z.eqb c 2 then (l, 0%Z) else astep l (if Z.eqb c 0 then AVerifyAll data else AVerifyOne (Z.to_nat i) data) in
        r :: assum_obs (if sorted then sort_by aid l' else l') ++ arun sorted l' (skipn 8 rest) f
    | _ => []
    end
  end.

Fixpoint orun (l : list observation) (qs : list Z) (fuel : nat) : list Z :=
  match fuel with
  | O => []
  | S f => match qs with thr :: tgt :: rest => obs_obs l thr tgt ++ orun l rest f | _ => [] end
  end.

Definition collections_model_entry (l : list Z) : list Z :=
  match l with
  | kind :: cont :: n :: rest =>
      let sorted := Z.eqb cont 4 in
      if Z.eqb kind 0 then
        let '(ms, ops) := take_members 2 (Z.to_nat n) rest in
        let items := map (fun m => mkA (nthz m 0) (Z.to_nat (nthz m 1)) false false) ms in
        arun sorted items ops (length ops)
      else if Z.eqb kind 1 then
        let '(ms, _) := take_members 5 (Z.to_nat n) rest in
        let items := map (fun m => mkI (nthz m 0) (nthz m 1) (nthz m 2) (nthz m 3) (nthz m 4)) ms in
        infer_obs (if sorted then sort_by iid items else items)
      else
        let '(ms, qs) := take_members 3 (Z.to_nat n) rest in
        let items := map (fun m => mkO (nthz m 0) (nthz m 1) (nthz m 2)) ms in
        orun (if sorted then sort_by oid items else items) qs (length qs)
  | _ => []
  end.

(* ---------- the counting laws as a checker on an observed output ------------------------------- *)
Fixpoint zlist_eqb (a b : list Z) : bool :=
  match a, b with
  | [], [] => true
  | x :: a', y :: b' => Z.eqb x y && zlist_eqb a' b'
  | _, _ => false
  end.

(* inferences: members (id inf inv)*n then the aggregates; every aggregate must be the count / filter /
   percentage of the reported member predicates, and no member may be both *)
Definition infer_check (n : nat) (out : list Z) : bool :=
  let '(ms, aggs) := take_members 3 n out in
  let ids := map (fun m => nthz m 0) ms in
  let infs := map (fun m => Z.eqb (nthz m 1) 1) ms in
  let invs := map (fun m => Z.eqb (nthz m 2) 1) ms in
  (length ms =? n) && forallb (fun m => (Z.eqb (nthz m 1) 0 || Z.eqb (nthz m 1) 1) && (Z.eqb (nthz m 2) 0 || Z.eqb (nthz m 2) 1)) ms
  && negb (existsb (fun p : bool * bool => fst p && snd p) (combine infs invs))
  && zlist_eqb aggs (infer_aggs ids infs invs).

Fixpoint obs_check (n : nat) (out : list Z) (q : nat) : bool :=
  match q with
  | O => match out with [] => true | _ => false end
  | S q' =>
      let '(ms, rest) := take_members 2 n out in
      let ps := map (fun m => Z.eqb (nthz m 1) 1) ms in
      (length ms =? n) && zlist_eqb (firstn 4 rest) (obs_aggs ps) && obs_check n (skipn 4 rest) q'
  end.

(* entry: nout, then the model-entry input, then the implementation's output *)
Definition collections_check_entry (l : list Z) : list Z :=
  match l with
  | nout :: rest =>
      let nin := (length rest - Z.to_nat nout)%nat in
      let inp := firstn nin rest in
      let out := skipn nin rest in
      match inp with
      | kind :: cont :: n :: body =>
          if Z.eqb kind 0 then [zb (zlist_eqb out (collections_model_entry inp))]
          else if Z.eqb kind 1 then [zb (infer_check (Z.to_nat n) out)]
          else [zb (obs_check (Z.to_nat n) out ((length body - 3 * Z.to_nat n) / 2))]
      | _ => [0%Z]
      end
  | _ => [0%Z]
  end.
