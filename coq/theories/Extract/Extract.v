(* Extraction of the executable models for the correspondence driver.
   ExtrOcamlBasic only; nat, positive, N, Z stay the extracted inductive types. *)
From Coq Require Import Extraction ExtrOcamlBasic.
From Coq Require Import List NArith ZArith.
From DC Require Import BitMap.Model.
From DC Require Window.Model.
From DC Require Grid.Model.
From DC Require Adjustable.Model Adjustable.Overflow.
From DC Require Graph.UltraGraph Graph.Spec Graph.ShortestPath.
From DC Require Context.Model Context.Spec.
From DC Require Collections.Model.
From DC Require Causal.Model Causal.Entry Causal.Check.
From DC Require CSM.Model.
From DC Require Disruptor.Threads Disruptor.SeqApi Disruptor.PipeReplay Disruptor.MultiReplay Disruptor.LiveReplay Disruptor.MultiPipeReplay Disruptor.Slots.

Extraction Language OCaml.

Extraction "model.ml"
  N.of_nat N.to_nat N.add N.mul N.div N.modulo N.eqb N.ltb N.leb N.sub N.succ N.compare
  Z.add Z.mul Z.sub Z.opp Z.of_N Z.to_N Z.div Z.modulo Z.eqb Z.ltb Z.leb Z.compare Z.abs_N
  Nat.add Nat.eqb Nat.ltb
  BitMap.Model.bitmap_model_entry BitMap.Model.bitmap_orig_entry BitMap.Model.bitmap_spec_entry
  Window.Model.window_model_entry Window.Model.window_spec_entry
  Grid.Model.grid_model_entry Grid.Model.grid_spec_entry
  Adjustable.Model.adjustable_model_entry Adjustable.Model.adjustable_check_entry Adjustable.Overflow.adjustable_wrap_entry
  Graph.UltraGraph.ugraph_model_entry Graph.Spec.ugraph_check_entry Graph.ShortestPath.spath_check_entry
  Context.Model.context_model_entry Context.Spec.context_check_entry
  Collections.Model.collections_model_entry Collections.Model.collections_check_entry
  Causal.Entry.causal_model_entry Causal.Check.c01_check_entry Causal.Check.c10_check_entry
  CSM.Model.csm_check_entry
  Disruptor.Threads.ring_validate_entry
  Disruptor.SeqApi.seqapi_model_entry Disruptor.SeqApi.seqapi_check_entry
  Disruptor.PipeReplay.pipe_replay_entry Disruptor.MultiReplay.ring_replay_entry Disruptor.LiveReplay.live_replay_entry Disruptor.MultiPipeReplay.multipipe_replay_entry
  Disruptor.Slots.ringslots_entry Disruptor.Slots.ringslots_spec_entry.
