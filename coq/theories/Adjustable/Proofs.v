(* Proofs for the adjustable-node model: C16. *)
From Coq Require Import List ZArith Bool Lia.
From Coq Require Import ZifyBool.
From DC Require Import Grid.Model Adjustable.Model.
Import ListNotations.
Open Scope Z_scope.

Ltac break_binds :=
  repeat match goal with
  | H : context [bind (get ?g ?p) _] |- _ => destruct (get g p) eqn:?; cbn [bind] in *; try discriminate
  | |- context [bind (get ?g ?p) _] => destruct (get g p) eqn:?; cbn [bind] in *; try discriminate
  end.

Ltac break_ifs H :=
  repeat match type of H with
  | context [if ?c then _ else _] => destruct c eqn:?
  end.

Lemma run_vals k is_upd g n r : run_op k is_upd g n = Some r -> exists vals, grid_vals k g = Some vals.
Proof.
  destruct k, is_upd; cbn [run_op update adjust grid_vals];
    unfold data_update, data_adjust, time_update, time_adjust, space_update, space_adjust,
           spacetime_update, spacetime_adjust; intros H; break_binds; eexists; reflexivity.
Qed.

Lemma list_eqb_refl l : list_eqb l l = true.
Proof.
  unfold list_eqb. rewrite Nat.eqb_refl. cbn [andb].
  induction l as [|x l IH]; cbn; [reflexivity|]. rewrite Z.eqb_refl. exact IH.
Qed.

Lemma node_eqb_refl n : node_eqb n n = true.
Proof. unfold node_eqb. rewrite !Z.eqb_refl. reflexivity. Qed.

(* The model satisfies the property, for every node, every grid content, every kind, both ops *)
Theorem model_passes_check k is_upd g n vals ok n' :
  run_op k is_upd g n = Some (ok, n') -> grid_vals k g = Some vals ->
  adj_check k is_upd n vals ok n' = true.
Proof.
  destruct k, is_upd; cbn [run_op update adjust grid_vals];
    unfold data_update, data_adjust, time_update, time_adjust, space_update, space_adjust,
           spacetime_update, spacetime_adjust; intros H Hv; break_binds;
    injection Hv as <-; break_ifs H; injection H as <- <-;
    unfold adj_check; cbn [coords others expected_new map2 must_fail must_succeed exists_i forall_i is_time
                           nx ny nz nt];
    rewrite ?list_eqb_refl, ?node_eqb_refl; cbn [andb];
    repeat match goal with
    | |- context [if ?c then _ else _] => destruct c eqn:?
    end; cbn [negb andb]; try reflexivity; lia.
Qed.

(* readable corollaries *)
Theorem ok_sets_every_coordinate k is_upd g n vals n' :
  run_op k is_upd g n = Some (true, n') -> grid_vals k g = Some vals ->
  list_eqb (coords k n') (expected_new is_upd (coords k n) vals) = true /\
  list_eqb (others k n') (others k n) = true.
Proof.
  intros H Hv. pose proof (model_passes_check _ _ _ _ _ _ _ H Hv) as Hc.
  unfold adj_check in Hc. rewrite !andb_true_iff in Hc. tauto.
Qed.

Theorem err_changes_nothing k is_upd g n n' :
  run_op k is_upd g n = Some (false, n') -> n' = n.
Proof.
  destruct k, is_upd; cbn [run_op update adjust];
    unfold data_update, data_adjust, time_update, time_adjust, space_update, space_adjust,
           spacetime_update, spacetime_adjust; intros H; break_binds; break_ifs H; congruence.
Qed.

Theorem inadmissible_fails k is_upd g n vals ok n' :
  run_op k is_upd g n = Some (ok, n') -> grid_vals k g = Some vals ->
  must_fail k is_upd (coords k n) vals = true -> ok = false.
Proof.
  intros H Hv Hm. pose proof (model_passes_check _ _ _ _ _ _ _ H Hv) as Hc.
  unfold adj_check in Hc. rewrite Hm in Hc. rewrite !andb_true_iff in Hc.
  destruct ok; [|reflexivity]. cbn in Hc. destruct Hc as [[_ Hc] _]. discriminate.
Qed.

Theorem admissible_succeeds k is_upd g n vals ok n' :
  run_op k is_upd g n = Some (ok, n') -> grid_vals k g = Some vals ->
  must_succeed is_upd (coords k n) vals = true -> ok = true.
Proof.
  intros H Hv Hm. pose proof (model_passes_check _ _ _ _ _ _ _ H Hv) as Hc.
  unfold adj_check in Hc. rewrite Hm in Hc. rewrite !andb_true_iff in Hc. tauto.
Qed.

(* the operation never panics when the grid cells it reads exist *)
Theorem defined_when_cells_exist k is_upd g n vals :
  grid_vals k g = Some vals -> exists r, run_op k is_upd g n = Some r.
Proof.
  destruct k, is_upd; cbn [run_op update adjust grid_vals];
    unfold data_update, data_adjust, time_update, time_adjust, space_update, space_adjust,
           spacetime_update, spacetime_adjust; intros Hv; break_binds;
    repeat match goal with |- context [if ?c then _ else _] => destruct c end; eexists; reflexivity.
Qed.

(* non-vacuity: a partial write would be visible — later coordinate inadmissible *)
Example adj_example :
  let g := match apply_stores (new_grid 4 4 1 1 1) [0;0;0;0;5; 0;0;0;1;6; 0;0;0;2;0; 0;0;0;3;7] 4 with Some g => g | None => new_grid 4 4 1 1 1 end in
  run_op KSpaceTime true g (mkNode 1 2 3 4) = Some (false, mkNode 1 2 3 4) /\
  must_fail KSpaceTime true [1;2;3;4] [5;6;0;7] = true.
Proof. vm_compute. auto. Qed.
