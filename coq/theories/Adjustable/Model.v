(* Model of deep_causality/src/types/context_types/node_types_adjustable/*/adjustable.rs.
   Straight-line code over Z (machine integers whose sums fit), grid reads through the C17 grid
   model with the exact points the code builds: new1d(0); new3d(0,0,k); new4d(0,0,0,k). *)
From Coq Require Import List ZArith Bool.
From DC Require Import Grid.Model.
Import ListNotations.
Open Scope Z_scope.

(* a node: data/time use only [nx]; space uses x y z; space-time x y z t *)
Record node := mkNode { nx : Z; ny : Z; nz : Z; nt : Z }.

Inductive nkind := KData | KTime | KSpace | KSpaceTime.

(* result: None = panic (grid read out of bounds); Some (true, n') = Ok; Some (false, n') = Err *)
Definition res := option (bool * node).

Definition p1 : point := mkPoint 0 0 0 0.                               (* PointIndex::new1d(0) *)
Definition p3 (k : nat) : point := mkPoint 0 0 k 0.                     (* new3d(0,0,k) *)
Definition p4 (k : nat) : point := mkPoint 0 0 0 k.                     (* new4d(0,0,0,k) *)

Definition bind {A B} (o : option A) (f : A -> option B) : option B :=
  match o with Some a => f a | None => None end.

Definition data_update (g : grid) (n : node) : res :=
  bind (get g p1) (fun d =>
  if d =? 0 then Some (false, n) else Some (true, mkNode d (ny n) (nz n) (nt n))).

Definition data_adjust (g : grid) (n : node) : res :=
  bind (get g p1) (fun d =>
  let a := nx n + d in
  if a <? 0 then Some (false, n) else Some (true, mkNode a (ny n) (nz n) (nt n))).

Definition time_update (g : grid) (n : node) : res :=
  bind (get g p1) (fun d =>
  if d =? 0 then Some (false, n) else
  if d <? 0 then Some (false, n) else Some (true, mkNode d (ny n) (nz n) (nt n))).

Definition time_adjust (g : grid) (n : node) : res :=
  bind (get g p1) (fun d =>
  if d <? 0 then Some (false, n) else
  let a := nx n + d in
  if a <? 0 then Some (false, n) else
  if a =? 0 then Some (false, n) else Some (true, mkNode a (ny n) (nz n) (nt n))).

Definition space_update (g : grid) (n : node) : res :=
  bind (get g (p3 0)) (fun x => bind (get g (p3 1)) (fun y => bind (get g (p3 2)) (fun z =>
  if x =? 0 then Some (false, n) else
  if y =? 0 then Some (false, n) else
  if z =? 0 then Some (false, n) else Some (true, mkNode x y z (nt n))))).

Definition space_adjust (g : grid) (n : node) : res :=
  bind (get g (p3 0)) (fun x => bind (get g (p3 1)) (fun y => bind (get g (p3 2)) (fun z =>
  let ax := nx n + x in let ay := ny n + y in let az := nz n + z in
  if ax <? 0 then Some (false, n) else
  if ay <? 0 then Some (false, n) else
  if az <? 0 then Some (false, n) else Some (true, mkNode ax ay az (nt n))))).

Definition spacetime_update (g : grid) (n : node) : res :=
  bind (get g (p4 0)) (fun x => bind (get g (p4 1)) (fun y => bind (get g (p4 2)) (fun z =>
  bind (get g (p4 3)) (fun t =>
  if x =? 0 then Some (false, n) else
  if y =? 0 then Some (false, n) else
  if z =? 0 then Some (false, n) else
  if t <? 0 then Some (false, n) else Some (true, mkNode x y z t))))).

Definition spacetime_adjust (g : grid) (n : node) : res :=
  bind (get g (p4 0)) (fun x => bind (get g (p4 1)) (fun y => bind (get g (p4 2)) (fun z =>
  bind (get g (p4 3)) (fun t =>
  let ax := nx n + x in let ay := ny n + y in let az := nz n + z in let at_ := nt n + t in
  if ax <? 0 then Some (false, n) else
  if ay <? 0 then Some (false, n) else
  if az <? 0 then Some (false, n) else
  if at_ <? 0 then Some (false, n) else Some (true, mkNode ax ay az at_))))).

Definition update (k : nkind) : grid -> node -> res :=
  match k with KData => data_update | KTime => time_update | KSpace => space_update | KSpaceTime => spacetime_update end.
Definition adjust (k : nkind) : grid -> node -> res :=
  match k with KData => data_adjust | KTime => time_adjust | KSpace => space_adjust | KSpaceTime => spacetime_adjust end.

(* ---- specification side ------------------------------------------------------------------- *)
(* the coordinates a node kind owns, and the grid values addressed to them *)
Definition coords (k : nkind) (n : node) : list Z :=
  match k with
  | KData | KTime => [nx n]
  | KSpace => [nx n; ny n; nz n]
  | KSpaceTime => [nx n; ny n; nz n; nt n]
  end.

Definition grid_vals (k : nkind) (g : grid) : option (list Z) :=
  match k with
  | KData | KTime => bind (get g p1) (fun d => Some [d])
  | KSpace => bind (get g (p3 0)) (fun x => bind (get g (p3 1)) (fun y => bind (get g (p3 2)) (fun z => Some [x; y; z])))
  | KSpaceTime => bind (get g (p4 0)) (fun x => bind (get g (p4 1)) (fun y => bind (get g (p4 2)) (fun z =>
                  bind (get g (p4 3)) (fun t => Some [x; y; z; t]))))
  end.

(* is the i-th coordinate of this kind a time? *)
Definition is_time (k : nkind) (i : nat) : bool :=
  match k, i with KTime, _ => true | KSpaceTime, 3%nat => true | _, _ => false end.

(* ---- integer coding ------------------------------------------------------------------------
   input: nodekind op gridkind W H D C n1 n2 n3 n4 (x y z t v)*     -- stores applied to a fresh grid
   output: status (1 Ok, 0 Err, -999 panic) n1' n2' n3' n4' *)
Definition nkind_of (z : Z) : nkind :=
  if z =? 0 then KData else if z =? 1 then KTime else if z =? 2 then KSpace else KSpaceTime.

Fixpoint apply_stores (g : grid) (l : list Z) (fuel : nat) : option grid :=
  match fuel with
  | O => Some g
  | S f =>
    match l with
    | x :: y :: z :: t :: v :: rest =>
        bind (set g (mkPoint (Z.to_nat x) (Z.to_nat y) (Z.to_nat z) (Z.to_nat t)) v) (fun g' => apply_stores g' rest f)
    | _ => Some g
    end
  end.

Definition adjustable_model_entry (l : list Z) : list Z :=
  match l with
  | nk :: op :: gk :: w :: h :: d :: c :: n1 :: n2 :: n3 :: n4 :: stores =>
      let g0 := new_grid (norm_kind (Z.to_nat gk)) (Z.to_nat w) (Z.to_nat h) (Z.to_nat d) (Z.to_nat c) in
      match apply_stores g0 stores (length stores) with
      | None => [-999]
      | Some g =>
          let n := mkNode n1 n2 n3 n4 in
          let k := nkind_of nk in
          match (if op =? 0 then update k g n else adjust k g n) with
          | None => [-999]
          | Some (ok, n') => [if ok then 1 else 0; nx n'; ny n'; nz n'; nt n']
          end
      end
  | _ => []
  end.

(* ---- the property as executable predicates (used as oracle on the implementation's output) -- *)
Fixpoint map2 (f : Z -> Z -> Z) (a b : list Z) : list Z :=
  match a, b with x :: a', y :: b' => f x y :: map2 f a' b' | _, _ => [] end.

(* exists an index i with f i olds[i] vals[i] *)
Fixpoint exists_i (f : nat -> Z -> Z -> bool) (i : nat) (olds vals : list Z) : bool :=
  match olds, vals with
  | o :: olds', v :: vals' => f i o v || exists_i f (S i) olds' vals'
  | _, _ => false
  end.
Fixpoint forall_i (f : nat -> Z -> Z -> bool) (i : nat) (olds vals : list Z) : bool :=
  match olds, vals with
  | o :: olds', v :: vals' => f i o v && forall_i f (S i) olds' vals'
  | _, _ => true
  end.

Definition expected_new (is_upd : bool) (olds vals : list Z) : list Z :=
  if is_upd then vals else map2 Z.add olds vals.

(* "fails whenever a replacement spatial coordinate or data value is zero, a time is negative,
    or an adjusted value would be negative" *)
Definition must_fail (k : nkind) (is_upd : bool) (olds vals : list Z) : bool :=
  if is_upd
  then exists_i (fun i _ v => if is_time k i then v <? 0 else v =? 0) 0 olds vals
  else exists_i (fun _ o v => o + v <? 0) 0 olds vals.

(* "succeeds whenever all replacement values, or all deltas and all resulting values, are
    strictly positive" *)
Definition must_succeed (is_upd : bool) (olds vals : list Z) : bool :=
  if is_upd
  then forall_i (fun _ _ v => 0 <? v) 0 olds vals
  else forall_i (fun _ o v => (0 <? v) && (0 <? o + v)) 0 olds vals.

Definition list_eqb (a b : list Z) : bool :=
  (length a =? length b)%nat && forallb (fun p => fst p =? snd p) (combine a b).

Definition node_eqb (a b : node) : bool :=
  (nx a =? nx b) && (ny a =? ny b) && (nz a =? nz b) && (nt a =? nt b).

(* the coordinates a kind does NOT own must never change *)
Definition others (k : nkind) (n : node) : list Z :=
  match k with
  | KData | KTime => [ny n; nz n; nt n]
  | KSpace => [nt n]
  | KSpaceTime => []
  end.

Definition adj_check (k : nkind) (is_upd : bool) (n : node) (vals : list Z) (ok : bool) (n' : node) : bool :=
  (if ok then list_eqb (coords k n') (expected_new is_upd (coords k n) vals) else node_eqb n' n)
  && list_eqb (others k n') (others k n)
  && (if must_fail k is_upd (coords k n) vals then negb ok else true)
  && (if must_succeed is_upd (coords k n) vals then ok else true).

Definition run_op (k : nkind) (is_upd : bool) (g : grid) (n : node) : res :=
  if is_upd then update k g n else adjust k g n.

(* checker entry: the number of output integers, the model-entry input, then the implementation's
   output (status n1' n2' n3' n4', or -999 alone for a panic); answer 1 = the output satisfies the property *)
Definition adjustable_check_entry (l : list Z) : list Z :=
  match l with
  | nout :: nk :: op :: gk :: w :: h :: d :: c :: n1 :: n2 :: n3 :: n4 :: rest =>
      let nstores := (length rest - Z.to_nat nout)%nat in
      let stores := firstn nstores rest in
      let outp := skipn nstores rest in
      let g0 := new_grid (norm_kind (Z.to_nat gk)) (Z.to_nat w) (Z.to_nat h) (Z.to_nat d) (Z.to_nat c) in
      let k := nkind_of nk in
      match apply_stores g0 stores (length stores), outp with
      | Some g, [st; m1; m2; m3; m4] =>
          match grid_vals k g with
          | Some vals =>
              if st =? (-999) then [0]
              else [if adj_check k (op =? 0) (mkNode n1 n2 n3 n4) vals (st =? 1) (mkNode m1 m2 m3 m4) then 1 else 0]
          | None => [if st =? (-999) then 1 else 0]        (* a grid read out of bounds must panic *)
          end
      | Some g, [st] =>                                   (* the implementation panicked *)
          match grid_vals k g with
          | Some _ => [0]
          | None => [if st =? (-999) then 1 else 0]
          end
      | None, st :: _ => [if st =? (-999) then 1 else 0]  (* a store of the set-up was out of bounds *)
      | _, _ => [0]
      end
  | _ => [0]
  end.
