(* C16 at the edge of the machine type.  The node types are generic over T : Add; the harness (and the repository's tests)
   instantiate i64.  [adjust] computes old + delta with the machine `+`: in a release build it WRAPS modulo 2^64, in a debug
   build it panics on overflow.  This file gives the faithful release model (every sum wrapped), proves that it coincides with
   the unbounded model of Adjustable/Model.v - for which the whole property is proved - whenever every mathematical sum fits
   the type, and REFUTES the property outside that range: a mathematically negative adjusted value is accepted when it wraps
   to a non-negative one (finding D11). *)
From Coq Require Import List ZArith Bool Lia.
From DC Require Import Grid.Model Adjustable.Model.
Import ListNotations.
Open Scope Z_scope.

Definition i64_min : Z := - 9223372036854775808.
Definition i64_max : Z := 9223372036854775807.
Definition fits (z : Z) : Prop := i64_min <= z <= i64_max.
Definition fitsb (z : Z) : bool := (i64_min <=? z) && (z <=? i64_max).

(* two's complement wrap-around of i64 *)
Definition wrap64 (z : Z) : Z := (z + 9223372036854775808) mod 18446744073709551616 - 9223372036854775808.

Lemma wrap64_fits z : fits z -> wrap64 z = z.
Proof. unfold fits, wrap64, i64_min, i64_max. intros H. rewrite Z.mod_small by lia. lia. Qed.

Lemma wrap64_range z : fits (wrap64 z).
Proof.
  unfold fits, wrap64, i64_min, i64_max.
  pose proof (Z.mod_pos_bound (z + 9223372036854775808) 18446744073709551616 ltac:(lia)). lia.
Qed.

(* ---- the adjust functions with the machine addition ---------------------------------------------------------------- *)
Definition data_adjust_w (g : grid) (n : node) : res :=
  bind (get g p1) (fun d =>
  let a := wrap64 (nx n + d) in
  if a <? 0 then Some (false, n) else Some (true, mkNode a (ny n) (nz n) (nt n))).

Definition time_adjust_w (g : grid) (n : node) : res :=
  bind (get g p1) (fun d =>
  if d <? 0 then Some (false, n) else
  let a := wrap64 (nx n + d) in
  if a <? 0 then Some (false, n) else
  if a =? 0 then Some (false, n) else Some (true, mkNode a (ny n) (nz n) (nt n))).

Definition space_adjust_w (g : grid) (n : node) : res :=
  bind (get g (p3 0)) (fun x => bind (get g (p3 1)) (fun y => bind (get g (p3 2)) (fun z =>
  let ax := wrap64 (nx n + x) in let ay := wrap64 (ny n + y) in let az := wrap64 (nz n + z) in
  if ax <? 0 then Some (false, n) else
  if ay <? 0 then Some (false, n) else
  if az <? 0 then Some (false, n) else Some (true, mkNode ax ay az (nt n))))).

Definition spacetime_adjust_w (g : grid) (n : node) : res :=
  bind (get g (p4 0)) (fun x => bind (get g (p4 1)) (fun y => bind (get g (p4 2)) (fun z =>
  bind (get g (p4 3)) (fun t =>
  let ax := wrap64 (nx n + x) in let ay := wrap64 (ny n + y) in let az := wrap64 (nz n + z) in let at_ := wrap64 (nt n + t) in
  if ax <? 0 then Some (false, n) else
  if ay <? 0 then Some (false, n) else
  if az <? 0 then Some (false, n) else
  if at_ <? 0 then Some (false, n) else Some (true, mkNode ax ay az at_))))).

Definition adjust_w (k : nkind) : grid -> node -> res :=
  match k with KData => data_adjust_w | KTime => time_adjust_w | KSpace => space_adjust_w | KSpaceTime => spacetime_adjust_w end.

(* every mathematical sum old + delta of the coordinates the kind owns fits the machine type *)
Definition sums_fit (k : nkind) (g : grid) (n : node) : Prop :=
  forall vals, grid_vals k g = Some vals -> Forall fits (map2 Z.add (coords k n) vals).

(* IN RANGE THE RELEASE BUILD IS THE UNBOUNDED MODEL: there the whole property is proved (Adjustable/Proofs.v) *)
Theorem adjust_w_in_range k g n : sums_fit k g n -> adjust_w k g n = adjust k g n.
Proof.
  unfold sums_fit. intros HF. destruct k; cbn [adjust_w adjust].
  - unfold data_adjust_w, data_adjust, bind. destruct (get g p1) as [d|] eqn:E; [|reflexivity].
    specialize (HF [d]). cbn [grid_vals bind coords map2] in HF. rewrite E in HF. cbn [bind] in HF.
    specialize (HF eq_refl). inversion HF as [|? ? F1 _]; subst. rewrite (wrap64_fits _ F1). reflexivity.
  - unfold time_adjust_w, time_adjust, bind. destruct (get g p1) as [d|] eqn:E; [|reflexivity].
    specialize (HF [d]). cbn [grid_vals bind coords map2] in HF. rewrite E in HF. cbn [bind] in HF.
    specialize (HF eq_refl). inversion HF as [|? ? F1 _]; subst. rewrite (wrap64_fits _ F1). reflexivity.
  - unfold space_adjust_w, space_adjust, bind.
    destruct (get g (p3 0)) as [x|] eqn:E0; [|reflexivity]. destruct (get g (p3 1)) as [y|] eqn:E1; [|reflexivity].
    destruct (get g (p3 2)) as [z|] eqn:E2; [|reflexivity].
    specialize (HF [x; y; z]). cbn [grid_vals bind coords map2] in HF. rewrite E0, E1, E2 in HF. cbn [bind] in HF.
    specialize (HF eq_refl). inversion HF as [|? ? F1 HF1]; subst. inversion HF1 as [|? ? F2 HF2]; subst. inversion HF2 as [|? ? F3 _]; subst.
    rewrite (wrap64_fits _ F1), (wrap64_fits _ F2), (wrap64_fits _ F3). reflexivity.
  - unfold spacetime_adjust_w, spacetime_adjust, bind.
    destruct (get g (p4 0)) as [x|] eqn:E0; [|reflexivity]. destruct (get g (p4 1)) as [y|] eqn:E1; [|reflexivity].
    destruct (get g (p4 2)) as [z|] eqn:E2; [|reflexivity]. destruct (get g (p4 3)) as [t|] eqn:E3; [|reflexivity].
    specialize (HF [x; y; z; t]). cbn [grid_vals bind coords map2] in HF. rewrite E0, E1, E2, E3 in HF. cbn [bind] in HF.
    specialize (HF eq_refl). inversion HF as [|? ? F1 HF1]; subst. inversion HF1 as [|? ? F2 HF2]; subst.
    inversion HF2 as [|? ? F3 HF3]; subst. inversion HF3 as [|? ? F4 _]; subst.
    rewrite (wrap64_fits _ F1), (wrap64_fits _ F2), (wrap64_fits _ F3), (wrap64_fits _ F4). reflexivity.
Qed.

(* OUTSIDE THE RANGE THE PROPERTY FAILS (finding D11): a data node holding -5 adjusted by -(2^63 - 1) - the adjusted value
   -(2^63 + 4) is negative, the operation must fail - is accepted and ends up holding 2^63 - 4 *)
Definition d11_grid : option grid := set (new_grid (norm_kind 1) 3 1 1 1) p1 (- 9223372036854775807).
Example adjust_overflow_refuted :
  match d11_grid with
  | Some g =>
      let n := mkNode (-5) 1 1 1 in
      grid_vals KData g = Some [- 9223372036854775807] /\
      must_fail KData false (coords KData n) [- 9223372036854775807] = true /\
      adjust_w KData g n = Some (true, mkNode 9223372036854775804 1 1 1)
  | None => False
  end.
Proof. vm_compute. repeat split. Qed.

(* integer entry for the correspondence at the edge: as adjustable_model_entry, with the machine addition *)
Definition adjustable_wrap_entry (l : list Z) : list Z :=
  match l with
  | nk :: op :: gk :: w :: h :: d :: c :: n1 :: n2 :: n3 :: n4 :: stores =>
      let g0 := new_grid (norm_kind (Z.to_nat gk)) (Z.to_nat w) (Z.to_nat h) (Z.to_nat d) (Z.to_nat c) in
      match apply_stores g0 stores (length stores) with
      | None => [-999]
      | Some g =>
          let n := mkNode n1 n2 n3 n4 in
          let k := nkind_of nk in
          match (if op =? 0 then update k g n else adjust_w k g n) with
          | None => [-999]
          | Some (ok, n') => [if ok then 1 else 0; nx n'; ny n'; nz n'; nt n']
          end
      end
  | _ => []
  end.
