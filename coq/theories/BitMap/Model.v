(* Model of dcl_data_structures/src/ring_buffer/utils/bit_map.rs and utils/logarithm.rs.
   Words are modelled as N (the code's AtomicU64); each operation touches exactly one word.
   [index_of] is the code AFTER the D1 fix; [index_of_orig] is the code as it was at the pinned
   commit (kept for the refutation lemma C19_aliasing_refuted). *)
From Coq Require Import List NArith Bool.
From DC Require Import Common.ListAux.
Import ListNotations.
Open Scope N_scope.

(* logarithm.rs: loop { n >>= 1; if n == 0 { return r }; r += 1 } ; a u64 has 64 bits, so the
   loop body runs at most 64 times: fuel 64, and running out of fuel is impossible for n < 2^64. *)
Fixpoint log2_loop (fuel : nat) (n r : N) : N :=
  match fuel with
  | O => r
  | S f => let n' := N.shiftr n 1 in
           if N.eqb n' 0 then r else log2_loop f n' (r + 1)
  end.
Definition log2 (n : N) : N := log2_loop 64 n 0.

Definition WORD_BITS : N := 64.
Definition ones64 : N := 18446744073709551615.
Definition not64 (v : N) : N := N.lxor ones64 v.          (* !v on a u64 *)

Record bitmap := mkBitMap {
  slots : list N;
  index_mask : N;
  index_shift : N;
  word_bits_mask : N
}.

(* usize::div_ceil *)
Definition div_ceil (a b : N) : N := (a + b - 1) / b.

(* BitMap::build ; capacity is a NonZeroUsize *)
Definition build (capacity : N) : bitmap :=
  {| slots := repeat 0 (N.to_nat (div_ceil capacity WORD_BITS));
     index_mask := capacity - 1;
     index_shift := log2 WORD_BITS;
     word_bits_mask := WORD_BITS - 1 |}.

(* (word index, bit index) of a sequence number, code after the fix *)
Definition index_of (b : bitmap) (sequence : N) : N * N :=
  let index := N.land sequence (index_mask b) in
  (N.shiftr index (index_shift b), N.land index (word_bits_mask b)).

(* as the code was: the cell index is reused as the bit index *)
Definition index_of_orig (b : bitmap) (sequence : N) : N * N :=
  let index := N.land sequence (N.shiftr (index_mask b) (index_shift b)) in
  (index, N.land index (word_bits_mask b)).

Section Ops.
  Variable locate : bitmap -> N -> N * N.

  Definition word (b : bitmap) (w : N) : N := nth (N.to_nat w) (slots b) 0.
  Definition with_word (b : bitmap) (w v : N) : bitmap :=
    {| slots := upd (N.to_nat w) v (slots b);
       index_mask := index_mask b; index_shift := index_shift b;
       word_bits_mask := word_bits_mask b |}.

  Definition is_set_g (b : bitmap) (s : N) : bool :=
    let '(w, bit) := locate b s in
    negb (N.eqb (N.land (word b w) (N.shiftl 1 bit)) 0).

  Definition set_g (b : bitmap) (s : N) : bitmap :=
    let '(w, bit) := locate b s in
    with_word b w (N.lor (word b w) (N.shiftl 1 bit)).

  Definition unset_g (b : bitmap) (s : N) : bitmap :=
    let '(w, bit) := locate b s in
    with_word b w (N.land (word b w) (not64 (N.shiftl 1 bit))).

  (* get_unchecked is only defined in bounds *)
  Definition in_bounds_g (b : bitmap) (s : N) : bool :=
    N.ltb (fst (locate b s)) (N.of_nat (length (slots b))).
End Ops.

Definition is_set := is_set_g index_of.
Definition set := set_g index_of.
Definition unset := unset_g index_of.
Definition in_bounds := in_bounds_g index_of.

Definition is_set_orig := is_set_g index_of_orig.
Definition set_orig := set_g index_of_orig.
Definition unset_orig := unset_g index_of_orig.

(* Operation histories *)
Inductive op := OSet (s : N) | OUnset (s : N).

Definition step (b : bitmap) (o : op) : bitmap :=
  match o with OSet s => set b s | OUnset s => unset b s end.
Definition run (capacity : N) (h : list op) : bitmap := fold_left step h (build capacity).

Definition step_orig (b : bitmap) (o : op) : bitmap :=
  match o with OSet s => set_orig b s | OUnset s => unset_orig b s end.
Definition run_orig (capacity : N) (h : list op) : bitmap := fold_left step_orig h (build capacity).

(* Abstract spec: a set of residues modulo the capacity, as a function of the history:
   the last operation addressed to the residue class of s decides. *)
Fixpoint spec_is_set (capacity : N) (h : list op) (s : N) (acc : bool) : bool :=
  match h with
  | [] => acc
  | OSet s' :: t => spec_is_set capacity t s (if N.eqb (s' mod capacity) (s mod capacity) then true else acc)
  | OUnset s' :: t => spec_is_set capacity t s (if N.eqb (s' mod capacity) (s mod capacity) then false else acc)
  end.
Definition spec (capacity : N) (h : list op) (s : N) : bool := spec_is_set capacity h s false.

(* Correspondence interface: histories with interleaved queries.
   Output: one bool per query, plus whether every access was in bounds. *)
Inductive qop := QSet (s : N) | QUnset (s : N) | QIsSet (s : N).

Fixpoint run_q (b : bitmap) (l : list qop) : list bool :=
  match l with
  | [] => []
  | QSet s :: t => run_q (set b s) t
  | QUnset s :: t => run_q (unset b s) t
  | QIsSet s :: t => is_set b s :: run_q b t
  end.

Fixpoint run_q_orig (b : bitmap) (l : list qop) : list bool :=
  match l with
  | [] => []
  | QSet s :: t => run_q_orig (set_orig b s) t
  | QUnset s :: t => run_q_orig (unset_orig b s) t
  | QIsSet s :: t => is_set_orig b s :: run_q_orig b t
  end.

(* the spec on the same interface *)
Fixpoint spec_q (capacity : N) (past : list op) (l : list qop) : list bool :=
  match l with
  | [] => []
  | QSet s :: t => spec_q capacity (past ++ [OSet s]) t
  | QUnset s :: t => spec_q capacity (past ++ [OUnset s]) t
  | QIsSet s :: t => spec capacity past s :: spec_q capacity past t
  end.

Definition model_q (capacity : N) (l : list qop) : list bool := run_q (build capacity) l.
Definition model_q_orig (capacity : N) (l : list qop) : list bool := run_q_orig (build capacity) l.
Definition spec_queries (capacity : N) (l : list qop) : list bool := spec_q capacity [] l.

(* ---- integer-coded entry points for the correspondence driver -------------------------------
   input  : capacity :: (opcode, sequence)*   with opcode 0 = set, 1 = unset, 2 = is_set
   output : one 0/1 per is_set query, in order *)
From Coq Require Import ZArith.
Fixpoint decode_qops (l : list Z) : list qop :=
  match l with
  | o :: s :: t =>
      (if Z.eqb o 0 then QSet (Z.to_N s) else if Z.eqb o 1 then QUnset (Z.to_N s) else QIsSet (Z.to_N s))
      :: decode_qops t
  | _ => []
  end.
Definition bools_out (l : list bool) : list Z := map (fun b : bool => if b then 1%Z else 0%Z) l.
Definition bitmap_entry (f : N -> list qop -> list bool) (l : list Z) : list Z :=
  match l with
  | c :: t => bools_out (f (Z.to_N c) (decode_qops t))
  | [] => []
  end.
Definition bitmap_model_entry := bitmap_entry model_q.
Definition bitmap_orig_entry := bitmap_entry model_q_orig.
Definition bitmap_spec_entry := bitmap_entry spec_queries.
