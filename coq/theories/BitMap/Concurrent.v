(* C19, concurrent calls on distinct residues: each BitMap call is one atomic read-modify-write of one word (checked on the
   hooked implementation), so a concurrent execution is an interleaving of the threads' calls.  Whatever the interleaving,
   a residue that only ONE thread addresses ends up as that thread's own history leaves it: the other threads' calls are
   invisible to it. *)
From Coq Require Import List NArith Bool Lia.
From DC Require Import Common.ListAux BitMap.Model BitMap.Proofs.
Import ListNotations.
Open Scope N_scope.

Inductive merge {A} : list A -> list A -> list A -> Prop :=
| merge_nil : merge [] [] []
| merge_l x l1 l2 l : merge l1 l2 l -> merge (x :: l1) l2 (x :: l)
| merge_r x l1 l2 l : merge l1 l2 l -> merge l1 (x :: l2) (x :: l).

Lemma spec_merge c s l1 l2 l : merge l1 l2 l ->
  forallb (fun o => negb (addressed c s o)) l2 = true ->
  forall acc, spec_is_set c l s acc = spec_is_set c l1 s acc.
Proof.
  induction 1 as [|x l1 l2 l _ IH|x l1 l2 l _ IH]; intros Hno acc; [reflexivity| |].
  - destruct x; cbn [spec_is_set]; apply IH, Hno.
  - cbn [forallb] in Hno. apply andb_true_iff in Hno. destruct Hno as [Hx Hno]. apply negb_true_iff in Hx.
    destruct x as [q|q]; cbn [spec_is_set]; unfold addressed in Hx; cbn in Hx; rewrite Hx; apply IH, Hno.
Qed.

(* the bit map after ANY interleaving l of the calls l1 of one thread with the calls l2 of the others: every sequence
   whose residue only that thread addresses tests as set exactly as after l1 alone *)
Theorem interleaving_invisible k l1 l2 l s :
  merge l1 l2 l -> forallb (fun o => negb (addressed (2 ^ k) s o)) l2 = true ->
  is_set (run (2 ^ k) l) s = is_set (run (2 ^ k) l1) s.
Proof.
  intros Hm Hno. rewrite !bitmap_refines_residue_set. unfold spec. apply spec_merge with (l2 := l2); assumption.
Qed.
