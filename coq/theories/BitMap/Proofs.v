(* Proofs about the BitMap model: C19. *)
From Coq Require Import List NArith Bool Lia ZArith.
From Coq Require Import ZifyBool ZifyN.
From DC Require Import Common.ListAux BitMap.Model.
Import ListNotations.
Open Scope N_scope.

Ltac Zify.zify_post_hook ::= Z.div_mod_to_equations.

Lemma log2_word_bits : log2 WORD_BITS = 6.
Proof. vm_compute. reflexivity. Qed.

(* the representation invariant of a bit map of capacity c *)
Definition Inv (c : N) (b : bitmap) : Prop :=
  index_mask b = c - 1 /\ index_shift b = 6 /\ word_bits_mask b = 63 /\
  length (slots b) = N.to_nat (div_ceil c 64).

Lemma build_inv c : Inv c (build c).
Proof.
  unfold Inv, build; cbn [index_mask index_shift word_bits_mask slots].
  rewrite log2_word_bits, repeat_length. unfold WORD_BITS. repeat split; reflexivity.
Qed.

Lemma pow2_pred_ones k : 2 ^ k - 1 = N.ones k.
Proof. rewrite N.ones_equiv, N.sub_1_r. reflexivity. Qed.

Lemma ones6 : 63 = N.ones 6. Proof. reflexivity. Qed.

Lemma index_of_spec k b s :
  Inv (2 ^ k) b ->
  index_of b s = ((s mod 2 ^ k) / 64, (s mod 2 ^ k) mod 64).
Proof.
  intros (Hm & Hs & Hw & _). unfold index_of. rewrite Hm, Hs, Hw.
  rewrite pow2_pred_ones, N.land_ones, ones6, N.land_ones, N.shiftr_div_pow2.
  reflexivity.
Qed.

Lemma word_in_bounds c r : c <> 0 -> r < c -> r / 64 < div_ceil c 64.
Proof. unfold div_ceil. intros Hc Hr. lia. Qed.

Lemma pow2_nz k : 2 ^ k <> 0.
Proof. apply N.pow_nonzero. discriminate. Qed.

(* is_set reads exactly one bit *)
Lemma land_bit_test w bit :
  negb (N.eqb (N.land w (N.shiftl 1 bit)) 0) = N.testbit w bit.
Proof.
  rewrite N.shiftl_1_l.
  destruct (N.testbit w bit) eqn:Hb.
  - destruct (N.eqb_spec (N.land w (2 ^ bit)) 0) as [E|E]; [|reflexivity].
    exfalso. assert (H : N.testbit (N.land w (2 ^ bit)) bit = true).
    { rewrite N.land_spec, Hb, N.pow2_bits_true. reflexivity. }
    rewrite E, N.bits_0 in H. discriminate.
  - destruct (N.eqb_spec (N.land w (2 ^ bit)) 0) as [E|E]; [reflexivity|].
    exfalso. apply E. apply N.bits_inj. intros m. rewrite N.bits_0, N.land_spec, N.pow2_bits_eqb.
    destruct (N.eqb_spec bit m) as [->|]; [rewrite Hb|]; auto using andb_false_r.
Qed.

Lemma lor_bit_test w bit m :
  N.testbit (N.lor w (N.shiftl 1 bit)) m = N.testbit w m || N.eqb bit m.
Proof. rewrite N.shiftl_1_l, N.lor_spec, N.pow2_bits_eqb. reflexivity. Qed.

Lemma ones64_spec m : m < 64 -> N.testbit ones64 m = true.
Proof. intros H. change ones64 with (N.ones 64). apply N.ones_spec_low. exact H. Qed.

Lemma land_not_bit_test w bit m : m < 64 ->
  N.testbit (N.land w (not64 (N.shiftl 1 bit))) m = N.testbit w m && negb (N.eqb bit m).
Proof.
  intros H. unfold not64.
  rewrite N.shiftl_1_l, N.land_spec, N.lxor_spec, N.pow2_bits_eqb, ones64_spec by exact H.
  reflexivity.
Qed.

(* the abstraction: the bit the map holds for residue r *)
Definition bit_at (b : bitmap) (r : N) : bool :=
  N.testbit (word b (r / 64)) (r mod 64).

Lemma is_set_abs k b s : Inv (2 ^ k) b -> is_set b s = bit_at b (s mod 2 ^ k).
Proof.
  intros HI. unfold is_set, is_set_g. rewrite (index_of_spec k b s HI).
  rewrite land_bit_test. reflexivity.
Qed.

Lemma with_word_inv c b w v : Inv c b -> Inv c (with_word b w v).
Proof.
  intros (Hm & Hs & Hw & Hl). unfold Inv, with_word; cbn [index_mask index_shift word_bits_mask slots].
  rewrite upd_length. auto.
Qed.

Lemma set_inv c b s : Inv c b -> Inv c (set b s).
Proof. intros H. unfold set, set_g. destruct (index_of b s). apply with_word_inv, H. Qed.
Lemma unset_inv c b s : Inv c b -> Inv c (unset b s).
Proof. intros H. unfold unset, unset_g. destruct (index_of b s). apply with_word_inv, H. Qed.

Lemma word_with_word_eq c b w v :
  Inv c b -> w < div_ceil c 64 -> word (with_word b w v) w = v.
Proof.
  intros (_ & _ & _ & Hl) Hw. unfold word, with_word; cbn [slots].
  apply nth_upd_eq. rewrite Hl. lia.
Qed.

Lemma word_with_word_neq b w w' v :
  w <> w' -> word (with_word b w v) w' = word b w'.
Proof.
  intros Hw. unfold word, with_word; cbn [slots]. apply nth_upd_neq. lia.
Qed.

Lemma residue_split r1 r2 : r1 / 64 = r2 / 64 -> r1 mod 64 = r2 mod 64 -> r1 = r2.
Proof. intros H1 H2. lia. Qed.

(* set changes exactly the bit of its residue *)
Lemma set_abs k b s r :
  Inv (2 ^ k) b -> r < 2 ^ k ->
  bit_at (set b s) r = if N.eqb (s mod 2 ^ k) r then true else bit_at b r.
Proof.
  intros HI Hr. unfold set, set_g. rewrite (index_of_spec k b s HI).
  set (q := s mod 2 ^ k).
  assert (Hq : q < 2 ^ k) by (apply N.mod_lt, pow2_nz).
  unfold bit_at.
  destruct (N.eq_dec (q / 64) (r / 64)) as [Ew|Ew].
  - rewrite <- Ew, (word_with_word_eq (2 ^ k)); auto using word_in_bounds, pow2_nz.
    rewrite lor_bit_test.
    destruct (N.eqb_spec q r) as [->|Hne].
    + rewrite N.eqb_refl. apply orb_true_r.
    + destruct (N.eqb_spec (q mod 64) (r mod 64)) as [Eb|Eb].
      * exfalso. apply Hne. apply residue_split; assumption.
      * rewrite orb_false_r. reflexivity.
  - rewrite word_with_word_neq by exact Ew.
    destruct (N.eqb_spec q r) as [->|Hne]; [congruence|reflexivity].
Qed.

Lemma unset_abs k b s r :
  Inv (2 ^ k) b -> r < 2 ^ k ->
  bit_at (unset b s) r = if N.eqb (s mod 2 ^ k) r then false else bit_at b r.
Proof.
  intros HI Hr. unfold unset, unset_g. rewrite (index_of_spec k b s HI).
  set (q := s mod 2 ^ k).
  assert (Hq : q < 2 ^ k) by (apply N.mod_lt, pow2_nz).
  unfold bit_at.
  assert (Hr64 : r mod 64 < 64) by (apply N.mod_lt; discriminate).
  destruct (N.eq_dec (q / 64) (r / 64)) as [Ew|Ew].
  - rewrite <- Ew, (word_with_word_eq (2 ^ k)); auto using word_in_bounds, pow2_nz.
    rewrite land_not_bit_test by exact Hr64.
    destruct (N.eqb_spec q r) as [->|Hne].
    + rewrite N.eqb_refl. apply andb_false_r.
    + destruct (N.eqb_spec (q mod 64) (r mod 64)) as [Eb|Eb].
      * exfalso. apply Hne. apply residue_split; assumption.
      * apply andb_true_r.
  - rewrite word_with_word_neq by exact Ew.
    destruct (N.eqb_spec q r) as [->|Hne]; [congruence|reflexivity].
Qed.

Lemma step_inv c b o : Inv c b -> Inv c (step b o).
Proof. destruct o; simpl; auto using set_inv, unset_inv. Qed.

Lemma run_inv_from c h b : Inv c b -> Inv c (fold_left step h b).
Proof. revert b; induction h as [|o h IH]; simpl; intros b H; auto using step_inv. Qed.

Lemma run_spec_from k h b s :
  Inv (2 ^ k) b ->
  is_set (fold_left step h b) s = spec_is_set (2 ^ k) h s (is_set b s).
Proof.
  revert b. induction h as [|o h IH]; intros b HI; [reflexivity|].
  cbn [fold_left spec_is_set].
  assert (Hq : s mod 2 ^ k < 2 ^ k) by (apply N.mod_lt, pow2_nz).
  destruct o as [s'|s']; cbn [step].
  - rewrite IH by (apply set_inv, HI). f_equal.
    rewrite (is_set_abs k) by (apply set_inv, HI).
    rewrite (set_abs k) by assumption. rewrite <- (is_set_abs k) by exact HI. reflexivity.
  - rewrite IH by (apply unset_inv, HI). f_equal.
    rewrite (is_set_abs k) by (apply unset_inv, HI).
    rewrite (unset_abs k) by assumption. rewrite <- (is_set_abs k) by exact HI. reflexivity.
Qed.

Lemma build_is_set k s : is_set (build (2 ^ k)) s = false.
Proof.
  rewrite (is_set_abs k) by apply build_inv.
  unfold bit_at, word, build; cbn [slots].
  assert (E : forall n m, nth n (repeat 0 m) 0 = 0).
  { intros n m; revert n; induction m as [|m IH]; intros [|n]; simpl; auto. }
  rewrite E. apply N.bits_0.
Qed.

(* C19, main statement: for every capacity 2^k, history and sequence number *)
Theorem bitmap_refines_residue_set k h s :
  is_set (run (2 ^ k) h) s = spec (2 ^ k) h s.
Proof.
  unfold run, spec. rewrite (run_spec_from k) by apply build_inv.
  rewrite build_is_set. reflexivity.
Qed.

(* the last operation addressed to the residue class decides; others are irrelevant *)
Lemma spec_is_set_app c h1 h2 s acc :
  spec_is_set c (h1 ++ h2) s acc = spec_is_set c h2 s (spec_is_set c h1 s acc).
Proof. revert acc; induction h1 as [|[x|x] h1 IH]; intros acc; simpl; auto. Qed.

Definition addressed (c : N) (s : N) (o : op) : bool :=
  match o with OSet s' | OUnset s' => N.eqb (s' mod c) (s mod c) end.

Lemma spec_is_set_frame c h s acc :
  forallb (fun o => negb (addressed c s o)) h = true -> spec_is_set c h s acc = acc.
Proof.
  revert acc; induction h as [|[x|x] h IH]; intros acc H; simpl in *; auto;
    apply andb_prop in H as [H1 H2]; destruct (N.eqb _ _); try discriminate; auto.
Qed.

Theorem last_addressed_op_decides k h1 o h2 s :
  addressed (2 ^ k) s o = true ->
  forallb (fun o' => negb (addressed (2 ^ k) s o')) h2 = true ->
  is_set (run (2 ^ k) (h1 ++ o :: h2)) s = match o with OSet _ => true | OUnset _ => false end.
Proof.
  intros Ho Hrest. rewrite bitmap_refines_residue_set. unfold spec.
  rewrite spec_is_set_app. cbn [spec_is_set].
  destruct o as [x|x]; cbn [addressed] in Ho; rewrite Ho; apply spec_is_set_frame, Hrest.
Qed.

Theorem never_addressed_is_clear k h s :
  forallb (fun o' => negb (addressed (2 ^ k) s o')) h = true ->
  is_set (run (2 ^ k) h) s = false.
Proof. intros H. rewrite bitmap_refines_residue_set. apply spec_is_set_frame, H. Qed.

(* Frame: an operation on a different residue class never changes the answer for s *)
Theorem other_residue_frame k h o s :
  addressed (2 ^ k) s o = false ->
  is_set (run (2 ^ k) (h ++ [o])) s = is_set (run (2 ^ k) h) s.
Proof.
  intros Ho. rewrite !bitmap_refines_residue_set. unfold spec.
  rewrite spec_is_set_app. destruct o; cbn [spec_is_set addressed] in *; rewrite Ho; reflexivity.
Qed.

(* Operations on distinct residues commute (what the concurrent use relies on:
   each is a single atomic RMW on one word). *)
Theorem distinct_residues_commute k h o1 o2 s :
  (forall x, addressed (2 ^ k) x o1 = true -> addressed (2 ^ k) x o2 = false) ->
  is_set (run (2 ^ k) (h ++ [o1; o2])) s = is_set (run (2 ^ k) (h ++ [o2; o1])) s.
Proof.
  intros Hd. rewrite !bitmap_refines_residue_set. unfold spec.
  rewrite !spec_is_set_app. generalize (spec_is_set (2 ^ k) h s false) as acc. intros acc.
  specialize (Hd s).
  destruct o1 as [a|a], o2 as [b|b]; cbn [spec_is_set addressed] in *;
    destruct (N.eqb (a mod 2 ^ k) (s mod 2 ^ k)); destruct (N.eqb (b mod 2 ^ k) (s mod 2 ^ k));
    try reflexivity; specialize (Hd eq_refl); discriminate.
Qed.

(* Every access is in bounds in every reachable state (justifies get_unchecked) *)
Theorem access_in_bounds k h s : in_bounds (run (2 ^ k) h) s = true.
Proof.
  assert (HI : Inv (2 ^ k) (run (2 ^ k) h)) by (apply run_inv_from, build_inv).
  unfold in_bounds, in_bounds_g. rewrite (index_of_spec k _ s HI). cbn [fst].
  destruct HI as (_ & _ & _ & Hl). rewrite Hl, N2Nat.id.
  apply N.ltb_lt. apply word_in_bounds; [apply pow2_nz|]. apply N.mod_lt, pow2_nz.
Qed.

(* The interleaved-query interface used by the correspondence check equals the spec *)
Lemma run_q_spec k l past :
  run_q (run (2 ^ k) past) l = spec_q (2 ^ k) past l.
Proof.
  revert past; induction l as [|[s|s|s] l IH]; intros past; cbn [run_q spec_q]; auto.
  - rewrite <- IH. unfold run. rewrite fold_left_app. reflexivity.
  - rewrite <- IH. unfold run. rewrite fold_left_app. reflexivity.
  - rewrite IH. f_equal. apply bitmap_refines_residue_set.
Qed.

Theorem model_q_eq_spec k l : model_q (2 ^ k) l = spec_queries (2 ^ k) l.
Proof. apply (run_q_spec k l []). Qed.

(* The code as it was at the pinned commit violates the property (D1): capacity 8,
   set(0) makes is_set(1) true. *)
Lemma orig_aliasing_refuted :
  exists c h s, c = 2 ^ 3 /\ is_set_orig (run_orig c h) s <> spec c h s.
Proof. exists 8, [OSet 0], 1. split; [reflexivity|]. vm_compute. discriminate. Qed.

(* Non-vacuity: a concrete non-trivial history over two words *)
Example c19_example :
  map (is_set (run (2 ^ 7) [OSet 5; OSet 69; OSet 133; OUnset 5; OSet 127])) [5; 69; 133; 127; 64; 0]
  = [false; true; false; true; false; false].
Proof. vm_compute. reflexivity. Qed.
