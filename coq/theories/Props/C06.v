(* C06 — Ring buffer never deadlocks or loses a wake-up; write, drain and join terminate.
   PARTIAL: the theorems are the no-lost-wake-up and mutual-exclusion invariants of the blocking wait / signal
   protocol (Disruptor/WaitSignal.v), for any number of waiters and signalling threads and any interleaving,
   spurious wake-ups included. Termination of write / drain / join under fair scheduling is NOT proved; it is
   explored by the deterministic scheduler (outcome = all threads finished) on every run of the check. *)
From Coq Require Import Arith Lia List.
From DC Require Import Disruptor.WaitSignal.

Theorem C06_no_lost_wakeup_partial : forall need s0 s w,
  initial s0 -> reachable need s0 s -> (forall k, sp s k = SDone) ->
  need w <= x s -> wp s w <> WParked /\ wp s w <> WMustPark.
Proof. exact no_lost_wakeup. Qed.

(* the inductive invariant: a waiter that is parked (or has decided to park) while its condition already holds
   always has a notification still coming *)
Theorem C06_wake_invariant : forall need s0 s,
  initial s0 -> reachable need s0 s -> Inv need s.
Proof. exact Inv_reachable. Qed.

Theorem C06_guard_is_exclusive : forall need s0 s a b,
  initial s0 -> reachable need s0 s -> holds_w (wp s a) = true -> holds_w (wp s b) = true -> a = b.
Proof. exact mutex_exclusive. Qed.

Print Assumptions C06_no_lost_wakeup_partial.
Print Assumptions C06_wake_invariant.
Print Assumptions C06_guard_is_exclusive.
