(* C06 — Ring buffer never deadlocks or loses a wake-up; write, drain and join terminate.
   PARTIAL: the theorems are the no-lost-wake-up and mutual-exclusion invariants of the blocking wait / signal
   protocol (Disruptor/WaitSignal.v), for any number of waiters and signalling threads and any interleaving,
   spurious wake-ups included; and NO DEADLOCK STATE on the single-producer pipeline model (drain / write / join can
   always complete, Disruptor/Progress.v).  Termination under a fair scheduler is NOT a theorem; it is explored by
   the deterministic scheduler (outcome = all threads finished) on every run of the check. *)
From Coq Require Import Arith Lia List.
From DC Require Import Disruptor.WaitSignal.
From DC Require Disruptor.Pipeline Disruptor.Progress Disruptor.WaitProgress Disruptor.Liveness Disruptor.LiveReplay.
From Coq Require Import ZArith.
Import ListNotations.

Theorem C06_no_lost_wakeup_partial : forall need s0 s w,
  initial s0 -> reachable need s0 s -> (forall k, sp s k = SDone) ->
  need w <= x s -> wp s w <> WParked /\ wp s w <> WMustPark.
Proof. exact no_lost_wakeup. Qed.

(* the inductive invariant: a waiter that is parked (or has decided to park) while its condition already holds
   always has a notification still coming *)
Theorem C06_wake_invariant : forall need s0 s,
  initial s0 -> reachable need s0 s -> Inv need s.
Proof. exact Inv_reachable. Qed.

Theorem C06_guard_is_exclusive : forall need s0 s a b,
  initial s0 -> reachable need s0 s -> holds_w (wp s a) = true -> holds_w (wp s b) = true -> a = b.
Proof. exact mutex_exclusive. Qed.

(* ---- progress on the single-producer pipeline model (Disruptor/Pipeline.v + Disruptor/Progress.v) ----------
   NO DEADLOCK STATE, for every ring size, stage topology, batch size and every reachable state in which no handler
   has been told to exit: there is a continuation in which every handler has returned from everything published
   (drain can complete), a write of up to N events completes, and every handler reaches its exit (join).
   These are possibility statements; termination under a fair scheduler is their informal consequence and is what
   the deterministic scheduler explores on the implementation. *)
Theorem C06_drain_possible : forall N H stage last
  (stage_le : forall h, h < H -> stage h <= last)
  (stage_nonempty : forall k, k <= last -> exists h, h < H /\ stage h = k) s,
  Pipeline.reachable N H stage last s -> Progress.no_exit H s ->
  exists s', Progress.steps N H stage last s s' /\ Progress.pframe s s' /\ forall h, h < H -> Progress.caught_up s' h.
Proof. exact Progress.drain_possible. Qed.

Theorem C06_write_possible : forall N H stage last
  (stage_le : forall h, h < H -> stage h <= last)
  (stage_nonempty : forall k, k <= last -> exists h, h < H /\ stage h = k) s c,
  Pipeline.reachable N H stage last s -> Progress.no_exit H s -> Pipeline.pp s = Pipeline.PIdle -> 1 <= c <= N ->
  exists s', Progress.steps N H stage last s s' /\ Pipeline.pp s' = Pipeline.PIdle /\ Pipeline.cursor s' = Pipeline.pnext s + c - 1.
Proof. exact Progress.write_possible. Qed.

Theorem C06_join_possible : forall N H stage last s,
  Pipeline.reachable N H stage last s ->
  exists s', Progress.steps N H stage last s s' /\ forall h, h < H -> Pipeline.hp s' h = Pipeline.HExit.
Proof. exact Progress.join_possible. Qed.

Print Assumptions C06_drain_possible.
Print Assumptions C06_write_possible.
Print Assumptions C06_join_possible.

(* progress of the blocking wait strategy: from EVERY reachable state of the wait / signal protocol a waiter whose
   condition holds can return, by genuine steps only - no spurious wake-up is needed, the notification that the
   no-lost-wake-up invariant promises does arrive *)
Theorem C06_blocking_waiter_can_return : forall need s0 s w,
  initial s0 -> reachable need s0 s -> need w <= x s ->
  exists s', WaitProgress.gsteps need s s' /\ wp s' w = WDone.
Proof. exact WaitProgress.waiter_can_return. Qed.

Print Assumptions C06_no_lost_wakeup_partial.
Print Assumptions C06_blocking_waiter_can_return.
Print Assumptions C06_wake_invariant.
Print Assumptions C06_guard_is_exclusive.


(* ---- TERMINATION of the whole single-producer protocol (Disruptor/Liveness.v) ---------------------------------------------
   The main thread runs a program: write calls of 1..N events each, then drain (raise the alert once the last stage has caught
   up), then join; handlers exit only after the alert.  The steps are those of Pipeline.v.  For every ring size, stage
   topology, program and interleaving:
   (1) every step strictly decreases a potential, so EVERY run is finite, with an explicit bound - no livelock, whatever the
       scheduler does (a spinning or parked thread is a thread whose step is not enabled; that a parked waiter whose condition
       has become true is woken is the wait / signal theorems above);
   (2) a reachable state with no enabled step is the COMPLETE state - all write calls returned, the alert raised, every handler
       exited - so there is no deadlock at any point of the protocol;
   (3) in the complete state every handler has returned from every event written (except the one stored under sequence 0,
       finding D7 of C04).
   Hence under any scheduler that runs an enabled thread whenever there is one, write, drain and join all return. *)
Theorem C06_every_step_decreases_the_potential : forall N H stage last
  (stage_le : forall h, h < H -> stage h <= last)
  (stage_nonempty : forall k, k <= last -> exists h, h < H /\ stage h = k) t t',
  Liveness.TInv N H stage last t -> Liveness.tstep N H stage last t t' -> Liveness.Phi H t' < Liveness.Phi H t.
Proof. exact Liveness.step_decreases. Qed.

Theorem C06_every_run_of_a_program_is_finite : forall N H stage last
  (stage_le : forall h, h < H -> stage h <= last)
  (stage_nonempty : forall k, k <= last -> exists h, h < H /\ stage h = k) prog n t,
  Liveness.ok_prog N prog -> Liveness.trun N H stage last n (Liveness.tinit prog) t ->
  n <= Liveness.todoPhi H prog + 2 * H + 1.
Proof. exact Liveness.runs_bounded. Qed.

Theorem C06_stuck_only_when_complete : forall N H stage last
  (stage_le : forall h, h < H -> stage h <= last)
  (stage_nonempty : forall k, k <= last -> exists h, h < H /\ stage h = k) prog t,
  Liveness.ok_prog N prog -> Liveness.treachable N H stage last prog t ->
  (forall t', ~ Liveness.tstep N H stage last t t') -> Liveness.complete H t.
Proof. exact Liveness.stuck_only_when_complete. Qed.

Theorem C06_complete_means_everything_delivered : forall N H stage last prog t,
  Liveness.treachable N H stage last prog t -> Liveness.complete H t ->
  Pipeline.cursor (Liveness.ts t) = Liveness.sumc prog - 1 /\
  forall h, h < H -> Pipeline.done (Liveness.ts t) h = Pipeline.cursor (Liveness.ts t).
Proof. exact Liveness.complete_all_delivered. Qed.

Theorem C06_every_program_can_complete : forall N H stage last
  (stage_le : forall h, h < H -> stage h <= last)
  (stage_nonempty : forall k, k <= last -> exists h, h < H /\ stage h = k) prog,
  Liveness.ok_prog N prog -> forall t, Liveness.treachable N H stage last prog t ->
  exists t', Liveness.treachable N H stage last prog t' /\ Liveness.complete H t'.
Proof. exact Liveness.completion_exists. Qed.

(* the tie to the code: every logged execution of a drained single-producer pipeline is replayed on this model (extracted
   LiveReplay.replay: the program's write calls, the alert only when the model says everything is consumed, thread ends only
   after the alert); an accepted execution is a run of the model, every continuation of it is finite and can only stop in the
   complete state *)
Theorem C06_replayed_run_terminates : forall N sizes prog l r',
  sizes <> [] -> Forall (fun n => 1 <= n) sizes -> Liveness.ok_prog N prog ->
  let H := LiveReplay.sumsz sizes in let stage := fun h => PipeReplay.stage_of sizes h 0 in let last := length sizes - 1 in
  LiveReplay.replay N H stage last (LiveReplay.linit prog) l 0 = ((-1)%Z, r') ->
  (forall n t, Liveness.trun N H stage last n (LiveReplay.lm r') t -> n + Liveness.Phi H t <= Liveness.Phi H (LiveReplay.lm r')) /\
  (forall n t, Liveness.trun N H stage last n (LiveReplay.lm r') t ->
     (forall t', ~ Liveness.tstep N H stage last t t') -> Liveness.complete H t).
Proof. exact LiveReplay.replayed_run_terminates. Qed.

Print Assumptions C06_every_step_decreases_the_potential.
Print Assumptions C06_every_run_of_a_program_is_finite.
Print Assumptions C06_stuck_only_when_complete.
Print Assumptions C06_complete_means_everything_delivered.
Print Assumptions C06_every_program_can_complete.
Print Assumptions C06_replayed_run_terminates.
