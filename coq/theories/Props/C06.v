(* C06 — Ring buffer never deadlocks or loses a wake-up; write, drain and join terminate.
   PARTIAL: the theorems are the no-lost-wake-up and mutual-exclusion invariants of the blocking wait / signal
   protocol (Disruptor/WaitSignal.v), for any number of waiters and signalling threads and any interleaving,
   spurious wake-ups included; and NO DEADLOCK STATE on the single-producer pipeline model (drain / write / join can
   always complete, Disruptor/Progress.v).  Termination under a fair scheduler is NOT a theorem; it is explored by
   the deterministic scheduler (outcome = all threads finished) on every run of the check. *)
From Coq Require Import Arith Lia List.
From DC Require Import Disruptor.WaitSignal.
From DC Require Disruptor.Pipeline Disruptor.Progress Disruptor.WaitProgress.

Theorem C06_no_lost_wakeup_partial : forall need s0 s w,
  initial s0 -> reachable need s0 s -> (forall k, sp s k = SDone) ->
  need w <= x s -> wp s w <> WParked /\ wp s w <> WMustPark.
Proof. exact no_lost_wakeup. Qed.

(* the inductive invariant: a waiter that is parked (or has decided to park) while its condition already holds
   always has a notification still coming *)
Theorem C06_wake_invariant : forall need s0 s,
  initial s0 -> reachable need s0 s -> Inv need s.
Proof. exact Inv_reachable. Qed.

Theorem C06_guard_is_exclusive : forall need s0 s a b,
  initial s0 -> reachable need s0 s -> holds_w (wp s a) = true -> holds_w (wp s b) = true -> a = b.
Proof. exact mutex_exclusive. Qed.

(* ---- progress on the single-producer pipeline model (Disruptor/Pipeline.v + Disruptor/Progress.v) ----------
   NO DEADLOCK STATE, for every ring size, stage topology, batch size and every reachable state in which no handler
   has been told to exit: there is a continuation in which every handler has returned from everything published
   (drain can complete), a write of up to N events completes, and every handler reaches its exit (join).
   These are possibility statements; termination under a fair scheduler is their informal consequence and is what
   the deterministic scheduler explores on the implementation. *)
Theorem C06_drain_possible : forall N H stage last
  (stage_le : forall h, h < H -> stage h <= last)
  (stage_nonempty : forall k, k <= last -> exists h, h < H /\ stage h = k) s,
  Pipeline.reachable N H stage last s -> Progress.no_exit H s ->
  exists s', Progress.steps N H stage last s s' /\ Progress.pframe s s' /\ forall h, h < H -> Progress.caught_up s' h.
Proof. exact Progress.drain_possible. Qed.

Theorem C06_write_possible : forall N H stage last
  (stage_le : forall h, h < H -> stage h <= last)
  (stage_nonempty : forall k, k <= last -> exists h, h < H /\ stage h = k) s c,
  Pipeline.reachable N H stage last s -> Progress.no_exit H s -> Pipeline.pp s = Pipeline.PIdle -> 1 <= c <= N ->
  exists s', Progress.steps N H stage last s s' /\ Pipeline.pp s' = Pipeline.PIdle /\ Pipeline.cursor s' = Pipeline.pnext s + c - 1.
Proof. exact Progress.write_possible. Qed.

Theorem C06_join_possible : forall N H stage last s,
  Pipeline.reachable N H stage last s ->
  exists s', Progress.steps N H stage last s s' /\ forall h, h < H -> Pipeline.hp s' h = Pipeline.HExit.
Proof. exact Progress.join_possible. Qed.

Print Assumptions C06_drain_possible.
Print Assumptions C06_write_possible.
Print Assumptions C06_join_possible.

(* progress of the blocking wait strategy: from EVERY reachable state of the wait / signal protocol a waiter whose
   condition holds can return, by genuine steps only - no spurious wake-up is needed, the notification that the
   no-lost-wake-up invariant promises does arrive *)
Theorem C06_blocking_waiter_can_return : forall need s0 s w,
  initial s0 -> reachable need s0 s -> need w <= x s ->
  exists s', WaitProgress.gsteps need s s' /\ wp s' w = WDone.
Proof. exact WaitProgress.waiter_can_return. Qed.

Print Assumptions C06_no_lost_wakeup_partial.
Print Assumptions C06_blocking_waiter_can_return.
Print Assumptions C06_wake_invariant.
Print Assumptions C06_guard_is_exclusive.
