(* C01 — Graph reasoning verdict is the conjunction over all reachable causaloids. *)
From Coq Require Import List Arith NArith ZArith Bool.
From DC Require Import Common.AList Graph.UltraGraph Causal.Model Causal.GraphProofs Causal.Termination.
Import ListNotations.

(* For every graph of singleton causaloids (any shape: branching, diamonds, disconnected parts; the
   traversal terminating, i.e. acyclic), every assignment of ids / functions / observations, id routing
   or index routing, every live start: with stop = node count (never a live index on add-only graphs) *)
Theorem C01_graph_verdict_is_conjunction :
  forall nodes edges data idx,
  (forall i, i < length nodes -> nv nodes data idx i <> None) ->
  (forall a b, emem (a, b) edges = true -> b < length nodes) ->
  forall fuel start s r s',
  start < length nodes -> data <> [] ->
  run fuel (TFromTo nodes edges start (length nodes) idx) data s = (r, s') -> r <> RFuel ->
  (r = ROk true <-> forall v, reach edges start v -> nv nodes data idx v = Some VT) /\
  ((exists v, reach edges start v /\ nv nodes data idx v = Some VF) ->
   (forall v, reach edges start v -> nv nodes data idx v <> Some VE) -> r = ROk false) /\
  ((exists v, reach edges start v /\ nv nodes data idx v = Some VE) -> r = RErr \/ r = ROk false).
Proof. exact graph_verdict_is_conjunction. Qed.

(* the same for any stop index outside the graph, with the trichotomy of results *)
Theorem C01_from_to : forall nodes edges data idx,
  (forall i, i < length nodes -> nv nodes data idx i <> None) ->
  (forall a b, emem (a, b) edges = true -> b < length nodes) ->
  forall fuel start stop s r s',
  length nodes <= stop -> start < length nodes -> data <> [] ->
  run fuel (TFromTo nodes edges start stop idx) data s = (r, s') -> r <> RFuel ->
  (r = ROk true \/ r = ROk false \/ r = RErr) /\
  (r = ROk true <-> forall v, reach edges start v -> nv nodes data idx v = Some VT) /\
  (r = RErr -> exists v, reach edges start v /\ nv nodes data idx v = Some VE).
Proof. exact from_to_spec. Qed.

(* Termination: on an ACYCLIC graph (a rank strictly decreasing along every edge) the traversal ends and an explicit
   amount of fuel suffices, so the statement above holds without its fuel side condition. *)
Theorem C01_acyclic_graph_verdict :
  forall nodes edges data idx,
  (forall i, i < length nodes -> nv nodes data idx i <> None) ->
  (forall a b, emem (a, b) edges = true -> b < length nodes) ->
  forall rank : nat -> nat, (forall a b, emem (a, b) edges = true -> rank b < rank a) ->
  forall start s fuel,
  start < length nodes -> data <> [] -> 2 + adj_bound edges + rank start * (adj_bound edges + 1) <= fuel ->
  let r := fst (run fuel (TFromTo nodes edges start (length nodes) idx) data s) in
  (r = ROk true <-> forall v, reach edges start v -> nv nodes data idx v = Some VT) /\
  ((exists v, reach edges start v /\ nv nodes data idx v = Some VF) ->
   (forall v, reach edges start v -> nv nodes data idx v <> Some VE) -> r = ROk false) /\
  ((exists v, reach edges start v /\ nv nodes data idx v = Some VE) -> r = RErr \/ r = ROk false).
Proof. exact acyclic_graph_verdict. Qed.

Print Assumptions C01_graph_verdict_is_conjunction.
Print Assumptions C01_acyclic_graph_verdict.
Print Assumptions C01_from_to.
