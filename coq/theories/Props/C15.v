(* C15 — UltraGraph shortest path is a real path of minimum total weight.
   petgraph's astar is not modelled; the theorems are the soundness of the checker that validates
   every answer of the implementation on the specification graph (translation validation). *)
From Coq Require Import List Arith NArith ZArith Bool.
From DC Require Import Common.AList Graph.UltraGraph Graph.Spec Graph.ShortestPath Graph.ShortestPathProofs.
From DC Require Graph.BellmanFord Graph.Refine.
Import ListNotations.
Open Scope N_scope.

(* an accepted answer Some p: both ends live, p starts at s, ends at t, follows existing edges in
   their direction, and no path from s to t (of any length, through any cycles) is lighter *)
Theorem C15_accepted_path_is_minimal : forall g s t p,
  check_answer g s t (Some p) = true ->
  smem g s = true /\ smem g t = true /\ is_pathb g s t p = true /\
  forall q, is_pathb g s t q = true -> path_weight g p <= path_weight g q.
Proof. exact check_some_sound. Qed.

(* an accepted answer None: an end is absent, or t is unreachable from s *)
Theorem C15_accepted_none_is_unreachable : forall g s t,
  check_answer g s t None = true ->
  smem g s = false \/ smem g t = false \/ forall q, is_pathb g s t q = false.
Proof. exact check_none_sound. Qed.

(* ---- COMPLETENESS of the checker (Graph/BellmanFord.v) ---------------------------------------------------------------------
   The checker's own reference distances (|nodes| rounds of Bellman-Ford relaxation) are closed under relaxation for every graph
   whose edges join nodes - in particular for the abstraction of every graph the store model can reach ... *)
Theorem C15_reference_distances_are_closed : forall (g : ugraph) s,
  Refine.Inv g -> In s (keys (node_map g)) ->
  closed (sedges (Refine.abs g)) (ref_dist (Refine.abs g) s) = true /\ dget (ref_dist (Refine.abs g) s) s = Some 0.
Proof. exact BellmanFord.ref_dist_closed_reachable. Qed.

(* ... hence on a well-formed specification graph (distinct edge keys, edges joining nodes, the start a node) the checker ACCEPTS
   every correct answer: a real path of minimum total weight, and "nothing" when the target is absent or unreachable.  With the
   soundness theorems above the checker decides the property exactly: a rejection is a violation, never an artefact. *)
Theorem C15_minimal_path_is_accepted : forall g s,
  NoDup (keys (sedges g)) -> In s (keys (snodes g)) ->
  (forall e, In e (sedges g) -> In (BellmanFord.esrc e) (keys (snodes g)) /\ In (BellmanFord.edst e) (keys (snodes g))) ->
  forall t p, smem g t = true -> is_pathb g s t p = true ->
  (forall q, is_pathb g s t q = true -> path_weight g p <= path_weight g q) ->
  check_answer g s t (Some p) = true.
Proof. exact BellmanFord.check_some_complete. Qed.

Theorem C15_nothing_is_accepted_when_unreachable : forall g s,
  NoDup (keys (sedges g)) -> In s (keys (snodes g)) ->
  (forall e, In e (sedges g) -> In (BellmanFord.esrc e) (keys (snodes g)) /\ In (BellmanFord.edst e) (keys (snodes g))) ->
  forall t, (smem g t = false \/ forall q, is_pathb g s t q = false) -> check_answer g s t None = true.
Proof. exact BellmanFord.check_none_complete. Qed.

Print Assumptions C15_reference_distances_are_closed.
Print Assumptions C15_minimal_path_is_accepted.
Print Assumptions C15_nothing_is_accepted_when_unreachable.
Print Assumptions C15_accepted_path_is_minimal.
Print Assumptions C15_accepted_none_is_unreachable.
