(* C15 — UltraGraph shortest path is a real path of minimum total weight.
   petgraph's astar is not modelled; the theorems are the soundness of the checker that validates
   every answer of the implementation on the specification graph (translation validation). *)
From Coq Require Import List Arith NArith ZArith Bool.
From DC Require Import Common.AList Graph.UltraGraph Graph.Spec Graph.ShortestPath Graph.ShortestPathProofs.
Import ListNotations.
Open Scope N_scope.

(* an accepted answer Some p: both ends live, p starts at s, ends at t, follows existing edges in
   their direction, and no path from s to t (of any length, through any cycles) is lighter *)
Theorem C15_accepted_path_is_minimal : forall g s t p,
  check_answer g s t (Some p) = true ->
  smem g s = true /\ smem g t = true /\ is_pathb g s t p = true /\
  forall q, is_pathb g s t q = true -> path_weight g p <= path_weight g q.
Proof. exact check_some_sound. Qed.

(* an accepted answer None: an end is absent, or t is unreachable from s *)
Theorem C15_accepted_none_is_unreachable : forall g s t,
  check_answer g s t None = true ->
  smem g s = false \/ smem g t = false \/ forall q, is_pathb g s t q = false.
Proof. exact check_none_sound. Qed.

Print Assumptions C15_accepted_path_is_minimal.
Print Assumptions C15_accepted_none_is_unreachable.
