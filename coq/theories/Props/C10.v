(* C10 — Shortest-path reasoning evaluates exactly one minimum-weight path. *)
From Coq Require Import List Arith NArith ZArith Bool.
From DC Require Import Common.AList Graph.UltraGraph Graph.Spec Graph.ShortestPath Graph.ShortestPathProofs Causal.Model Causal.Proofs Causal.GraphProofs.
Import ListNotations.
Local Open Scope nat_scope.

(* given the path p the graph's shortest-path routine returns (validated per input by C15's checker,
   whose acceptance means: a real path from start to stop of minimal total weight), reasoning
   evaluates exactly the causaloids of the prefix of p up to and including the first non-true verdict,
   in path order, each on the observation routed to it; the result is the conjunction (false at the
   first false, error at an error); every other causaloid keeps its activation *)
Theorem C10_evaluates_exactly_the_path_prefix : forall nodes data idx p infos s r s',
  map (node_info nodes data idx) p = map Some infos ->
  path_loop nodes p data idx s = (r, s') ->
  let vs := map (fun t : nat * Z * verdict => snd t) infos in
  let k := snd (path_expect vs) in
  r = fst (path_expect vs) /\
  exists new, log s' = new ++ log s /\ length new = k /\
    map (fun e => (ecell e, eobs e, ever e)) (rev new) = firstn k infos /\
    (forall cell, cell_active s' cell = latest new cell (cell_active s cell)).
Proof. exact path_loop_spec. Qed.

Theorem C10_error_cases : forall nodes data idx start stop sp s,
  (nodes = [] \/ length nodes <= start \/ length nodes <= stop \/ start = stop \/ sp = None) ->
  graph_reason_shortest nodes start stop sp data idx s = (RErr, s).
Proof. exact shortest_errors. Qed.

(* what acceptance of the path by the checker means (C15) *)
Theorem C10_accepted_path_is_minimal : forall g s t p,
  check_answer g s t (Some p) = true ->
  smem g s = true /\ smem g t = true /\ is_pathb g s t p = true /\
  forall q, is_pathb g s t q = true -> (path_weight g p <= path_weight g q)%N.
Proof. exact check_some_sound. Qed.

Print Assumptions C10_evaluates_exactly_the_path_prefix.
Print Assumptions C10_error_cases.
Print Assumptions C10_accepted_path_is_minimal.
