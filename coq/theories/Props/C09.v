(* C09 — Context keeps base and extra contexts as isolated, faithful contextoid stores. *)
From Coq Require Import List Arith NArith ZArith Bool.
From DC Require Import Common.AList Graph.UltraGraph Graph.Spec Graph.Refine Context.Model Context.Spec Context.Proofs.
From DC Require Graph.BulkAdd Context.Bulk.
Import ListNotations.
Import ListNotations.

(* isolation, on the model of the code *)
Theorem C09_base_ops_touch_only_base : forall c o,
  is_base_op o = true ->
  let c' := snd (cstep c o) in
  extras c' = extras c /\ count c' = count c /\ current c' = current c /\ cur_idx c' = cur_idx c /\ prev_idx c' = prev_idx c.
Proof. exact base_op_frame. Qed.

Theorem C09_extra_ops_touch_only_selected : forall c o,
  is_extra_op o = true ->
  let c' := snd (cstep c o) in
  base c' = base c /\ count c' = count c /\ current c' = current c /\ cur_idx c' = cur_idx c /\ prev_idx c' = prev_idx c /\
  forall j, j <> current c -> nget j (extras c') = nget j (extras c).
Proof. exact extra_op_frame. Qed.

Theorem C09_nothing_selected_fails_cleanly : forall c o,
  is_extra_op o = true -> current c = 0 ->
  cstep c o = ((match o with XAddNode _ => -1 | _ => 0 end)%Z, c).
Proof. exact nothing_selected_fails. Qed.

Theorem C09_nothing_selected_reads_nothing : forall B c, current c = 0 -> obs_extra B c = obs_none B.
Proof. exact nothing_selected_reads_nothing. Qed.

Theorem C09_select_iff_known : forall c i,
  cstep c (XSetCurrent i) =
  if i <=? count c then (1%Z, mkCtx (base c) (extras c) (count c) i (cur_idx c) (prev_idx c)) else (0%Z, c).
Proof. exact set_current_spec. Qed.

Theorem C09_add_new : forall c d,
  let '(r, c') := cstep c (XAddNew d) in
  r = Z.of_nat (S (count c)) /\ count c' = S (count c) /\ base c' = base c /\
  nget (S (count c)) (extras c') = Some empty_graph /\
  (forall j, j <> S (count c) -> nget j (extras c') = nget j (extras c)) /\
  current c' = (if d then S (count c) else current c).
Proof. exact add_new_spec. Qed.

Theorem C09_index_maps_independent_last_write_wins : forall c key idx cur k,
  let c' := snd (cstep c (ISet key idx cur)) in
  nget k (cur_idx c') = (if cur && (k =? key) then Some idx else nget k (cur_idx c)) /\
  nget k (prev_idx c') = (if negb cur && (k =? key) then Some idx else nget k (prev_idx c)) /\
  base c' = base c /\ extras c' = extras c /\ current c' = current c /\ count c' = count c.
Proof. exact index_maps_spec. Qed.

(* faithfulness: every step of every history is a step of the abstract context whose component
   graphs are C08's directed-graph specification (lookups return what was added until removed,
   relations exist exactly where added), and every observation is the abstract one *)
Theorem C09_step_refines : forall c o r c',
  CInv c -> cstep c o = (r, c') -> CInv c' /\ csstep (cabs c) o r = Some (cabs c').
Proof. exact cstep_refines. Qed.

Theorem C09_observations_are_the_specs : forall B c, CInv c -> cobserve B c = scobserve B (cabs c).
Proof. exact cobserve_abs. Qed.

Theorem C09_every_history_passes_spec_check : forall B ops,
  let '(rs, os) := crun B new_ctx ops in cspec_check B ops (rs ++ os) = true.
Proof. exact model_passes_cspec_check. Qed.

Theorem C09_spec_isolation : forall s o r s',
  csstep s o r = Some s' ->
  (is_base_op o = true -> sextras s' = sextras s /\ scurrent s' = scurrent s) /\
  (is_extra_op o = true -> sbase s' = sbase s /\ forall j, j <> scurrent s -> nget j (sextras s') = nget j (sextras s)).
Proof. exact spec_isolation. Qed.

(* bulk insertion through the Context API for ANY number of contextoids (oracle of the large histories of the check): into the
   base context ... *)
Theorem C09_bulk_insertion_base : forall vs,
  let '(rs, c) := Bulk.cadd_many new_ctx vs in
  rs = map Z.of_nat (seq 0 (length vs)) /\
  (forall i, i < length vs -> contains_node (base c) i = true /\ get_node (base c) i = Some (nth i vs 0%Z)) /\
  (forall i, length vs <= i -> contains_node (base c) i = false) /\
  size (base c) = length vs /\ extras c = [] /\ current c = 0.
Proof. exact Bulk.ctx_bulk_base. Qed.

(* ... and into a freshly created extra context, the base context staying empty *)
Theorem C09_bulk_insertion_extra : forall vs,
  let '(_, c0) := cstep new_ctx (XAddNew true) in
  let '(rs, c) := Bulk.xadd_many c0 vs in
  rs = map Z.of_nat (seq 0 (length vs)) /\
  (exists g, current_extra c = Some g /\
     (forall i, i < length vs -> contains_node g i = true /\ get_node g i = Some (nth i vs 0%Z)) /\
     (forall i, length vs <= i -> contains_node g i = false) /\ size g = length vs) /\
  base c = empty_graph.
Proof. exact Bulk.ctx_bulk_extra. Qed.

Print Assumptions C09_bulk_insertion_base.
Print Assumptions C09_bulk_insertion_extra.
Print Assumptions C09_base_ops_touch_only_base.
Print Assumptions C09_extra_ops_touch_only_selected.
Print Assumptions C09_nothing_selected_fails_cleanly.
Print Assumptions C09_nothing_selected_reads_nothing.
Print Assumptions C09_select_iff_known.
Print Assumptions C09_add_new.
Print Assumptions C09_index_maps_independent_last_write_wins.
Print Assumptions C09_step_refines.
Print Assumptions C09_observations_are_the_specs.
Print Assumptions C09_every_history_passes_spec_check.
Print Assumptions C09_spec_isolation.
