(* C07 — Sliding window always equals the last N pushed values, across rewinds.
   Only property theorems (closed by `exact`) and Print Assumptions. *)
From Coq Require Import List Arith ZArith Bool.
From DC Require Import Common.ListAux Window.Model Window.Proofs.
Import ListNotations.

(* the three sound back-ends: every size N >= 1, every capacity C > N (including C = N+1 and
   C < 2N, where source and destination of the rewind overlap), every push history *)
Theorem C07_window_is_last_n : forall b N C h,
  sound b = true -> 1 <= N -> N < C ->
  observe b (run b N C h) = spec_obs N h.
Proof. exact window_is_last_n. Qed.

(* ... after every single push of the history (what the correspondence check compares) *)
Theorem C07_every_prefix : forall b N C h,
  sound b = true -> 1 <= N -> N < C -> trace b (init N C) h = spec_trace N [] h.
Proof. exact trace_is_spec. Qed.

Theorem C07_backends_agree : forall b1 b2 N C1 C2 h,
  sound b1 = true -> sound b2 = true -> 1 <= N -> N < C1 -> N < C2 ->
  observe b1 (run b1 N C1 h) = observe b2 (run b2 N C2 h).
Proof. exact backends_agree. Qed.

(* UnsafeVectorStorage: the copy_nonoverlapping of its slow path never overlaps (multiple >= 2) *)
Theorem C07_uvec_copy_legal : forall N C h,
  1 <= N -> 2 * N <= C ->
  let s := run BUVec N C h in cap s <= tail s -> size s <= head s.
Proof. exact uvec_copy_legal. Qed.

(* safe VectorStorage: the property holds for histories up to the capacity ... *)
Theorem C07_vec_partial : forall N C h,
  1 <= N -> N < C -> length h <= C -> observe BVec (run BVec N C h) = spec_obs N h.
Proof. exact vec_is_last_n_up_to_capacity. Qed.

(* ... and is violated beyond it (known finding D6) *)
Theorem C07_vec_refuted :
  exists N C h, 1 <= N /\ 2 * N <= C /\ observe BVec (run BVec N C h) <> spec_obs N h.
Proof. exact vec_refuted. Qed.

Print Assumptions C07_window_is_last_n.
Print Assumptions C07_every_prefix.
Print Assumptions C07_backends_agree.
Print Assumptions C07_uvec_copy_legal.
Print Assumptions C07_vec_partial.
Print Assumptions C07_vec_refuted.
