(* C13 — A later barrier stage sees an event only after the previous stage finished it. *)
From Coq Require Import Arith Lia.
From DC Require Import Disruptor.Pipeline.
From DC Require Disruptor.HB Disruptor.PipeReplay Disruptor.MultiPub Disruptor.Handlers Disruptor.MultiPipe Disruptor.Slots Disruptor.SlotsProofs.
From Coq Require Import ZArith.

Theorem C13_stage_order : forall N H stage last s h i a g,
  reachable N H stage last s -> h < H -> g < H -> hp s h = HBatch i a -> S (stage g) = stage h -> i <= done s g.
Proof. exact stage_order. Qed.

(* it observes all modifications of ALL earlier stages and nothing of later ones; the slot is not re-used meanwhile *)
Theorem C13_sees_earlier_stages_only : forall N H stage last
  (stage_le : forall h, h < H -> stage h <= last)
  (stage_nonempty : forall k, k <= last -> exists h, h < H /\ stage h = k) s h i a,
  reachable N H stage last s -> h < H -> hp s h = HBatch i a ->
  fill_ptr s <= i + N /\
  (forall g, g < H -> stage g < stage h -> i <= done s g) /\
  (forall g, g < H -> stage h < stage g -> done s g < i).
Proof. exact payload_intact. Qed.

(* the producer is gated by the last stage only, and that suffices: the last stage is the slowest, so no
   handler of any stage is ever lapped *)
Theorem C13_no_stage_is_lapped : forall N H stage last
  (stage_le : forall h, h < H -> stage h <= last)
  (stage_nonempty : forall k, k <= last -> exists h, h < H /\ stage h = k) s q e m,
  reachable N H stage last s -> pp s = PFill q e m -> forall h, h < H -> q <= done s h + N.
Proof. exact no_overwrite_before_consumption. Qed.

(* stage order with cursors read one at a time and stale loads allowed (Disruptor/HB.v): clause 4 is "every handler
   of every earlier stage has returned from i", clause 5 "no later stage has touched it" *)
Theorem C13_stage_order_percursor_stale_reads : forall N H stage last
  (N_pos : 1 <= N)
  (stage_le : forall h, h < H -> stage h <= last)
  (stage_nonempty : forall k, k <= last -> exists h, h < H /\ stage h = k) s h i a,
  HB.reachable N H stage last s -> h < H -> HB.hp s h = HB.HBatch i a ->
  i = S (HB.done s h) /\
  i <= HB.cursor s /\ i < HB.fill_ptr s /\
  (forall g, g < H -> stage g < stage h -> i <= HB.done s g) /\
  (forall g, g < H -> stage h < stage g -> HB.done s g < i) /\ HB.fill_ptr s <= i + N.
Proof. exact HB.hb_delivery. Qed.

(* the explored executions of the implementation are replayed on the model (extracted PipeReplay.replay, run by the check on
   every logged trace): an accepted execution is a model run, hence stage order held in the state it reached *)
Theorem C13_replayed_run_respects_stage_order : forall N H stage last l r',
  PipeReplay.replay N H stage last PipeReplay.rinit l 0 = ((-1)%Z, r') ->
  forall h i a g, h < H -> g < H -> hp (PipeReplay.pm r') h = HBatch i a -> S (stage g) = stage h ->
  i <= done (PipeReplay.pm r') g.
Proof. exact PipeReplay.replay_stage_order. Qed.

(* the same for MULTI-PRODUCER pipelines of any topology (Disruptor/MultiPipe.v) *)
Theorem C13_multi_pipeline_stage_order : forall N, 1 <= N -> forall H stage last
  (stage_le : forall h, h < H -> stage h <= last)
  (stage_nonempty : forall k, k <= last -> exists h, h < H /\ stage h = k) x h i a g,
  MultiPipe.mreachable N H stage last x -> h < H -> g < H -> Handlers.hp (MultiPipe.hs x) h = HBatch i a ->
  S (stage g) = stage h -> i <= Handlers.done (MultiPipe.hs x) g.
Proof. exact MultiPipe.mp_stage_order. Qed.

Theorem C13_multi_pipeline_sees_earlier_stages_only : forall N, 1 <= N -> forall H stage last
  (stage_le : forall h, h < H -> stage h <= last)
  (stage_nonempty : forall k, k <= last -> exists h, h < H /\ stage h = k) x h i a,
  MultiPipe.mreachable N H stage last x -> h < H -> Handlers.hp (MultiPipe.hs x) h = HBatch i a ->
  (forall g, g < H -> stage g < stage h -> i <= Handlers.done (MultiPipe.hs x) g) /\
  (forall g, g < H -> stage h < stage g -> Handlers.done (MultiPipe.hs x) g < i).
Proof. exact MultiPipe.mp_earlier_done_later_untouched. Qed.

Print Assumptions C13_multi_pipeline_stage_order.
Print Assumptions C13_multi_pipeline_sees_earlier_stages_only.
Print Assumptions C13_replayed_run_respects_stage_order.
Print Assumptions C13_stage_order.
Print Assumptions C13_stage_order_percursor_stale_reads.
Print Assumptions C13_sees_earlier_stages_only.
Print Assumptions C13_no_stage_is_lapped.

(* the write path (get_mut, used by the producer and by mutable handlers) and the read path (get, used by immutable handlers) address
   the same slot: a value written for sequence s is read back through exactly the sequences congruent to s modulo the ring size,
   every other read is unchanged (Disruptor/Slots.v mirrors const_array_ring_buffer.rs; any ring of 2^k slots) *)
Theorem C13_write_path_and_read_path_address_the_same_slot : forall k r s v, SlotsProofs.Inv k r ->
  exists r', Slots.set r s v = Some r' /\ SlotsProofs.Inv k r' /\
    forall s', Slots.get r' s' = if ((s mod 2 ^ k) =? (s' mod 2 ^ k))%N then Some v else Slots.get r s'.
Proof. exact SlotsProofs.set_spec. Qed.

Print Assumptions C13_write_path_and_read_path_address_the_same_slot.
