(* C17 — ArrayGrid obeys the store/load law in every dimension. *)
From Coq Require Import List Arith ZArith Bool.
From DC Require Import Grid.Model Grid.Proofs.
Import ListNotations.

(* store then load the same point; every other cell unchanged; shape preserved *)
Theorem C17_store_load : forall kind W H D C g p v,
  valid_kind kind -> wfG kind W H D C g -> in_bounds kind W H D C p = true ->
  exists g', set g p v = Some g' /\ wfG kind W H D C g' /\ get g' p = Some v /\
             (forall q, same_cell kind p q = false -> get g' q = get g q).
Proof. exact get_set_same. Qed.

(* a fresh grid reads the default everywhere *)
Theorem C17_fresh_reads_default : forall kind W H D C p,
  valid_kind kind -> in_bounds kind W H D C p = true -> get (new_grid kind W H D C) p = Some 0%Z.
Proof. exact get_initial. Qed.

(* every sequence of stores and loads: a load returns the most recent store at that point *)
Theorem C17_last_store_wins : forall kind W H D C ops,
  valid_kind kind -> run_model (new_grid kind W H D C) ops = run_spec kind W H D C [] ops.
Proof. exact grid_store_load. Qed.

(* out of bounds (by the code's own per-axis condition) panics and changes nothing *)
Theorem C17_out_of_bounds_panics : forall kind W H D C g p v,
  valid_kind kind -> wfG kind W H D C g -> in_bounds kind W H D C p = false ->
  set g p v = None /\ get g p = None.
Proof. exact set_out_of_bounds. Qed.

(* the property's bound (all coordinates below the smallest extent) implies the code's *)
Theorem C17_below_min_in_bounds : forall kind W H D C p,
  valid_kind kind ->
  let m := Nat.min (Nat.min W H) (Nat.min D C) in
  px p < m -> py p < m -> pz p < m -> pt p < m -> in_bounds kind W H D C p = true.
Proof. exact below_min_in_bounds. Qed.

Print Assumptions C17_store_load.
Print Assumptions C17_fresh_reads_default.
Print Assumptions C17_last_store_wins.
Print Assumptions C17_out_of_bounds_panics.
Print Assumptions C17_below_min_in_bounds.
