(* C19 — BitMap tracks each sequence residue independently.
   This file holds only the property theorems, their pinned statements and Print Assumptions. *)
From Coq Require Import List NArith Bool.
From DC Require Import BitMap.Model BitMap.Proofs BitMap.Concurrent.
Import ListNotations.
Open Scope N_scope.

Theorem C19_refines_residue_set : forall k h s,
  is_set (run (2 ^ k) h) s = spec (2 ^ k) h s.
Proof. exact bitmap_refines_residue_set. Qed.

Theorem C19_last_addressed_op_decides : forall k h1 o h2 s,
  addressed (2 ^ k) s o = true ->
  forallb (fun o' => negb (addressed (2 ^ k) s o')) h2 = true ->
  is_set (run (2 ^ k) (h1 ++ o :: h2)) s = match o with OSet _ => true | OUnset _ => false end.
Proof. exact last_addressed_op_decides. Qed.

Theorem C19_never_addressed_is_clear : forall k h s,
  forallb (fun o' => negb (addressed (2 ^ k) s o')) h = true ->
  is_set (run (2 ^ k) h) s = false.
Proof. exact never_addressed_is_clear. Qed.

Theorem C19_other_residue_frame : forall k h o s,
  addressed (2 ^ k) s o = false ->
  is_set (run (2 ^ k) (h ++ [o])) s = is_set (run (2 ^ k) h) s.
Proof. exact other_residue_frame. Qed.

Theorem C19_distinct_residues_commute : forall k h o1 o2 s,
  (forall x, addressed (2 ^ k) x o1 = true -> addressed (2 ^ k) x o2 = false) ->
  is_set (run (2 ^ k) (h ++ [o1; o2])) s = is_set (run (2 ^ k) (h ++ [o2; o1])) s.
Proof. exact distinct_residues_commute. Qed.

Theorem C19_access_in_bounds : forall k h s, in_bounds (run (2 ^ k) h) s = true.
Proof. exact access_in_bounds. Qed.

Theorem C19_query_interface_eq_spec : forall k l, model_q (2 ^ k) l = spec_queries (2 ^ k) l.
Proof. exact model_q_eq_spec. Qed.

Theorem C19_aliasing_refuted :
  exists c h s, c = 2 ^ 3 /\ is_set_orig (run_orig c h) s <> spec c h s.
Proof. exact orig_aliasing_refuted. Qed.

(* concurrent calls on distinct residues: every call being one atomic read-modify-write (checked on the hooked
   implementation), a concurrent execution is an interleaving l of one thread's calls l1 with the others' calls l2; every
   residue that only that thread addresses ends up exactly as its own calls leave it, whatever the interleaving *)
Theorem C19_concurrent_calls_on_other_residues_invisible : forall k l1 l2 l s,
  merge l1 l2 l -> forallb (fun o => negb (addressed (2 ^ k) s o)) l2 = true ->
  is_set (run (2 ^ k) l) s = is_set (run (2 ^ k) l1) s.
Proof. exact interleaving_invisible. Qed.

Print Assumptions C19_refines_residue_set.
Print Assumptions C19_concurrent_calls_on_other_residues_invisible.
Print Assumptions C19_last_addressed_op_decides.
Print Assumptions C19_never_addressed_is_clear.
Print Assumptions C19_other_residue_frame.
Print Assumptions C19_distinct_residues_commute.
Print Assumptions C19_access_in_bounds.
Print Assumptions C19_query_interface_eq_spec.
Print Assumptions C19_aliasing_refuted.
