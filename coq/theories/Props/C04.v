(* C04 — Ring buffer delivers every published event exactly once, in order, intact.
   Theorems over the single-producer pipeline model (Disruptor/Pipeline.v): any ring size N, any number of
   barrier stages and handlers, any batch sizes, any interleaving (every reachable state). *)
From Coq Require Import Arith Lia.
From DC Require Import Disruptor.Pipeline.
From Coq Require Import ZArith.
From DC Require Disruptor.HB Disruptor.MultiPub Disruptor.PipeReplay Disruptor.MultiReplay Disruptor.Handlers Disruptor.MultiPipe Disruptor.MultiPipeReplay Disruptor.Slots Disruptor.SlotsProofs.

(* in order, exactly once, no gaps: whenever a handler is about to handle a sequence, it is the successor of
   the last one it returned from (it starts at 1: see C04_seq0_never_delivered) *)
Theorem C04_in_order_exactly_once : forall N H stage last s h i a,
  reachable N H stage last s -> h < H -> hp s h = HBatch i a -> i = S (done s h).
Proof. exact handled_in_order. Qed.

(* never before the sequence has been completely written and published *)
Theorem C04_only_written_and_published : forall N H stage last
  (stage_le : forall h, h < H -> stage h <= last)
  (stage_nonempty : forall k, k <= last -> exists h, h < H /\ stage h = k) s h i a,
  reachable N H stage last s -> h < H -> hp s h = HBatch i a ->
  1 <= i /\ i < fill_ptr s /\ (stage h = 0 -> i <= cursor s).
Proof. exact handled_only_published. Qed.

(* intact: the slot still holds that sequence (the next lap has not been written), every handler of an earlier
   stage has returned from it and no handler of a later stage has touched it *)
Theorem C04_payload_intact : forall N H stage last
  (stage_le : forall h, h < H -> stage h <= last)
  (stage_nonempty : forall k, k <= last -> exists h, h < H /\ stage h = k) s h i a,
  reachable N H stage last s -> h < H -> hp s h = HBatch i a ->
  fill_ptr s <= i + N /\
  (forall g, g < H -> stage g < stage h -> i <= done s g) /\
  (forall g, g < H -> stage h < stage g -> done s g < i).
Proof. exact payload_intact. Qed.

(* known finding D7: the first event of a single-producer pipeline (sequence 0) is never delivered:
   every sequence a handler ever handles is >= 1, while the first claim starts at 0 *)
Theorem C04_seq0_never_delivered : forall N H stage last
  (stage_le : forall h, h < H -> stage h <= last)
  (stage_nonempty : forall k, k <= last -> exists h, h < H /\ stage h = k) s h i a,
  reachable N H stage last s -> h < H -> hp s h = HBatch i a -> i <> 0.
Proof.
  intros N H stage last Hle Hne s h i a Hr Hh Hp.
  destruct (handled_only_published N H stage last Hle Hne s h i a Hr Hh Hp). lia.
Qed.

(* The same facts WITHOUT the atomic-snapshot abstraction of Pipeline.v: in Disruptor/HB.v every cursor is read one at
   a time and a load may return ANY earlier store of the cursor (stale reads).  Whenever a handler is about to handle
   i: i continues its own sequence; i is written and published; every earlier stage has returned from i; no later
   stage has touched i; the producer has not begun the next lap of that slot. *)
Theorem C04_delivery_percursor_stale_reads : forall N H stage last
  (N_pos : 1 <= N)
  (stage_le : forall h, h < H -> stage h <= last)
  (stage_nonempty : forall k, k <= last -> exists h, h < H /\ stage h = k) s h i a,
  HB.reachable N H stage last s -> h < H -> HB.hp s h = HB.HBatch i a ->
  i = S (HB.done s h) /\
  i <= HB.cursor s /\ i < HB.fill_ptr s /\
  (forall g, g < H -> stage g < stage h -> i <= HB.done s g) /\
  (forall g, g < H -> stage h < stage g -> HB.done s g < i) /\ HB.fill_ptr s <= i + N.
Proof. exact HB.hb_delivery. Qed.

(* multi producer, true concurrency (Disruptor/MultiPub.v): everything at or below the cursor - and consumers never
   pass the cursor - has been completely written and published by its claimant, in every interleaving *)
Theorem C04_multi_only_written_and_published : forall N, 1 <= N -> forall s,
  MultiPub.reachable N s -> MultiPub.gate s <= MultiPub.cursor s /\ forall q, 1 <= q <= MultiPub.cursor s -> MultiPub.pub s q = true.
Proof. exact MultiPub.consumers_see_only_published. Qed.

(* ---- the tie between the explored executions and the proof models is itself checked: REPLAY ---------------------------
   Every logged execution of the hooked implementation is replayed on the proof model (single producer: Disruptor/Pipeline.v,
   multi producer: Disruptor/MultiPub.v): each event that corresponds to a model step must be enabled in the model's current
   state with exactly the observed values.  An accepted trace is an execution of the model, so the theorems above hold for
   that very execution (the extracted replay functions run on every explored schedule of the checks C04 C05 C06 C13 C14). *)
Theorem C04_replayed_single_producer_run_is_a_model_run : forall N H stage last l r',
  PipeReplay.replay N H stage last (PipeReplay.rinit) l 0 = ((-1)%Z, r') ->
  Pipeline.reachable N H stage last (PipeReplay.pm r').
Proof. exact PipeReplay.replay_sound. Qed.

Theorem C04_replayed_multi_producer_run_is_a_model_run : forall N, 1 <= N -> forall gating l r',
  MultiReplay.replay N gating MultiReplay.rinit l 0 = ((-1)%Z, r') -> MultiPub.reachable N (MultiReplay.rm r').
Proof. exact MultiReplay.replay_sound. Qed.

Theorem C04_replayed_multi_producer_run_only_published : forall N, 1 <= N -> forall gating l r',
  MultiReplay.replay N gating MultiReplay.rinit l 0 = ((-1)%Z, r') ->
  forall q, 1 <= q <= MultiPub.cursor (MultiReplay.rm r') -> MultiPub.pub (MultiReplay.rm r') q = true.
Proof. exact MultiReplay.replay_cursor_only_published. Qed.

(* MULTI-PRODUCER PIPELINE OF ANY TOPOLOGY (Disruptor/MultiPipe.v = the multi-producer sequencer under true concurrency composed
   with the handler side over any barrier stages): a handler handles sequence i only if its claimant has published it, and i is
   the successor of the last sequence the handler returned from (in order, exactly once, no gaps) *)
Theorem C04_multi_pipeline_handles_only_published_in_order : forall N, 1 <= N -> forall H stage last
  (stage_le : forall h, h < H -> stage h <= last)
  (stage_nonempty : forall k, k <= last -> exists h, h < H /\ stage h = k) x h i a,
  MultiPipe.mreachable N H stage last x -> h < H -> Handlers.hp (MultiPipe.hs x) h = HBatch i a ->
  MultiPub.pub (MultiPipe.ms x) i = true /\ i = S (Handlers.done (MultiPipe.hs x) h).
Proof. exact MultiPipe.mp_handles_only_published. Qed.

(* ... and while the handler is at i, no producer has claimed the next lap i + N of that slot: the payload is intact *)
Theorem C04_multi_pipeline_slot_not_reclaimed : forall N, 1 <= N -> forall H stage last
  (stage_le : forall h, h < H -> stage h <= last)
  (stage_nonempty : forall k, k <= last -> exists h, h < H /\ stage h = k) x h i a,
  MultiPipe.mreachable N H stage last x -> h < H -> Handlers.hp (MultiPipe.hs x) h = HBatch i a ->
  forall t lo hi, MultiPub.tp (MultiPipe.ms x) t = MultiPub.TClaimed lo hi -> hi < i + N.
Proof. exact MultiPipe.mp_slot_not_reclaimed. Qed.

(* every logged execution of a multi-producer pipeline is replayed on the product model as well (extracted
   MultiPipeReplay.replay: writer threads drive the sequencer component, handler threads the handler component, the gating value
   of a claim must be a snapshot of the last stage); an accepted execution is a run of MultiPipe.v *)
Theorem C04_replayed_multi_pipeline_run_is_a_model_run : forall N, 1 <= N -> forall H stage last l r',
  MultiPipeReplay.replay N H stage last (MultiPipeReplay.pinit) l 0 = ((-1)%Z, r') ->
  MultiPipe.mreachable N H stage last (MultiPipeReplay.pst r').
Proof. exact MultiPipeReplay.replay_sound. Qed.

Print Assumptions C04_replayed_multi_pipeline_run_is_a_model_run.
Print Assumptions C04_multi_pipeline_handles_only_published_in_order.
Print Assumptions C04_multi_pipeline_slot_not_reclaimed.
Print Assumptions C04_in_order_exactly_once.
Print Assumptions C04_replayed_single_producer_run_is_a_model_run.
Print Assumptions C04_replayed_multi_producer_run_is_a_model_run.
Print Assumptions C04_replayed_multi_producer_run_only_published.
Print Assumptions C04_multi_only_written_and_published.
Print Assumptions C04_delivery_percursor_stale_reads.
Print Assumptions C04_only_written_and_published.
Print Assumptions C04_payload_intact.
Print Assumptions C04_seq0_never_delivered.

(* THE STORAGE ITSELF (Disruptor/Slots.v mirrors const_array_ring_buffer.rs: data[sequence & mask], mask = N - 1, unchecked access).
   For every ring size the constructor accepts - exactly the powers of two - and every history of writes (get_mut) and reads
   (get / get_mut) through ANY sequence numbers: no access is out of bounds and a read returns the value of the most recent write to a
   sequence congruent modulo N (the default if none): what a handler is handed for sequence s is what was stored for s, as long
   as the slot has not been given to s + N (which the pipeline theorems above exclude). *)
Theorem C04_ring_storage_is_a_map_on_residues : forall k ops,
  exists r, Slots.new (2 ^ k)%N = Some r /\ Slots.run r ops = Some (Slots.spec (2 ^ k)%N nil ops).
Proof. exact SlotsProofs.fresh_ring_is_a_map_on_residues. Qed.

Theorem C04_ring_constructor_accepts_exactly_the_powers_of_two :
  (forall k, exists r, Slots.new (2 ^ k)%N = Some r /\ SlotsProofs.Inv k r) /\
  (forall n r, Slots.new n = Some r -> exists k, n = (2 ^ k)%N /\ SlotsProofs.Inv k r).
Proof. split; [exact SlotsProofs.new_inv|exact SlotsProofs.new_only_pow2]. Qed.

Print Assumptions C04_ring_storage_is_a_map_on_residues.
Print Assumptions C04_ring_constructor_accepts_exactly_the_powers_of_two.
