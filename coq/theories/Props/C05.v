(* C05 — Ring buffer slots: no overwrite before consumption, no unordered access. *)
From Coq Require Import Arith Lia.
From DC Require Import Disruptor.Pipeline.

(* the producer writes sequence q into slot q mod N only when EVERY handler of EVERY stage has returned from
   the sequence q - N previously stored there — for every ring size, topology, batch size and interleaving *)
Theorem C05_no_overwrite_before_consumption : forall N H stage last
  (stage_le : forall h, h < H -> stage h <= last)
  (stage_nonempty : forall k, k <= last -> exists h, h < H /\ stage h = k) s q e m,
  reachable N H stage last s -> pp s = PFill q e m -> forall h, h < H -> q <= done s h + N.
Proof. exact no_overwrite_before_consumption. Qed.

(* consequently a producer that is a full ring ahead cannot claim: a claim ending at e needs a gating value m
   with e <= m + N that is (or was, cursors only grow) below every last-stage cursor *)
Theorem C05_full_ring_ahead_blocks : forall N H stage last s s',
  step N H stage last s s' -> forall q e m, pp s = PIdle -> pp s' = PFill q e m ->
  e <= m + N /\ (m = pcached s \/ gate H stage last s m).
Proof.
  intros N H stage last s s' Hs q e m Hi Hf. destruct Hs; cbn in *; try congruence.
  inversion Hf; subst. split; [lia | assumption].
Qed.

(* the representation invariant behind both (cursor chain, gate snapshots, batch bookkeeping) is inductive *)
Theorem C05_invariant : forall N H stage last s,
  reachable N H stage last s -> Inv N H stage last s.
Proof. exact Inv_reachable. Qed.

Print Assumptions C05_no_overwrite_before_consumption.
Print Assumptions C05_full_ring_ahead_blocks.
Print Assumptions C05_invariant.
