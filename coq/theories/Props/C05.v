(* C05 — Ring buffer slots: no overwrite before consumption, no unordered access. *)
From Coq Require Import Arith Lia.
From DC Require Import Disruptor.Pipeline.
From DC Require Disruptor.HB Disruptor.MultiPub Disruptor.MultiPubHB Disruptor.Handlers Disruptor.MultiPipe Disruptor.MultiPipeReplay Disruptor.PipeReplay Disruptor.Slots Disruptor.SlotsProofs.
From Coq Require Import ZArith List.
Import ListNotations.

(* the producer writes sequence q into slot q mod N only when EVERY handler of EVERY stage has returned from
   the sequence q - N previously stored there — for every ring size, topology, batch size and interleaving *)
Theorem C05_no_overwrite_before_consumption : forall N H stage last
  (stage_le : forall h, h < H -> stage h <= last)
  (stage_nonempty : forall k, k <= last -> exists h, h < H /\ stage h = k) s q e m,
  reachable N H stage last s -> pp s = PFill q e m -> forall h, h < H -> q <= done s h + N.
Proof. exact no_overwrite_before_consumption. Qed.

(* consequently a producer that is a full ring ahead cannot claim: a claim ending at e needs a gating value m
   with e <= m + N that is (or was, cursors only grow) below every last-stage cursor *)
Theorem C05_full_ring_ahead_blocks : forall N H stage last s s',
  step N H stage last s s' -> forall q e m, pp s = PIdle -> pp s' = PFill q e m ->
  e <= m + N /\ (m = pcached s \/ gate H stage last s m).
Proof.
  intros N H stage last s s' Hs q e m Hi Hf. destruct Hs; cbn in *; try congruence.
  inversion Hf; subst. split; [lia | assumption].
Qed.

(* the representation invariant behind both (cursor chain, gate snapshots, batch bookkeeping) is inductive *)
Theorem C05_invariant : forall N H stage last s,
  reachable N H stage last s -> Inv N H stage last s.
Proof. exact Inv_reachable. Qed.

(* ---- happens-before half (model HB: cursors read ONE AT A TIME, Release stores / Acquire loads) ---------- *)
(* Handler h about to touch sequence i: every fill of slot i mod N performed so far, and every access to that slot
   performed so far by a handler of another stage, is ordered before it by happens-before.  Unbounded in ring size,
   topology, batch sizes and interleaving.  Same-stage handlers are excluded: finding D9. *)
Theorem C05_handler_accesses_race_free : forall N H stage last
  (N_pos : 1 <= N)
  (stage_le : forall h, h < H -> stage h <= last)
  (stage_nonempty : forall k, k <= last -> exists h, h < H /\ stage h = k) s h i a,
  HB.reachable N H stage last s -> h < H -> HB.hp s h = HB.HBatch i a ->
  (forall j, j < HB.fill_ptr s -> j mod N = i mod N -> j < HB.kP (HB.khand s h)) /\
  (forall g j, g < H -> stage g <> stage h -> 1 <= j -> j <= HB.done s g -> j mod N = i mod N ->
               j <= HB.kH (HB.khand s h) g).
Proof. exact HB.handler_no_race. Qed.

(* Producer about to fill sequence q: every handler access so far to slot q mod N happens-before the fill. *)
Theorem C05_producer_fills_race_free : forall N H stage last
  (N_pos : 1 <= N)
  (stage_le : forall h, h < H -> stage h <= last)
  (stage_nonempty : forall k, k <= last -> exists h, h < H /\ stage h = k) s q e m,
  HB.reachable N H stage last s -> HB.pp s = HB.PFill q e m ->
  forall g j, g < H -> 1 <= j -> j <= HB.done s g -> j mod N = q mod N -> j <= HB.kH (HB.kprod s) g.
Proof. exact HB.producer_no_race. Qed.

(* No overwrite before consumption again, without the atomic-snapshot abstraction of the gating reads. *)
Theorem C05_no_overwrite_percursor : forall N H stage last
  (N_pos : 1 <= N)
  (stage_le : forall h, h < H -> stage h <= last)
  (stage_nonempty : forall k, k <= last -> exists h, h < H /\ stage h = k) s q e m,
  HB.reachable N H stage last s -> HB.pp s = HB.PFill q e m -> forall h, h < H -> q <= HB.done s h + N.
Proof. exact HB.no_overwrite_percursor. Qed.

(* multi producer, true concurrency: while a producer fills the slots of its claim, every consumer is done with the
   previous occupant q - N of each of them (value level; happens-before for the multi producer is monitored) *)
Theorem C05_multi_no_overwrite : forall N, 1 <= N -> forall s t lo hi,
  MultiPub.reachable N s -> MultiPub.tp s t = MultiPub.TClaimed lo hi -> forall q, lo <= q <= hi -> q < MultiPub.gate s + N.
Proof. exact MultiPub.mp_no_overwrite. Qed.

(* ---- happens-before for the MULTI producer, true concurrency (Disruptor/MultiPubHB.v) -------------------------
   any number of producer threads and of first-stage consumers, every atomic operation its own step, any interleaving,
   consumer-cursor and producer-cursor loads possibly stale; SeqCst read-modify-writes on the ready bits and the cursor
   CAS, Release stores / Acquire loads on the cursors (pinned by trace validation). *)
(* a consumer about to touch sequence i: every fill made so far to that slot is ordered before the access *)
Theorem C05_multi_consumer_accesses_race_free : forall N, 1 <= N -> forall C s c i a,
  MultiPubHB.hreachable N C s -> c < C -> MultiPubHB.cp s c = MultiPubHB.CBatch i a ->
  forall q, MultiPubHB.fl s q = true -> q mod N = i mod N -> MultiPubHB.kf (MultiPubHB.kc s c) q = true.
Proof. exact MultiPubHB.consumer_no_race. Qed.

(* a producer about to fill the next sequence of its claim: every consumer access and every fill made so far to that
   slot is ordered before the write *)
Theorem C05_multi_producer_fills_race_free : forall N, 1 <= N -> forall C s t lo hi,
  MultiPubHB.hreachable N C s -> MultiPub.tp (MultiPubHB.base s) t = MultiPub.TClaimed lo hi -> MultiPubHB.pf s t <= hi ->
  (forall c j, c < C -> 1 <= j <= MultiPubHB.cdone s c -> j mod N = MultiPubHB.pf s t mod N -> j <= MultiPubHB.ka (MultiPubHB.kp s t) c) /\
  (forall q, MultiPubHB.fl s q = true -> q mod N = MultiPubHB.pf s t mod N -> MultiPubHB.kf (MultiPubHB.kp s t) q = true).
Proof. exact MultiPubHB.producer_no_race. Qed.

(* multi-producer pipeline of ANY topology (Disruptor/MultiPipe.v): while a producer fills the slots of its claim, EVERY
   handler of EVERY stage has returned from the previous occupant q - N of each of them *)
Theorem C05_multi_pipeline_no_overwrite_any_stage : forall N, 1 <= N -> forall H stage last
  (stage_le : forall h, h < H -> stage h <= last)
  (stage_nonempty : forall k, k <= last -> exists h, h < H /\ stage h = k) x t lo hi,
  MultiPipe.mreachable N H stage last x -> MultiPub.tp (MultiPipe.ms x) t = MultiPub.TClaimed lo hi ->
  forall q h, lo <= q <= hi -> h < H -> q < Handlers.done (MultiPipe.hs x) h + N.
Proof. exact MultiPipe.mp_no_overwrite_any_stage. Qed.

(* what an accepted (replayed) multi-producer execution is thereby known to satisfy, with the stage hypotheses discharged for the
   configuration's stage sizes: handlers only at published sequences and in order, stage order, and no overwrite before every
   handler of every stage is done with the previous occupant *)
Theorem C05_replayed_multi_pipeline_run_properties : forall N sizes l r',
  1 <= N -> sizes <> [] -> Forall (fun n => 1 <= n) sizes ->
  let H := fold_right Nat.add 0 sizes in let stage := fun h => PipeReplay.stage_of sizes h 0 in let last := length sizes - 1 in
  MultiPipeReplay.replay N H stage last MultiPipeReplay.pinit l 0 = ((-1)%Z, r') ->
  let x := MultiPipeReplay.pst r' in
  (forall h i a, h < H -> Handlers.hp (MultiPipe.hs x) h = HBatch i a ->
     MultiPub.pub (MultiPipe.ms x) i = true /\ i = S (Handlers.done (MultiPipe.hs x) h)) /\
  (forall h i a g, h < H -> g < H -> Handlers.hp (MultiPipe.hs x) h = HBatch i a -> S (stage g) = stage h ->
     i <= Handlers.done (MultiPipe.hs x) g) /\
  (forall t lo hi, MultiPub.tp (MultiPipe.ms x) t = MultiPub.TClaimed lo hi ->
     forall q h, lo <= q <= hi -> h < H -> q < Handlers.done (MultiPipe.hs x) h + N).
Proof. exact MultiPipeReplay.replayed_multi_pipeline_properties. Qed.

Print Assumptions C05_replayed_multi_pipeline_run_properties.
Print Assumptions C05_multi_pipeline_no_overwrite_any_stage.
Print Assumptions C05_no_overwrite_before_consumption.
Print Assumptions C05_multi_consumer_accesses_race_free.
Print Assumptions C05_multi_producer_fills_race_free.
Print Assumptions C05_multi_no_overwrite.
Print Assumptions C05_handler_accesses_race_free.
Print Assumptions C05_producer_fills_race_free.
Print Assumptions C05_no_overwrite_percursor.
Print Assumptions C05_full_ring_ahead_blocks.
Print Assumptions C05_invariant.

(* slots are shared exactly between sequences that are congruent modulo the ring size, and every unchecked slot access is in bounds
   (Disruptor/Slots.v mirrors const_array_ring_buffer.rs); "the event previously stored there" is the event of sequence q - N *)
Theorem C05_slots_are_shared_exactly_by_congruent_sequences : forall k r s s', SlotsProofs.Inv k r ->
  (Slots.index r s = Slots.index r s' <-> (s mod 2 ^ k = s' mod 2 ^ k)%N).
Proof. exact SlotsProofs.same_slot_iff. Qed.

Theorem C05_slot_access_is_in_bounds : forall k r s, SlotsProofs.Inv k r ->
  N.to_nat (Slots.index r s) < length (Slots.data r).
Proof. exact SlotsProofs.index_in_bounds. Qed.

Print Assumptions C05_slots_are_shared_exactly_by_congruent_sequences.
Print Assumptions C05_slot_access_is_in_bounds.
