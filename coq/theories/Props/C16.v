(* C16 — Adjustable context nodes change all-or-nothing and only to admissible values. *)
From Coq Require Import List ZArith Bool.
From DC Require Import Grid.Model Adjustable.Model Adjustable.Proofs.
From DC Require Adjustable.Overflow.
Import ListNotations.
Open Scope Z_scope.

(* for all four node kinds, update and adjust, every node value and every grid content:
   the result satisfies the whole property (executable predicate adj_check, also used as the
   oracle on the implementation's output) *)
Theorem C16_model_satisfies_property : forall k is_upd g n vals ok n',
  run_op k is_upd g n = Some (ok, n') -> grid_vals k g = Some vals ->
  adj_check k is_upd n vals ok n' = true.
Proof. exact model_passes_check. Qed.

Theorem C16_ok_sets_every_coordinate : forall k is_upd g n vals n',
  run_op k is_upd g n = Some (true, n') -> grid_vals k g = Some vals ->
  list_eqb (coords k n') (expected_new is_upd (coords k n) vals) = true /\
  list_eqb (others k n') (others k n) = true.
Proof. exact ok_sets_every_coordinate. Qed.

Theorem C16_err_changes_nothing : forall k is_upd g n n',
  run_op k is_upd g n = Some (false, n') -> n' = n.
Proof. exact err_changes_nothing. Qed.

Theorem C16_inadmissible_fails : forall k is_upd g n vals ok n',
  run_op k is_upd g n = Some (ok, n') -> grid_vals k g = Some vals ->
  must_fail k is_upd (coords k n) vals = true -> ok = false.
Proof. exact inadmissible_fails. Qed.

Theorem C16_admissible_succeeds : forall k is_upd g n vals ok n',
  run_op k is_upd g n = Some (ok, n') -> grid_vals k g = Some vals ->
  must_succeed is_upd (coords k n) vals = true -> ok = true.
Proof. exact admissible_succeeds. Qed.

Theorem C16_defined_when_cells_exist : forall k is_upd g n vals,
  grid_vals k g = Some vals -> exists r, run_op k is_upd g n = Some r.
Proof. exact defined_when_cells_exist. Qed.

(* ---- at the edge of the machine type (Adjustable/Overflow.v) --------------------------------------------------------------
   [adjust] adds with the machine `+` of the element type (i64 in the harness and in the repository's tests): a release build
   wraps modulo 2^64.  The release model [adjust_w] coincides with the unbounded model above - hence satisfies the whole
   property - whenever every mathematical sum old + delta fits the type ... *)
Theorem C16_release_adjust_is_the_model_when_sums_fit : forall k g n,
  Overflow.sums_fit k g n -> Overflow.adjust_w k g n = adjust k g n.
Proof. exact Overflow.adjust_w_in_range. Qed.

(* ... and the property FAILS outside that range (finding D11): a data node holding -5, adjusted by -(2^63 - 1), must fail
   (the adjusted value is negative) but is accepted and ends up holding 2^63 - 4 *)
Theorem C16_adjust_overflow_refuted :
  match Overflow.d11_grid with
  | Some g =>
      let n := mkNode (-5) 1 1 1 in
      grid_vals KData g = Some [- 9223372036854775807] /\
      must_fail KData false (coords KData n) [- 9223372036854775807] = true /\
      Overflow.adjust_w KData g n = Some (true, mkNode 9223372036854775804 1 1 1)
  | None => False
  end.
Proof. exact Overflow.adjust_overflow_refuted. Qed.

Print Assumptions C16_release_adjust_is_the_model_when_sums_fit.
Print Assumptions C16_adjust_overflow_refuted.
Print Assumptions C16_model_satisfies_property.
Print Assumptions C16_ok_sets_every_coordinate.
Print Assumptions C16_err_changes_nothing.
Print Assumptions C16_inadmissible_fails.
Print Assumptions C16_admissible_succeeds.
Print Assumptions C16_defined_when_cells_exist.
