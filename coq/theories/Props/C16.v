(* C16 — Adjustable context nodes change all-or-nothing and only to admissible values. *)
From Coq Require Import List ZArith Bool.
From DC Require Import Grid.Model Adjustable.Model Adjustable.Proofs.
Import ListNotations.
Open Scope Z_scope.

(* for all four node kinds, update and adjust, every node value and every grid content:
   the result satisfies the whole property (executable predicate adj_check, also used as the
   oracle on the implementation's output) *)
Theorem C16_model_satisfies_property : forall k is_upd g n vals ok n',
  run_op k is_upd g n = Some (ok, n') -> grid_vals k g = Some vals ->
  adj_check k is_upd n vals ok n' = true.
Proof. exact model_passes_check. Qed.

Theorem C16_ok_sets_every_coordinate : forall k is_upd g n vals n',
  run_op k is_upd g n = Some (true, n') -> grid_vals k g = Some vals ->
  list_eqb (coords k n') (expected_new is_upd (coords k n) vals) = true /\
  list_eqb (others k n') (others k n) = true.
Proof. exact ok_sets_every_coordinate. Qed.

Theorem C16_err_changes_nothing : forall k is_upd g n n',
  run_op k is_upd g n = Some (false, n') -> n' = n.
Proof. exact err_changes_nothing. Qed.

Theorem C16_inadmissible_fails : forall k is_upd g n vals ok n',
  run_op k is_upd g n = Some (ok, n') -> grid_vals k g = Some vals ->
  must_fail k is_upd (coords k n) vals = true -> ok = false.
Proof. exact inadmissible_fails. Qed.

Theorem C16_admissible_succeeds : forall k is_upd g n vals ok n',
  run_op k is_upd g n = Some (ok, n') -> grid_vals k g = Some vals ->
  must_succeed is_upd (coords k n) vals = true -> ok = true.
Proof. exact admissible_succeeds. Qed.

Theorem C16_defined_when_cells_exist : forall k is_upd g n vals,
  grid_vals k g = Some vals -> exists r, run_op k is_upd g n = Some r.
Proof. exact defined_when_cells_exist. Qed.

Print Assumptions C16_model_satisfies_property.
Print Assumptions C16_ok_sets_every_coordinate.
Print Assumptions C16_err_changes_nothing.
Print Assumptions C16_inadmissible_fails.
Print Assumptions C16_admissible_succeeds.
Print Assumptions C16_defined_when_cells_exist.
