(* C02 — Nested causal structures evaluate like the conjunction of what they contain. *)
From Coq Require Import List Arith NArith ZArith Bool.
From DC Require Import Common.AList Graph.UltraGraph Causal.Model Causal.Proofs Causal.Structural.
Import ListNotations.

(* a causaloid wrapping a collection / a graph gives, in every position it is evaluated from, the
   verdict of reasoning directly over the wrapped structure *)
Theorem C02_nested_collection_is_direct : forall f id c items idx data s,
  run (S f) (TVerifyAll (Coll id (c :: items)) idx) data s = run f (TColl (c :: items) 0) data s.
Proof. exact nested_collection_is_direct. Qed.

Theorem C02_nested_graph_is_direct : forall f id nodes edges r idx data s,
  run (S f) (TVerifyAll (GraphC id nodes edges (Some r)) idx) data s
  = finish (run f (TFromTo nodes edges r (length nodes) idx) data s).
Proof. exact nested_graph_is_direct. Qed.

(* every run of every task on every nesting tree (any depth and fan-out): the verdict is the
   conjunction of the verdicts of the singleton causaloids it evaluated, in evaluation order:
   true => all evaluated verdicts true; false => the last evaluated verdict false, all earlier true *)
Theorem C02_verdict_is_conjunction_of_trace : forall fuel t data s r s',
  run fuel t data s = (r, s') ->
  exists new, log s' = new ++ log s /\
    (forall cell, cell_active s' cell = latest new cell (cell_active s cell)) /\
    ((r = ROk true \/ r = RStop) -> forallb isT new = true) /\
    (r = ROk false -> exists e rest, new = e :: rest /\ ever e = VF /\ forallb isT rest = true).
Proof. exact run_sound. Qed.

Theorem C02_contextual_uses_its_context : forall id cell fk ctx obs s,
  ctx <> 0 ->
  exists s', verify_single (Single id cell fk ctx) obs s = (match fn_verdict fk ctx obs with VT => ROk true | VF => ROk false | VE => RErr end, s')
  /\ hd_error (log s') = Some (mkEntry cell (10 + ctx) obs (fn_verdict fk ctx obs)).
Proof. exact contextual_uses_its_context. Qed.

(* structural form: the verdict of a collection is the short-circuit conjunction of the verdicts of ALL the items it
   contains (no contained item is skipped), each item's verdict depending on the item and the observations only *)
Theorem C02_collection_is_conjunction_of_items : forall f items i data s,
  fst (run f (TColl items i) data s) = coll_conj f items i data.
Proof. exact collection_is_conjunction_of_items. Qed.

Theorem C02_collection_true_needs_every_item : forall f items i data,
  coll_conj f items i data = ROk true ->
  forall j c, nth_error items j = Some c -> exists f', f' < f /\ item_res f' c (i + j) data = ROk true.
Proof. exact collection_true_iff_all_items. Qed.

Print Assumptions C02_nested_collection_is_direct.
Print Assumptions C02_collection_is_conjunction_of_items.
Print Assumptions C02_collection_true_needs_every_item.
Print Assumptions C02_nested_graph_is_direct.
Print Assumptions C02_verdict_is_conjunction_of_trace.
Print Assumptions C02_contextual_uses_its_context.
