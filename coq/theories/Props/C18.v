(* C18 — Collection reasoning aggregates obey their counting laws. *)
From Coq Require Import List Arith ZArith Bool Permutation.
From DC Require Import Common.SpecF64 Collections.Model Collections.Laws.
From DC Require Collections.Percent.
From Coq Require Import SpecFloat.
Import ListNotations.

(* every filter returns exactly the members whose predicate holds, as many as the count reports *)
Theorem C18_filter_matches_count : forall (A : Type) (xs : list A) ps,
  length xs = length ps -> length (select xs ps) = count ps.
Proof. exact @select_length. Qed.

Theorem C18_filter_membership : forall (A : Type) (xs : list A) ps x,
  length xs = length ps -> NoDup xs ->
  (In x (select xs ps) <-> exists i, nth_error xs i = Some x /\ nth_error ps i = Some true).
Proof. exact @select_In. Qed.

(* complementary filters (valid/invalid, tested/untested) partition the collection *)
Theorem C18_complementary_filters_partition : forall (A : Type) (xs : list A) ps,
  length xs = length ps -> Permutation (select xs ps ++ select xs (map negb ps)) xs.
Proof. exact @select_partition. Qed.

Theorem C18_counts_add_up : forall ps, count ps + count (map negb ps) = length ps.
Proof. exact count_complement. Qed.

(* counts are counts; percentages are count / size on the documented scale (binary64 expressions) *)
Theorem C18_number_is_count : forall ps, fcount ps = of_nat (length (filter (fun b : bool => b) ps)).
Proof. exact number_is_count. Qed.
Theorem C18_percent_is_count_over_size_x100 : forall ps,
  percent100 ps = fmul (fdiv (of_nat (count ps)) (of_nat (length ps))) f_hundred.
Proof. exact percent_is_count_over_size. Qed.
Theorem C18_observation_ratio_is_count_over_size : forall ps,
  ratio ps = fdiv (of_nat (count ps)) (of_nat (length ps)).
Proof. exact ratio_is_count_over_size. Qed.

(* the all-X loops are conjunctions over the members *)
Theorem C18_all_is_forall : forall ps, all_loop ps = forallb (fun b : bool => b) ps.
Proof. exact all_loop_forallb. Qed.

(* no member is both inferable and inverse-inferable, hence nothing is ever "non-inferable" *)
Theorem C18_never_both_inferable : forall x, is_inferable x && is_inverse_inferable x = false.
Proof. exact never_both_inferable. Qed.

Theorem C18_no_non_inferable : forall l,
  let infs := map is_inferable l in let invs := map is_inverse_inferable l in
  let both := map (fun p : bool * bool => fst p && snd p) (combine infs invs) in
  count both = 0 /\ select (map iid l) both = [] /\
  any_loop (map (fun p : bool * bool => snd p && fst p) (combine infs invs)) = false.
Proof. exact no_non_inferable. Qed.

(* assumptions: verify returns the function's verdict; tested from the first verification on; never
   valid before a verification returned true — for every verification history *)
Theorem C18_verify_returns_verdict : forall a d, snd (verify a d) = afn_eval (afn a) d.
Proof. exact verify_returns_verdict. Qed.

Theorem C18_assumption_history : forall id fn ds,
  let a' := run_member (mkA id fn false false) ds in
  (tested a' = true <-> ds <> []) /\ (valid a' = true <-> exists d, In d ds /\ afn_eval fn d = true).
Proof. exact fresh_member_history. Qed.

Theorem C18_verify_all_touches_every_member : forall l d i a,
  nth_error l i = Some a -> nth_error (fst (astep l (AVerifyAll d))) i = Some (fst (verify a d)).
Proof. exact verify_all_members. Qed.

Theorem C18_verify_one_touches_only_its_member : forall l i d j,
  nth_error (fst (astep l (AVerifyOne i d))) j =
  if j =? i then option_map (fun a => fst (verify a d)) (nth_error l j) else nth_error l j.
Proof. exact verify_one_members. Qed.

(* "equals 100 exactly when all members satisfy the predicate", for EVERY collection size a usize can hold (not a bounded
   evaluation): binary64 x / x = 1 for every finite non-zero x needs the specification of IEEE division, which is Flocq's
   (Bdiv_correct); Flocq's operations are those of Coq.Floats.SpecFloat on which the model is written.  These two theorems are
   the only ones of the development that depend on axioms: the classical real-number axioms of the standard library that Flocq
   is built on (listed by Print Assumptions below and in the trusted base of the evidence) *)
Theorem C18_all_satisfy_gives_exactly_100 : forall n,
  1 <= n -> (Z.of_nat n <= 2 ^ 64)%Z -> percent100 (repeat true n) = f_hundred.
Proof. exact Percent.percent_all_true_is_100. Qed.

Theorem C18_none_satisfies_gives_exactly_0 : forall n,
  1 <= n -> (Z.of_nat n <= 2 ^ 64)%Z -> percent100 (repeat false n) = S754_zero false.
Proof. exact Percent.percent_none_true_is_0. Qed.

Print Assumptions C18_all_satisfy_gives_exactly_100.
Print Assumptions C18_none_satisfies_gives_exactly_0.
Print Assumptions C18_filter_matches_count.
Print Assumptions C18_filter_membership.
Print Assumptions C18_complementary_filters_partition.
Print Assumptions C18_counts_add_up.
Print Assumptions C18_number_is_count.
Print Assumptions C18_percent_is_count_over_size_x100.
Print Assumptions C18_observation_ratio_is_count_over_size.
Print Assumptions C18_all_is_forall.
Print Assumptions C18_never_both_inferable.
Print Assumptions C18_no_non_inferable.
Print Assumptions C18_verify_returns_verdict.
Print Assumptions C18_assumption_history.
Print Assumptions C18_verify_all_touches_every_member.
Print Assumptions C18_verify_one_touches_only_its_member.
