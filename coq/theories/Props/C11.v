(* C11 — Activation state mirrors the latest evaluation and aggregate counts agree. *)
From Coq Require Import List Arith NArith ZArith Bool Permutation.
From DC Require Import Common.AList Common.SpecF64 Graph.UltraGraph Collections.Model Collections.Laws Causal.Model Causal.Proofs Causal.Entry.
Import ListNotations.

(* for every call on every model: afterwards every activation cell holds the verdict of the most
   recent evaluation of its causaloid that did not error (latest), and is UNCHANGED when the causaloid
   was not evaluated or only errored; by composition over call histories this is the statement for
   every sequence of evaluations and reasoning calls *)
Theorem C11_activation_mirrors_latest_evaluation : forall fuel t data s r s',
  run fuel t data s = (r, s') ->
  exists new, log s' = new ++ log s /\
    (forall cell, cell_active s' cell = latest new cell (cell_active s cell)).
Proof.
  intros fuel t data s r s' H. destruct (run_sound fuel t data s r s' H) as (new & L & A & _). exists new. auto.
Qed.

Theorem C11_latest_unfold : forall new cell d,
  latest new cell d =
  match new with
  | [] => d
  | e :: rest => if Nat.eqb (ecell e) cell
                 then match ever e with VT => true | VF => false | VE => latest rest cell d end
                 else latest rest cell d
  end.
Proof. intros [|e rest] cell d; reflexivity. Qed.

Theorem C11_untouched_cells_unchanged : forall new cell d,
  (forall e, In e new -> ecell e <> cell) -> latest new cell d = d.
Proof.
  induction new as [|e rest IH]; intros cell d H; cbn; auto.
  destruct (Nat.eqb_spec (ecell e) cell) as [E|_]; [exfalso; apply (H e); [left; reflexivity | exact E]|].
  apply IH. intros e' Hin. apply H. right. exact Hin.
Qed.

(* wrappers: active exactly when at least one contained causaloid is *)
Theorem C11_wrapper_active_iff_member_active : forall f id items s,
  is_active (S f) (Coll id items) s = existsb (fun x => is_active f x s) items.
Proof. reflexivity. Qed.
Theorem C11_graph_wrapper_active_iff_node_active : forall f id nodes edges root s,
  is_active (S f) (GraphC id nodes edges root) s = existsb (fun x => is_active f x s) nodes.
Proof. reflexivity. Qed.

(* number / percent / all-active / active-inactive filters are recounts over the members (C18's laws) *)
Theorem C11_aggregates_recount : forall (A : Type) (xs : list A) ps,
  length xs = length ps ->
  length (select xs ps) = count ps /\ Permutation (select xs ps ++ select xs (map negb ps)) xs /\
  all_loop ps = forallb (fun b : bool => b) ps /\
  percent100 ps = fmul (fdiv (of_nat (count ps)) (of_nat (length ps))) f_hundred.
Proof.
  intros A xs ps H. repeat split.
  - apply select_length, H.
  - apply select_partition, H.
  - apply all_loop_forallb.
Qed.

Print Assumptions C11_activation_mirrors_latest_evaluation.
Print Assumptions C11_latest_unfold.
Print Assumptions C11_untouched_cells_unchanged.
Print Assumptions C11_wrapper_active_iff_member_active.
Print Assumptions C11_graph_wrapper_active_iff_node_active.
Print Assumptions C11_aggregates_recount.
