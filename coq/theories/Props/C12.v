(* C12 — Reasoning is deterministic and independent of the container holding the items. *)
From Coq Require Import List Arith NArith ZArith Bool Permutation.
From DC Require Import Common.AList Common.SpecF64 Graph.UltraGraph Collections.Model Collections.Laws Causal.Model Causal.Proofs.
Import ListNotations.

(* all reasoning is a function of the item list (get_all_items): the five container instances can
   differ only in that list; for equal lists the answers are equal (functions), and every
   order-insensitive answer is invariant under permutation of the items *)
Theorem C12_counts_permutation_invariant : forall (A : Type) (p : A -> bool) l l',
  Permutation l l' -> count (map p l) = count (map p l').
Proof. exact @count_perm. Qed.
Theorem C12_all_predicates_permutation_invariant : forall (A : Type) (p : A -> bool) l l',
  Permutation l l' -> all_loop (map p l) = all_loop (map p l').
Proof. exact @all_perm. Qed.
Theorem C12_percentages_permutation_invariant : forall (A : Type) (p : A -> bool) l l',
  Permutation l l' -> percent100 (map p l) = percent100 (map p l').
Proof. exact @percent_perm. Qed.
Theorem C12_filters_permutation_invariant_as_multisets : forall (A : Type) (p : A -> bool) l l',
  Permutation l l' -> Permutation (select l (map p l)) (select l' (map p l')).
Proof. exact @select_perm. Qed.

(* a verdict does not depend on the activation store nor on what was evaluated before: repeating a
   call, or calling on a rebuilt / cloned model (same structure, any state), gives the same verdict *)
Theorem C12_verdict_independent_of_state : forall fuel t data s1 s2,
  fst (run fuel t data s1) = fst (run fuel t data s2).
Proof. exact run_pure. Qed.
Theorem C12_repetition_same_verdict : forall fuel t data s,
  fst (run fuel t data (snd (run fuel t data s))) = fst (run fuel t data s).
Proof. exact run_repeat. Qed.

Print Assumptions C12_counts_permutation_invariant.
Print Assumptions C12_all_predicates_permutation_invariant.
Print Assumptions C12_percentages_permutation_invariant.
Print Assumptions C12_filters_permutation_invariant_as_multisets.
Print Assumptions C12_verdict_independent_of_state.
Print Assumptions C12_repetition_same_verdict.
