(* C14 — Sequencers hand out disjoint gap-free ranges; cursor is the published prefix. *)
From Coq Require Import List Arith NArith Lia.
From DC Require Import Disruptor.Claims Disruptor.Pipeline.
From DC Require Disruptor.SeqApi Disruptor.SeqApiProofs Disruptor.SeqApiMulti Disruptor.SeqApiInOrder Disruptor.MultiPub Disruptor.MultiReplay Disruptor.Clones Disruptor.EmptyWrite.
From Coq Require Import ZArith.
Import ListNotations.

(* concurrent claims by any number of threads (any interleaving of loads and compare-and-swaps on the high
   watermark): the ranges returned tile the sequence space in claim order ... *)
Theorem C14_claims_tile_in_claim_order : forall cur l, hw_consistent cur l -> tiles cur (claims l).
Proof. exact claims_tile. Qed.

(* ... are pairwise disjoint ... *)
Theorem C14_claims_pairwise_disjoint : forall cur l i j lo1 hi1 lo2 hi2,
  hw_consistent cur l -> counts_pos l -> i < j ->
  nth_error (claims l) i = Some (lo1, hi1) -> nth_error (claims l) j = Some (lo2, hi2) ->
  lo1 <= hi1 /\ hi1 < lo2 /\ lo2 <= hi2.
Proof. exact claims_disjoint. Qed.

(* ... cover the sequence numbers without gaps ... *)
Theorem C14_claims_cover_without_gaps : forall cur l,
  hw_consistent cur l -> counts_pos l ->
  forall q, cur < q <= hw_final cur l <-> exists lo hi, In (lo, hi) (claims l) /\ lo <= q <= hi.
Proof. exact claims_cover. Qed.

(* ... and each has the requested length *)
Theorem C14_claims_have_requested_length : forall l lo hi,
  In (lo, hi) (claims l) -> exists tid e c, In (HwCas tid e c true) l /\ lo = e + 1 /\ hi + 1 - lo = c.
Proof. exact claims_length. Qed.

(* the consumer-visible cursor never decreases (multi producer: CAS loop that only ever swaps upwards) *)
Theorem C14_cursor_never_decreases : forall cur l,
  cur_consistent cur l -> cas_upward l ->
  forall i j x y, i <= j -> nth_error (cur_values cur l) i = Some x -> nth_error (cur_values cur l) j = Some y -> x <= y.
Proof. exact cursor_never_decreases. Qed.

(* single producer: the cursor is exactly the published prefix: it never covers an unwritten sequence, and when
   the producer is idle it equals the highest claimed sequence *)
Theorem C14_single_cursor_is_published_prefix : forall N H stage last s,
  reachable N H stage last s ->
  (cursor s = 0 \/ cursor s < fill_ptr s) /\ (pp s = PIdle -> 0 < pnext s -> S (cursor s) = pnext s /\ fill_ptr s = pnext s).
Proof.
  intros N H stage last s Hr. destruct (Inv_reachable N H stage last s Hr) as [(G & C1 & C2 & C3 & C5 & C4) _].
  split; [exact C1|]. intros Hi Hp. rewrite Hi in C4. split; [apply C3, Hp | exact C4].
Qed.

(* SingleProducerSequencer driven through the Sequencer API, EVERY history of its producer thread (counts >= 1, no
   blocking claim, publishes in claim order, any number of claims outstanding, any consumer progress): the extracted
   property checker - contiguous claims of the requested length; cursor monotone, never past an unpublished sequence,
   equal to the highest claim once everything is published - accepts the model's history.  The same checker judges
   the implementation's histories in the correspondence run. *)
Theorem C14_single_sequencer_api : forall size ng l,
  SeqApi.sp_wf (SeqApi.sp_init size ng) [] l = true ->
  SeqApi.check true SeqApi.c_init l (SeqApi.sp_run (SeqApi.sp_init size ng) l) = 0%N.
Proof. exact SeqApiProofs.sp_property. Qed.

(* MultiProducerSequencer (high / low watermark, ready bitmap) driven through the Sequencer API, ring of 2^k slots,
   EVERY history in which publishes complete in ANY order (counts >= 1, no blocking claim, only outstanding claims are
   published, consumers never pass the cursor): the property checker can only answer 0 (holds) or 5 (everything
   published, cursor below the highest claim).  Verdicts 1-4 - a claim that does not continue the previous one or has
   the wrong length, a cursor that decreases, a cursor PAST AN UNPUBLISHED SEQUENCE - are impossible. *)
Theorem C14_multi_sequencer_api : forall k ng l,
  SeqApi.mp_wf (SeqApi.mp_init (2 ^ k) ng) [] l = true ->
  SeqApi.check false SeqApi.c_init l (SeqApi.mp_run (SeqApi.mp_init (2 ^ k) ng) l) = 0%N \/
  SeqApi.check false SeqApi.c_init l (SeqApi.mp_run (SeqApi.mp_init (2 ^ k) ng) l) = 5%N.
Proof. exact SeqApiMulti.mp_property. Qed.

(* verdict 5 does occur: finding D8 on the model (two claims published in the opposite order) *)
Theorem C14_multi_stranding_refuted :
  exists l, SeqApi.mp_wf (SeqApi.mp_init 8 1) [] l = true /\
            SeqApi.check false SeqApi.c_init l (SeqApi.mp_run (SeqApi.mp_init 8 1) l) = 5%N.
Proof. eexists. exact SeqApiMulti.mp_stranding. Qed.

(* MultiProducerSequencer under TRUE CONCURRENCY (Disruptor/MultiPub.v): any number of producer threads, every atomic
   operation of next() and publish() - the CAS on the high watermark, each ready-bit set, the low-watermark read, each
   bit test of the scan, each bit clear, every attempt of the CAS loop on the cursor, the low-watermark store - a
   separate step, ANY interleaving, consumers moving at any time, any ring size N >= 1: the cursor never covers a
   sequence whose claimant has not published it, and it never decreases. *)
Theorem C14_multi_concurrent_never_past_unpublished : forall N, 1 <= N -> forall s,
  MultiPub.reachable N s -> forall q, 1 <= q <= MultiPub.cursor s -> MultiPub.pub s q = true.
Proof. exact MultiPub.cursor_only_published. Qed.

Theorem C14_multi_concurrent_cursor_monotone : forall N, 1 <= N -> forall s s',
  MultiPub.reachable N s -> MultiPub.step N s s' -> MultiPub.cursor s <= MultiPub.cursor s'.
Proof. exact MultiPub.cursor_monotone. Qed.

Theorem C14_multi_concurrent_claims_disjoint : forall N, 1 <= N -> forall s t t' lo hi lo' hi',
  MultiPub.reachable N s -> t <> t' -> MultiPub.tp s t = MultiPub.TClaimed lo hi -> MultiPub.tp s t' = MultiPub.TClaimed lo' hi' ->
  hi < lo' \/ hi' < lo.
Proof. exact MultiPub.mp_claims_disjoint. Qed.

(* ... while "once all claimants have published it equals the highest claimed sequence" FAILS (finding D8): a reachable
   state with every producer idle, everything published and the cursor below the high watermark *)
Theorem C14_multi_concurrent_stranding_refuted :
  exists s, MultiPub.reachable 8 s /\ MultiPub.tp s 0 = MultiPub.TIdle /\ MultiPub.tp s 1 = MultiPub.TIdle /\
            MultiPub.high s = 4 /\ MultiPub.cursor s = 2 /\
            MultiPub.pub s 1 = true /\ MultiPub.pub s 2 = true /\ MultiPub.pub s 3 = true /\ MultiPub.pub s 4 = true.
Proof. exact MultiPub.stranding_reachable. Qed.

(* finding D8 needs overtaking: when every publish is of the OLDEST outstanding claim (several claims outstanding, any
   consumer progress), the multi-producer sequencer satisfies the whole property - the strict checker answers 0 *)
Theorem C14_multi_sequencer_api_in_claim_order : forall k ng l,
  SeqApiInOrder.mp_wf_inorder (SeqApi.mp_init (2 ^ k) ng) [] l = true ->
  SeqApi.check true SeqApi.c_init l (SeqApi.mp_run (SeqApi.mp_init (2 ^ k) ng) l) = 0%N.
Proof. exact SeqApiInOrder.mp_inorder_property. Qed.

(* every multi-producer execution explored under the scheduler is replayed on MultiPub.v (extracted MultiReplay.replay); an
   accepted execution ends in a state whose cursor covers only published sequences *)
Theorem C14_replayed_multi_producer_run_cursor_only_published : forall N, 1 <= N -> forall gating l r',
  MultiReplay.replay N gating MultiReplay.rinit l 0 = ((-1)%Z, r') ->
  forall q, 1 <= q <= MultiPub.cursor (MultiReplay.rm r') -> MultiPub.pub (MultiReplay.rm r') q = true.
Proof. exact MultiReplay.replay_cursor_only_published. Qed.

Print Assumptions C14_replayed_multi_producer_run_cursor_only_published.
Print Assumptions C14_claims_tile_in_claim_order.
Print Assumptions C14_multi_sequencer_api_in_claim_order.
Print Assumptions C14_multi_concurrent_never_past_unpublished.
Print Assumptions C14_multi_concurrent_cursor_monotone.
Print Assumptions C14_multi_concurrent_claims_disjoint.
Print Assumptions C14_multi_concurrent_stranding_refuted.
Print Assumptions C14_multi_sequencer_api.
Print Assumptions C14_multi_stranding_refuted.
Print Assumptions C14_single_sequencer_api.
Print Assumptions C14_claims_pairwise_disjoint.
Print Assumptions C14_claims_cover_without_gaps.
Print Assumptions C14_claims_have_requested_length.
Print Assumptions C14_cursor_never_decreases.
Print Assumptions C14_single_cursor_is_published_prefix.

(* FINDING D13 (refuted on the model of impl Clone for MultiProducerSequencer, witnessed on the implementation by harness/ds family
   seqclone): whatever the state of the sequencer the clones are taken from, the first claim of c sequences through EACH clone is
   (1, c) - also after the other clone has claimed and published that very range.  Claims through clones are not disjoint. *)
Theorem C14_claims_through_clones_overlap_refuted : forall s c, (c <? SeqApi.mp_size s)%N = true ->
  let a := Clones.mp_clone s in let b := Clones.mp_clone s in
  snd (SeqApi.mp_step a (SeqApi.SNext c)) = SeqApi.RClaim 1 c /\
  (let a1 := fst (SeqApi.mp_step a (SeqApi.SNext c)) in
   let a2 := fst (SeqApi.mp_step a1 (SeqApi.SPublish 1 c)) in
   snd (SeqApi.mp_step (Clones.share_cursor a2 b) (SeqApi.SNext c)) = SeqApi.RClaim 1 c).
Proof. exact Clones.clones_hand_out_the_same_range. Qed.

Print Assumptions C14_claims_through_clones_overlap_refuted.

(* Producer::write with an EMPTY batch on the multi-producer sequencer (next(0) hands out the inverted range (hw+1, hw), publish of it
   marks nothing): with nothing outstanding the whole call leaves the sequencer as it was - the cursor does not move *)
Theorem C14_empty_write_is_a_no_op : forall s,
  SeqApi.mp_low s = SeqApi.mp_high s ->
  ((SeqApi.mp_high s - SeqApi.min_gating (SeqApi.mp_gating s)) + 0 <? SeqApi.mp_size s)%N = true ->
  let '(s1, r1) := SeqApi.mp_step s (SeqApi.SNext 0) in
  let '(s2, r2) := SeqApi.mp_step s1 (SeqApi.SPublish (SeqApi.mp_high s + 1) (SeqApi.mp_high s)) in
  r1 = SeqApi.RClaim (SeqApi.mp_high s + 1) (SeqApi.mp_high s) /\ r2 = SeqApi.RNone /\ s2 = s.
Proof. exact EmptyWrite.empty_write_is_a_no_op. Qed.

Print Assumptions C14_empty_write_is_a_no_op.
