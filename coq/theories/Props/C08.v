(* C08 — UltraGraph behaves as a directed-graph store under any operation sequence. *)
From Coq Require Import List Arith NArith ZArith Bool.
From DC Require Import Common.AList Graph.UltraGraph Graph.Spec Graph.Refine.
From DC Require Graph.BulkAdd.
Import ListNotations.
Import ListNotations.

(* Every operation, from every reachable state: the representation invariant is kept (petgraph id
   allocator / node_map / index_map in sync, edges only between live nodes, edge counter exact)
   and the step is a step of the plain directed-graph specification with the same return value. *)
Theorem C08_step_refines : forall g o r g',
  Inv g -> step g o = (r, g') -> Inv g' /\ sstep (abs g) o r = Some (abs g').
Proof. exact step_refines. Qed.

(* Every observable (contains/get for every index, contains_edge for every pair, counts, sorted node
   and edge lists, outgoing_edges, root accessors, get_last_index) is the specification's. *)
Theorem C08_observations_are_the_specs : forall B g, Inv g -> observe B g = sobserve B (abs g).
Proof. exact observe_abs. Qed.

(* Every history: the whole observed run (return values and the observation after every op) is a
   run of the specification. *)
Theorem C08_every_history : forall B ops g rs os,
  Inv g -> run_obs B g ops = (rs, os) -> spec_run B (abs g) ops rs = Some os.
Proof. exact run_refines. Qed.

Theorem C08_model_passes_spec_check : forall B ops,
  let '(rs, os) := run_obs B empty_graph ops in spec_check B ops (rs ++ os) = true.
Proof. exact model_passes_spec_check. Qed.

(* The specification, clause by clause *)
Theorem C08_add_returns_fresh_index : forall s o r s',
  is_add o = true -> sstep s o r = Some s' ->
  smem s (Z.to_nat r) = false /\ nget (Z.to_nat r) (snodes s') = Some (add_value o).
Proof. exact spec_add_fresh. Qed.

Theorem C08_index_denotes_value_until_removed : forall s o r s' i,
  sstep s o r = Some s' -> smem s i = true -> o <> ORemoveNode i -> o <> OClear ->
  nget i (snodes s') = nget i (snodes s).
Proof. exact spec_node_stable. Qed.

Theorem C08_failure_iff_and_changes_nothing : forall s o r s',
  is_add o = false -> o <> OClear -> sstep s o r = Some s' ->
  (must_fail_op s o = true -> r = 0%Z /\ s' = s) /\ (must_fail_op s o = false -> r = 1%Z).
Proof. exact spec_failure_changes_nothing. Qed.

Theorem C08_edges_exactly : forall s o r s' x y,
  sstep s o r = Some s' ->
  emem (x, y) (sedges s') =
  match o with
  | OClear => false
  | ORemoveNode i => if smem s i then emem (x, y) (sedges s) && negb ((x =? i) || (y =? i)) else emem (x, y) (sedges s)
  | ORemoveEdge a b => if shas_edge s a b then emem (x, y) (sedges s) && negb (pair_eqb (x, y) (a, b)) else emem (x, y) (sedges s)
  | OAddEdge a b | OAddEdgeW a b _ =>
      if smem s a && smem s b && negb (emem (a, b) (sedges s)) then emem (x, y) (sedges s) || pair_eqb (x, y) (a, b)
      else emem (x, y) (sedges s)
  | _ => emem (x, y) (sedges s)
  end.
Proof. exact spec_edges_after. Qed.

(* bulk insertion into a fresh graph, for ANY number of nodes: the n-th add returns index n-1, exactly the indices below n exist
   afterwards and each returns the value stored under it, the size is n.  This closed form is the oracle of the large histories
   of the check (10^5 nodes: index width, growth of the storage), which the association-list model cannot evaluate *)
Theorem C08_bulk_insertion_closed_form : forall vs,
  let '(ks, g) := BulkAdd.add_many empty_graph vs in
  ks = seq 0 (length vs) /\
  (forall i, i < length vs -> contains_node g i = true /\ get_node g i = Some (nth i vs 0%Z)) /\
  (forall i, length vs <= i -> contains_node g i = false /\ get_node g i = None) /\
  size g = length vs /\ is_empty g = (length vs =? 0).
Proof. exact BulkAdd.bulk_add_fresh. Qed.

Print Assumptions C08_bulk_insertion_closed_form.
Print Assumptions C08_step_refines.
Print Assumptions C08_observations_are_the_specs.
Print Assumptions C08_every_history.
Print Assumptions C08_model_passes_spec_check.
Print Assumptions C08_add_returns_fresh_index.
Print Assumptions C08_index_denotes_value_until_removed.
Print Assumptions C08_failure_iff_and_changes_nothing.
Print Assumptions C08_edges_exactly.
