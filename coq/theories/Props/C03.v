(* C03 — Causal state machine fires an action iff its causal state evaluates true. *)
From Coq Require Import List Arith ZArith Bool Permutation.
From DC Require Import Common.AList Graph.UltraGraph Causal.Model CSM.Model CSM.Proofs.
Import ListNotations.

(* the state table behaves as a map: adding an existing id and removing / updating an absent id fail
   without side effects (table equal, nothing evaluated, nothing fired) *)
Theorem C03_add : forall t idx s a,
  let '(t', o) := step_det t (MAdd idx s a) in
  fired o = [] /\ evals o = [] /\
  match nget idx t with
  | Some _ => ok o = false /\ t' = t
  | None => ok o = true /\ forall k, nget k t' = if k =? idx then Some (s, a) else nget k t
  end.
Proof. exact add_spec. Qed.
Theorem C03_remove : forall t id,
  let '(t', o) := step_det t (MRemove id) in
  fired o = [] /\ evals o = [] /\
  match nget id t with
  | None => ok o = false /\ t' = t
  | Some _ => ok o = true /\ forall k, nget k t' = if k =? id then None else nget k t
  end.
Proof. exact remove_spec. Qed.
Theorem C03_update : forall t idx s a,
  let '(t', o) := step_det t (MUpdate idx s a) in
  fired o = [] /\ evals o = [] /\
  match nget idx t with
  | None => ok o = false /\ t' = t
  | Some _ => ok o = true /\ forall k, nget k t' = if k =? idx then Some (s, a) else nget k t
  end.
Proof. exact update_spec. Qed.

(* evaluating a registered state fires exactly its CURRENT action once when the causaloid evaluates
   true, nothing otherwise; absent id, evaluation failure and action failure surface as errors *)
Theorem C03_eval_single : forall t id d,
  let '(t', o) := step_det t (MEvalSingle id d) in
  t' = t /\
  match nget id t with
  | None => ok o = false /\ fired o = [] /\ evals o = []
  | Some (s, a) =>
      evals o = [d] /\
      match fn_verdict (sfk s) 0 d with
      | VT => fired o = [a] /\ ok o = act_ok a
      | VF => fired o = [] /\ ok o = true
      | VE => fired o = [] /\ ok o = false
      end
  end.
Proof. exact eval_single_spec. Qed.

(* evaluating all states along ANY iteration order of registered ids: success means every state was
   evaluated once and exactly the actions of the true states fired (none failed, nothing errored) *)
Theorem C03_eval_all_success : forall t pi,
  (forall k, In k pi -> nget k t <> None) ->
  ok (eval_all t pi) = true ->
  fired (eval_all t pi) = flat_map (fires t) pi /\
  length (evals (eval_all t pi)) = length pi /\
  (forall k, In k pi -> match verdict_of t k with Some (VE, _) => False | Some (VT, a) => act_ok a = true | _ => True end).
Proof. exact eval_all_ok. Qed.

(* failure: a prefix succeeded, then one state errored or its fired action failed; nothing after it ran *)
Theorem C03_eval_all_failure : forall t pi,
  (forall k, In k pi -> nget k t <> None) ->
  ok (eval_all t pi) = false ->
  exists p1 k p2, pi = p1 ++ k :: p2 /\ ok (eval_all t p1) = true /\
    fired (eval_all t pi) = flat_map (fires t) p1 ++ fires t k /\
    length (evals (eval_all t pi)) = S (length p1) /\
    match verdict_of t k with Some (VE, _) => True | Some (VT, a) => act_ok a = false | _ => False end.
Proof. exact eval_all_err. Qed.

(* the checker applied to the implementation: soundness, and the model passes it *)
Theorem C03_accepted_eval_all_is_some_iteration_order : forall t obs len,
  accept t MEvalAll obs len = true ->
  len = length t /\ exists pi, Permutation pi (keys t) /\ obs = eval_all t pi.
Proof. exact accept_eval_all_sound. Qed.
Theorem C03_accepted_other_ops_are_exact : forall t o obs len,
  o <> MEvalAll -> accept t o obs len = true ->
  obs = snd (step_det t o) /\ len = length (fst (step_det t o)).
Proof. exact accept_det_sound. Qed.
Theorem C03_model_accepted : forall t o,
  accept t o (snd (step_det t o)) (length (fst (step_det t o))) = true.
Proof. exact model_accepted. Qed.

Print Assumptions C03_add.
Print Assumptions C03_remove.
Print Assumptions C03_update.
Print Assumptions C03_eval_single.
Print Assumptions C03_eval_all_success.
Print Assumptions C03_eval_all_failure.
Print Assumptions C03_accepted_eval_all_is_some_iteration_order.
Print Assumptions C03_accepted_other_ops_are_exact.
Print Assumptions C03_model_accepted.
