(* Model of deep_causality/src/types/csm_types/mod.rs: the causal state machine.
   States and actions live in pools fixed by the harness (referenced by index):
     state sref : id field = sref / 3, causal function kind = sref mod 2, stored data = 10*sref + (sref mod 3)
     action aref: fire() fails iff aref mod 4 = 3; firing is observable (per-action log)
   The table is a HashMap<usize, (&state, &action)>; eval_all_states iterates it in an unspecified
   order, which enters as the parameter pi. *)
From Coq Require Import List Arith ZArith Bool.
From DC Require Import Common.AList Graph.UltraGraph Causal.Model.
Import ListNotations.

Definition sid (sref : nat) : nat := sref / 3.
Definition sfk (sref : nat) : nat := sref mod 2.
Definition stored (sref : nat) : Z := (10 * Z.of_nat sref + Z.of_nat (sref mod 3))%Z.
Definition act_ok (aref : nat) : bool := negb (aref mod 4 =? 3).

(* CausalState::eval / eval_with_data -> Causaloid::verify_single_cause *)
Definition st_eval (sref : nat) (d : option Z) : verdict * Z :=
  let obs := match d with Some x => x | None => stored sref end in
  (fn_verdict (sfk sref) 0 obs, obs).

Definition table := list (nat * (nat * nat)).        (* id -> (state ref, action ref) *)

Record outcome := mkOut { ok : bool; evals : list Z; fired : list nat }.   (* result, observations evaluated, actions fired (in order) *)

Definition from_list (l : list (nat * nat)) : table :=
  fold_left (fun t sa => nins (sid (fst sa)) sa t) l [].

(* one state: evaluate, fire when the trigger is true; None = continue, Some = stop with error *)
Definition eval_one (sa : nat * nat) (d : option Z) : outcome :=
  let '(v, obs) := st_eval (fst sa) d in
  match v with
  | VE => mkOut false [obs] []
  | VF => mkOut true [obs] []
  | VT => mkOut (act_ok (snd sa)) [obs] [snd sa]
  end.

(* eval_all_states along the iteration order pi (keys): stops at the first error *)
Fixpoint eval_all (t : table) (pi : list nat) : outcome :=
  match pi with
  | [] => mkOut true [] []
  | k :: rest =>
      match nget k t with
      | None => eval_all t rest                       (* not a key: cannot happen for an iteration order *)
      | Some sa =>
          let o := eval_one sa None in
          if ok o then let o' := eval_all t rest in mkOut (ok o') (evals o ++ evals o') (fired o ++ fired o')
          else o
      end
  end.

Inductive cop :=
| MNew (l : list (nat * nat)) | MAdd (idx sref aref : nat) | MRemove (id : nat) | MUpdate (idx sref aref : nat)
| MEvalSingle (id : nat) (d : Z) | MEvalAll | MUpdateAll (l : list (nat * nat)) | MLen.

(* deterministic operations: new table and outcome *)
Definition step_det (t : table) (o : cop) : table * outcome :=
  match o with
  | MNew l | MUpdateAll l => (from_list l, mkOut true [] [])
  | MAdd idx s a => match nget idx t with Some _ => (t, mkOut false [] []) | None => (nins idx (s, a) t, mkOut true [] []) end
  | MRemove id => match nget id t with None => (t, mkOut false [] []) | Some _ => (nrem id t, mkOut true [] []) end
  | MUpdate idx s a => match nget idx t with None => (t, mkOut false [] []) | Some _ => (nins idx (s, a) t, mkOut true [] []) end
  | MEvalSingle id d => match nget id t with None => (t, mkOut false [] []) | Some sa => (t, eval_one sa (Some d)) end
  | MEvalAll => (t, eval_all t (keys t))
  | MLen => (t, mkOut true [] [])
  end.

(* ---- checker on an observed run --------------------------------------------------------------- *)
Fixpoint insert_all {A} (x : A) (l : list A) : list (list A) :=
  match l with
  | [] => [[x]]
  | y :: t => (x :: l) :: map (cons y) (insert_all x t)
  end.
Fixpoint perms {A} (l : list A) : list (list A) :=
  match l with [] => [[]] | x :: t => flat_map (insert_all x) (perms t) end.

Fixpoint zl_eqb (a b : list Z) : bool :=
  match a, b with [] , [] => true | x :: a', y :: b' => Z.eqb x y && zl_eqb a' b' | _, _ => false end.
Fixpoint nl_eqb (a b : list nat) : bool :=
  match a, b with [] , [] => true | x :: a', y :: b' => Nat.eqb x y && nl_eqb a' b' | _, _ => false end.
Definition out_eqb (a b : outcome) : bool := Bool.eqb (ok a) (ok b) && zl_eqb (evals a) (evals b) && nl_eqb (fired a) (fired b).

(* an observed outcome of an operation is acceptable iff it is the deterministic one, or, for
   eval_all_states, the one of SOME iteration order of the registered keys *)
Definition accept (t : table) (o : cop) (obs : outcome) (len : nat) : bool :=
  match o with
  | MEvalAll => existsb (fun pi => out_eqb obs (eval_all t pi)) (perms (keys t)) && (len =? length t)
  | _ => let '(t', e) := step_det t o in out_eqb obs e && (len =? length t')
  end.

(* integer coding. ops: code then arguments
   0 new n (sref aref)^n | 1 add idx sref aref | 2 remove id | 3 update idx sref aref
   | 4 eval_single id d | 5 eval_all | 6 update_all n (sref aref)^n | 7 len
   observed output per op: ok nlog obs^nlog nfired aref^nfired len *)
Fixpoint sa_pairs (l : list Z) (k : nat) : list (nat * nat) :=
  match k, l with S k', a :: b :: t => (Z.to_nat a, Z.to_nat b) :: sa_pairs t k' | _, _ => [] end.

Definition decode_op (l : list Z) : option (cop * list Z) :=
  match l with
  | 0%Z :: n :: rest => let k := Z.to_nat n in Some (MNew (sa_pairs (firstn (2 * k) rest) k), skipn (2 * k) rest)
  | 6%Z :: n :: rest => let k := Z.to_nat n in Some (MUpdateAll (sa_pairs (firstn (2 * k) rest) k), skipn (2 * k) rest)
  | 1%Z :: i :: s :: a :: rest => Some (MAdd (Z.to_nat i) (Z.to_nat s) (Z.to_nat a), rest)
  | 3%Z :: i :: s :: a :: rest => Some (MUpdate (Z.to_nat i) (Z.to_nat s) (Z.to_nat a), rest)
  | 2%Z :: i :: rest => Some (MRemove (Z.to_nat i), rest)
  | 4%Z :: i :: d :: rest => Some (MEvalSingle (Z.to_nat i) d, rest)
  | 5%Z :: rest => Some (MEvalAll, rest)
  | 7%Z :: rest => Some (MLen, rest)
  | _ => None
  end.

Definition decode_obs (l : list Z) : option (outcome * nat * list Z) :=
  match l with
  | okz :: nl :: rest =>
      let k := Z.to_nat nl in
      match skipn k rest with
      | nf :: rest2 =>
          let m := Z.to_nat nf in
          match skipn m rest2 with
          | len :: rest3 => Some (mkOut (Z.eqb okz 1) (firstn k rest) (map Z.to_nat (firstn m rest2)), Z.to_nat len, rest3)
          | [] => None
          end
      | [] => None
      end
  | _ => None
  end.

Fixpoint check_run (fuel : nat) (t : table) (ops obs : list Z) (i : Z) : list Z :=
  match fuel with
  | O => [1%Z]
  | S f =>
    match decode_op ops with
    | None => [1%Z]
    | Some (o, ops') =>
        match decode_obs obs with
        | None => [0%Z; i]
        | Some (ob, len, obs') =>
            if accept t o ob len then check_run f (fst (step_det t o)) ops' obs' (i + 1)%Z else [0%Z; i]
        end
    end
  end.

Definition csm_check_entry (l : list Z) : list Z :=
  match l with
  | nout :: rest =>
      let nin := (length rest - Z.to_nat nout)%nat in
      check_run (S nin) [] (firstn nin rest) (skipn nin rest) 0%Z
  | _ => [0%Z]
  end.
