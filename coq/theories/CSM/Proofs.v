(* Proofs for the causal state machine model: C03. *)
From Coq Require Import List Arith ZArith Bool Lia Permutation.
From DC Require Import Common.AList Graph.UltraGraph Graph.Refine Causal.Model CSM.Model.
Import ListNotations.

(* ---------- the table behaves as a map ----------------------------------------------------------- *)
Theorem add_spec t idx s a :
  let '(t', o) := step_det t (MAdd idx s a) in
  fired o = [] /\ evals o = [] /\
  match nget idx t with
  | Some _ => ok o = false /\ t' = t
  | None => ok o = true /\ forall k, nget k t' = if k =? idx then Some (s, a) else nget k t
  end.
Proof.
  cbn [step_det]. destruct (nget idx t) eqn:E; cbn [fired evals ok]; repeat split; auto.
  intros k. rewrite nget_nins. reflexivity.
Qed.

Theorem remove_spec t id :
  let '(t', o) := step_det t (MRemove id) in
  fired o = [] /\ evals o = [] /\
  match nget id t with
  | None => ok o = false /\ t' = t
  | Some _ => ok o = true /\ forall k, nget k t' = if k =? id then None else nget k t
  end.
Proof.
  cbn [step_det]. destruct (nget id t) eqn:E; cbn [fired evals ok]; repeat split; auto.
  intros k. rewrite nget_nrem. reflexivity.
Qed.

Theorem update_spec t idx s a :
  let '(t', o) := step_det t (MUpdate idx s a) in
  fired o = [] /\ evals o = [] /\
  match nget idx t with
  | None => ok o = false /\ t' = t
  | Some _ => ok o = true /\ forall k, nget k t' = if k =? idx then Some (s, a) else nget k t
  end.
Proof.
  cbn [step_det]. destruct (nget idx t) eqn:E; cbn [fired evals ok]; repeat split; auto.
  intros k. rewrite nget_nins. reflexivity.
Qed.

(* ---------- evaluating one registered state ------------------------------------------------------ *)
Theorem eval_single_spec t id d :
  let '(t', o) := step_det t (MEvalSingle id d) in
  t' = t /\
  match nget id t with
  | None => ok o = false /\ fired o = [] /\ evals o = []
  | Some (s, a) =>
      evals o = [d] /\
      match fn_verdict (sfk s) 0 d with
      | VT => fired o = [a] /\ ok o = act_ok a          (* fires exactly its current action, once *)
      | VF => fired o = [] /\ ok o = true               (* no action *)
      | VE => fired o = [] /\ ok o = false              (* evaluation failure surfaces as an error *)
      end
  end.
Proof.
  cbn [step_det]. destruct (nget id t) as [[s a]|] eqn:E; [|cbn [ok fired evals]; auto].
  unfold eval_one, st_eval. cbn [fst snd]. destruct (fn_verdict (sfk s) 0 d); cbn [ok fired evals]; auto.
Qed.

(* ---------- evaluating all states along any iteration order -------------------------------------- *)
Definition verdict_of (t : table) (k : nat) : option (verdict * nat) :=
  match nget k t with Some (s, a) => Some (fst (st_eval s None), a) | None => None end.

(* what each key contributes when everything succeeds *)
Definition fires (t : table) (k : nat) : list nat :=
  match verdict_of t k with Some (VT, a) => [a] | _ => [] end.

Lemma eval_all_cons t k rest s a :
  nget k t = Some (s, a) ->
  eval_all t (k :: rest) =
  match fst (st_eval s None) with
  | VE => mkOut false [snd (st_eval s None)] []
  | VF => mkOut (ok (eval_all t rest)) (snd (st_eval s None) :: evals (eval_all t rest)) (fired (eval_all t rest))
  | VT => if act_ok a
          then mkOut (ok (eval_all t rest)) (snd (st_eval s None) :: evals (eval_all t rest)) (a :: fired (eval_all t rest))
          else mkOut false [snd (st_eval s None)] [a]
  end.
Proof.
  intros E. cbn [eval_all]. rewrite E. unfold eval_one. cbn [fst snd].
  destruct (st_eval s None) as [v obs]. cbn [fst snd]. destruct v; cbn [ok evals fired app]; [destruct (act_ok a)|..]; reflexivity.
Qed.

Lemma fires_cons t k s a : nget k t = Some (s, a) ->
  fires t k = match fst (st_eval s None) with VT => [a] | _ => [] end /\ verdict_of t k = Some (fst (st_eval s None), a).
Proof. intros E. unfold fires, verdict_of. rewrite E. split; reflexivity. Qed.

Theorem eval_all_ok t pi :
  (forall k, In k pi -> nget k t <> None) ->
  ok (eval_all t pi) = true ->
  fired (eval_all t pi) = flat_map (fires t) pi /\
  length (evals (eval_all t pi)) = length pi /\
  (forall k, In k pi -> match verdict_of t k with Some (VE, _) => False | Some (VT, a) => act_ok a = true | _ => True end).
Proof.
  induction pi as [|k rest IH]; intros Hk Hok.
  - cbn. repeat split; auto. intros k [].
  - assert (Hkt : nget k t <> None) by (apply Hk; left; reflexivity).
    destruct (nget k t) as [[s a]|] eqn:E; [|congruence].
    rewrite (eval_all_cons t k rest s a E) in *. destruct (fires_cons t k s a E) as [Hf Hv].
    cbn [flat_map]. rewrite Hf.
    assert (Hrest : forall k', In k' rest -> nget k' t <> None) by (intros k' H; apply Hk; right; exact H).
    destruct (fst (st_eval s None)) eqn:Ev.
    + destruct (act_ok a) eqn:Ea; cbn [ok] in Hok; [|discriminate].
      destruct (IH Hrest Hok) as (F & L & V). cbn [fired evals length app]. rewrite F, L. repeat split; auto.
      intros k' [<-|Hin]; [rewrite Hv; exact Ea | apply V, Hin].
    + cbn [ok] in Hok. destruct (IH Hrest Hok) as (F & L & V). cbn [fired evals length app]. rewrite F, L. repeat split; auto.
      intros k' [<-|Hin]; [rewrite Hv; exact I | apply V, Hin].
    + discriminate.
Qed.

Theorem eval_all_err t pi :
  (forall k, In k pi -> nget k t <> None) ->
  ok (eval_all t pi) = false ->
  exists p1 k p2, pi = p1 ++ k :: p2 /\ ok (eval_all t p1) = true /\
    fired (eval_all t pi) = flat_map (fires t) p1 ++ fires t k /\
    length (evals (eval_all t pi)) = S (length p1) /\
    match verdict_of t k with Some (VE, _) => True | Some (VT, a) => act_ok a = false | _ => False end.
Proof.
  induction pi as [|k rest IH]; intros Hk Hok; [cbn in Hok; discriminate|].
  assert (Hkt : nget k t <> None) by (apply Hk; left; reflexivity).
  destruct (nget k t) as [[s a]|] eqn:E; [|congruence].
  rewrite (eval_all_cons t k rest s a E) in *. destruct (fires_cons t k s a E) as [Hf Hv].
  assert (Hrest : forall k', In k' rest -> nget k' t <> None) by (intros k' H; apply Hk; right; exact H).
  destruct (fst (st_eval s None)) eqn:Ev.
  - destruct (act_ok a) eqn:Ea; cbn [ok] in Hok.
    + destruct (IH Hrest Hok) as (p1 & k2 & p2 & -> & Hp1 & F & L & V).
      exists (k :: p1), k2, p2. split; [reflexivity|].
      rewrite (eval_all_cons t k p1 s a E), Ev, Ea. cbn [ok fired evals flat_map length]. rewrite Hf.
      split; [exact Hp1|]. split; [rewrite F; reflexivity|]. split; [rewrite L; reflexivity | exact V].
    + exists [], k, rest. cbn [app eval_all ok flat_map fired evals length]. rewrite Hf, Hv. repeat split; auto.
  - cbn [ok] in Hok. destruct (IH Hrest Hok) as (p1 & k2 & p2 & -> & Hp1 & F & L & V).
    exists (k :: p1), k2, p2. split; [reflexivity|].
    rewrite (eval_all_cons t k p1 s a E), Ev. cbn [ok fired evals flat_map length]. rewrite Hf.
    split; [exact Hp1|]. split; [rewrite F; reflexivity|]. split; [rewrite L; reflexivity | exact V].
  - exists [], k, rest. cbn [app eval_all ok flat_map fired evals length]. rewrite Hf, Hv. repeat split; auto.
Qed.

(* ---------- the checker ------------------------------------------------------------------------- *)
Lemma insert_all_perm {A} (x : A) l l' : In l' (insert_all x l) -> Permutation l' (x :: l).
Proof.
  revert l'. induction l as [|y t IH]; intros l' H; cbn in H.
  - destruct H as [<-|[]]. reflexivity.
  - destruct H as [<-|H]; [reflexivity|]. apply in_map_iff in H as (l0 & <- & H0).
    rewrite (IH _ H0). apply perm_swap.
Qed.

Lemma perms_perm {A} (l l' : list A) : In l' (perms l) -> Permutation l' l.
Proof.
  revert l'. induction l as [|x t IH]; intros l' H; cbn in H.
  - destruct H as [<-|[]]. reflexivity.
  - apply in_flat_map in H as (p & Hp & Hin). rewrite (insert_all_perm _ _ _ Hin). constructor. apply IH, Hp.
Qed.

Lemma perms_self {A} (l : list A) : In l (perms l).
Proof.
  induction l as [|x t IH]; cbn; [left; reflexivity|].
  apply in_flat_map. exists t. split; [exact IH|]. destruct t; cbn; left; reflexivity.
Qed.

Lemma zl_eqb_eq a b : zl_eqb a b = true <-> a = b.
Proof.
  revert b; induction a as [|x a IH]; intros [|y b]; cbn; split; intros H; try discriminate; auto.
  - apply andb_prop in H as [H1 H2]. apply Z.eqb_eq in H1. apply IH in H2. congruence.
  - inversion H; subst. rewrite Z.eqb_refl. apply IH. reflexivity.
Qed.
Lemma nl_eqb_eq a b : nl_eqb a b = true <-> a = b.
Proof.
  revert b; induction a as [|x a IH]; intros [|y b]; cbn; split; intros H; try discriminate; auto.
  - apply andb_prop in H as [H1 H2]. apply Nat.eqb_eq in H1. apply IH in H2. congruence.
  - inversion H; subst. rewrite Nat.eqb_refl. apply IH. reflexivity.
Qed.
Lemma out_eqb_eq a b : out_eqb a b = true <-> a = b.
Proof.
  unfold out_eqb. rewrite !andb_true_iff, zl_eqb_eq, nl_eqb_eq. destruct a, b; cbn. split.
  - intros [[H1 H2] H3]. apply eqb_prop in H1. congruence.
  - intros H; inversion H; subst. repeat split; auto. apply eqb_reflx.
Qed.

(* an accepted eval_all outcome is the outcome of some iteration order of exactly the registered ids *)
Theorem accept_eval_all_sound t obs len :
  accept t MEvalAll obs len = true ->
  len = length t /\ exists pi, Permutation pi (keys t) /\ obs = eval_all t pi.
Proof.
  cbn [accept]. rewrite andb_true_iff, existsb_exists, Nat.eqb_eq. intros [(pi & Hin & He) Hl].
  split; [exact Hl|]. exists pi. split; [apply perms_perm, Hin | apply out_eqb_eq, He].
Qed.

(* an accepted outcome of any other operation is exactly the specified one *)
Theorem accept_det_sound t o obs len :
  o <> MEvalAll -> accept t o obs len = true ->
  obs = snd (step_det t o) /\ len = length (fst (step_det t o)).
Proof.
  intros Ho H. destruct o; try congruence; cbn [accept] in H;
    destruct (step_det t _) as [t' e]; apply andb_prop in H as [H1 H2];
    apply out_eqb_eq in H1; apply Nat.eqb_eq in H2; auto.
Qed.

(* the model itself is accepted *)
Theorem model_accepted t o :
  accept t o (snd (step_det t o)) (length (fst (step_det t o))) = true.
Proof.
  destruct o; cbn [accept step_det fst snd];
    try (destruct (nget _ t); cbn [fst snd]; rewrite Nat.eqb_refl, andb_true_r; apply out_eqb_eq; reflexivity);
    try (rewrite Nat.eqb_refl, andb_true_r; apply out_eqb_eq; reflexivity).
  rewrite Nat.eqb_refl, andb_true_r. apply existsb_exists. exists (keys t). split; [apply perms_self | apply out_eqb_eq; reflexivity].
Qed.

(* non-vacuity *)
Example csm_example :
  let t := from_list [(4, 3); (7, 1); (9, 2)] in        (* ids 1, 2, 3; the action of id 1 fails *)
  fired (eval_all t [3; 1; 2]) = [2; 3] /\ ok (eval_all t [3; 1; 2]) = false /\
  fired (eval_all t [1; 3; 2]) = [3] /\ fired (eval_all t [2; 3]) = [2] /\ ok (eval_all t [2; 3]) = true /\
  fired (snd (step_det t (MEvalSingle 1 401))) = [3] /\
  ok (snd (step_det t (MEvalSingle 5 401))) = false.
Proof. vm_compute. repeat split. Qed.
