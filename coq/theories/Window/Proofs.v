(* Proofs for the sliding-window model: C07. *)
From Coq Require Import List Arith ZArith Bool Lia.
From DC Require Import Common.ListAux Window.Model.
Import ListNotations.

(* ---------- list lemmas ---------------------------------------------------------------------- *)
Lemma upd_split {A} (e : nat) (v : A) (l : list A) :
  e < length l -> upd e v l = firstn e l ++ v :: skipn (S e) l.
Proof.
  revert e; induction l as [|h t IH]; intros [|e] H; simpl in *; try lia; auto.
  rewrite IH by lia. reflexivity.
Qed.

Lemma seg_length s e l : e <= length l -> length (seg s e l) = e - s.
Proof. intros H. unfold seg. rewrite firstn_length, skipn_length. lia. Qed.

Lemma seg_snoc s e v l :
  s <= e -> e < length l -> seg s (S e) (upd e v l) = seg s e l ++ [v].
Proof.
  intros Hse He. unfold seg. rewrite upd_split by exact He.
  rewrite skipn_app, firstn_length_le by lia.
  replace (s - e) with 0 by lia. cbn [skipn].
  rewrite firstn_app, skipn_length, firstn_length_le by lia.
  replace (S e - s - (e - s)) with 1 by lia. cbn [firstn].
  rewrite firstn_all2 by (rewrite skipn_length, firstn_length_le; lia).
  rewrite skipn_firstn_comm. reflexivity.
Qed.

Lemma skipn_S_tl {A} n (l : list A) : skipn (S n) l = tl (skipn n l).
Proof. revert l; induction n as [|n IH]; intros [|h t]; simpl; auto. apply (IH t). Qed.

Lemma seg_S s e l : s < e -> seg (S s) e l = tl (seg s e l).
Proof.
  intros H. unfold seg. rewrite skipn_S_tl.
  replace (e - s) with (S (e - S s)) by lia.
  destruct (skipn s l); simpl; [destruct (e - S s); reflexivity | reflexivity].
Qed.

Lemma seg_upd_after s e v l : e <= length l -> seg s e (upd e v l) = seg s e l.
Proof.
  intros He. destruct (Nat.lt_ge_cases e (length l)) as [Hlt|Hge].
  - unfold seg. rewrite upd_split by exact Hlt.
    destruct (Nat.le_gt_cases s e) as [Hs|Hs].
    + rewrite skipn_app, firstn_length_le by lia. replace (s - e) with 0 by lia. cbn [skipn].
      rewrite firstn_app, skipn_length, firstn_length_le by lia.
      replace (e - s - (e - s)) with 0 by lia. cbn [firstn]. rewrite app_nil_r.
      rewrite firstn_all2 by (rewrite skipn_length, firstn_length_le; lia).
      rewrite skipn_firstn_comm. reflexivity.
    + replace (e - s) with 0 by lia. reflexivity.
  - assert (E : upd e v l = l).
    { clear He. revert e Hge; induction l as [|h t IH]; intros [|e] H; simpl in *; auto; try lia.
      rewrite IH by lia. reflexivity. }
    rewrite E. reflexivity.
Qed.

Lemma copy_to_front_length l s e : e <= length l -> length (copy_to_front l s e) = length l.
Proof.
  intros H. unfold copy_to_front. rewrite app_length, skipn_length, seg_length by exact H. lia.
Qed.

Lemma copy_to_front_seg l s e :
  e <= length l -> seg 0 (e - s) (copy_to_front l s e) = seg s e l.
Proof.
  intros H. unfold copy_to_front. unfold seg at 1. cbn [skipn]. rewrite Nat.sub_0_r.
  rewrite firstn_app, seg_length by exact H.
  replace (e - s - (e - s)) with 0 by lia. cbn [firstn]. rewrite app_nil_r.
  apply firstn_all2. rewrite seg_length by exact H. lia.
Qed.

Lemma lastn_snoc_short {A} n (w : list A) v : length w < n -> lastn n (w ++ [v]) = w ++ [v].
Proof. intros H. apply lastn_all. rewrite app_length; simpl; lia. Qed.

Lemma lastn_snoc_full {A} n (w : list A) v : 1 <= n -> length w = n -> lastn n (w ++ [v]) = tl w ++ [v].
Proof.
  intros Hn Hl. unfold lastn. rewrite app_length; simpl.
  replace (length w + 1 - n) with 1 by lia.
  destruct w; simpl in *; [lia| reflexivity].
Qed.

Lemma lastn_lastn_snoc {A} n (h : list A) v : 1 <= n -> lastn n (lastn n h ++ [v]) = lastn n (h ++ [v]).
Proof.
  intros Hn. destruct n as [|n]; [lia|].
  rewrite !lastn_app_one. f_equal.
  unfold lastn. rewrite skipn_length, skipn_skipn. f_equal. lia.
Qed.

Lemma nth_hd_skipn {A} n (l : list A) d : nth n l d = hd d (skipn n l).
Proof. revert l; induction n as [|n IH]; intros [|h t]; simpl; auto. Qed.

Lemma hd_firstn {A} n (l : list A) d : 0 < n -> hd d (firstn n l) = hd d l.
Proof. destruct n; [lia|]. destruct l; reflexivity. Qed.

Lemma last_seg s e l d : s < e -> e <= length l -> List.last (seg s e l) d = nth (e - 1) l d.
Proof.
  intros Hs He. unfold seg.
  assert (E : firstn (e - s) (skipn s l) = firstn (e - 1 - s) (skipn s l) ++ [nth (e - 1) l d]).
  { replace (e - s) with (S (e - 1 - s)) by lia.
    assert (Hn : e - 1 - s < length (skipn s l)) by (rewrite skipn_length; lia).
    revert Hn. replace (nth (e - 1) l d) with (nth (e - 1 - s) (skipn s l) d).
    2:{ rewrite !nth_hd_skipn, skipn_skipn. f_equal. f_equal. lia. }
    generalize (e - 1 - s) as k. generalize (skipn s l) as m.
    induction m as [|x m IH]; intros [|k] Hk; simpl in *; try lia; auto.
    rewrite (IH k) by lia. reflexivity. }
  rewrite E. apply last_last.
Qed.

(* ---------- the simulation relation ------------------------------------------------------------ *)
Definition R (N C : nat) (s : st) (w : list Z) : Prop :=
  size s = N /\ cap s = C /\ length (buf s) = C /\ tail s <= C /\
  head s + length w = tail s /\ seg (head s) (tail s) (buf s) = w /\
  length w <= N /\ (length w < N -> head s = 0).

Definition wpush (N : nat) (w : list Z) (v : Z) : list Z := lastn N (w ++ [v]).

Lemma init_R N C : R N C (init N C) [].
Proof.
  unfold R, init; cbn [size cap buf tail head length]. rewrite repeat_length.
  repeat split; auto; try lia.
Qed.

(* the common core of every push once there is room: write at tail, advance *)
Lemma core_R N C s w v hd' :
  1 <= N -> R N C s w -> tail s < C ->
  hd' = (if length w <? N then 0 else S (head s)) ->
  R N C {| buf := upd (tail s) v (buf s); head := hd'; tail := S (tail s); size := size s; cap := cap s |}
        (wpush N w v).
Proof.
  intros HN (Hs & Hc & Hl & Ht & Hhw & Hseg & HwN & Hh0) Hroom ->.
  unfold R; cbn [buf head tail size cap]. rewrite upd_length. unfold wpush.
  destruct (Nat.ltb_spec (length w) N) as [Hlt|Hge].
  - specialize (Hh0 Hlt). rewrite lastn_snoc_short by exact Hlt. rewrite app_length; simpl.
    repeat split; auto; try lia.
    rewrite Hh0 in *. rewrite seg_snoc by lia. rewrite Hseg. reflexivity.
  - assert (HwEq : length w = N) by lia.
    rewrite lastn_snoc_full by assumption.
    assert (Hne : w <> []) by (intros ->; simpl in *; lia).
    repeat split; auto; try lia.
    + rewrite app_length. destruct w; [congruence|]. simpl in *. lia.
    + rewrite seg_S by lia. rewrite seg_snoc by lia. rewrite Hseg.
      destruct w; [congruence|]. reflexivity.
    + rewrite app_length. destruct w; [congruence|]. simpl in *. lia.
    + rewrite app_length. destruct w; [congruence|]. simpl in *. lia.
Qed.

(* a rewind preserves the relation and makes room *)
Lemma rewind_R N C s w s' :
  N < C -> R N C s w -> length w = N ->
  buf s' = copy_to_front (buf s) (head s) (tail s) -> head s' = 0 -> tail s' = N ->
  size s' = N -> cap s' = C ->
  R N C s' w.
Proof.
  intros HNC (Hs & Hc & Hl & Ht & Hhw & Hseg & HwN & Hh0) HwEq Hb Hh Htl Hsz Hcp.
  unfold R. rewrite Hb, Hh, Htl, Hsz, Hcp.
  rewrite copy_to_front_length by lia.
  repeat split; auto; try lia.
  rewrite <- Hseg. replace N with (tail s - head s) by lia. apply copy_to_front_seg. lia.
Qed.

Lemma full_when_at_cap N C s w : N < C -> R N C s w -> C <= tail s -> length w = N.
Proof.
  intros HNC (Hs & Hc & Hl & Ht & Hhw & Hseg & HwN & Hh0) Hcap.
  destruct (Nat.lt_ge_cases (length w) N) as [Hlt|Hge]; [|lia].
  specialize (Hh0 Hlt). lia.
Qed.

Lemma arr_push_R N C s w v :
  1 <= N -> N < C -> R N C s w -> R N C (arr_push s v) (wpush N w v).
Proof.
  intros HN HNC HR. unfold arr_push.
  assert (Hsz : size s = N) by apply HR. assert (Hcp : cap s = C) by apply HR.
  destruct (Nat.leb_spec (cap s) (tail s)) as [Hfull|Hroom].
  - assert (HwEq : length w = N) by (eapply full_when_at_cap; eauto; lia).
    assert (HR1 : R N C (arr_rewind s) w).
    { apply (rewind_R N C s w); auto; unfold arr_rewind; cbn [buf head tail size cap]; auto.
      - f_equal. destruct HR as (Hs & Hc & Hl & Ht & Hhw & Hseg & HwN & Hh0). lia.
      - destruct HR as (Hs & Hc & Hl & Ht & Hhw & Hseg & HwN & Hh0). lia. }
    set (s1 := arr_rewind s) in *.
    assert (Ht1 : tail s1 = N) by (unfold s1, arr_rewind; cbn [tail]; destruct HR as (? & ? & ? & ? & ? & ? & ? & ?); lia).
    assert (Hh1 : head s1 = 0) by reflexivity.
    assert (Hs1 : size s1 = N) by apply HR1.
    apply core_R; auto; try lia.
    rewrite Hs1, Ht1, Hh1, HwEq. rewrite Nat.ltb_irrefl.
    destruct (Nat.leb_spec N (S N)); lia.
  - apply core_R; auto; try lia.
    destruct HR as (Hs & Hc & Hl & Ht & Hhw & Hseg & HwN & Hh0).
    destruct (Nat.ltb_spec (length w) N) as [Hlt|Hge].
    + specialize (Hh0 Hlt). destruct (Nat.leb_spec (size s) (S (tail s))); lia.
    + destruct (Nat.leb_spec (size s) (S (tail s))); lia.
Qed.

Lemma uarr_push_R N C s w v :
  1 <= N -> N < C -> R N C s w -> R N C (uarr_push s v) (wpush N w v).
Proof.
  intros HN HNC HR. unfold uarr_push.
  assert (Hsz : size s = N) by apply HR. assert (Hcp : cap s = C) by apply HR.
  destruct (Nat.leb_spec (cap s) (tail s)) as [Hfull|Hroom].
  - assert (HwEq : length w = N) by (eapply full_when_at_cap; eauto; lia).
    assert (HR1 : R N C (uarr_rewind s) w).
    { apply (rewind_R N C s w); auto; unfold uarr_rewind; cbn [buf head tail size cap]; auto.
      f_equal. destruct HR as (Hs & Hc & Hl & Ht & Hhw & Hseg & HwN & Hh0). lia. }
    set (s1 := uarr_rewind s) in *.
    assert (Ht1 : tail s1 = N) by (unfold s1, uarr_rewind; cbn [tail]; lia).
    assert (Hh1 : head s1 = 0) by reflexivity.
    assert (Hs1 : size s1 = N) by apply HR1.
    apply core_R; auto; try lia.
    rewrite Hs1, Ht1, Hh1, HwEq. rewrite Nat.ltb_irrefl.
    destruct (Nat.ltb_spec N (S N - 0)); lia.
  - apply core_R; auto; try lia.
    destruct HR as (Hs & Hc & Hl & Ht & Hhw & Hseg & HwN & Hh0).
    destruct (Nat.ltb_spec (length w) N) as [Hlt|Hge].
    + specialize (Hh0 Hlt). destruct (Nat.ltb_spec (size s) (S (tail s) - head s)); lia.
    + destruct (Nat.ltb_spec (size s) (S (tail s) - head s)); lia.
Qed.

Lemma vec_fast_R N C s w v hd' :
  1 <= N -> R N C s w -> tail s < C ->
  hd' = (if size s <? S (tail s) - head s then S (head s) else head s) ->
  R N C {| buf := upd (tail s) v (buf s); head := hd'; tail := S (tail s); size := size s; cap := cap s |}
        (wpush N w v).
Proof.
  intros HN HR Hroom ->. apply core_R; auto.
  destruct HR as (Hs & Hc & Hl & Ht & Hhw & Hseg & HwN & Hh0).
  destruct (Nat.ltb_spec (length w) N) as [Hlt|Hge].
  - specialize (Hh0 Hlt). destruct (Nat.ltb_spec (size s) (S (tail s) - head s)); lia.
  - destruct (Nat.ltb_spec (size s) (S (tail s) - head s)); lia.
Qed.

Lemma uvec_push_R N C s w v :
  1 <= N -> N < C -> R N C s w -> R N C (uvec_push s v) (wpush N w v).
Proof.
  intros HN HNC HR. unfold uvec_push.
  assert (Hsz : size s = N) by apply HR. assert (Hcp : cap s = C) by apply HR.
  destruct (Nat.ltb_spec (tail s) (cap s)) as [Hroom|Hfull].
  - apply vec_fast_R; auto. lia.
  - assert (HwEq : length w = N) by (eapply full_when_at_cap; eauto; lia).
    assert (HR1 : R N C {| buf := copy_to_front (buf s) (head s) (head s + size s); head := 0; tail := N;
                           size := size s; cap := cap s |} w).
    { apply (rewind_R N C s w); auto; cbn [buf head tail size cap]; auto.
      f_equal. destruct HR as (Hs & Hc & Hl & Ht & Hhw & Hseg & HwN & Hh0). lia. }
    pose proof (core_R N C _ w v 1 HN HR1) as Hcore. cbn [buf head tail size cap] in Hcore.
    rewrite Hsz. rewrite Hsz in Hcore.
    replace (if N <? S N - 0 then 1 else 0) with 1 by (destruct (Nat.ltb_spec N (S N - 0)); lia).
    apply Hcore; [lia|]. rewrite HwEq, Nat.ltb_irrefl. reflexivity.
Qed.

(* the copy_nonoverlapping of the unsafe vector's slow path is legal: source and destination are
   disjoint when the capacity is at least twice the size (multiple >= 2) *)
Lemma uvec_rewind_nonoverlap N C s w :
  1 <= N -> 2 * N <= C -> R N C s w -> cap s <= tail s -> size s <= head s.
Proof.
  intros HN HC HR Hfull.
  assert (HwEq : length w = N).
  { apply (full_when_at_cap N C s w); [lia | exact HR | destruct HR as (_ & Hc & _); lia]. }
  destruct HR as (Hs & Hc & Hl & Ht & Hhw & Hseg & HwN & Hh0). lia.
Qed.

(* safe VectorStorage: correct as long as no rewind has happened *)
Lemma vec_push_R N C s w v :
  1 <= N -> R N C s w -> tail s < C -> R N C (vec_push s v) (wpush N w v).
Proof.
  intros HN HR Hroom. unfold vec_push.
  assert (Hcp : cap s = C) by apply HR.
  destruct (Nat.ltb_spec (tail s) (cap s)) as [_|]; [|lia].
  apply vec_fast_R; auto.
Qed.

Definition sound (b : backend) : bool := match b with BVec => false | _ => true end.

Lemma push_R b N C s w v :
  sound b = true -> 1 <= N -> N < C -> R N C s w -> R N C (push b s v) (wpush N w v).
Proof.
  destruct b; cbn [sound push]; intros Hb; try discriminate;
    auto using arr_push_R, uarr_push_R, uvec_push_R.
Qed.

(* ---------- observations --------------------------------------------------------------------- *)
Definition obs_w (N : nat) (w : list Z) : obs :=
  let full := N <=? length w in
  {| o_filled := full; o_empty := length w =? 0;
     o_first := match w with [] => None | x :: _ => Some x end;
     o_last := if full then Some (List.last w 0%Z) else None;
     o_slice := if full then Some w else None;
     o_arr := if full then Some w else None |}.

Lemma observe_R b N C s w : 1 <= N -> R N C s w -> observe b s = obs_w N w.
Proof.
  intros HN (Hs & Hc & Hl & Ht & Hhw & Hseg & HwN & Hh0).
  assert (Hfill : filled b s = (N <=? length w)).
  { destruct b; cbn [filled]; rewrite Hs;
      destruct (Nat.leb_spec N (length w)) as [H1|H1];
      try (specialize (Hh0 H1));
      match goal with |- (?a <=? ?c) = _ => destruct (Nat.leb_spec a c) end; try reflexivity; lia. }
  assert (Hfl : filled_for_last b s = (N <=? length w)).
  { destruct b; cbn [filled_for_last]; try exact Hfill. rewrite Hs.
    destruct (Nat.leb_spec N (length w)) as [H1|H1]; try (specialize (Hh0 H1));
      match goal with |- (?a <=? ?c) = _ => destruct (Nat.leb_spec a c) end; try reflexivity; lia. }
  assert (Hgs : get_slice b s = w).
  { destruct b; cbn [get_slice]; try exact Hseg.
    rewrite Hs. replace (Nat.min (tail s - head s) N) with (tail s - head s) by lia. exact Hseg. }
  unfold observe, obs_w. f_equal.
  - exact Hfill.
  - unfold empty. destruct (Nat.eqb_spec (tail s) 0) as [E|E], (Nat.eqb_spec (length w) 0) as [E'|E'];
      try reflexivity; try lia.
  - unfold first. destruct (Nat.eqb_spec (tail s) 0) as [E|E].
    + assert (length w = 0) by lia. destruct w; [reflexivity|simpl in *; lia].
    + assert (Hwl : 0 < length w).
      { destruct (Nat.lt_ge_cases (length w) N) as [Hlt|Hge]; [specialize (Hh0 Hlt); lia | lia]. }
      rewrite nth_hd_skipn. rewrite <- (hd_firstn (tail s - head s)) by lia.
      fold (seg (head s) (tail s) (buf s)). rewrite Hseg. destruct w; [simpl in *; lia|reflexivity].
  - unfold last. rewrite Hfl. destruct (Nat.leb_spec N (length w)) as [H1|H1]; [|reflexivity].
    f_equal. rewrite <- Hseg. symmetry. apply last_seg; lia.
  - unfold slice. rewrite Hfill, Hgs. reflexivity.
  - unfold arr. rewrite Hfill, Hgs, Hs. rewrite firstn_all2 by lia. reflexivity.
Qed.

Lemma last_lastn {A} n (h : list A) d : 1 <= n -> List.last (lastn n h) d = List.last h d.
Proof.
  intros Hn. destruct h as [|x h] using rev_ind; [reflexivity|].
  destruct n as [|n]; [lia|]. rewrite lastn_app_one, !last_last. reflexivity.
Qed.

Lemma spec_obs_w N h : 1 <= N -> spec_obs N h = obs_w N (lastn N h).
Proof.
  intros HN. unfold spec_obs, obs_w. rewrite lastn_length.
  assert (E1 : (N <=? Nat.min N (length h)) = (N <=? length h)).
  { destruct (Nat.leb_spec N (length h)), (Nat.leb_spec N (Nat.min N (length h))); try reflexivity; lia. }
  assert (E2 : (Nat.min N (length h) =? 0) = (length h =? 0)).
  { destruct (Nat.eqb_spec (length h) 0), (Nat.eqb_spec (Nat.min N (length h)) 0); try reflexivity; lia. }
  rewrite E1, E2, last_lastn by exact HN. reflexivity.
Qed.

(* ---------- histories ------------------------------------------------------------------------ *)
Lemma fold_wpush N h w0 h0 :
  1 <= N -> w0 = lastn N h0 -> fold_left (wpush N) h w0 = lastn N (h0 ++ h).
Proof.
  intros HN. revert w0 h0. induction h as [|v h IH]; intros w0 h0 ->; cbn [fold_left].
  - rewrite app_nil_r. reflexivity.
  - rewrite (IH _ (h0 ++ [v])).
    + rewrite <- app_assoc. reflexivity.
    + unfold wpush. apply lastn_lastn_snoc, HN.
Qed.

Lemma run_R_from b N C h s w :
  sound b = true -> 1 <= N -> N < C -> R N C s w ->
  R N C (fold_left (push b) h s) (fold_left (wpush N) h w).
Proof.
  intros Hb HN HNC. revert s w. induction h as [|v h IH]; intros s w HR; cbn [fold_left]; auto.
  apply IH. apply push_R; auto.
Qed.

Theorem window_is_last_n b N C h :
  sound b = true -> 1 <= N -> N < C ->
  observe b (run b N C h) = spec_obs N h.
Proof.
  intros Hb HN HNC. rewrite spec_obs_w by exact HN.
  apply (observe_R b N C); [exact HN|].
  unfold run. change (lastn N h) with (lastn N ([] ++ h)).
  rewrite <- (fold_wpush N h [] []) by auto.
  apply run_R_from; auto using init_R.
Qed.

Lemma trace_spec_from b N C h s past :
  sound b = true -> 1 <= N -> N < C -> R N C s (lastn N past) ->
  trace b s h = spec_trace N past h.
Proof.
  intros Hb HN HNC. revert s past. induction h as [|v h IH]; intros s past HR; cbn [trace spec_trace]; auto.
  assert (HR' : R N C (push b s v) (lastn N (past ++ [v]))).
  { rewrite <- lastn_lastn_snoc by exact HN. apply push_R; auto. }
  f_equal.
  - rewrite spec_obs_w by exact HN. apply (observe_R b N C); auto.
  - apply IH. exact HR'.
Qed.

Theorem trace_is_spec b N C h :
  sound b = true -> 1 <= N -> N < C -> trace b (init N C) h = spec_trace N [] h.
Proof. intros. eapply trace_spec_from; eauto. apply init_R. Qed.

Theorem backends_agree b1 b2 N C1 C2 h :
  sound b1 = true -> sound b2 = true -> 1 <= N -> N < C1 -> N < C2 ->
  observe b1 (run b1 N C1 h) = observe b2 (run b2 N C2 h).
Proof. intros. rewrite !window_is_last_n by assumption. reflexivity. Qed.

(* the unsafe vector never performs an overlapping copy_nonoverlapping *)
Theorem uvec_copy_legal N C h :
  1 <= N -> 2 * N <= C ->
  let s := run BUVec N C h in cap s <= tail s -> size s <= head s.
Proof.
  intros HN HC s. eapply uvec_rewind_nonoverlap; eauto.
  unfold s, run. apply (run_R_from BUVec N C h _ []); auto using init_R. lia.
Qed.

(* safe VectorStorage up to its capacity *)
Lemma vec_run_R N C h :
  1 <= N -> N < C -> length h <= C ->
  R N C (run BVec N C h) (lastn N h) /\ tail (run BVec N C h) = length h.
Proof.
  intros HN HNC. induction h as [|v h IH] using rev_ind; intros Hlen.
  - split; [apply init_R | reflexivity].
  - rewrite app_length in Hlen; simpl in Hlen.
    destruct IH as [IH1 IH2]; [lia|].
    unfold run in *. rewrite fold_left_app. cbn [fold_left]. change (push BVec) with vec_push in *.
    split.
    + rewrite <- lastn_lastn_snoc by exact HN. apply vec_push_R; auto. lia.
    + assert (Hc : cap (fold_left vec_push h (init N C)) = C) by apply IH1.
      unfold vec_push at 1.
      destruct (Nat.ltb_spec (tail (fold_left vec_push h (init N C))) (cap (fold_left vec_push h (init N C)))); [|lia].
      cbn [tail]. rewrite IH2, app_length. simpl. lia.
Qed.

Theorem vec_is_last_n_up_to_capacity N C h :
  1 <= N -> N < C -> length h <= C -> observe BVec (run BVec N C h) = spec_obs N h.
Proof.
  intros HN HNC Hlen. rewrite spec_obs_w by exact HN.
  apply (observe_R BVec N C); [exact HN|]. apply vec_run_R; auto.
Qed.

(* D6: beyond its capacity the safe VectorStorage violates the property (size 2, multiple 2, 5 pushes) *)
Lemma vec_refuted :
  exists N C h, 1 <= N /\ 2 * N <= C /\ observe BVec (run BVec N C h) <> spec_obs N h.
Proof.
  exists 2, 4, [1; 2; 3; 4; 5]%Z. split; [lia|]. split; [lia|]. vm_compute. discriminate.
Qed.

(* non-vacuity: overlapping rewind (capacity < 2*size), several rewinds *)
Example window_example :
  o_slice (observe BUArr (run BUArr 3 4 [1;2;3;4;5;6;7;8;9]%Z)) = Some [7;8;9]%Z
  /\ o_slice (observe BArr (run BArr 3 4 [1;2;3;4;5;6;7;8;9]%Z)) = Some [7;8;9]%Z
  /\ o_slice (observe BUVec (run BUVec 3 6 [1;2;3;4;5;6;7;8;9;10;11;12;13]%Z)) = Some [11;12;13]%Z.
Proof. vm_compute. auto. Qed.
