(* Model of dcl_data_structures/src/window_type: the four storages behind SlidingWindow.
   Values are Z; buffers are lists of length capacity; copy_within / ptr::copy are list functions
   with memmove semantics. Backends:
     BArr  = storage_safe/storage_array.rs     (ArrayStorage<T,SIZE,CAPACITY>)
     BVec  = storage_safe/storage_vec.rs       (VectorStorage<T>, capacity = size*multiple)
     BUArr = storage_unsafe/unsafe_storage_array.rs  (after the D4 fix: ptr::copy)
     BUVec = storage_unsafe/unsafe_storage_vec.rs *)
From Coq Require Import List Arith ZArith Bool.
From DC Require Import Common.ListAux.
Import ListNotations.

Inductive backend := BArr | BVec | BUArr | BUVec.

Record st := mkSt { buf : list Z; head : nat; tail : nat; size : nat; cap : nat }.

Definition seg (s e : nat) (l : list Z) : list Z := firstn (e - s) (skipn s l).

(* slice::copy_within(s..e, 0) and ptr::copy(src+s, dst, e-s): memmove semantics *)
Definition copy_to_front (l : list Z) (s e : nat) : list Z :=
  let sg := seg s e l in sg ++ skipn (length sg) l.

Definition init (sz c : nat) : st :=
  {| buf := repeat 0%Z c; head := 0; tail := 0; size := sz; cap := c |}.

(* --- ArrayStorage ------------------------------------------------------------------------- *)
Definition arr_rewind (s : st) : st :=
  let start := tail s - size s in            (* saturating_sub *)
  let wsz := tail s - start in
  {| buf := copy_to_front (buf s) start (tail s); head := 0; tail := wsz; size := size s; cap := cap s |}.

Definition arr_push (s0 : st) (v : Z) : st :=
  let s := if cap s0 <=? tail s0 then arr_rewind s0 else s0 in
  let t' := S (tail s) in
  {| buf := upd (tail s) v (buf s);
     head := if size s <=? t' then t' - size s else head s;
     tail := t'; size := size s; cap := cap s |}.

(* --- VectorStorage (as written, including the N+1 defect D6) ------------------------------- *)
Definition vec_push (s : st) (v : Z) : st :=
  if tail s <? cap s then
    let t' := S (tail s) in
    {| buf := upd (tail s) v (buf s);
       head := if size s <? t' - head s then S (head s) else head s;
       tail := t'; size := size s; cap := cap s |}
  else
    let b := copy_to_front (buf s) (head s) (head s + size s) in
    {| buf := upd (size s) v b; head := 0; tail := S (size s); size := size s; cap := cap s |}.

(* --- UnsafeArrayStorage -------------------------------------------------------------------- *)
Definition uarr_rewind (s : st) : st :=
  {| buf := copy_to_front (buf s) (tail s - size s) (tail s); head := 0; tail := size s;
     size := size s; cap := cap s |}.

Definition uarr_push (s0 : st) (v : Z) : st :=
  let s := if cap s0 <=? tail s0 then uarr_rewind s0 else s0 in
  let t' := S (tail s) in
  {| buf := upd (tail s) v (buf s);
     head := if size s <? t' - head s then t' - size s else head s;
     tail := t'; size := size s; cap := cap s |}.

(* --- UnsafeVectorStorage ------------------------------------------------------------------- *)
Definition uvec_push (s : st) (v : Z) : st :=
  if tail s <? cap s then
    let t' := S (tail s) in
    {| buf := upd (tail s) v (buf s);
       head := if size s <? t' - head s then S (head s) else head s;
       tail := t'; size := size s; cap := cap s |}
  else
    let b := copy_to_front (buf s) (head s) (head s + size s) in
    let t' := S (size s) in
    {| buf := upd (size s) v b;
       head := if size s <? t' - 0 then 1 else 0;
       tail := t'; size := size s; cap := cap s |}.

Definition push (b : backend) : st -> Z -> st :=
  match b with BArr => arr_push | BVec => vec_push | BUArr => uarr_push | BUVec => uvec_push end.

(* --- accessors ------------------------------------------------------------------------------ *)
(* WindowStorage::filled as seen through the trait (SlidingWindow::filled, slice, vec, arr) *)
Definition filled (b : backend) (s : st) : bool :=
  match b with
  | BArr => size s <=? tail s - head s            (* overridden *)
  | BVec | BUVec => size s <=? tail s             (* overridden *)
  | BUArr => size s <=? tail s                    (* trait default: tail() >= size() *)
  end.

(* the `filled` that `last` consults: for the unsafe array it is the inherent method *)
Definition filled_for_last (b : backend) (s : st) : bool :=
  match b with
  | BUArr => size s <=? tail s - head s
  | _ => filled b s
  end.

Definition empty (s : st) : bool := tail s =? 0.

Definition first (s : st) : option Z :=
  if tail s =? 0 then None else Some (nth (head s) (buf s) 0%Z).

Definition last (b : backend) (s : st) : option Z :=
  if filled_for_last b s then Some (nth (tail s - 1) (buf s) 0%Z) else None.

Definition get_slice (b : backend) (s : st) : list Z :=
  match b with
  | BUArr => firstn (Nat.min (tail s - head s) (size s)) (skipn (head s) (buf s))
  | _ => seg (head s) (tail s) (buf s)
  end.

Definition slice (b : backend) (s : st) : option (list Z) :=
  if filled b s then Some (get_slice b s) else None.

(* arr::<S>() with S = size: copies slice[..size] *)
Definition arr (b : backend) (s : st) : option (list Z) :=
  if filled b s then Some (firstn (size s) (get_slice b s)) else None.

Record obs := mkObs {
  o_filled : bool; o_empty : bool; o_first : option Z; o_last : option Z;
  o_slice : option (list Z); o_arr : option (list Z) }.

Definition observe (b : backend) (s : st) : obs :=
  {| o_filled := filled b s; o_empty := empty s; o_first := first s; o_last := last b s;
     o_slice := slice b s; o_arr := arr b s |}.

Definition run (b : backend) (sz c : nat) (h : list Z) : st := fold_left (push b) h (init sz c).

(* --- the specification: the window over a push history --------------------------------------- *)
Definition spec_obs (n : nat) (h : list Z) : obs :=
  let w := lastn n h in
  let full := n <=? length h in
  {| o_filled := full;
     o_empty := length h =? 0;
     o_first := match w with [] => None | x :: _ => Some x end;
     o_last := if full then Some (List.last h 0%Z) else None;
     o_slice := if full then Some w else None;
     o_arr := if full then Some w else None |}.

(* --- observation after every push (correspondence interface) -------------------------------- *)
Fixpoint trace (b : backend) (s : st) (h : list Z) : list obs :=
  match h with
  | [] => []
  | v :: t => let s' := push b s v in observe b s' :: trace b s' t
  end.

Fixpoint spec_trace (n : nat) (past h : list Z) : list obs :=
  match h with
  | [] => []
  | v :: t => spec_obs n (past ++ [v]) :: spec_trace n (past ++ [v]) t
  end.

(* integer coding: input = backend :: size :: capacity :: values
   output per push: filled empty first|-1 last|-1 then slice: -1 | len x1..xn, then arr likewise *)
Definition enc_opt (o : option Z) : list Z := match o with Some x => [x] | None => [(-1)%Z] end.
Definition enc_optl (o : option (list Z)) : list Z :=
  match o with Some l => Z.of_nat (length l) :: l | None => [(-1)%Z] end.
Definition enc_bool (b : bool) : Z := if b then 1%Z else 0%Z.
Definition enc_obs (o : obs) : list Z :=
  enc_bool (o_filled o) :: enc_bool (o_empty o) :: enc_opt (o_first o) ++ enc_opt (o_last o)
  ++ enc_optl (o_slice o) ++ enc_optl (o_arr o).

Definition backend_of (z : Z) : backend :=
  if Z.eqb z 0 then BArr else if Z.eqb z 1 then BVec else if Z.eqb z 2 then BUArr else BUVec.

Definition window_model_entry (l : list Z) : list Z :=
  match l with
  | b :: sz :: c :: h =>
      flat_map enc_obs (trace (backend_of b) (init (Z.to_nat sz) (Z.to_nat c)) h)
  | _ => []
  end.

Definition window_spec_entry (l : list Z) : list Z :=
  match l with
  | b :: sz :: c :: h => flat_map enc_obs (spec_trace (Z.to_nat sz) [] h)
  | _ => []
  end.
