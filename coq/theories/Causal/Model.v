(* Model of causal reasoning in deep_causality:
     types/reasoning_types/causaloid/{mod,causable}.rs          (Causaloid: singleton / collection / graph)
     protocols/causable/mod.rs                                   (CausableReasoning over collections)
     protocols/causable_graph/{graph,graph_reasoning,graph_reasoning_utils}.rs
     types/reasoning_types/causaloid_graph/causable_graph.rs     (CausaloidGraph)
   Causal functions are external: the harness uses a fixed family of fn items whose verdict is decided
   by the observation value; here [fn_verdict].  The explicit stack of child iterators of
   reason_from_to_cause is modelled as recursion over the children lists (same evaluation order). *)
From Coq Require Import List Arith ZArith Bool.
From DC Require Import Common.AList Graph.UltraGraph.
Import ListNotations.

Inductive verdict := VT | VF | VE.          (* Ok(true) | Ok(false) | Err *)

(* observation codes: the last decimal digit decides the verdict (0 / 1 / 2 = error marker),
   the higher digits only make observations distinguishable in the call log *)
Definition code (obs : Z) : Z := (obs mod 10)%Z.

(* the harness' causal functions: kind 0 = threshold, kind 1 = negated threshold;
   contextual (ctx = context id 1 or 2): true iff code + 1 = the id of the context it is given *)
Definition fn_verdict (fk : nat) (ctx : nat) (obs : Z) : verdict :=
  let c := code obs in
  if Z.eqb c 2 then VE
  else match ctx with
       | O => if Nat.eqb fk 0 then (if Z.eqb c 1 then VT else VF) else (if Z.eqb c 0 then VT else VF)
       | _ => if Z.eqb (c + 1) (Z.of_nat ctx) then VT else VF
       end.

(* a causaloid: [cell] names the activation flag (distinct causaloids have distinct cells) *)
Inductive causal :=
| Single (id : nat) (cell : nat) (fk : nat) (ctx : nat)
| Coll (id : nat) (items : list causal)
| GraphC (id : nat) (nodes : list causal) (edges : list ((nat * nat) * N)) (root : option nat).

Definition cid (c : causal) : nat :=
  match c with Single i _ _ _ | Coll i _ | GraphC i _ _ _ => i end.
Definition is_singleton (c : causal) : bool := match c with Single _ _ _ _ => true | _ => false end.

(* a call-log entry: the cell of the evaluated causaloid, the function tag (0 threshold, 1 negated,
   10 + context id for contextual) and the observation it was given *)
Record entry := mkEntry { ecell : nat; etag : nat; eobs : Z; ever : verdict }.   (* [ever]: the verdict the function returned *)
Record state := mkState { act : list (nat * bool); log : list entry }.   (* activation cells; call log (newest first) *)

Inductive res := ROk (b : bool) | RErr | RPanic | RFuel | RStop.     (* RStop: `child == stop_index` hit *)

Definition set_act (s : state) (cell : nat) (b : bool) : state := mkState (nins cell b (act s)) (log s).
Definition log_call (s : state) (e : entry) : state := mkState (act s) (e :: log s).
Definition tag_of (fk ctx : nat) : nat := match ctx with O => fk | _ => 10 + ctx end.
Definition cell_active (s : state) (cell : nat) : bool := match nget cell (act s) with Some b => b | None => false end.

(* Causaloid::verify_single_cause (panics on a non-singleton: causal_fn is None) *)
Definition verify_single (c : causal) (obs : Z) (s : state) : res * state :=
  match c with
  | Single _ cell fk ctx =>
      let s1 := log_call s (mkEntry cell (tag_of fk ctx) obs (fn_verdict fk ctx obs)) in
      match fn_verdict fk ctx obs with
      | VE => (RErr, s1)
      | VT => (ROk true, set_act s1 cell true)
      | VF => (ROk false, set_act s1 cell false)
      end
  | _ => (RPanic, s)
  end.

(* graph_reasoning_utils::get_obs: by data index, or by causaloid id; a missing entry panics *)
Definition get_obs (id : nat) (data : list Z) (idx : option (list (nat * nat))) : option Z :=
  match idx with
  | Some m => match nget id m with Some p => nth_error data p | None => None end
  | None => nth_error data id
  end.

(* outgoing_edges: petgraph walks the matrix row in ascending column order *)
Definition succs (edges : list ((nat * nat) * N)) (a : nat) : list nat :=
  filter (fun b => emem (a, b) edges) (seq 0 (adj_bound edges)).

Inductive task :=
| TVerifyAll (c : causal) (idx : option (list (nat * nat)))      (* Causable::verify_all_causes *)
| TColl (items : list causal) (i : nat)                           (* the loop of CausableReasoning::reason_all_causes from position i *)
| TVisit (nodes : list causal) (edges : list ((nat * nat) * N)) (stop : nat) (idx : option (list (nat * nat))) (cs : list nat)
                                                                  (* remaining children of the traversal *)
| TFromTo (nodes : list causal) (edges : list ((nat * nat) * N)) (start stop : nat) (idx : option (list (nat * nat))).

Fixpoint run (fuel : nat) (t : task) (data : list Z) (s : state) : res * state :=
  match fuel with
  | O => (RFuel, s)
  | S f =>
    match t with
    | TVerifyAll c idx =>
        match c with
        | Single _ _ _ _ => (RErr, s)
        | Coll _ items => match items with [] => (RErr, s) | _ => run f (TColl items 0) data s end
        | GraphC _ nodes edges root =>
            match root with
            | None => (RErr, s)
            | Some r => match run f (TFromTo nodes edges r (length nodes) idx) data s with
                        | (RStop, s') => (ROk true, s')
                        | other => other
                        end
            end
        end
    | TColl items i =>
        match items with
        | [] => (ROk true, s)
        | c :: rest =>
            let '(r, s1) :=
              if is_singleton c
              then match nth_error data i with Some obs => verify_single c obs s | None => (RPanic, s) end
              else run f (TVerifyAll c None) data s in
            match r with
            | ROk true => run f (TColl rest (S i)) data s1
            | other => (other, s1)
            end
        end
    | TFromTo nodes edges start stop idx =>
        match nodes with
        | [] => (RErr, s)                                          (* graph is empty *)
        | _ =>
          match data with
          | [] => (RErr, s)                                        (* data are empty *)
          | _ =>
            match nth_error nodes start with
            | None => (RErr, s)                                    (* start causaloid not contained *)
            | Some c =>
                match get_obs (cid c) data idx with
                | None => (RPanic, s)
                | Some obs =>
                    match verify_single c obs s with
                    | (ROk true, s1) => run f (TVisit nodes edges stop idx (succs edges start)) data s1
                    | other => other
                    end
                end
            end
          end
        end
    | TVisit nodes edges stop idx cs =>
        match cs with
        | [] => (ROk true, s)
        | child :: rest =>
            match nth_error nodes child with
            | None => (RPanic, s)
            | Some c =>
                match get_obs (cid c) data idx with
                | None => (RPanic, s)
                | Some obs =>
                    let '(r, s1) := if is_singleton c then verify_single c obs s else run f (TVerifyAll c idx) data s in
                    match r with
                    | ROk true =>
                        if Nat.eqb child stop then (RStop, s1)
                        else match run f (TVisit nodes edges stop idx (succs edges child)) data s1 with
                             | (ROk true, s2) => run f (TVisit nodes edges stop idx rest) data s2
                             | other => other
                             end
                    | other => (other, s1)
                    end
                end
            end
        end
    end
  end.

(* top-level calls ------------------------------------------------------------------------------- *)
Definition finish (p : res * state) : res * state := match p with (RStop, s) => (ROk true, s) | other => other end.

(* CausableGraphReasoning::reason_all_causes *)
Definition graph_reason_all (fuel : nat) nodes edges (root : option nat) data idx s : res * state :=
  match root with
  | None => (RErr, s)
  | Some r => finish (run fuel (TFromTo nodes edges r (length nodes) idx) data s)
  end.

(* reason_subgraph_from_cause *)
Definition graph_reason_sub (fuel : nat) (nodes : list causal) edges start data idx s : res * state :=
  match nodes with
  | [] => (RErr, s)
  | _ => finish (run fuel (TFromTo nodes edges start (length nodes) idx) data s)
  end.

(* reason_single_cause *)
Fixpoint single_loop (c : causal) (data : list Z) (s : state) : res * state :=
  match data with
  | [] => (ROk true, s)
  | obs :: t => match verify_single c obs s with
                | (ROk true, s1) => single_loop c t s1
                | (ROk false, s1) => (ROk false, s1)
                | (RErr, s1) => (RPanic, s1)           (* .expect("Failed to verify data") *)
                | other => other
                end
  end.
Definition graph_reason_single (nodes : list causal) (i : nat) (data : list Z) (s : state) : res * state :=
  match nth_error nodes i with
  | None => (RErr, s)
  | Some c =>
      match data with
      | [] => (RErr, s)
      | [obs] => verify_single c obs s
      | _ => single_loop c data s
      end
  end.

(* reason_shortest_path_between_causes, given the path the graph's shortest_path routine returns
   ([None] = no path) — the routine itself is C15's subject *)
Fixpoint path_loop (nodes : list causal) (p : list nat) (data : list Z) idx (s : state) : res * state :=
  match p with
  | [] => (ROk true, s)
  | i :: t =>
      match nth_error nodes i with
      | None => (RPanic, s)
      | Some c =>
          match get_obs (cid c) data idx with
          | None => (RPanic, s)
          | Some obs =>
              match verify_single c obs s with
              | (ROk true, s1) => path_loop nodes t data idx s1
              | other => other
              end
          end
      end
  end.
Definition graph_reason_shortest (nodes : list causal) (start stop : nat) (sp : option (list nat)) data idx s : res * state :=
  match nodes with
  | [] => (RErr, s)
  | _ =>
    if negb (start <? length nodes) then (RErr, s)
    else if negb (stop <? length nodes) then (RErr, s)
    else if Nat.eqb start stop then (RErr, s)
    else match sp with None => (RErr, s) | Some p => path_loop nodes p data idx s end
  end.

(* collection reasoning at top level *)
Definition coll_reason_all (fuel : nat) (items : list causal) data s : res * state :=
  match items with [] => (RErr, s) | _ => run fuel (TColl items 0) data s end.

(* activation ------------------------------------------------------------------------------------ *)
Fixpoint is_active (fuel : nat) (c : causal) (s : state) : bool :=
  match fuel with
  | O => false
  | S f =>
    match c with
    | Single _ cell _ _ => cell_active s cell
    | Coll _ items => existsb (fun x => is_active f x s) items         (* number_active() > 0 *)
    | GraphC _ nodes _ _ => existsb (fun x => is_active f x s) nodes
    end
  end.
