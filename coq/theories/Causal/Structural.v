(* C02, structural form: the verdict of a causal collection is the short-circuit conjunction of the verdicts of ALL the
   items it contains, each item's verdict being a function of the item and the observations alone (not of the
   evaluation history).  In particular no contained item is skipped. *)
From Coq Require Import List Arith NArith ZArith Bool Lia.
From DC Require Import Common.AList Graph.UltraGraph Causal.Model Causal.Proofs.
Import ListNotations.

Definition s_empty : state := mkState [] [].

(* the verdict of one item of a collection at position i: a singleton is evaluated on observation i, anything else on
   the whole observation vector *)
Definition item_res (f : nat) (c : causal) (i : nat) (data : list Z) : res :=
  fst (if is_singleton c
       then match nth_error data i with Some obs => verify_single c obs s_empty | None => (RPanic, s_empty) end
       else run f (TVerifyAll c None) data s_empty).

Fixpoint coll_conj (f : nat) (items : list causal) (i : nat) (data : list Z) : res :=
  match f with
  | O => RFuel
  | S f' => match items with
            | [] => ROk true
            | c :: rest => match item_res f' c i data with
                           | ROk true => coll_conj f' rest (S i) data
                           | other => other
                           end
            end
  end.

Theorem collection_is_conjunction_of_items f : forall items i data s,
  fst (run f (TColl items i) data s) = coll_conj f items i data.
Proof.
  induction f as [|f IH]; intros items i data s; [reflexivity|].
  cbn [run coll_conj]. destruct items as [|c rest]; [reflexivity|].
  unfold item_res.
  assert (E : fst (if is_singleton c then match nth_error data i with Some obs => verify_single c obs s | None => (RPanic, s) end
                   else run f (TVerifyAll c None) data s)
            = fst (if is_singleton c then match nth_error data i with Some obs => verify_single c obs s_empty | None => (RPanic, s_empty) end
                   else run f (TVerifyAll c None) data s_empty)).
  { destruct (is_singleton c); [destruct (nth_error data i); [apply verify_single_pure | reflexivity] | apply run_pure]. }
  destruct (if is_singleton c then match nth_error data i with Some obs => verify_single c obs s | None => (RPanic, s) end
            else run f (TVerifyAll c None) data s) as [r1 s1].
  cbn [fst] in E. rewrite <- E. destruct r1 as [[|]| | | |]; try reflexivity. apply IH.
Qed.

(* hence: true exactly when EVERY contained item's own verdict is true (fuel not exhausted) *)
Corollary collection_true_iff_all_items f : forall items i data,
  coll_conj f items i data = ROk true ->
  forall j c, nth_error items j = Some c -> exists f', f' < f /\ item_res f' c (i + j) data = ROk true.
Proof.
  induction f as [|f IH]; intros items i data H j c Hn; [discriminate|].
  cbn [coll_conj] in H. destruct items as [|c0 rest]; [destruct j; discriminate|].
  destruct (item_res f c0 i data) as [[|]| | | |] eqn:E0; try discriminate.
  destruct j as [|j]; cbn in Hn.
  - inversion Hn; subst. exists f. split; [lia|]. rewrite Nat.add_0_r. exact E0.
  - destruct (IH rest (S i) data H j c Hn) as (f' & Hf & Hr). exists f'. split; [lia|].
    replace (i + S j) with (S i + j) by lia. exact Hr.
Qed.

(* non-vacuity, and the situation of seeded change C02-2: a collection holding MORE items than there are observations
   (legitimate when the trailing items are nested: they take the whole vector) still evaluates the trailing item *)
Example nested_item_behind_the_observations :
  fst (run 20 (TColl [Single 0 0 0 0; Coll 7 [Single 1 1 1 0]] 0) [1%Z] s_empty) = ROk false /\
  fst (run 20 (TColl [Single 0 0 0 0; Coll 7 [Single 1 1 0 0]] 0) [1%Z] s_empty) = ROk true.
Proof. vm_compute. split; reflexivity. Qed.
