(* C01: graph reasoning over singleton causaloids returns the conjunction over all reachable nodes. *)
From Coq Require Import List Arith NArith ZArith Bool Lia.
From DC Require Import Common.AList Graph.UltraGraph Graph.Refine Causal.Model.
From DC Require Causal.Proofs.
Import ListNotations.

Section GraphReasoning.
  Variable nodes : list causal.
  Variable edges : list ((nat * nat) * N).
  Variable data : list Z.
  Variable idx : option (list (nat * nat)).

  (* the verdict of node i on the observation routed to it (by id, or through the data index) *)
  Definition nv (i : nat) : option verdict :=
    match nth_error nodes i with
    | Some (Single id _ fk ctx) =>
        match get_obs id data idx with Some obs => Some (fn_verdict fk ctx obs) | None => None end
    | _ => None
    end.

  (* reachability along the edges *)
  Inductive reach : nat -> nat -> Prop :=
  | reach_refl a : reach a a
  | reach_step a b c : emem (a, b) edges = true -> reach b c -> reach a c.

  (* every node is a singleton whose observation is routable; every edge points to a node;
     the stop index (node count on add-only graphs) is not a node *)
  Hypothesis nodes_ok : forall i, i < length nodes -> nv i <> None.
  Hypothesis edges_ok : forall a b, emem (a, b) edges = true -> b < length nodes.

  Lemma adj_bound_spec a b l : emem (a, b) l = true -> a < adj_bound l /\ b < adj_bound l.
  Proof.
    unfold emem, amem. induction l as [|[[x y] w] t IH]; [cbn; discriminate|].
    unfold adj_bound. cbn [fold_right fst snd aget]. fold (adj_bound t).
    destruct (pair_eqb_spec (a, b) (x, y)) as [E|Hne].
    - inversion E; subst. intros _. lia.
    - intros H. specialize (IH H). lia.
  Qed.

  Lemma succs_In a b : In b (succs edges a) <-> emem (a, b) edges = true.
  Proof.
    unfold succs. rewrite filter_In, in_seq. split; [tauto|].
    intros H. split; [|exact H]. apply adj_bound_spec in H. lia.
  Qed.

  Lemma node_single i : i < length nodes ->
    exists id cell fk ctx obs, nth_error nodes i = Some (Single id cell fk ctx) /\
                               get_obs id data idx = Some obs /\ nv i = Some (fn_verdict fk ctx obs).
  Proof.
    intros Hi. pose proof (nodes_ok i Hi) as Hn. unfold nv in *.
    destruct (nth_error nodes i) as [[id cell fk ctx| |]|] eqn:En; try congruence.
    destruct (get_obs id data idx) as [obs|] eqn:Eo; try congruence.
    exists id, cell, fk, ctx, obs. auto.
  Qed.

  Lemma verify_single_res id cell fk ctx obs s :
    fst (verify_single (Single id cell fk ctx) obs s) =
    match fn_verdict fk ctx obs with VT => ROk true | VF => ROk false | VE => RErr end.
  Proof. cbn [verify_single]. destruct (fn_verdict fk ctx obs); reflexivity. Qed.

  (* the traversal of the remaining children [cs] *)
  Lemma visit_spec stop fuel : length nodes <= stop -> forall cs s r s',
    run fuel (TVisit nodes edges stop idx cs) data s = (r, s') -> r <> RFuel ->
    (forall c, In c cs -> c < length nodes) ->
    (r = ROk true \/ r = ROk false \/ r = RErr) /\
    (r = ROk true <-> forall c v, In c cs -> reach c v -> nv v = Some VT) /\
    (r = RErr -> exists c v, In c cs /\ reach c v /\ nv v = Some VE).
  Proof.
    intros Hstop. induction fuel as [|f IH]; intros cs s r s' H Hf Hcs; cbn [run] in H.
    - inversion H; subst. congruence.
    - destruct cs as [|child rest].
      + inversion H; subst. split; [auto|]. split; [split; auto; intros _ c v []|discriminate].
      + assert (Hc : child < length nodes) by (apply Hcs; left; reflexivity).
        destruct (node_single child Hc) as (id & cell & fk & ctx & obs & En & Eo & Ev).
        rewrite En in H. cbn [cid] in H. rewrite Eo in H. cbn [is_singleton] in H.
        pose proof (verify_single_res id cell fk ctx obs s) as Er.
        destruct (verify_single (Single id cell fk ctx) obs s) as [r1 s1]. cbn [fst] in Er. subst r1.
        destruct (fn_verdict fk ctx obs) eqn:Efv.
        * (* child true: descend, then continue with the rest *)
          destruct (Nat.eqb_spec child stop) as [E|_]; [lia|].
          destruct (run f (TVisit nodes edges stop idx (succs edges child)) data s1) as [r2 s2] eqn:E2.
          assert (Hsub : forall c, In c (succs edges child) -> c < length nodes).
          { intros c Hin. apply succs_In in Hin. eapply edges_ok; eauto. }
          assert (Hf2 : r2 <> RFuel).
          { intros ->. inversion H; subst. congruence. }
          destruct (IH _ _ _ _ E2 Hf2 Hsub) as (T2 & I2 & X2).
          destruct r2 as [[|]| | | |]; try (destruct T2 as [T2|[T2|T2]]; discriminate).
          -- (* subtree all true *)
             assert (Hrest : forall c, In c rest -> c < length nodes) by (intros; apply Hcs; right; assumption).
             destruct (IH _ _ _ _ H Hf Hrest) as (T3 & I3 & X3).
             split; [exact T3|]. split.
             ++ rewrite I3. split.
                ** intros Hall c v [<-|Hin] Hr; [|eauto].
                   inversion Hr as [|? b ? Hab Hbv]; subst; [exact Ev|].
                   apply (proj1 I2 eq_refl b v); [apply succs_In; exact Hab | exact Hbv].
                ** intros Hall c v Hin Hr. apply (Hall c v); [right; exact Hin | exact Hr].
             ++ intros E. destruct (X3 E) as (c & v & Hin & Hr & Hv). exists c, v. split; [right; exact Hin | split; assumption].
          -- (* a false below the child *)
             inversion H; subst. split; [auto|]. split.
             ++ split; [discriminate|]. intros Hall. exfalso.
                assert (ROk false = ROk true); [|discriminate].
                apply I2. intros c v Hin Hr. apply (Hall child v); [left; reflexivity|].
                eapply reach_step; [apply succs_In; exact Hin | exact Hr].
             ++ discriminate.
          -- (* an error below the child *)
             inversion H; subst. split; [auto|]. split.
             ++ split; [discriminate|]. intros Hall. exfalso.
                assert (RErr = ROk true); [|discriminate].
                apply I2. intros c v Hin Hr. apply (Hall child v); [left; reflexivity|].
                eapply reach_step; [apply succs_In; exact Hin | exact Hr].
             ++ intros _. destruct (X2 eq_refl) as (c & v & Hin & Hr & Hv).
                exists child, v. split; [left; reflexivity|]. split; [|exact Hv].
                eapply reach_step; [apply succs_In; exact Hin | exact Hr].
        * (* child false *)
          inversion H; subst. split; [auto|]. split.
          -- split; [discriminate|]. intros Hall. specialize (Hall child child (or_introl eq_refl) (reach_refl child)). congruence.
          -- discriminate.
        * (* child errors *)
          inversion H; subst. split; [auto|]. split.
          -- split; [discriminate|]. intros Hall. specialize (Hall child child (or_introl eq_refl) (reach_refl child)). congruence.
          -- intros _. exists child, child. split; [left; reflexivity|]. split; [apply reach_refl | exact Ev].
  Qed.

  (* reason_from_to_cause from a live start causaloid, with the stop index outside the graph *)
  Theorem from_to_spec fuel start stop s r s' :
    length nodes <= stop -> start < length nodes -> data <> [] ->
    run fuel (TFromTo nodes edges start stop idx) data s = (r, s') -> r <> RFuel ->
    (r = ROk true \/ r = ROk false \/ r = RErr) /\
    (r = ROk true <-> forall v, reach start v -> nv v = Some VT) /\
    (r = RErr -> exists v, reach start v /\ nv v = Some VE).
  Proof.
    intros Hstop Hstart Hdata H Hf. destruct fuel as [|f]; cbn [run] in H; [inversion H; subst; congruence|].
    destruct nodes as [|n0 nt] eqn:En; [cbn in Hstart; lia|]. rewrite <- En in *.
    destruct data as [|d0 dt] eqn:Ed; [congruence|]. rewrite <- Ed in *.
    destruct (node_single start Hstart) as (id & cell & fk & ctx & obs & Ens & Eo & Ev).
    rewrite En in H. rewrite <- En in H. rewrite Ens in H. cbn [cid] in H. rewrite Ed in H. rewrite <- Ed in H. rewrite Eo in H.
    pose proof (verify_single_res id cell fk ctx obs s) as Er.
    destruct (verify_single (Single id cell fk ctx) obs s) as [r1 s1]. cbn [fst] in Er. subst r1.
    destruct (fn_verdict fk ctx obs) eqn:Efv.
    - assert (Hsub : forall c, In c (succs edges start) -> c < length nodes).
      { intros c Hin. apply succs_In in Hin. eapply edges_ok; eauto. }
      destruct (visit_spec stop f Hstop _ _ _ _ H Hf Hsub) as (T & I & X).
      split; [exact T|]. split.
      + rewrite I. split.
        * intros Hall v Hr. inversion Hr as [|? b ? Hab Hbv]; subst; [exact Ev|].
          apply (Hall b v); [apply succs_In; exact Hab | exact Hbv].
        * intros Hall c v Hin Hr. apply (Hall v). eapply reach_step; [apply succs_In; exact Hin | exact Hr].
      + intros E. destruct (X E) as (c & v & Hin & Hr & Hv). exists v. split; [|exact Hv].
        eapply reach_step; [apply succs_In; exact Hin | exact Hr].
    - inversion H; subst. split; [auto|]. split.
      + split; [discriminate|]. intros Hall. specialize (Hall start (reach_refl start)). congruence.
      + discriminate.
    - inversion H; subst. split; [auto|]. split.
      + split; [discriminate|]. intros Hall. specialize (Hall start (reach_refl start)). congruence.
      + intros _. exists start. split; [apply reach_refl | exact Ev].
  Qed.

  (* The property, in the words of its statement *)
  Corollary graph_verdict_is_conjunction fuel start s r s' :
    start < length nodes -> data <> [] ->
    run fuel (TFromTo nodes edges start (length nodes) idx) data s = (r, s') -> r <> RFuel ->
    (* true exactly when every reachable causaloid evaluates to true *)
    (r = ROk true <-> forall v, reach start v -> nv v = Some VT) /\
    (* false when one evaluates to false and no causal function reports an error *)
    ((exists v, reach start v /\ nv v = Some VF) -> (forall v, reach start v -> nv v <> Some VE) -> r = ROk false) /\
    (* an error among the reachable causaloids: error or false, never true *)
    ((exists v, reach start v /\ nv v = Some VE) -> r = RErr \/ r = ROk false).
  Proof.
    intros Hstart Hdata H Hf.
    destruct (from_to_spec fuel start (length nodes) s r s' (le_n _) Hstart Hdata H Hf) as (T & I & X).
    split; [exact I|]. split.
    - intros (v & Hr & Hv) HnoE. destruct T as [T|[T|T]]; [|exact T|].
      + pose proof (proj1 I T v Hr) as T'. congruence.
      + destruct (X T) as (u & Hu & Hue). exfalso. apply (HnoE u Hu Hue).
    - intros (v & Hr & Hv). destruct T as [T|[T|T]]; auto.
      pose proof (proj1 I T v Hr) as T'. congruence.
  Qed.
End GraphReasoning.

(* non-vacuity: a diamond with a false verdict on a side branch, id routing and index routing *)
Example c01_example :
  let nodes := [Single 3 0 0 0; Single 0 1 0 0; Single 2 2 1 0; Single 1 3 0 0] in
  let edges := [((0,1),0%N); ((0,2),0%N); ((1,3),0%N); ((2,3),0%N)] in
  fst (run 50 (TFromTo nodes edges 0 4 None) [1; 11; 20; 31]%Z (mkState [] [])) = ROk true /\
  fst (run 50 (TFromTo nodes edges 0 4 None) [1; 11; 21; 31]%Z (mkState [] [])) = ROk false /\
  fst (run 50 (TFromTo nodes edges 0 4 (Some [(3,0);(0,1);(2,2);(1,3)])) [1; 11; 20; 32]%Z (mkState [] [])) = RErr.
Proof. vm_compute. auto. Qed.

(* ---------- C10: reasoning along a given path --------------------------------------------------- *)
Section PathReasoning.
  Variable nodes : list causal.
  Variable data : list Z.
  Variable idx : option (list (nat * nat)).

  (* what must come out of evaluating the verdict sequence of a path in order:
     the result and how many causaloids get evaluated *)
  Fixpoint path_expect (vs : list verdict) : res * nat :=
    match vs with
    | [] => (ROk true, 0)
    | VT :: t => let '(r, k) := path_expect t in (r, S k)
    | VF :: _ => (ROk false, 1)
    | VE :: _ => (RErr, 1)
    end.

  Definition node_info (i : nat) : option (nat * Z * verdict) :=     (* cell, routed observation, verdict *)
    match nth_error nodes i with
    | Some (Single id cell fk ctx) =>
        match get_obs id data idx with Some obs => Some (cell, obs, fn_verdict fk ctx obs) | None => None end
    | _ => None
    end.

  Theorem path_loop_spec p infos s r s' :
    map node_info p = map Some infos ->
    path_loop nodes p data idx s = (r, s') ->
    let vs := map (fun t : nat * Z * verdict => snd t) infos in
    let k := snd (path_expect vs) in
    r = fst (path_expect vs) /\
    exists new, log s' = new ++ log s /\ length new = k /\
      map (fun e => (ecell e, eobs e, ever e)) (rev new) = firstn k infos /\
      (forall cell, cell_active s' cell = Causal.Proofs.latest new cell (cell_active s cell)).
  Proof.
    revert infos s r s'. induction p as [|i p IH]; intros infos s r s' Hi H; cbn [path_loop] in H.
    - destruct infos; [|discriminate]. inversion H; subst. cbn. split; [reflexivity|]. exists []. auto.
    - destruct infos as [|[[cell obs] v] infos]; [discriminate|]. cbn [map] in Hi. inversion Hi as [[Hi0 Hi1]].
      unfold node_info in Hi0.
      destruct (nth_error nodes i) as [[id cell0 fk ctx| |]|] eqn:En; try discriminate.
      cbn [cid] in H. destruct (get_obs id data idx) as [obs0|] eqn:Eo; try discriminate.
      inversion Hi0; subst cell0 obs0 v. clear Hi0.
      cbn [verify_single] in H. cbn [map snd path_expect].
      destruct (fn_verdict fk ctx obs) eqn:Ev.
      + destruct (IH infos _ r s' Hi1 H) as (Hr & new & Hl & Hlen & Hmap & Hact).
        destruct (path_expect (map (fun t : nat * Z * verdict => snd t) infos)) as [r0 k0] eqn:Ep. cbn [fst snd] in *.
        split; [exact Hr|].
        exists (new ++ [mkEntry cell (tag_of fk ctx) obs VT]). split; [|split; [|split]].
        * rewrite Hl. cbn [log set_act log_call]. rewrite <- app_assoc. reflexivity.
        * rewrite app_length, Hlen. cbn. lia.
        * rewrite rev_app_distr. cbn [rev app map firstn ecell eobs ever]. rewrite Hmap. reflexivity.
        * intros c. rewrite Hact, Causal.Proofs.latest_app. cbn [Causal.Proofs.latest ecell ever].
          rewrite Causal.Proofs.cell_active_set. unfold cell_active, log_call; cbn [act].
          destruct (Nat.eqb cell c); reflexivity.
      + inversion H; subst. cbn [fst snd]. split; [reflexivity|].
        exists [mkEntry cell (tag_of fk ctx) obs VF]. repeat split; auto.
        intros c. rewrite Causal.Proofs.cell_active_set. cbn [Causal.Proofs.latest ecell ever]. unfold cell_active, log_call; cbn [act].
        destruct (Nat.eqb cell c); reflexivity.
      + inversion H; subst. cbn [fst snd]. split; [reflexivity|].
        exists [mkEntry cell (tag_of fk ctx) obs VE]. repeat split; auto.
        intros c. cbn [Causal.Proofs.latest ecell ever]. unfold cell_active, log_call; cbn [act]. destruct (Nat.eqb cell c); reflexivity.
  Qed.

  (* the four error cases of reason_shortest_path_between_causes *)
  Theorem shortest_errors start stop sp s :
    (nodes = [] \/ length nodes <= start \/ length nodes <= stop \/ start = stop \/ sp = None) ->
    graph_reason_shortest nodes start stop sp data idx s = (RErr, s).
  Proof.
    unfold graph_reason_shortest. intros H. destruct nodes as [|n0 nt] eqn:En; [reflexivity|]. rewrite <- En in *.
    destruct (Nat.ltb_spec start (length nodes)); cbn [negb]; [|reflexivity].
    destruct (Nat.ltb_spec stop (length nodes)); cbn [negb]; [|reflexivity].
    destruct (Nat.eqb_spec start stop); [reflexivity|].
    destruct sp; [|reflexivity].
    destruct H as [H|[H|[H|[H|H]]]]; try congruence; try lia.
  Qed.
End PathReasoning.
