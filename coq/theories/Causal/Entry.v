(* Integer coding of causal models, calls and observations (correspondence interface). *)
From Coq Require Import List Arith ZArith Bool.
From DC Require Import Common.AList Common.SpecF64 Graph.UltraGraph Collections.Model Causal.Model.
Import ListNotations.

Definition FUEL : nat := 4000.

(* tree ::= 0 id cell fk ctx | 1 id n tree^n | 2 id n tree^n m (a b w)^m root   (root -1 = none) *)
Fixpoint decode_tree (fuel : nat) (l : list Z) : option (causal * list Z) :=
  match fuel with
  | O => None
  | S f =>
    let fix many (n : nat) (l : list Z) : option (list causal * list Z) :=
        match n with
        | O => Some ([], l)
        | S m => match decode_tree f l with
                 | Some (c, l1) => match many m l1 with Some (cs, l2) => Some (c :: cs, l2) | None => None end
                 | None => None
                 end
        end in
    match l with
    | 0%Z :: id :: cell :: fk :: ctx :: rest => Some (Single (Z.to_nat id) (Z.to_nat cell) (Z.to_nat fk) (Z.to_nat ctx), rest)
    | 1%Z :: id :: n :: rest =>
        match many (Z.to_nat n) rest with Some (cs, l1) => Some (Coll (Z.to_nat id) cs, l1) | None => None end
    | 2%Z :: id :: n :: rest =>
        match many (Z.to_nat n) rest with
        | Some (cs, m :: l1) =>
            let k := Z.to_nat m in
            let ez := firstn (3 * k) l1 in
            let fix edges (l : list Z) (k : nat) : list ((nat * nat) * N) :=
                match k, l with
                | S k', a :: b :: w :: t => ((Z.to_nat a, Z.to_nat b), Z.to_N w) :: edges t k'
                | _, _ => []
                end in
            (* root field: -1 none | r | r + 1000 * (1 + r0) = node r0 < r was added as a root EARLIER (re-rooting); the last
               add_root_causaloid decides, so the root is r mod 1000 *)
            match skipn (3 * k) l1 with
            | r :: l2 => Some (GraphC (Z.to_nat id) cs (edges ez k) (if (r <? 0)%Z then None else Some (Z.to_nat (r mod 1000)%Z)), l2)
            | [] => None
            end
        | _ => None
        end
    | _ => None
    end
  end.

(* pre-order list of all causaloids of a model *)
Fixpoint flatten (fuel : nat) (c : causal) : list causal :=
  match fuel with
  | O => [c]
  | S f =>
    match c with
    | Single _ _ _ _ => [c]
    | Coll _ items => c :: flat_map (flatten f) items
    | GraphC _ nodes _ _ => c :: flat_map (flatten f) nodes
    end
  end.

Definition res_code (r : res) : Z :=
  match r with ROk true => 1 | ROk false => 0 | RErr => -1 | RPanic => -999 | RFuel => -888 | RStop => 1 end%Z.

(* aggregates over the top-level members (nodes of a graph / items of a collection) *)
Definition member_aggs (top : causal) (s : state) : list Z :=
  match top with
  | GraphC _ nodes _ _ =>
      let ps := map (fun c => is_active FUEL c s) nodes in
      [zb (all_loop ps); to_bits (fcount ps); to_bits (percent100 ps)]
  | Coll _ items =>
      let ps := map (fun c => is_active FUEL c s) items in
      let ids := map (fun c => Z.of_nat (cid c)) items in
      [zb (all_loop ps); to_bits (fcount ps); to_bits (percent100 ps)]
      ++ enc_ids (select ids ps) ++ enc_ids (select ids (map negb ps))
  | _ => []
  end.

Definition snapshot (top : causal) (s : state) : list Z :=
  map (fun c => zb (is_active FUEL c s)) (flatten FUEL top) ++ member_aggs top s.

(* one call: code a b use_idx nidx (id pos)^nidx ndata data^ndata *)
Record call := mkCall { ccode : Z; ca : nat; cb : nat; cidx : option (list (nat * nat)); cdata : list Z }.

Fixpoint pairs (l : list Z) (k : nat) : list (nat * nat) :=
  match k, l with S k', a :: b :: t => (Z.to_nat a, Z.to_nat b) :: pairs t k' | _, _ => [] end.

Definition decode_call (l : list Z) : option (call * list Z) :=
  match l with
  | c :: a :: b :: use :: nidx :: rest =>
      let k := Z.to_nat nidx in
      let m := pairs (firstn (2 * k) rest) k in
      match skipn (2 * k) rest with
      | nd :: rest2 =>
          let d := Z.to_nat nd in
          Some (mkCall c (Z.to_nat a) (Z.to_nat b) (if Z.eqb use 0 then None else Some m) (firstn d rest2), skipn d rest2)
      | [] => None
      end
  | _ => None
  end.

(* harness-side loop used for unordered containers: evaluate every item on its own datum, in position
   order, ignoring the verdicts *)
Fixpoint each_item (fuel : nat) (items : list causal) (i : nat) (data : list Z) (s : state) : res * state :=
  match items with
  | [] => (ROk true, s)
  | c :: rest =>
      let '(r, s1) := if is_singleton c
                      then match nth_error data i with Some obs => verify_single c obs s | None => (RPanic, s) end
                      else finish (run fuel (TVerifyAll c None) data s) in
      match r with RPanic => (RPanic, s1) | _ => each_item fuel rest (S i) data s1 end
  end.

(* perform a call on the model. [sp] = the path returned by the implementation's shortest-path
   routine for call code 3 (only available to the checker) *)
Definition do_call (top : causal) (cl : call) (sp : option (list nat)) (s : state) : res * state :=
  let s0 := mkState (act s) [] in
  match top with
  | GraphC _ nodes edges root =>
      if Z.eqb (ccode cl) 0 then graph_reason_all FUEL nodes edges root (cdata cl) (cidx cl) s0
      else if Z.eqb (ccode cl) 1 then graph_reason_sub FUEL nodes edges (ca cl) (cdata cl) (cidx cl) s0
      else if Z.eqb (ccode cl) 2 then graph_reason_single nodes (ca cl) (cdata cl) s0
      else if Z.eqb (ccode cl) 3 then graph_reason_shortest nodes (ca cl) (cb cl) sp (cdata cl) (cidx cl) s0
      else if Z.eqb (ccode cl) 7 then graph_reason_all FUEL nodes edges root (cdata cl) (cidx cl) s0   (* on a clone: same model *)
      else finish (run FUEL (TVerifyAll top (cidx cl)) (cdata cl) s0)
  | Coll _ items =>
      if Z.eqb (ccode cl) 4 then coll_reason_all FUEL items (cdata cl) s0
      else if Z.eqb (ccode cl) 8 then each_item FUEL items 0 (cdata cl) s0
      else finish (run FUEL (TVerifyAll top (cidx cl)) (cdata cl) s0)
  | Single _ _ _ _ =>
      if Z.eqb (ccode cl) 6 then verify_single top (nth 0 (cdata cl) 0%Z) s0
      else finish (run FUEL (TVerifyAll top (cidx cl)) (cdata cl) s0)
  end.

(* one call's segment: its length, then result, log (tag obs per entry), number of causaloids, their
   is_active flags in pre-order, the aggregates of the top-level container *)
Definition call_obs (top : causal) (r : res) (s : state) : list Z :=
  let flags := map (fun c => zb (is_active FUEL c s)) (flatten FUEL top) in
  let body := res_code r :: Z.of_nat (length (log s)) :: flat_map (fun e => [Z.of_nat (etag e); eobs e]) (rev (log s))
              ++ Z.of_nat (length flags) :: flags ++ member_aggs top s in
  Z.of_nat (length body) :: body.

Fixpoint run_calls (fuel : nat) (top : causal) (l : list Z) (s : state) : list Z :=
  match fuel with
  | O => []
  | S f =>
    match decode_call l with
    | None => []
    | Some (cl, rest) =>
        let '(r, s') := do_call top cl None s in
        call_obs top r s' ++ run_calls f top rest s'
    end
  end.

(* model entry: tree then calls. Calls with code 3 (shortest path) are not evaluated here (no path
   available): they are the subject of causal_sp_check_entry *)
Definition causal_model_entry (l : list Z) : list Z :=
  match decode_tree FUEL l with
  | Some (top, calls) => run_calls (length calls) top calls (mkState [] [])
  | None => [(-777)%Z]
  end.
