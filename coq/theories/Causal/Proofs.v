(* Proofs about the causal reasoning model: trace = conjunction (C02), activation mirrors the latest
   successful evaluation and untouched cells are unchanged (C11), purity (C12). *)
From Coq Require Import List Arith ZArith Bool Lia.
From DC Require Import Common.AList Graph.UltraGraph Graph.Refine Causal.Model.
Import ListNotations.

Definition isT (e : entry) : bool := match ever e with VT => true | _ => false end.

(* the activation a cell has after the evaluations [new] (newest first) happened on top of [d]:
   the most recent evaluation of that cell that did not error decides *)
Fixpoint latest (new : list entry) (cell : nat) (d : bool) : bool :=
  match new with
  | [] => d
  | e :: rest =>
      if Nat.eqb (ecell e) cell
      then match ever e with VT => true | VF => false | VE => latest rest cell d end
      else latest rest cell d
  end.

Lemma latest_app n1 n2 cell d : latest (n1 ++ n2) cell d = latest n1 cell (latest n2 cell d).
Proof.
  induction n1 as [|e t IH]; cbn; auto. destruct (Nat.eqb (ecell e) cell); [destruct (ever e)|]; auto.
Qed.

(* what a run may say about its own trace *)
Definition sound (r : res) (s s' : state) : Prop :=
  exists new, log s' = new ++ log s /\
    (forall cell, cell_active s' cell = latest new cell (cell_active s cell)) /\
    ((r = ROk true \/ r = RStop) -> forallb isT new = true) /\
    (r = ROk false -> exists e rest, new = e :: rest /\ ever e = VF /\ forallb isT rest = true).

Lemma sound_refl r s : (r <> ROk false) -> sound r s s.
Proof.
  intros Hr. exists []. repeat split; auto. intros E; congruence.
Qed.

Lemma sound_trans r s s1 s2 :
  sound (ROk true) s s1 -> sound r s1 s2 -> sound r s s2.
Proof.
  intros (n1 & L1 & A1 & T1 & _) (n2 & L2 & A2 & T2 & F2).
  exists (n2 ++ n1). split; [rewrite L2, L1, app_assoc; reflexivity|]. split; [|split].
  - intros cell. rewrite A2, A1, latest_app. reflexivity.
  - intros H. rewrite forallb_app, (T2 H), (T1 (or_introl eq_refl)). reflexivity.
  - intros H. destruct (F2 H) as (e & rest & -> & He & Hr). exists e, (rest ++ n1). split; [reflexivity|]. split; [exact He|].
    rewrite forallb_app, Hr, (T1 (or_introl eq_refl)). reflexivity.
Qed.

Lemma cell_active_set s cell b c :
  cell_active (set_act s cell b) c = if Nat.eqb cell c then b else cell_active s c.
Proof.
  unfold cell_active, set_act; cbn [act]. rewrite nget_nins.
  destruct (Nat.eqb_spec c cell) as [->|Hne].
  - rewrite Nat.eqb_refl. reflexivity.
  - destruct (Nat.eqb_spec cell c); [congruence | reflexivity].
Qed.

Lemma verify_single_sound c obs s r s' :
  verify_single c obs s = (r, s') -> r <> RPanic -> sound r s s'.
Proof.
  destruct c as [id cell fk ctx| |]; cbn [verify_single]; intros H Hp; try (inversion H; congruence).
  destruct (fn_verdict fk ctx obs) eqn:Ev; inversion H; subst; clear H;
    exists [mkEntry cell (tag_of fk ctx) obs (fn_verdict fk ctx obs)]; rewrite Ev;
    (split; [reflexivity|]); (split; [|split]).
  - intros c. rewrite cell_active_set. cbn [latest ecell ever]. destruct (Nat.eqb cell c); reflexivity.
  - intros _. reflexivity.
  - intros H; discriminate.
  - intros c. rewrite cell_active_set. cbn [latest ecell ever]. destruct (Nat.eqb cell c); reflexivity.
  - intros [H|H]; discriminate.
  - intros _. eexists _, []. repeat split; auto.
  - intros c. cbn [latest ecell ever]. unfold cell_active, log_call; cbn [act]. destruct (Nat.eqb cell c); reflexivity.
  - intros [H|H]; discriminate.
  - intros H; discriminate.
Qed.

Lemma verify_single_panic_state c obs s s' : verify_single c obs s = (RPanic, s') -> s' = s.
Proof.
  destruct c; cbn [verify_single]; intros H; try (inversion H; reflexivity).
  destruct (fn_verdict fk ctx obs); inversion H.
Qed.

(* a result that is neither true nor false carries no claim about verdicts, but the activation claim
   still holds: weaken [sound] *)
Lemma sound_other r r' s s' : sound r s s' -> r' <> ROk true -> r' <> RStop -> r' <> ROk false -> sound r' s s'.
Proof.
  intros (n & L & A & _) H1 H2 H3. exists n. split; [exact L|]. split; [exact A|]. split.
  - intros [E|E]; congruence.
  - intros E; congruence.
Qed.

(* Every run, of every task, on every model, data and state: its log only grows; the activation of
   every cell afterwards is that of the most recent successful evaluation in the new part of the log
   (unchanged when the cell was not evaluated); a result true means every evaluated verdict was true; a
   result false means the last evaluated verdict was false and all before it were true. *)
Theorem run_sound fuel t data s r s' : run fuel t data s = (r, s') -> sound r s s'.
Proof.
  revert t data s r s'. induction fuel as [|f IH]; intros t data s r s' H; cbn [run] in H.
  - inversion H; subst. apply sound_refl; discriminate.
  - destruct t as [c idx|items i|nodes edges stop idx cs|nodes edges start stop idx].
    + (* TVerifyAll *)
      destruct c as [id cell fk ctx|id items|id nodes edges root].
      * inversion H; subst. apply sound_refl; discriminate.
      * destruct items; [inversion H; subst; apply sound_refl; discriminate|]. apply (IH _ _ _ _ _ H).
      * destruct root as [rt|]; [|inversion H; subst; apply sound_refl; discriminate].
        destruct (run f (TFromTo nodes edges rt (length nodes) idx) data s) as [r0 s0] eqn:E.
        pose proof (IH _ _ _ _ _ E) as Hs.
        destruct r0; inversion H; subst; auto.
        destruct Hs as (n & L & A & T & F). exists n. repeat split; auto. intros E2; discriminate.
    + (* TColl *)
      destruct items as [|c rest]; [inversion H; subst; apply sound_refl; discriminate|].
      destruct (is_singleton c).
      * destruct (nth_error data i) as [obs|]; [|inversion H; subst; apply sound_refl; discriminate].
        destruct (verify_single c obs s) as [r1 s1] eqn:E1.
        destruct r1 as [[|]| | | |]; try (inversion H; subst).
        -- pose proof (verify_single_sound _ _ _ _ _ E1 ltac:(discriminate)) as S1.
           eapply sound_trans; [exact S1|]. apply (IH _ _ _ _ _ H).
        -- apply (verify_single_sound _ _ _ _ _ E1). discriminate.
        -- apply (verify_single_sound _ _ _ _ _ E1). discriminate.
        -- apply verify_single_panic_state in E1. subst. apply sound_refl; discriminate.
        -- apply (verify_single_sound _ _ _ _ _ E1). discriminate.
        -- apply (verify_single_sound _ _ _ _ _ E1). discriminate.
      * destruct (run f (TVerifyAll c None) data s) as [r1 s1] eqn:E1.
        pose proof (IH _ _ _ _ _ E1) as S1.
        destruct r1 as [[|]| | | |]; try (inversion H; subst; exact S1).
        eapply sound_trans; [exact S1|]. apply (IH _ _ _ _ _ H).
    + (* TVisit *)
      destruct cs as [|child rest]; [inversion H; subst; apply sound_refl; discriminate|].
      destruct (nth_error nodes child) as [c|]; [|inversion H; subst; apply sound_refl; discriminate].
      destruct (get_obs (cid c) data idx) as [obs|]; [|inversion H; subst; apply sound_refl; discriminate].
      assert (S1 : forall r1 s1, (if is_singleton c then verify_single c obs s else run f (TVerifyAll c idx) data s) = (r1, s1) ->
                                 sound r1 s s1 \/ (r1 = RPanic /\ s1 = s)).
      { intros r1 s1 E. destruct (is_singleton c).
        - destruct r1; try (left; apply (verify_single_sound _ _ _ _ _ E); discriminate).
          right. split; [reflexivity|]. apply (verify_single_panic_state _ _ _ _ E).
        - left. apply (IH _ _ _ _ _ E). }
      destruct (if is_singleton c then verify_single c obs s else run f (TVerifyAll c idx) data s) as [r1 s1] eqn:E1.
      destruct (S1 r1 s1 eq_refl) as [Hs1|[-> ->]]; [|inversion H; subst; apply sound_refl; discriminate].
      destruct r1 as [[|]| | | |]; try (inversion H; subst; exact Hs1).
      destruct (Nat.eqb child stop).
      * inversion H; subst. destruct Hs1 as (n & L & A & T & F). exists n. repeat split; auto. intros E2; discriminate.
      * destruct (run f (TVisit nodes edges stop idx (succs edges child)) data s1) as [r2 s2] eqn:E2.
        pose proof (IH _ _ _ _ _ E2) as Hs2.
        destruct r2 as [[|]| | | |]; try (inversion H; subst; eapply sound_trans; [exact Hs1 | exact Hs2]).
        eapply sound_trans; [exact Hs1|]. eapply sound_trans; [exact Hs2|]. apply (IH _ _ _ _ _ H).
    + (* TFromTo *)
      destruct nodes as [|n0 nt]; [inversion H; subst; apply sound_refl; discriminate|].
      destruct data as [|d0 dt]; [inversion H; subst; apply sound_refl; discriminate|].
      destruct (nth_error (n0 :: nt) start) as [c|]; [|inversion H; subst; apply sound_refl; discriminate].
      destruct (get_obs (cid c) (d0 :: dt) idx) as [obs|]; [|inversion H; subst; apply sound_refl; discriminate].
      destruct (verify_single c obs s) as [r1 s1] eqn:E1.
      destruct r1 as [[|]| | | |]; try (inversion H; subst).
      * eapply sound_trans; [apply (verify_single_sound _ _ _ _ _ E1); discriminate|]. apply (IH _ _ _ _ _ H).
      * apply (verify_single_sound _ _ _ _ _ E1). discriminate.
      * apply (verify_single_sound _ _ _ _ _ E1). discriminate.
      * apply verify_single_panic_state in E1. subst. apply sound_refl; discriminate.
      * apply (verify_single_sound _ _ _ _ _ E1). discriminate.
      * apply (verify_single_sound _ _ _ _ _ E1). discriminate.
Qed.

(* ---------- purity: the verdict does not depend on the activation store or on earlier calls -------- *)
Lemma verify_single_pure c obs s1 s2 : fst (verify_single c obs s1) = fst (verify_single c obs s2).
Proof. destruct c; cbn [verify_single]; auto. destruct (fn_verdict fk ctx obs); reflexivity. Qed.

Theorem run_pure fuel t data s1 s2 : fst (run fuel t data s1) = fst (run fuel t data s2).
Proof.
  revert t data s1 s2. induction fuel as [|f IH]; intros t data s1 s2; cbn [run]; [reflexivity|].
  destruct t as [c idx|items i|nodes edges stop idx cs|nodes edges start stop idx].
  - destruct c as [id cell fk ctx|id items|id nodes edges root]; [reflexivity| |].
    + destruct items; [reflexivity | apply IH].
    + destruct root as [rt|]; [|reflexivity].
      pose proof (IH (TFromTo nodes edges rt (length nodes) idx) data s1 s2) as E.
      destruct (run f (TFromTo nodes edges rt (length nodes) idx) data s1) as [r1 x1],
               (run f (TFromTo nodes edges rt (length nodes) idx) data s2) as [r2 x2]. cbn in E. subst.
      destruct r2; reflexivity.
  - destruct items as [|c rest]; [reflexivity|].
    assert (E : fst (if is_singleton c then match nth_error data i with Some obs => verify_single c obs s1 | None => (RPanic, s1) end
                     else run f (TVerifyAll c None) data s1)
              = fst (if is_singleton c then match nth_error data i with Some obs => verify_single c obs s2 | None => (RPanic, s2) end
                     else run f (TVerifyAll c None) data s2)).
    { destruct (is_singleton c); [destruct (nth_error data i); [apply verify_single_pure | reflexivity] | apply IH]. }
    destruct (if is_singleton c then match nth_error data i with Some obs => verify_single c obs s1 | None => (RPanic, s1) end
              else run f (TVerifyAll c None) data s1) as [r1 x1].
    destruct (if is_singleton c then match nth_error data i with Some obs => verify_single c obs s2 | None => (RPanic, s2) end
              else run f (TVerifyAll c None) data s2) as [r2 x2].
    cbn in E. subst. destruct r2 as [[|]| | | |]; try reflexivity. apply IH.
  - destruct cs as [|child rest]; [reflexivity|].
    destruct (nth_error nodes child) as [c|]; [|reflexivity].
    destruct (get_obs (cid c) data idx) as [obs|]; [|reflexivity].
    assert (E : fst (if is_singleton c then verify_single c obs s1 else run f (TVerifyAll c idx) data s1)
              = fst (if is_singleton c then verify_single c obs s2 else run f (TVerifyAll c idx) data s2)).
    { destruct (is_singleton c); [apply verify_single_pure | apply IH]. }
    destruct (if is_singleton c then verify_single c obs s1 else run f (TVerifyAll c idx) data s1) as [r1 x1].
    destruct (if is_singleton c then verify_single c obs s2 else run f (TVerifyAll c idx) data s2) as [r2 x2].
    cbn in E. subst. destruct r2 as [[|]| | | |]; try reflexivity.
    destruct (Nat.eqb child stop); [reflexivity|].
    pose proof (IH (TVisit nodes edges stop idx (succs edges child)) data x1 x2) as E2.
    destruct (run f (TVisit nodes edges stop idx (succs edges child)) data x1) as [r3 y1],
             (run f (TVisit nodes edges stop idx (succs edges child)) data x2) as [r4 y2]. cbn in E2. subst.
    destruct r4 as [[|]| | | |]; try reflexivity. apply IH.
  - destruct nodes as [|n0 nt]; [reflexivity|]. destruct data as [|d0 dt]; [reflexivity|].
    destruct (nth_error (n0 :: nt) start) as [c|]; [|reflexivity].
    destruct (get_obs (cid c) (d0 :: dt) idx) as [obs|]; [|reflexivity].
    pose proof (verify_single_pure c obs s1 s2) as E.
    destruct (verify_single c obs s1) as [r1 x1], (verify_single c obs s2) as [r2 x2]. cbn in E. subst.
    destruct r2 as [[|]| | | |]; try reflexivity. apply IH.
Qed.

(* repeating a call gives the same verdict *)
Corollary run_repeat fuel t data s :
  fst (run fuel t data (snd (run fuel t data s))) = fst (run fuel t data s).
Proof. apply run_pure. Qed.

(* ---------- nested = direct (C02a): by the shape of the code ------------------------------------- *)
Theorem nested_collection_is_direct f id c items idx data s :
  run (S f) (TVerifyAll (Coll id (c :: items)) idx) data s = run f (TColl (c :: items) 0) data s.
Proof. reflexivity. Qed.

Theorem nested_graph_is_direct f id nodes edges r idx data s :
  run (S f) (TVerifyAll (GraphC id nodes edges (Some r)) idx) data s
  = finish (run f (TFromTo nodes edges r (length nodes) idx) data s).
Proof.
  cbn [run]. destruct (run f (TFromTo nodes edges r (length nodes) idx) data s) as [r0 s0]. destruct r0; reflexivity.
Qed.

(* a contextual singleton is evaluated against exactly the context it was built with *)
Theorem contextual_uses_its_context id cell fk ctx obs s :
  ctx <> 0 ->
  exists s', verify_single (Single id cell fk ctx) obs s = (match fn_verdict fk ctx obs with VT => ROk true | VF => ROk false | VE => RErr end, s')
  /\ hd_error (log s') = Some (mkEntry cell (10 + ctx) obs (fn_verdict fk ctx obs)).
Proof.
  intros Hc. cbn [verify_single]. unfold tag_of. destruct ctx; [congruence|].
  destruct (fn_verdict fk (S ctx) obs); eexists; split; reflexivity.
Qed.
