(* Executable oracles applied to the implementation's output:
   C01: the verdict of graph reasoning against the conjunction over the reachable set, computed
        independently by a closure iteration (not by the traversal of the model);
   C10: the path evaluated by shortest-path reasoning, validated with C15's proved checker, and the
        verdict / evaluated set / activation it must then produce. *)
From Coq Require Import List Arith NArith ZArith Bool.
From DC Require Import Common.AList Graph.UltraGraph Graph.Spec Graph.ShortestPath Collections.Model Causal.Model Causal.Entry.
Import ListNotations.
Local Open Scope nat_scope.

Definition memn (x : nat) (l : list nat) : bool := existsb (Nat.eqb x) l.
Definition union (a b : list nat) : list nat := fold_left (fun acc x => if memn x acc then acc else acc ++ [x]) b a.

Fixpoint closure (k : nat) (edges : list ((nat * nat) * N)) (r : list nat) : list nat :=
  match k with O => r | S k' => closure k' edges (union r (flat_map (succs edges) r)) end.

Definition node_verdict (nodes : list causal) data idx (i : nat) : option verdict :=
  match nth_error nodes i with
  | Some (Single id _ fk ctx) => match get_obs id data idx with Some obs => Some (fn_verdict fk ctx obs) | None => None end
  | _ => None
  end.

(* allowed result codes for reasoning from [start]; [] = the property's premises do not hold (skip) *)
Definition c01_allowed (nodes : list causal) edges data idx (start : nat) : list Z :=
  match nodes, data with
  | [], _ => [(-1)%Z]
  | _, [] => [(-1)%Z]
  | _, _ =>
    if negb (start <? length nodes) then [(-1)%Z]
    else
      let rs := closure (length nodes) edges [start] in
      let vs := map (node_verdict nodes data idx) rs in
      if existsb (fun v => match v with None => true | _ => false end) vs then []
      else if existsb (fun v => match v with Some VE => true | _ => false end) vs then [(-1)%Z; 0%Z]
      else if existsb (fun v => match v with Some VF => true | _ => false end) vs then [0%Z]
      else [1%Z]
  end.

Fixpoint split_segs (fuel : nat) (l : list Z) : list (list Z) :=
  match fuel with
  | O => []
  | S f => match l with
           | [] => []
           | n :: rest => firstn (Z.to_nat n) rest :: split_segs f (skipn (Z.to_nat n) rest)
           end
  end.

Fixpoint decode_calls (fuel : nat) (l : list Z) : list call :=
  match fuel with
  | O => []
  | S f => match decode_call l with Some (c, rest) => c :: decode_calls f rest | None => [] end
  end.

Definition zmem (x : Z) (l : list Z) : bool := existsb (Z.eqb x) l.

Fixpoint c01_check_calls nodes edges root (cs : list call) (segs : list (list Z)) (i : Z) : list Z :=
  match cs, segs with
  | [], _ => [1%Z]
  | c :: ct, seg :: st =>
      let allowed :=
        if Z.eqb (ccode c) 0 then match root with Some r => c01_allowed nodes edges (cdata c) (cidx c) r | None => [(-1)%Z] end
        else if Z.eqb (ccode c) 1 then c01_allowed nodes edges (cdata c) (cidx c) (ca c)
        else [] in
      let r := nth 0 seg (-5)%Z in
      if (match allowed with [] => true | _ => zmem r allowed end)
      then c01_check_calls nodes edges root ct st (i + 1)%Z
      else [0%Z; i]
  | _ :: _, [] => [0%Z; i]
  end.

Definition c01_check_entry (l : list Z) : list Z :=
  match l with
  | nout :: rest =>
      let nin := (length rest - Z.to_nat nout)%nat in
      let inp := firstn nin rest in
      let out := skipn nin rest in
      match decode_tree FUEL inp with
      | Some (GraphC _ nodes edges root, calls) =>
          c01_check_calls nodes edges root (decode_calls (length calls) calls) (split_segs (length out) out) 0%Z
      | _ => [1%Z]
      end
  | _ => [0%Z]
  end.

(* ---- C10 ----------------------------------------------------------------------------------------
   call code 3: the harness appends, after the call's segment, the path the graph's shortest_path
   routine returned (-1 | len n1..). The checker validates that path (C15), recomputes the call on the
   model with that path and compares the whole segment (verdict, evaluated causaloids in order with
   their observations, activation of every causaloid). *)
(* the graph is built by inserting the edges in list order; an insertion of an edge that already exists is rejected and
   changes nothing (add_edge / add_edge_with_weight of the graph store, C08), so the FIRST occurrence of a pair decides its weight *)
Definition first_wins (edges : list ((nat * nat) * N)) : list ((nat * nat) * N) :=
  fold_left (fun acc e => if emem (fst e) acc then acc else acc ++ [e]) edges [].

Definition sgraph_of (nodes : list causal) (edges : list ((nat * nat) * N)) : sgraph :=
  mkSG (map (fun i => (i, 0%Z)) (seq 0 (length nodes))) (first_wins edges) None.

Fixpoint c10_check_calls (top : causal) (cs : list call) (out : list Z) (s : state) (i : Z) (fuel : nat) : list Z :=
  match fuel with
  | O => [1%Z]
  | S f =>
    match cs with
    | [] => [1%Z]
    | c :: ct =>
        match out with
        | [] => [0%Z; i]
        | n :: rest =>
            let seg := firstn (Z.to_nat n) rest in
            let after := skipn (Z.to_nat n) rest in
            if Z.eqb (ccode c) 3 then
              match top, after with
              | GraphC _ nodes edges _, p0 :: after1 =>
                  let '(sp, after2) :=
                     if (p0 <? 0)%Z then (None, after1)
                     else (Some (map Z.to_nat (firstn (Z.to_nat p0) after1)), skipn (Z.to_nat p0) after1) in
                  let pathok :=
                     if Nat.eqb (ca c) (cb c) then true
                     else if (ca c <? length nodes) && (cb c <? length nodes)
                          then check_answer (sgraph_of nodes edges) (ca c) (cb c) sp else true in
                  let '(r, s') := do_call top c sp s in
                  if pathok && zlist_eqb (n :: seg) (call_obs top r s')
                  then c10_check_calls top ct after2 s' (i + 1)%Z f
                  else [0%Z; i; zb pathok]
              | _, _ => [0%Z; i]
              end
            else
              let '(r, s') := do_call top c None s in
              if zlist_eqb (n :: seg) (call_obs top r s')
              then c10_check_calls top ct after s' (i + 1)%Z f
              else [0%Z; i]
        end
    end
  end.

Definition c10_check_entry (l : list Z) : list Z :=
  match l with
  | nout :: rest =>
      let nin := (length rest - Z.to_nat nout)%nat in
      let inp := firstn nin rest in
      let out := skipn nin rest in
      match decode_tree FUEL inp with
      | Some (top, calls) =>
          let cs := decode_calls (length calls) calls in
          c10_check_calls top cs out (mkState [] []) 0%Z (S (length cs))
      | None => [0%Z]
      end
  | _ => [0%Z]
  end.
