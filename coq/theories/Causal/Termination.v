(* C01, termination: on an ACYCLIC graph of singleton causaloids the traversal of reason_from_to_cause ends, and an
   explicit amount of fuel (= recursion depth of the model's evaluator) suffices: the theorem of Causal/GraphProofs.v
   ("for every run that does not exhaust its fuel") therefore applies to every acyclic graph.
   Acyclicity is given by a rank that strictly decreases along every edge. *)
From Coq Require Import List Arith NArith ZArith Bool Lia.
From DC Require Import Common.AList Graph.UltraGraph Graph.Refine Causal.Model Causal.GraphProofs.
Import ListNotations.

Section Termination.
  Variable nodes : list causal.
  Variable edges : list ((nat * nat) * N).
  Variable data : list Z.
  Variable idx : option (list (nat * nat)).
  Hypothesis nodes_ok : forall i, i < length nodes -> nv nodes data idx i <> None.
  Hypothesis edges_ok : forall a b, emem (a, b) edges = true -> b < length nodes.
  Variable rank : nat -> nat.
  Hypothesis acyclic : forall a b, emem (a, b) edges = true -> rank b < rank a.

  Let W := adj_bound edges.

  Lemma filter_len {A} (f : A -> bool) l : length (filter f l) <= length l.
  Proof. induction l as [|x l IH]; cbn; [lia|]. destruct (f x); cbn; lia. Qed.

  Lemma succs_length a : length (succs edges a) <= W.
  Proof. unfold succs. etransitivity; [apply filter_len|]. rewrite seq_length. reflexivity. Qed.

  Lemma visit_terminates stop k : forall cs fuel s,
    (forall c, In c cs -> c < length nodes /\ rank c < k) ->
    length cs + 1 + k * (W + 1) <= fuel ->
    fst (run fuel (TVisit nodes edges stop idx cs) data s) <> RFuel.
  Proof.
    induction k as [|k IHk].
    - intros [|c rest] fuel s Hcs Hf.
      + destruct fuel; [cbn in Hf; lia|]. cbn. discriminate.
      + destruct (Hcs c (or_introl eq_refl)). lia.
    - induction cs as [|child rest IHcs]; intros fuel s Hcs Hf.
      + destruct fuel; [cbn in Hf; lia|]. cbn. discriminate.
      + destruct fuel as [|f]; [cbn in Hf; lia|]. cbn [run].
        destruct (Hcs child (or_introl eq_refl)) as [Hc Hr].
        destruct (node_single nodes data idx nodes_ok child Hc) as (id & cell & fk & ctx & obs & En & Eo & Ev).
        rewrite En. cbn [cid]. rewrite Eo. cbn [is_singleton].
        pose proof (verify_single_res id cell fk ctx obs s) as Er.
        destruct (verify_single (Single id cell fk ctx) obs s) as [r1 s1]. cbn [fst] in Er. subst r1.
        destruct (fn_verdict fk ctx obs); cbn [fst]; try discriminate.
        destruct (Nat.eqb child stop); [cbn; discriminate|].
        assert (Hsub : fst (run f (TVisit nodes edges stop idx (succs edges child)) data s1) <> RFuel).
        { apply IHk.
          - intros c Hin. apply (succs_In edges) in Hin. split; [eapply edges_ok; eauto|]. specialize (acyclic _ _ Hin). lia.
          - pose proof (succs_length child). cbn [length] in Hf. lia. }
        destruct (run f (TVisit nodes edges stop idx (succs edges child)) data s1) as [r2 s2]. cbn [fst] in Hsub.
        destruct r2 as [[|]| | | |]; cbn [fst]; try discriminate; try congruence.
        apply IHcs; [intros c Hin; apply Hcs; right; exact Hin | cbn [length] in Hf; lia].
  Qed.

  (* reason_from_to_cause from any live start, with the stop index outside the graph: fuel 2 + W + rank(start) (W+1)
     is enough, W being the (matrix) width of the edge list *)
  Theorem from_to_terminates start stop s fuel :
    start < length nodes -> 2 + W + rank start * (W + 1) <= fuel ->
    fst (run fuel (TFromTo nodes edges start stop idx) data s) <> RFuel.
  Proof.
    intros Hstart Hf. destruct fuel as [|f]; [lia|]. cbn [run].
    destruct nodes as [|n0 nt] eqn:En; [cbn; discriminate|]. rewrite <- En in *.
    destruct data as [|d0 dt] eqn:Ed; [cbn; discriminate|]. rewrite <- Ed in *.
    destruct (node_single nodes data idx nodes_ok start Hstart) as (id & cell & fk & ctx & obs & Ens & Eo & Ev).
    rewrite Ens. cbn [cid]. rewrite Eo.
    pose proof (verify_single_res id cell fk ctx obs s) as Er.
    destruct (verify_single (Single id cell fk ctx) obs s) as [r1 s1]. cbn [fst] in Er. subst r1.
    destruct (fn_verdict fk ctx obs); cbn [fst]; try discriminate.
    apply (visit_terminates stop (rank start)).
    - intros c Hin. apply (succs_In edges) in Hin. split; [eapply edges_ok; eauto | apply acyclic; exact Hin].
    - pose proof (succs_length start). lia.
  Qed.

  (* the property without the fuel side condition: on an acyclic graph, with enough fuel, the verdict is the
     conjunction over the reachable causaloids *)
  Corollary acyclic_graph_verdict start s fuel :
    start < length nodes -> data <> [] -> 2 + W + rank start * (W + 1) <= fuel ->
    let r := fst (run fuel (TFromTo nodes edges start (length nodes) idx) data s) in
    (r = ROk true <-> forall v, reach edges start v -> nv nodes data idx v = Some VT) /\
    ((exists v, reach edges start v /\ nv nodes data idx v = Some VF) ->
     (forall v, reach edges start v -> nv nodes data idx v <> Some VE) -> r = ROk false) /\
    ((exists v, reach edges start v /\ nv nodes data idx v = Some VE) -> r = RErr \/ r = ROk false).
  Proof.
    intros Hstart Hdata Hf r.
    pose proof (from_to_terminates start (length nodes) s fuel Hstart Hf) as Ht.
    destruct (run fuel (TFromTo nodes edges start (length nodes) idx) data s) as [r' s'] eqn:E. subst r. cbn [fst] in *.
    eapply graph_verdict_is_conjunction; eauto.
  Qed.
End Termination.
