"""Extraction cross-check: a sample of the model evaluations of this run is re-evaluated INSIDE Coq (vm_compute on the Gallina
definitions, no extraction, no OCaml) and compared with what the extracted OCaml driver answered on the same input.
A difference means the extracted program does not compute the function the theorems are about."""
import os, re, subprocess, tempfile, time, shutil

VERIF = os.path.dirname(os.path.dirname(os.path.abspath(__file__)))
COQ = os.path.join(VERIF, "coq")
CACHE = os.path.join(VERIF, ".cache")

SAMPLE = []          # (line, driver answer)
PER_ENTRY = {}       # entry -> how many sampled
MAX_TOKENS = 260     # inputs longer than this are not re-evaluated in the kernel (time / stack)
MAX_PER_ENTRY = 6
MAX_TOTAL = 30


def offer(lines, outs):
    """called with every batch the driver evaluated; keeps a small deterministic sample (short inputs, spread over the batch)"""
    if len(SAMPLE) >= MAX_TOTAL: return
    n = len(lines)
    step = max(1, n // 8)
    for i in list(range(0, n, step)) + [n - 1]:
        if i < 0 or i >= n: continue
        ln = lines[i]; head = ln.split(" ", 1)[0]
        if PER_ENTRY.get(head, 0) >= MAX_PER_ENTRY or len(SAMPLE) >= MAX_TOTAL: continue
        if ln.count(" ") > MAX_TOKENS: continue
        if any(ln == s[0] for s in SAMPLE): continue
        PER_ENTRY[head] = PER_ENTRY.get(head, 0) + 1
        SAMPLE.append((ln, outs[i]))


def qualified_entries():
    src = open(os.path.join(COQ, "theories/Extract/Extract.v")).read()
    src = src[src.index("Extraction \"") if "Extraction \"" in src else 0:]
    q = {}
    for name in re.findall(r"\b([A-Za-z][\w.]*_entry)\b", src):
        if "." in name:
            q[name.rsplit(".", 1)[1]] = name
    return q


def crosscheck(timeout=300):
    """returns dict(cases, agree, seconds, entries, mismatch=None|{...}, error=None|str)"""
    t0 = time.time()
    res = {"cases": 0, "agree": 0, "entries": {}, "mismatch": None, "error": None}
    if not SAMPLE:
        res["seconds"] = 0.0; return res
    q = qualified_entries()
    todo = [(ln, out) for ln, out in SAMPLE if ln.split(" ", 1)[0] in q]
    mods = sorted({q[ln.split(" ", 1)[0]].rsplit(".", 1)[0] for ln, _ in todo})
    d = tempfile.mkdtemp(prefix="kernel-", dir=CACHE)
    try:
        with open(os.path.join(d, "cases.v"), "w") as f:
            f.write("From Coq Require Import ZArith List.\nImport ListNotations.\n")
            for m in mods: f.write(f"From DC Require {m}.\n")
            f.write("Open Scope Z_scope.\n")
            for ln, _ in todo:
                toks = ln.split()
                args = "; ".join(t if not t.startswith("-") else f"({t})" for t in toks[1:])
                f.write(f"Eval vm_compute in (DC.{q[toks[0]]} [{args}]).\n")
        try:
            p = subprocess.run(["coqc", "-noglob", "-Q", os.path.join(COQ, "theories"), "DC", "cases.v"], cwd=d, capture_output=True, text=True, timeout=timeout)
        except subprocess.TimeoutExpired:
            res["error"] = "coqc timed out"; res["seconds"] = round(time.time() - t0, 2); return res
        if p.returncode != 0:
            res["error"] = "coqc failed: " + (p.stderr or p.stdout)[-600:]; res["seconds"] = round(time.time() - t0, 2); return res
        blocks = re.findall(r"=\s*(\[.*?\])(?:\s*%Z)?\s*:\s*list Z", p.stdout, re.S)
        if len(blocks) != len(todo):
            res["error"] = f"could not parse coqc output ({len(blocks)} answers for {len(todo)} cases)"; res["seconds"] = round(time.time() - t0, 2); return res
        for (ln, out), b in zip(todo, blocks):
            kernel = [int(x) for x in re.findall(r"-?\d+", b.replace("%Z", ""))]
            try:
                drv = [int(x) for x in out.split()]
            except ValueError:
                drv = None
            head = ln.split(" ", 1)[0]
            res["cases"] += 1; res["entries"][head] = res["entries"].get(head, 0) + 1
            if drv == kernel:
                res["agree"] += 1
            elif res["mismatch"] is None:
                res["mismatch"] = {"input_line": ln, "extracted_ocaml_answer": out, "coq_vm_compute_answer": " ".join(map(str, kernel))}
    finally:
        shutil.rmtree(d, ignore_errors=True)
    res["seconds"] = round(time.time() - t0, 2)
    return res
