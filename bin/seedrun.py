#!/usr/bin/env python3
"""seedrun.py <seeded dir name> [check ids...]: apply /verif/seeded/<name>/patch.diff to /repo, run the quick checks (default: the
property the seed targets), undo, and record the outcome in meta.json under "rerun" (keeps the first run's record)."""
import json, os, subprocess, sys, time
name = sys.argv[1]; dst = f"/verif/seeded/{name}"
meta = json.load(open(f"{dst}/meta.json"))
checks = sys.argv[2:] or [meta["property"]]
assert subprocess.run("git status --porcelain", shell=True, cwd="/repo", capture_output=True, text=True).stdout.strip() == "", "/repo not clean"
ap = subprocess.run(["git", "-C", "/repo", "apply", f"{dst}/patch.diff"], capture_output=True, text=True)
assert ap.returncode == 0, ap.stderr
res = {}
try:
    for c in checks:
        t = time.time()
        p = subprocess.run(["python3", "bin/check.py", c, "--tier", "quick"], cwd="/verif", capture_output=True, text=True, timeout=3000)
        viol = [l for l in p.stdout.split("\n") if l.startswith("VIOLATION")]
        res[c] = {"exit": p.returncode, "violation_lines": viol[:3], "wall_s": round(time.time() - t, 1)}
        if viol:
            rp = viol[0].split("replay=")[1].split()[0]
            try:
                d = json.load(open(rp)); res[c]["first_replay"] = {k: d.get(k) for k in ("kind", "why", "what", "harness_line", "finding") if k in d}
            except Exception as ex: res[c]["first_replay"] = str(ex)
finally:
    subprocess.run("git checkout -- . && git clean -fdq", shell=True, cwd="/repo")
meta.setdefault("rerun", {}).update(res)
meta["detected_by_after_strengthening"] = sorted(set(meta.get("detected_by", [])) | {c for c, v in res.items() if v["exit"] != 0})
json.dump(meta, open(f"{dst}/meta.json", "w"), indent=1)
print(json.dumps(res, indent=1))
