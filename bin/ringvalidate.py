"""Trace validation: the extracted Coq model of the ring-buffer threads (Disruptor/Threads.v) must accept the logged trace."""
from vlib import driver_eval

_cache = {}
DRIVER_FAILURES = []     # lengths (events) of the traces the driver could not evaluate


def encode(tr):
    c = tr.cfg
    out = [c.n, int(c.multi), int(c.block), int(c.drain), len(c.stages)]
    for s in c.stages: out += [len(s)] + list(s)
    out += [len(c.writers)]
    for w in c.writers: out += [len(w)] + list(w)
    for e in tr.events:
        out += [e.tid, e.kind, e.cls, e.off, e.ord, e.ord2, e.a, e.b, e.obs, e.ok]
    return "ring_validate_entry " + " ".join(str(x) for x in out)


def validate_many(traces):
    """returns list: None (not applicable), True (accepted) or a message"""
    idx = [i for i, t in enumerate(traces) if t.outcome == 1 and t.cfg.drain == 1]
    res = [None] * len(traces)
    if not idx: return res
    try:
        outs = driver_eval([encode(traces[i]) for i in idx])
    except RuntimeError:
        # the driver died on one of the traces (a deep recursion in the extracted code on a very long trace): evaluate them one
        # by one; a trace the driver cannot take is "not applicable" (-2), counted in DRIVER_FAILURES and reported in the evidence
        outs = []
        for i in idx:
            try:
                outs.append(driver_eval([encode(traces[i])])[0])
            except RuntimeError:
                DRIVER_FAILURES.append(len(traces[i].events)); outs.append("-2")
    for i, o in zip(idx, outs):
        v = int(o.split()[0])
        if v == -1: res[i] = True
        elif v < -1: res[i] = None
        else:
            t = traces[i]
            res[i] = f"event #{v} is not the next operation of its thread's program: {t.events[v].brief()} (previous of that thread: " + \
                     "; ".join(e.brief() for e in [x for x in t.events[:v] if x.tid == t.events[v].tid][-3:]) + ")"
    return res


def validate(tr):
    return validate_many([tr])[0]


REPLAY_STATS = {"multi_pipeline_product_replays": 0}


def replay_many(traces):
    """replay every trace on the PROOF MODEL (single producer: Pipeline.v / pipe_replay_entry, multi producer: MultiPub.v /
    ring_replay_entry); works for aborted runs too (any prefix of an execution is an execution).
    returns list: True (accepted) or a message"""
    lines = [encode(t).replace("ring_validate_entry", "ring_replay_entry" if t.cfg.multi else "pipe_replay_entry", 1) for t in traces]
    try:
        outs = driver_eval(lines)
    except RuntimeError:
        outs = []
        for i, ln in enumerate(lines):
            try:
                outs.append(driver_eval([ln])[0])
            except RuntimeError:
                DRIVER_FAILURES.append(len(traces[i].events)); outs.append("-1")
    # multi-producer pipelines: the PRODUCT model as well (sequencer x handler stages, Disruptor/MultiPipe.v)
    midx = [i for i, t in enumerate(traces) if t.cfg.multi]
    mouts = {}
    if midx:
        mlines = [lines[i].replace("ring_replay_entry", "multipipe_replay_entry", 1) for i in midx]
        try:
            mo = driver_eval(mlines)
        except RuntimeError:
            mo = []
            for k, ln in enumerate(mlines):
                try:
                    mo.append(driver_eval([ln])[0])
                except RuntimeError:
                    DRIVER_FAILURES.append(len(traces[midx[k]].events)); mo.append("-1")
        mouts = {i: int(o.split()[0]) for i, o in zip(midx, mo)}
        REPLAY_STATS["multi_pipeline_product_replays"] += len(midx)
    res = []
    for ti, (t, o) in enumerate(zip(traces, outs)):
        v = int(o.split()[0])
        if v < 0 and mouts.get(ti, -1) >= 0:
            v = mouts[ti]
            res.append(f"event #{v} is not an enabled step of the product model Disruptor/MultiPipe.v (multi-producer sequencer x handler stages) in the state the replay had reached: "
                       f"{t.events[v].brief()} (previous of that thread: " + "; ".join(e.brief() for e in [x for x in t.events[:v] if x.tid == t.events[v].tid][-3:]) + ")")
        elif v < 0:
            res.append(True)
        else:
            model = "Disruptor/MultiPub.v" if t.cfg.multi else "Disruptor/Pipeline.v"
            res.append(f"event #{v} is not an enabled step of {model} in the state the replay had reached (or an observed value differs from the model's): "
                       f"{t.events[v].brief()} (previous of that thread: " + "; ".join(e.brief() for e in [x for x in t.events[:v] if x.tid == t.events[v].tid][-3:]) + ")")
    return res


LIVE_STATS = {"replayed": 0, "outside_class": 0, "finished_and_complete": 0, "potential_left_max": 0}


def live_replay_many(traces):
    """drained single-producer pipelines: replay on the TERMINATION model (Disruptor/Liveness.v through live_replay_entry).
    returns list: None (outside the theorem's class), True, or (message, semantic) where semantic means: the rejected event is the
    alert store or a handler thread's end, i.e. drain returned / a handler left although the model says work is outstanding"""
    idx = [i for i, t in enumerate(traces) if not t.cfg.multi and t.cfg.drain]
    lines = [encode(traces[i]).replace("ring_validate_entry", "live_replay_entry", 1) for i in idx]
    res = [None] * len(traces)
    if not lines: return res
    try:
        outs = driver_eval(lines)
    except RuntimeError:
        outs = []
        for k, ln in enumerate(lines):
            try:
                outs.append(driver_eval([ln])[0])
            except RuntimeError:
                DRIVER_FAILURES.append(len(traces[idx[k]].events)); outs.append("-2")
    for i, o in zip(idx, outs):
        t = traces[i]; f = [int(x) for x in o.split()]
        if f[0] == -2 or f[0] == -3:
            LIVE_STATS["outside_class"] += 1; continue
        LIVE_STATS["replayed"] += 1
        if f[0] >= 0:
            e = t.events[f[0]]
            semantic = e.kind in (8, 21)          # BSTORE (alert) / TEND
            res[i] = (f"event #{f[0]} is not an enabled step of the termination model Disruptor/Liveness.v in the state the replay had reached: {e.brief()}"
                      + (" - the alert was raised (drain returned) although, in the model state, not every write call is done or the last stage has not caught up with the cursor" if e.kind == 8 else "")
                      + (" - a handler thread ended before the alert or in the middle of a batch" if e.kind == 21 else ""), semantic)
            continue
        LIVE_STATS["potential_left_max"] = max(LIVE_STATS["potential_left_max"], f[2])
        if t.outcome == 1:
            if f[1] != 1:
                res[i] = ("the implementation finished (all threads ended) but the state the termination model reached on the same execution is not its COMPLETE state "
                          f"(remaining potential {f[2]}): some handler has not returned from everything published, or has not exited", True)
                continue
            LIVE_STATS["finished_and_complete"] += 1
        res[i] = True
    return res
