#!/bin/sh
# setup_cmd: build the Coq development (full .vo build), the extracted OCaml driver and the Rust
# harnesses, offline, from files on disk only.
set -e
cd "$(dirname "$0")/.."
export CARGO_NET_OFFLINE=true
cd coq
coq_makefile -f _CoqProject -o Makefile
timeout 3000 make -j16
cd ..
python3 bin/setup.py
