"""Parsing of causal cases / outputs and the relational oracles (C02, C11, C12) on the implementation's output."""
import struct


def parse_tree(a, p=0):
    """-> (node, next_pos); node = dict(kind, id, kids, pre (preorder position filled later))"""
    k = a[p]
    if k == 0:
        return {"kind": 0, "id": a[p + 1], "cell": a[p + 2], "fk": a[p + 3], "ctx": a[p + 4], "kids": []}, p + 5
    if k == 1:
        n = a[p + 2]; q = p + 3; kids = []
        for _ in range(n):
            c, q = parse_tree(a, q); kids.append(c)
        return {"kind": 1, "id": a[p + 1], "kids": kids}, q
    n = a[p + 2]; q = p + 3; kids = []
    for _ in range(n):
        c, q = parse_tree(a, q); kids.append(c)
    m = a[q]; q += 1
    edges = [(a[q + 3 * i], a[q + 3 * i + 1], a[q + 3 * i + 2]) for i in range(m)]; q += 3 * m
    root = a[q] % 1000 if a[q] >= 0 else a[q]; q += 1      # r + 1000 * (1 + r0): node r0 was added as a root earlier; the last one decides
    return {"kind": 2, "id": a[p + 1], "kids": kids, "edges": edges, "root": root}, q


def number(node, counter=None):
    if counter is None: counter = [0]
    node["pre"] = counter[0]; counter[0] += 1
    for k in node["kids"]: number(k, counter)
    return counter[0]


def parse_calls(a, p):
    calls = []
    while p < len(a):
        code, x, y, use, nidx = a[p:p + 5]; p += 5
        idx = [(a[p + 2 * i], a[p + 2 * i + 1]) for i in range(nidx)]; p += 2 * nidx
        nd = a[p]; p += 1
        data = a[p:p + nd]; p += nd
        calls.append({"code": code, "a": x, "b": y, "idx": idx if use else None, "data": data})
    return calls


def split_out(tokens, calls):
    """per call: dict(res, log [(tag, obs)], flags, aggs, path)"""
    out = []; p = 0
    for c in calls:
        if p >= len(tokens): return None
        n = tokens[p]; seg = tokens[p + 1:p + 1 + n]; p += 1 + n
        if len(seg) < 2: return None
        res, nlog = seg[0], seg[1]
        log = [(seg[2 + 2 * i], seg[3 + 2 * i]) for i in range(nlog)]
        q = 2 + 2 * nlog
        nf = seg[q]; flags = seg[q + 1:q + 1 + nf]; aggs = seg[q + 1 + nf:]
        path = None
        if c["code"] == 3:
            if p < len(tokens):
                if tokens[p] < 0: path = []; p += 1
                else: path = tokens[p + 1:p + 1 + tokens[p]]; p += 1 + tokens[p]
        out.append({"res": res, "log": log, "flags": flags, "aggs": aggs, "path": path})
    return out


def tag_verdict(tag, obs):
    code = obs % 10
    if code == 2: return "E"
    if tag == 0: return "T" if code == 1 else "F"
    if tag == 1: return "T" if code == 0 else "F"
    return "T" if code + 1 == tag - 10 else "F"


def fbits(x):
    return struct.unpack("<Q", struct.pack("<d", x))[0]


def oracle_trace(seg):
    """C02(b): the verdict is the conjunction of the evaluated singleton verdicts, stopping at the first false"""
    vs = [tag_verdict(t, o) for (t, o) in seg["log"]]
    if seg["res"] == 1 and any(v != "T" for v in vs): return "result true but a non-true verdict was evaluated: " + "".join(vs)
    if seg["res"] == 0 and (not vs or vs[-1] != "F" or any(v != "T" for v in vs[:-1])): return "result false but the trace is not T..TF: " + "".join(vs)
    if seg["res"] == -1 and vs and (any(v != "T" for v in vs[:-1]) or vs[-1] == "F"): return "result error but the trace is not T..T[E]: " + "".join(vs)
    return None


def oracle_recount(top, seg):
    """C11: wrappers active iff a member is; aggregates are recounts over the members"""
    flags = seg["flags"]
    def walk(n):
        if n["kind"] != 0:
            exp = 1 if any(flags[k["pre"]] for k in n["kids"]) else 0
            if flags[n["pre"]] != exp: return f"wrapper id {n['id']} active={flags[n['pre']]} but members {[flags[k['pre']] for k in n['kids']]}"
        for k in n["kids"]:
            r = walk(k)
            if r: return r
        return None
    r = walk(top)
    if r: return r
    if top["kind"] == 0: return None
    mem = [flags[k["pre"]] for k in top["kids"]]
    cnt = sum(mem); n = len(mem)
    a = seg["aggs"]
    if len(a) < 3: return "aggregates missing"
    if a[0] != (1 if cnt == n else 0): return f"all_active={a[0]} but {cnt}/{n} members active"
    if a[1] != fbits(float(cnt)): return f"number_active bits {a[1]} != {cnt}"
    if n > 0 and a[2] != fbits(cnt / n * 100.0): return f"percent_active bits {a[2]} != {cnt}/{n}*100"
    if top["kind"] == 1:
        ids = [k["id"] for k in top["kids"]]
        act = [i for i, f in zip(ids, mem) if f]; ina = [i for i, f in zip(ids, mem) if not f]
        exp = [len(act)] + act + [len(ina)] + ina
        if a[3:] != exp: return f"active/inactive filters {a[3:]} != {exp}"
    return None
