"""Generators for causal models (trees of singletons / collections / acyclic graphs) and reasoning calls.
Coding as in coq/theories/Causal/Entry.v."""


class Gen:
    def __init__(self, rng, max_ids=14):
        self.rng = rng
        self.ids = list(range(max_ids)); rng.shuffle(self.ids)
        self.next_cell = 0
        self.singles = []        # (id, fk, ctx)
        self.n_nodes = 0

    def new_id(self):
        return self.ids.pop() if self.ids else self.rng.randrange(0, 14)

    def single(self, allow_ctx=True):
        r = self.rng
        cid = self.new_id(); cell = self.next_cell; self.next_cell += 1
        fk = r.choice([0, 0, 0, 1]); ctx = r.choice([1, 2]) if (allow_ctx and r.random() < 0.15) else 0
        self.singles.append((cid, fk, ctx)); self.n_nodes += 1
        return [0, cid, cell, fk, ctx]

    def dag(self, n, p_edge, weighted=False):
        r = self.rng
        perm = list(range(n)); r.shuffle(perm)          # topological position -> node index
        em = {}
        for i in range(n):
            for j in range(i + 1, n):
                if r.random() < p_edge:
                    w = r.choice([0, 0, 1, 1, 2, 3, 5]) if weighted else 0
                    em[(perm[i], perm[j])] = w
        self.detour = None
        if weighted and n >= 4 and r.random() < 0.6:
            # a cheap many-hop chain next to a heavier shortcut: the minimum-weight path is not the one with fewest edges
            k = r.randrange(4, min(n, 6) + 1)
            pos = sorted(r.sample(range(n), k))
            cheap = r.choice([0, 0, 0, 1])
            for x, y in zip(pos, pos[1:]):
                em[(perm[x], perm[y])] = cheap
            em[(perm[pos[0]], perm[pos[-1]])] = cheap * (k - 1) + r.randrange(1, 4)
            self.detour = (perm[pos[0]], perm[pos[-1]])
        edges = [(a, b, w) for (a, b), w in em.items()]
        r.shuffle(edges)
        self.dup_edges = 0
        if weighted and edges and r.random() < 0.4:
            # a second insertion of an existing edge with ANOTHER weight: it must be rejected and must not re-weight the edge
            for (a, b, w) in r.sample(edges, min(len(edges), r.choice([1, 1, 2]))):
                w2 = r.choice([x for x in (1, 2, 3, 5, 9) if x != w])
                edges.append((a, b, w2)); self.dup_edges += 1
        if not weighted and edges and r.random() < 0.25:
            # a second insertion of an existing edge: it must be refused and must leave the edge in place
            for (a, b, w) in r.sample(edges, min(len(edges), r.choice([1, 1, 2]))):
                edges.append((a, b, 0)); self.dup_edges += 1
        return edges, perm

    def tree(self, depth, kind=None, singles_only=False, weighted=False, budget=12, nmax=None):
        r = self.rng
        if kind is None:
            kind = 0 if (depth <= 0 or self.n_nodes >= budget) else r.choices([0, 1, 2], [5, 2, 2])[0]
        if kind == 0:
            return self.single()
        wid = self.new_id(); self.n_nodes += 1
        if kind == 1:
            n = r.randrange(1, 5)
            out = [1, wid, n]
            for _ in range(n):
                out += self.tree(depth - 1, 0 if singles_only else None, budget=budget)
            return out
        n = r.randrange(1, (nmax + 1) if nmax else (7 if depth >= 1 else 5))
        edges, perm = self.dag(n, r.choice([0.25, 0.4, 0.6]), weighted)
        root = perm[0] if r.random() < 0.85 else r.randrange(0, n)
        if r.random() < 0.04: root = -1
        out = [2, wid, n]
        for i in range(n):
            # the root (start of reasoning) must be a singleton; other nodes may be nested
            if i == root or singles_only or depth <= 1:
                out += self.single()
            else:
                out += self.tree(depth - 1, None, budget=budget)
        out += [len(edges)]
        for (a, b, w) in edges: out += [a, b, w]
        enc = root
        if root > 0 and r.random() < 0.3:
            # re-rooting: an earlier node was added with add_root_causaloid too; the LAST root decides where reasoning starts
            enc = root + 1000 * (1 + r.randrange(0, root))
            self.rerooted = getattr(self, "rerooted", 0) + 1
        out += [enc]
        self.last_graph = (n, edges, root)
        return out


def data_for(rng, gen, length, p_true=0.8, p_err=0.05):
    """observations: value = 10*slot + code; codes aimed so that most verdicts are true"""
    data = []
    want = {}
    for (cid, fk, ctx) in gen.singles:
        want[cid] = (fk, ctx)
    for slot in range(length):
        r = rng.random()
        fk, ctx = want.get(slot, (0, 0))
        if r < p_err: code = 2
        elif r < p_err + p_true:
            code = (ctx - 1) if ctx else (1 if fk == 0 else 0)       # the value that makes this causaloid true (id routing)
        else:
            code = rng.choice([0, 1])
        data.append(10 * slot + code)
    return data


def call(code, a, b, idx, data):
    out = [code, a, b, 1 if idx is not None else 0, len(idx) if idx else 0]
    if idx:
        for k, v in idx: out += [k, v]
    out += [len(data)] + list(data)
    return out
