#!/usr/bin/env python3
"""Regenerates /verif/MANIFEST.json from the table below."""
import json, os
VERIF = os.path.dirname(os.path.dirname(os.path.abspath(__file__)))

LEVEL_NOTE_COMMON = ("Trusted: Coq 8.16.1 kernel; hand-written Gallina model of the anchored code, tied to /repo by the "
                     "correspondence check of each run (Rust harness vs extracted OCaml model on the same inputs); "
                     "extraction (ExtrOcamlBasic only), OCaml driver, Python generators/comparison. ")

CHECKS = {
    "C19": dict(
        text="Theorems (Coq, all capacities 2^k, all histories, all sequence numbers): the bit map refines a set of residues "
             "(last addressed op decides, frame, commutation of distinct residues, every word access in bounds). "
             "Model tied to bit_map.rs by differential runs (exhaustive residue pairs for small capacities + random histories).",
        note=LEVEL_NOTE_COMMON + "Axioms: none (Closed under the global context). Atomic RMWs modelled as whole-word updates; "
             "concurrency enters only through the commutation theorem.",
        technique="Coq proof (refinement to residue set by induction over histories) + model/implementation differential correspondence",
        design="§7 C19"),
    "C07": dict(
        text="Theorems (Coq, every SIZE>=1, every CAPACITY>SIZE incl. CAPACITY=SIZE+1 and <2*SIZE, every push history): ArrayStorage, "
             "UnsafeArrayStorage and UnsafeVectorStorage simulate the abstract window lastn N h, so filled/empty/first/last/slice/vec/arr equal the spec "
             "after every push and the back-ends agree; UnsafeVectorStorage's copy_nonoverlapping never overlaps for multiple>=2. Safe VectorStorage: proved up to the "
             "capacity, refuted beyond (known finding D6). Model tied to the four storages by differential runs after every push (release, unsafe release, unsafe debug builds).",
        note=LEVEL_NOTE_COMMON + "Axioms: none. copy_within/ptr::copy modelled as list memmove; the 16-byte chunk loop of the unsafe array as one memmove "
             "(exercised with 1/2/4/8/12/16-byte element types). VectorStorage beyond capacity is a listed known finding (test-pinned defect).",
        technique="Coq proof (simulation relation to lastn N h, induction over push histories) + model/implementation differential correspondence",
        design="§7 C07"),
}

ALL = [f"C{n:02d}" for n in range(1, 20)]
PENDING_REASON = "check not built yet in this round (work in progress; DESIGN.md §7 describes the planned model and theorems)"


def main():
    checks = []
    for pid in ALL:
        if pid not in CHECKS:
            continue
        c = CHECKS[pid]
        checks.append({
            "property_id": pid,
            "quick_cmd": f"python3 bin/check.py {pid} --tier quick",
            "thorough_cmd": f"python3 bin/check.py {pid} --tier thorough",
            "evidence_file": f"/verif/evidence/{pid}.json",
            "replay_cmd_template": f"python3 bin/check.py {pid} --replay {{path}}",
            "engine": "coq-proof+correspondence",
            "level_claimed": {"category": "proof", "text": c["text"], "design_ref": c["design"]},
            "level_note": c["note"],
            "technique": c["technique"],
        })
    m = {
        "version": 1,
        "setup_cmd": "sh bin/setup.sh",
        "hooks": {
            "guard": "deepcausality_rs_deep_causality_verif",
            "enable": "RUSTFLAGS=\"--cfg deepcausality_rs_deep_causality_verif\" cargo build --offline (harness/ring depends on /repo/dcl_data_structures by path)",
            "baseline_off_cmd": "cd /repo && cargo test --workspace --no-fail-fast --offline",
            "source_commits": HOOK_COMMITS,
            "add_only": True,
        },
        "engines": [{
            "name": "coq-proof+correspondence", "path": "/verif/bin/check.py",
            "serves_properties": [c["property_id"] for c in checks],
            "kind_free_text": "Coq 8.16.1 theorems over hand-written executable Gallina models; models extracted to OCaml and run against a Rust harness built from /repo's working tree on the same generated inputs (differential correspondence); executable specs as property oracles",
        }],
        "checks": checks,
        "notes": "See DESIGN.md. known_findings.json lists genuine defects (open findings are printed as KNOWN-FINDING) and fixed ones.",
        "not_applicable": [{"property_id": p, "reason": NA.get(p, PENDING_REASON)} for p in ALL if p not in CHECKS],
    }
    with open(os.path.join(VERIF, "MANIFEST.json"), "w") as f:
        json.dump(m, f, indent=1)
    print("claimed:", [c["property_id"] for c in checks])


HOOK_COMMITS = []
NA = {}

if __name__ == "__main__":
    main()
